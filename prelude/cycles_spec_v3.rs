// ---------------------------------------------------------------------------------------------
// Cycle detection (resolver.rs compute_fixture_cycles): spec library.  Everything here is DEFINED or PROVED;
// the assumed std specifications are in prelude/cycles_std.rs.  Needs types.rs, dbview.rs, cycles_std.rs.

// ---- the name graph G of the property: n -> d  iff  the FIRST registered definition of n requests d and d
// is a known fixture name
pub open spec fn edge(defs: Map<Seq<char>, Seq<DefV>>, n: Seq<char>, d: Seq<char>) -> bool {
    defs.contains_key(n) && defs[n].len() > 0 && defs[n][0].dependencies.contains(d) && defs.contains_key(d)
}
/// every consecutive pair of p is an edge of G
#[verifier::opaque]
pub open spec fn is_chain(defs: Map<Seq<char>, Seq<DefV>>, p: Seq<Seq<char>>) -> bool {
    forall|i: int| 0 <= i && i + 1 < p.len() ==> edge(defs, #[trigger] p[i], p[i + 1])
}
/// a real closed dependency chain: at least one edge, first == last, every consecutive pair an edge of G
pub open spec fn is_closed_chain(defs: Map<Seq<char>, Seq<DefV>>, p: Seq<Seq<char>>) -> bool {
    p.len() >= 2 && p[0] == p.last() && is_chain(defs, p)
}
/// what one reported FixtureCycle is: a closed chain of G, attached to the first definition of its last (== first) name
pub open spec fn cycle_ok(defs: Map<Seq<char>, Seq<DefV>>, c: CycV) -> bool {
    is_closed_chain(defs, c.path) && defs.contains_key(c.path.last()) && defs[c.path.last()].len() > 0
    && c.fixture == defs[c.path.last()][0]
}
#[verifier::opaque]
pub open spec fn cycles_ok(defs: Map<Seq<char>, Seq<DefV>>, cs: Seq<FixtureCycle>) -> bool {
    forall|k: int| 0 <= k < cs.len() ==> cycle_ok(defs, cyv(&#[trigger] cs[k]))
}
/// the de-duplication key of a reported path: names without the repeated last one, sorted, joined with ","
pub open spec fn cyc_key(p: Seq<Seq<char>>) -> Seq<char> { joined_names(sorted_names(p.drop_last().to_multiset()), ","@) }
/// every reported cycle's key is in `seen`, and no two reported cycles have the same key
#[verifier::opaque]
pub open spec fn keys_ok(cs: Seq<FixtureCycle>, seen: Set<Seq<char>>) -> bool {
    &&& forall|k: int| 0 <= k < cs.len() ==> seen.contains(cyc_key(cyv(&#[trigger] cs[k]).path))
    &&& forall|i: int, j: int| 0 <= i < j < cs.len() ==> cyc_key(cyv(&#[trigger] cs[i]).path) != cyc_key(cyv(&#[trigger] cs[j]).path)
}

// ---- the two local tables of compute_fixture_cycles
pub open spec fn dg_view(m: Map<Seq<char>, Vec<String>>) -> Map<Seq<char>, Seq<Seq<char>>> { m.map_values(|v: Vec<String>| strs_v(v@)) }
/// every adjacency entry of the local dependency table is an edge of G
#[verifier::opaque]
pub open spec fn graph_ok(g: Map<Seq<char>, Seq<Seq<char>>>, defs: Map<Seq<char>, Seq<DefV>>) -> bool {
    forall|n: Seq<char>, j: int| g.contains_key(n) && 0 <= j < g[n].len() ==> edge(defs, n, #[trigger] g[n][j])
}
/// the local name -> definition table holds first definitions only
#[verifier::opaque]
pub open spec fn fdefs_ok(fd: Map<Seq<char>, FixtureDefinition>, defs: Map<Seq<char>, Seq<DefV>>) -> bool {
    forall|n: Seq<char>| #[trigger] fd.contains_key(n) ==> defs.contains_key(n) && defs[n].len() > 0 && dv(&fd[n]) == defs[n][0]
}

// ---- the explicit DFS stack, seen through a representation-independent view.  The real entry type is
// (name, next dependency index, path to here); the two-component instance is the variant WITHOUT a per-entry
// path (a refactoring to one shared path vector): nothing is known about a path it does not carry, so such a
// variant is judged by the verifier (its shared path has to satisfy what the entries' paths satisfy here)
// instead of being rejected as a type error of the contract.
pub struct EntV { pub node: Seq<char>, pub idx: int, pub path: Seq<Seq<char>> }
pub trait DfsEntry { spec fn ev(&self) -> EntV; }
impl DfsEntry for (String, usize, Vec<String>) {
    open spec fn ev(&self) -> EntV { EntV { node: self.0@, idx: self.1 as int, path: strs_v(self.2@) } }
}
impl DfsEntry for (String, usize) {
    open spec fn ev(&self) -> EntV { EntV { node: self.0@, idx: self.1 as int, path: Seq::empty() } }
}
pub open spec fn evs<E: DfsEntry>(s: Seq<E>) -> Seq<EntV> { s.map_values(|e: E| e.ev()) }

/// an entry: its path is a chain of G; once the node has been entered (idx > 0) the path ends at the node
pub open spec fn ent_ok(defs: Map<Seq<char>, Seq<DefV>>, e: EntV) -> bool {
    e.idx >= 0 && is_chain(defs, e.path) && (e.idx > 0 ==> e.path.len() > 0 && e.path.last() == e.node)
}
/// how entry k hangs below entry k-1: a not yet entered node (idx 0) carries its parent's path and is a dependency
/// of the parent; an entered node's path is the parent's path plus the node
pub open spec fn link_ok(defs: Map<Seq<char>, Seq<DefV>>, sv: Seq<EntV>, k: int) -> bool {
    let e = sv[k];
    if k == 0 {
        if e.idx == 0 { e.path == Seq::<Seq<char>>::empty() } else { e.path == seq![e.node] }
    } else {
        let p = sv[k - 1];
        if e.idx == 0 { e.path == p.path && edge(defs, p.node, e.node) } else { e.path == p.path.push(e.node) }
    }
}
/// the loop invariant of the explicit-stack DFS
#[verifier::opaque]
pub open spec fn dfs_inv(defs: Map<Seq<char>, Seq<DefV>>, sv: Seq<EntV>, rec: Set<Seq<char>>, vis: Set<Seq<char>>) -> bool {
    // only the top entry may be a node that has not been entered yet
    &&& forall|k: int| 0 <= k < sv.len() - 1 ==> (#[trigger] sv[k]).idx > 0
    &&& forall|k: int| 0 <= k < sv.len() ==> ent_ok(defs, #[trigger] sv[k])
    &&& forall|k: int| 0 <= k < sv.len() ==> #[trigger] link_ok(defs, sv, k)
    // the recursion set holds only nodes of the current path
    &&& sv.len() > 0 ==> (forall|x: Seq<char>| rec.contains(x) ==> sv.last().path.contains(x))
    // a node is pushed for exploration only if it is neither on the recursion stack nor finished
    &&& (sv.len() > 0 && sv.last().idx == 0) ==> !rec.contains(sv.last().node) && !vis.contains(sv.last().node)
}
/// path / recursion set after the "first visit" block of the loop body
pub open spec fn cur_path(e: EntV) -> Seq<Seq<char>> { if e.idx == 0 { e.path.push(e.node) } else { e.path } }
pub open spec fn cur_rec(e: EntV, rec: Set<Seq<char>>) -> Set<Seq<char>> { if e.idx == 0 { rec.insert(e.node) } else { rec } }
/// the stack after the `idx < deps.len()` branch
pub open spec fn next_sv(sv: Seq<EntV>, dep: Seq<char>, explore: bool) -> Seq<EntV> {
    let e = sv.last();
    let a = sv.drop_last().push(EntV { node: e.node, idx: e.idx + 1, path: cur_path(e) });
    if explore { a.push(EntV { node: dep, idx: 0, path: cur_path(e) }) } else { a }
}

pub proof fn lemma_chain_push(defs: Map<Seq<char>, Seq<DefV>>, p: Seq<Seq<char>>, x: Seq<char>)
    requires is_chain(defs, p), p.len() > 0 ==> edge(defs, p.last(), x),
    ensures is_chain(defs, p.push(x)),
{
    reveal(is_chain);
    let q = p.push(x);
    assert forall|i: int| 0 <= i && i + 1 < q.len() implies edge(defs, #[trigger] q[i], q[i + 1]) by {
        if i + 1 < p.len() { assert(q[i] == p[i] && q[i + 1] == p[i + 1]); } else { assert(q[i] == p.last() && q[i + 1] == x); }
    }
}
pub proof fn lemma_chain_suffix(defs: Map<Seq<char>, Seq<DefV>>, p: Seq<Seq<char>>, i: int)
    requires is_chain(defs, p), 0 <= i <= p.len(),
    ensures is_chain(defs, p.subrange(i, p.len() as int)),
{
    reveal(is_chain);
    let q = p.subrange(i, p.len() as int);
    assert forall|j: int| 0 <= j && j + 1 < q.len() implies edge(defs, #[trigger] q[j], q[j + 1]) by {
        assert(q[j] == p[i + j] && q[j + 1] == p[i + j + 1]);
    }
}
/// the state after the "first visit" block
pub proof fn lemma_mid(defs: Map<Seq<char>, Seq<DefV>>, sv: Seq<EntV>, rec: Set<Seq<char>>, vis: Set<Seq<char>>)
    requires dfs_inv(defs, sv, rec, vis), sv.len() > 0,
    ensures ({
        let e = sv.last();
        &&& e.idx >= 0
        &&& e.idx == 0 ==> !rec.contains(e.node) && !vis.contains(e.node)
        &&& is_chain(defs, e.path) && is_chain(defs, cur_path(e)) && cur_path(e).len() > 0 && cur_path(e).last() == e.node
        &&& forall|x: Seq<char>| rec.contains(x) ==> e.path.contains(x)
        &&& forall|x: Seq<char>| cur_rec(e, rec).contains(x) ==> cur_path(e).contains(x)
    }),
{
    reveal(dfs_inv);
    let k = sv.len() - 1;
    let e = sv.last();
    assert(e == sv[k]);
    assert(ent_ok(defs, sv[k]));
    assert(link_ok(defs, sv, k));
    if e.idx == 0 {
        if k > 0 {
            let p = sv[k - 1];
            assert(p.idx > 0);
            assert(ent_ok(defs, sv[k - 1]));
        }
        lemma_chain_push(defs, e.path, e.node);
        let cp = e.path.push(e.node);
        assert forall|x: Seq<char>| cur_rec(e, rec).contains(x) implies cur_path(e).contains(x) by {
            if x == e.node { assert(cp[cp.len() - 1] == x); } else {
                let i = choose|i: int| 0 <= i < e.path.len() && e.path[i] == x;
                assert(cp[i] == x);
            }
        }
    }
}
/// leaving a node (no adjacency entry, or all dependencies done): pop, take the node off the recursion set
pub proof fn lemma_step_pop(defs: Map<Seq<char>, Seq<DefV>>, sv: Seq<EntV>, rec: Set<Seq<char>>, vis: Set<Seq<char>>, vis2: Set<Seq<char>>)
    requires dfs_inv(defs, sv, rec, vis), sv.len() > 0,
    ensures dfs_inv(defs, sv.drop_last(), cur_rec(sv.last(), rec).remove(sv.last().node), vis2),
{
    reveal(dfs_inv);
    let e = sv.last();
    let s1 = sv.drop_last();
    let rec2 = cur_rec(e, rec).remove(e.node);
    let n = sv.len() - 1;
    assert forall|k: int| 0 <= k < s1.len() implies ent_ok(defs, #[trigger] s1[k]) by { assert(s1[k] == sv[k]); }
    assert forall|k: int| 0 <= k < s1.len() implies #[trigger] link_ok(defs, s1, k) by {
        assert(link_ok(defs, sv, k));
        assert(s1[k] == sv[k]);
        if k > 0 { assert(s1[k - 1] == sv[k - 1]); }
    }
    assert forall|k: int| 0 <= k < s1.len() - 1 implies (#[trigger] s1[k]).idx > 0 by { assert(s1[k] == sv[k]); }
    if s1.len() > 0 {
        let p = s1.last();
        assert(p == sv[n - 1]);
        assert(p.idx > 0);
        assert(link_ok(defs, sv, n));
        assert(e == sv[n]);
        assert forall|x: Seq<char>| rec2.contains(x) implies p.path.contains(x) by {
            assert(rec.contains(x) && x != e.node);
            let i = choose|i: int| 0 <= i < e.path.len() && e.path[i] == x;
            if e.idx == 0 { assert(p.path[i] == x); } else {
                assert(ent_ok(defs, sv[n]));
                assert(e.path == p.path.push(e.node));
                assert(i < p.path.len());
                assert(p.path[i] == x);
            }
        }
    }
}
/// looking at dependency number idx: the node goes back with idx + 1; the dependency is pushed for exploration
/// iff it is neither on the recursion set nor finished
pub proof fn lemma_step_dep(defs: Map<Seq<char>, Seq<DefV>>, g: Map<Seq<char>, Seq<Seq<char>>>, sv: Seq<EntV>, rec: Set<Seq<char>>, vis: Set<Seq<char>>, explore: bool)
    requires dfs_inv(defs, sv, rec, vis), sv.len() > 0, graph_ok(g, defs),
        g.contains_key(sv.last().node), 0 <= sv.last().idx < g[sv.last().node].len(),
        explore ==> !cur_rec(sv.last(), rec).contains(g[sv.last().node][sv.last().idx]) && !vis.contains(g[sv.last().node][sv.last().idx]),
    ensures dfs_inv(defs, next_sv(sv, g[sv.last().node][sv.last().idx], explore), cur_rec(sv.last(), rec), vis),
{
    reveal(dfs_inv); reveal(graph_ok);
    let e = sv.last();
    let dep = g[e.node][e.idx];
    let s1 = sv.drop_last();
    let n = sv.len() - 1;
    let cp = cur_path(e);
    let ea = EntV { node: e.node, idx: e.idx + 1, path: cp };
    let a = s1.push(ea);
    let nx = next_sv(sv, dep, explore);
    let rec1 = cur_rec(e, rec);
    lemma_mid(defs, sv, rec, vis);
    assert(edge(defs, e.node, dep));
    assert(e == sv[n]);
    assert(link_ok(defs, sv, n));
    assert(ent_ok(defs, ea));
    // link of the re-pushed entry
    assert(link_ok(defs, a, n)) by {
        assert(a[n] == ea);
        if n == 0 {
            if e.idx == 0 { assert(cp =~= seq![e.node]); }
        } else {
            assert(a[n - 1] == sv[n - 1]);
        }
    }
    assert forall|k: int| 0 <= k < nx.len() implies ent_ok(defs, #[trigger] nx[k]) by {
        if k < n { assert(nx[k] == sv[k]); } else if k == n { assert(nx[k] == ea); } else { assert(nx[k] == EntV { node: dep, idx: 0, path: cp }); }
    }
    assert forall|k: int| 0 <= k < nx.len() implies #[trigger] link_ok(defs, nx, k) by {
        if k < n {
            assert(link_ok(defs, sv, k));
            assert(nx[k] == sv[k]);
            if k > 0 { assert(nx[k - 1] == sv[k - 1]); }
        } else if k == n {
            assert(nx[n] == a[n]);
            if n > 0 { assert(nx[n - 1] == a[n - 1]); }
        } else {
            assert(nx[k] == EntV { node: dep, idx: 0, path: cp });
            assert(nx[k - 1] == ea);
        }
    }
    assert forall|k: int| 0 <= k < nx.len() - 1 implies (#[trigger] nx[k]).idx > 0 by {
        if k < n { assert(nx[k] == sv[k]); } else { assert(nx[k] == ea); }
    }
    assert(nx.last().path == cp);
}
/// a dependency that is on the recursion set closes a cycle: it is on the current path, and from ANY of its
/// positions the rest of the path plus the dependency is a real closed chain
pub proof fn lemma_cycle(defs: Map<Seq<char>, Seq<DefV>>, g: Map<Seq<char>, Seq<Seq<char>>>, sv: Seq<EntV>, rec: Set<Seq<char>>, vis: Set<Seq<char>>)
    requires dfs_inv(defs, sv, rec, vis), sv.len() > 0, graph_ok(g, defs),
        g.contains_key(sv.last().node), 0 <= sv.last().idx < g[sv.last().node].len(),
        cur_rec(sv.last(), rec).contains(g[sv.last().node][sv.last().idx]),
    ensures ({
        let cp = cur_path(sv.last());
        let dep = g[sv.last().node][sv.last().idx];
        &&& cp.contains(dep)
        &&& forall|i: int| 0 <= i < cp.len() && cp[i] == dep ==> is_closed_chain(defs, #[trigger] cp.subrange(i, cp.len() as int).push(dep))
    }),
{
    reveal(graph_ok);
    let e = sv.last();
    let cp = cur_path(e);
    let dep = g[e.node][e.idx];
    lemma_mid(defs, sv, rec, vis);
    assert(edge(defs, e.node, dep));
    assert forall|i: int| 0 <= i < cp.len() && cp[i] == dep implies is_closed_chain(defs, #[trigger] cp.subrange(i, cp.len() as int).push(dep)) by {
        let sub = cp.subrange(i, cp.len() as int);
        lemma_chain_suffix(defs, cp, i);
        assert(sub.last() == cp.last());
        lemma_chain_push(defs, sub, dep);
        assert(sub.push(dep)[0] == sub[0]);
    }
}

// ---- small steps used by the extracted function (so that the opaque predicates above stay closed there)
pub proof fn lemma_tables_empty(defs: Map<Seq<char>, Seq<DefV>>)
    ensures graph_ok(dg_view(Map::<Seq<char>, Vec<String>>::empty()), defs), fdefs_ok(Map::<Seq<char>, FixtureDefinition>::empty(), defs),
        cycles_ok(defs, Seq::<FixtureCycle>::empty()), keys_ok(Seq::<FixtureCycle>::empty(), Set::<Seq<char>>::empty()),
{
    reveal(graph_ok); reveal(fdefs_ok); reveal(cycles_ok); reveal(keys_ok);
}
/// one more adjacency entry / table entry for the name n whose first definition is d
pub proof fn lemma_tables_insert(defs: Map<Seq<char>, Seq<DefV>>, dg0: Map<Seq<char>, Vec<String>>, dg1: Map<Seq<char>, Vec<String>>,
                                 fd0: Map<Seq<char>, FixtureDefinition>, fd1: Map<Seq<char>, FixtureDefinition>, n: Seq<char>, ds: Vec<String>, d: FixtureDefinition)
    requires graph_ok(dg_view(dg0), defs), fdefs_ok(fd0, defs), dg1 == dg0.insert(n, ds), fd1 == fd0.insert(n, d),
        defs.contains_key(n), defs[n].len() > 0, dv(&d) == defs[n][0],
        forall|j: int| 0 <= j < ds@.len() ==> edge(defs, n, #[trigger] strs_v(ds@)[j]),
    ensures graph_ok(dg_view(dg1), defs), fdefs_ok(fd1, defs),
{
    reveal(graph_ok); reveal(fdefs_ok);
    let g = dg_view(dg1);
    assert forall|m: Seq<char>, j: int| g.contains_key(m) && 0 <= j < g[m].len() implies edge(defs, m, #[trigger] g[m][j]) by {
        if m != n { assert(dg0.contains_key(m) && dg_view(dg0)[m] == g[m]); }
    }
}
/// the initial stack of one DFS root
pub proof fn lemma_dfs_init(defs: Map<Seq<char>, Seq<DefV>>, sv: Seq<EntV>, vis: Set<Seq<char>>)
    requires sv.len() == 1, sv[0].idx == 0, sv[0].path =~= Seq::<Seq<char>>::empty(), !vis.contains(sv[0].node),
    ensures dfs_inv(defs, sv, Set::<Seq<char>>::empty(), vis),
{
    reveal(dfs_inv); reveal(is_chain);
    assert(link_ok(defs, sv, 0));
}
/// one reported cycle: a closed chain whose key was not seen, attached to the table entry of its last name
/// (cs1 == cs0: the table has no entry for the name, nothing is reported but the key is remembered)
pub proof fn lemma_report(defs: Map<Seq<char>, Seq<DefV>>, fd: Map<Seq<char>, FixtureDefinition>, cs0: Seq<FixtureCycle>, cs1: Seq<FixtureCycle>,
                          seen0: Set<Seq<char>>, cpv: Seq<Seq<char>>)
    requires
        cycles_ok(defs, cs0),
        keys_ok(cs0, seen0),
        fdefs_ok(fd, defs),
        is_closed_chain(defs, cpv),
        !seen0.contains(cyc_key(cpv)),
        cs1 == cs0 || (cs1.len() == cs0.len() + 1 && cs1.drop_last() == cs0 && cyv(&cs1.last()).path == cpv
                       && fd.contains_key(cpv.last()) && cyv(&cs1.last()).fixture == dv(&fd[cpv.last()])),
    ensures cycles_ok(defs, cs1), keys_ok(cs1, seen0.insert(cyc_key(cpv))),
{
    reveal(cycles_ok); reveal(keys_ok); reveal(fdefs_ok);
    let seen1 = seen0.insert(cyc_key(cpv));
    if cs1 != cs0 {
        let n = cs0.len() as int;
        assert(cs1.last() == cs1[n]);
        assert forall|k: int| 0 <= k < cs1.len() implies cycle_ok(defs, cyv(&#[trigger] cs1[k])) by {
            if k < n { assert(cs1[k] == cs0[k]); }
        }
        assert forall|k: int| 0 <= k < cs1.len() implies seen1.contains(cyc_key(cyv(&#[trigger] cs1[k]).path)) by {
            if k < n { assert(cs1[k] == cs0[k]); }
        }
        assert forall|i: int, j: int| 0 <= i < j < cs1.len() implies cyc_key(cyv(&#[trigger] cs1[i]).path) != cyc_key(cyv(&#[trigger] cs1[j]).path) by {
            assert(cs1[i] == cs0[i]);
            if j < n { assert(cs1[j] == cs0[j]); }
        }
    }
}

// ---- termination measure of the DFS loop (lexicographic):
//   A = number of adjacency-table keys that are neither finished nor on the recursion set,
//   B = sum over the stack of the work left in each entry (a not yet entered node counts 1; an entered node with
//       r dependencies left counts 2 r + 1, so that "one dependency done + one child pushed" still decreases).
pub open spec fn dfs_a(g: Map<Seq<char>, Seq<Seq<char>>>, rec: Set<Seq<char>>, vis: Set<Seq<char>>) -> nat {
    g.dom().difference(vis.union(rec)).len()
}
pub open spec fn ent_w(g: Map<Seq<char>, Seq<Seq<char>>>, e: EntV) -> nat {
    if e.idx > 0 && g.contains_key(e.node) && e.idx < g[e.node].len() { (2 * (g[e.node].len() - e.idx) + 1) as nat } else { 1 }
}
pub open spec fn dfs_b(g: Map<Seq<char>, Seq<Seq<char>>>, sv: Seq<EntV>) -> nat
    decreases sv.len()
{
    if sv.len() == 0 { 0 } else { dfs_b(g, sv.drop_last()) + ent_w(g, sv.last()) }
}
pub open spec fn lex_dec(a2: nat, b2: nat, a1: nat, b1: nat) -> bool { a2 < a1 || (a2 == a1 && b2 < b1) }

pub proof fn lemma_b_push(g: Map<Seq<char>, Seq<Seq<char>>>, s: Seq<EntV>, x: EntV)
    ensures dfs_b(g, s.push(x)) == dfs_b(g, s) + ent_w(g, x)
{
    assert(s.push(x).drop_last() =~= s);
}
/// adding x to the excluded set: the count stays (x not counted before) or drops by one
pub proof fn lemma_a_insert(d: Set<Seq<char>>, u: Set<Seq<char>>, x: Seq<char>)
    ensures d.difference(u.insert(x)).len() == d.difference(u).len() - (if d.contains(x) && !u.contains(x) { 1int } else { 0int })
{
    if d.contains(x) && !u.contains(x) {
        assert(d.difference(u.insert(x)) =~= d.difference(u).remove(x));
    } else {
        assert(d.difference(u.insert(x)) =~= d.difference(u));
    }
}
pub proof fn lemma_meas_none(g: Map<Seq<char>, Seq<Seq<char>>>, sv: Seq<EntV>, rec: Set<Seq<char>>, vis: Set<Seq<char>>)
    requires sv.len() > 0, !g.contains_key(sv.last().node),
    ensures lex_dec(dfs_a(g, cur_rec(sv.last(), rec).remove(sv.last().node), vis), dfs_b(g, sv.drop_last()), dfs_a(g, rec, vis), dfs_b(g, sv)),
{
    let e = sv.last();
    assert(g.dom().difference(vis.union(cur_rec(e, rec).remove(e.node))) =~= g.dom().difference(vis.union(rec)));
}
pub proof fn lemma_meas_dep(g: Map<Seq<char>, Seq<Seq<char>>>, sv: Seq<EntV>, rec: Set<Seq<char>>, vis: Set<Seq<char>>, explore: bool)
    requires sv.len() > 0, g.contains_key(sv.last().node), 0 <= sv.last().idx < g[sv.last().node].len(),
        sv.last().idx == 0 ==> !rec.contains(sv.last().node) && !vis.contains(sv.last().node),
    ensures lex_dec(dfs_a(g, cur_rec(sv.last(), rec), vis), dfs_b(g, next_sv(sv, g[sv.last().node][sv.last().idx], explore)), dfs_a(g, rec, vis), dfs_b(g, sv)),
{
    let e = sv.last();
    let s1 = sv.drop_last();
    let cp = cur_path(e);
    let dep = g[e.node][e.idx];
    let ea = EntV { node: e.node, idx: e.idx + 1, path: cp };
    if e.idx == 0 {
        lemma_a_insert(g.dom(), vis.union(rec), e.node);
        assert(vis.union(rec.insert(e.node)) =~= vis.union(rec).insert(e.node));
    } else {
        lemma_b_push(g, s1, ea);
        if explore { lemma_b_push(g, s1.push(ea), EntV { node: dep, idx: 0, path: cp }); }
    }
}
pub proof fn lemma_meas_done(g: Map<Seq<char>, Seq<Seq<char>>>, sv: Seq<EntV>, rec: Set<Seq<char>>, vis: Set<Seq<char>>)
    requires sv.len() > 0,
    ensures lex_dec(dfs_a(g, cur_rec(sv.last(), rec).remove(sv.last().node), vis.insert(sv.last().node)), dfs_b(g, sv.drop_last()), dfs_a(g, rec, vis), dfs_b(g, sv)),
{
    let e = sv.last();
    lemma_a_insert(g.dom(), vis.union(rec), e.node);
    assert(vis.insert(e.node).union(cur_rec(e, rec).remove(e.node)) =~= vis.union(rec).insert(e.node));
}
