// ---------------------------------------------------------------------------------------------
// core::option / core::cmp / slice functions vstd gives no specification: assumed specifications (trusted
// base A3).  (vstd already covers Option::{and_then, map, cloned, as_ref, unwrap_or}.)
pub assume_specification<'a, T: Copy>[ Option::<&'a T>::copied ](o: Option<&'a T>) -> (r: Option<T>)
    ensures r == (match o { Some(x) => Some(*x), None => None::<T> });

pub assume_specification<T, F: FnOnce(T) -> bool>[ Option::<T>::is_some_and ](o: Option<T>, f: F) -> (r: bool)
    requires o is Some ==> call_requires(f, (o->0,)),
    ensures match o { Some(x) => call_ensures(f, (x,), r), None => !r };

/// `a.then_with(f)`: a unless a is Equal, then whatever f returns
pub assume_specification<F: FnOnce() -> core::cmp::Ordering>[ core::cmp::Ordering::then_with ](a: core::cmp::Ordering, f: F) -> (r: core::cmp::Ordering)
    requires a is Equal ==> call_requires(f, ()),
    ensures if a is Equal { call_ensures(f, (), r) } else { r == a };

// ---- the order used for "sorted by path then name": uninterpreted, assumed to be total orders on the views
pub uninterp spec fn path_ord(a: PV, b: PV) -> core::cmp::Ordering;
pub uninterp spec fn str_ord(a: Seq<char>, b: Seq<char>) -> core::cmp::Ordering;
pub assume_specification[ <PathBuf as Ord>::cmp ](a: &PathBuf, b: &PathBuf) -> (o: core::cmp::Ordering)
    ensures o == path_ord(pbv(a), pbv(b));
pub assume_specification[ <String as Ord>::cmp ](a: &String, b: &String) -> (o: core::cmp::Ordering)
    ensures o == str_ord(a@, b@);

pub open spec fn ord_total<A>(c: spec_fn(A, A) -> core::cmp::Ordering) -> bool {
    &&& forall|a: A, b: A| (#[trigger] c(a, b) is Equal) <==> a == b
    &&& forall|a: A, b: A| (#[trigger] c(a, b) is Less) <==> (c(b, a) is Greater)
    &&& forall|a: A, b: A, d: A| !(#[trigger] c(a, b) is Greater) && !(#[trigger] c(b, d) is Greater) ==> !(c(a, d) is Greater)
}
pub open spec fn path_ord_fn() -> spec_fn(PV, PV) -> core::cmp::Ordering { |a: PV, b: PV| path_ord(a, b) }
pub open spec fn str_ord_fn() -> spec_fn(Seq<char>, Seq<char>) -> core::cmp::Ordering { |a: Seq<char>, b: Seq<char>| str_ord(a, b) }
pub mod ord_ax {
    use super::*;
    /// A3: `PathBuf: Ord` (component-wise) and `String: Ord` (byte-wise) are total orders, and they identify
    /// exactly the values with equal views
    pub axiom fn axiom_path_ord_total() ensures ord_total(path_ord_fn());
    pub axiom fn axiom_str_ord_total() ensures ord_total(str_ord_fn());
}
pub use ord_ax::*;

/// `s` is ordered by the "not greater" relation of the comparison c
pub open spec fn sorted_by_cmp<T>(s: Seq<T>, c: spec_fn(T, T) -> core::cmp::Ordering) -> bool {
    forall|i: int, j: int| 0 <= i < j < s.len() ==> !(c(s[i], s[j]) is Greater)
}
/// the exec comparator f computes the spec comparison c
pub open spec fn cmp_consistent<T, F: FnMut(&T, &T) -> core::cmp::Ordering>(f: F, c: spec_fn(T, T) -> core::cmp::Ordering) -> bool {
    forall|a: &T, b: &T, o: core::cmp::Ordering| #[trigger] call_ensures(f, (a, b), o) ==> o == c(*a, *b)
}
/// c is a total preorder on T (what `sort_by` needs to produce a sorted result)
pub open spec fn cmp_total_preorder<T>(c: spec_fn(T, T) -> core::cmp::Ordering) -> bool {
    &&& forall|a: T| #[trigger] c(a, a) is Equal
    &&& forall|a: T, b: T| (#[trigger] c(a, b) is Less) <==> (c(b, a) is Greater)
    &&& forall|a: T, b: T, d: T| !(#[trigger] c(a, b) is Greater) && !(#[trigger] c(b, d) is Greater) ==> !(c(a, d) is Greater)
}
/// `<[T]>::sort_by` (reached from `Vec` by deref): the result is a permutation of the input, and it is ordered
/// by every total preorder the comparator closure is shown to compute.  (Stability is not stated.)
pub assume_specification<T, F: FnMut(&T, &T) -> core::cmp::Ordering>[ <[T]>::sort_by ](v: &mut [T], f: F)
    requires forall|a: &T, b: &T| #[trigger] call_requires(f, (a, b)),
    ensures final(v)@.to_multiset() == old(v)@.to_multiset(),
        forall|c: spec_fn(T, T) -> core::cmp::Ordering| cmp_consistent(f, c) && cmp_total_preorder(c) ==> #[trigger] sorted_by_cmp(final(v)@, c);
