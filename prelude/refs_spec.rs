// ---------------------------------------------------------------------------------------------
// Operational specification of "which definition does a recorded usage denote" and of references

/// definition d is registered (under some name) at (file, line)
pub open spec fn at_line(defs: Map<Seq<char>, Seq<DefV>>, file: PV, line: usize, d: DefV) -> bool {
    d.file == file && d.line == line
    && exists|n: Seq<char>, i: int| defs.contains_key(n) && 0 <= i < defs[n].len() && #[trigger] defs[n][i] == d
}
pub open spec fn none_at_line(defs: Map<Seq<char>, Seq<DefV>>, file: PV, line: usize) -> bool {
    forall|n: Seq<char>, i: int| defs.contains_key(n) && 0 <= i < defs[n].len() ==>
        !((#[trigger] defs[n][i]).file == file && defs[n][i].line == line)
}
/// index well-formedness W4: at most one definition per (file, line)
pub open spec fn unique_at_line(defs: Map<Seq<char>, Seq<DefV>>) -> bool {
    forall|f: PV, l: usize, a: DefV, b: DefV| #[trigger] at_line(defs, f, l, a) && #[trigger] at_line(defs, f, l, b) ==> a == b
}
pub open spec fn pick_at_line(defs: Map<Seq<char>, Seq<DefV>>, file: PV, line: usize) -> Option<DefV> {
    if exists|d: DefV| at_line(defs, file, line, d) { Some(choose|d: DefV| at_line(defs, file, line, d)) } else { None }
}

/// the definition a usage u recorded for file f denotes: resolution of its name from f, skipping the
/// fixture defined on the usage's own line when it carries the same name (self-named parameter)
pub open spec fn resolve_usage(defs: Map<Seq<char>, Seq<DefV>>, provf: spec_fn(Seq<char>) -> spec_fn(PV) -> bool, f: PV, u: UseV) -> Option<DefV> {
    match pick_at_line(defs, f, u.line) {
        Some(c) => if c.name == u.name { op_resolve(bucket(defs, u.name), f, provf(u.name), fs_excl(Some(c))) }
                   else { op_resolve(bucket(defs, u.name), f, provf(u.name), fs_true()) },
        None => op_resolve(bucket(defs, u.name), f, provf(u.name), fs_true()),
    }
}
pub open spec fn refers_to(defs: Map<Seq<char>, Seq<DefV>>, provf: spec_fn(Seq<char>) -> spec_fn(PV) -> bool, dx: DefV) -> spec_fn((PV, UseV)) -> bool {
    |e: (PV, UseV)| resolve_usage(defs, provf, e.0, e.1) == Some(dx)
}
pub open spec fn pair_snd() -> spec_fn((PV, UseV)) -> UseV { |e: (PV, UseV)| e.1 }
/// what find_references_for_definition computes
pub open spec fn op_refs(defs: Map<Seq<char>, Seq<DefV>>, byfix: Map<Seq<char>, Seq<(PV, UseV)>>, provf: spec_fn(Seq<char>) -> spec_fn(PV) -> bool, dx: DefV) -> Seq<UseV> {
    bucket(byfix, dx.name).filter(refers_to(defs, provf, dx)).map_values(pair_snd())
}

pub proof fn lemma_pick(defs: Map<Seq<char>, Seq<DefV>>, file: PV, line: usize, c: DefV)
    requires unique_at_line(defs), at_line(defs, file, line, c)
    ensures pick_at_line(defs, file, line) == Some(c)
{
    let d = choose|d: DefV| at_line(defs, file, line, d);
    assert(at_line(defs, file, line, d));
}
pub proof fn lemma_pick_none(defs: Map<Seq<char>, Seq<DefV>>, file: PV, line: usize)
    requires none_at_line(defs, file, line)
    ensures pick_at_line(defs, file, line) is None
{
    if exists|d: DefV| at_line(defs, file, line, d) {
        let d = choose|d: DefV| at_line(defs, file, line, d);
        let (n, i) = choose|n: Seq<char>, i: int| defs.contains_key(n) && 0 <= i < defs[n].len() && #[trigger] defs[n][i] == d;
        assert(!(defs[n][i].file == file && defs[n][i].line == line));
    }
}

/// usage u of the file is "under the cursor": on the 1-based line, named like the word, column inside its span
pub open spec fn hit(line1: int, w: Seq<char>, ch: int) -> spec_fn(UseV) -> bool {
    |u: UseV| u.line == line1 && u.name == w && u.start_char <= ch < u.end_char
}
pub open spec fn first_use(us: Seq<UseV>, p: spec_fn(UseV) -> bool) -> Option<UseV>
    decreases us.len()
{
    if us.len() == 0 { None } else if p(us[0]) { Some(us[0]) } else { first_use(us.drop_first(), p) }
}
/// what find_fixture_definition (go-to-definition at a 0-based line / column) computes
pub open spec fn op_goto(cache: Map<PV, String>, defs: Map<Seq<char>, Seq<DefV>>, uses: Map<PV, Seq<UseV>>,
                         provf: spec_fn(Seq<char>) -> spec_fn(PV) -> bool, file: PV, line: u32, ch: u32) -> Option<DefV> {
    match file_content(cache, file) {
        None => None,
        Some(t) => match line_of(t, line as int) {
            None => None,
            Some(lc) => match word_at(lc, ch as int) {
                None => None,
                Some(w) => match first_use(bucket(uses, file), hit(line as int + 1, w, ch as int)) {
                    None => None,
                    Some(u) => resolve_usage(defs, provf, file, u),
                },
            },
        },
    }
}
pub proof fn lemma_first_use_none(us: Seq<UseV>, p: spec_fn(UseV) -> bool)
    requires forall|j: int| 0 <= j < us.len() ==> !p(#[trigger] us[j])
    ensures first_use(us, p) is None
    decreases us.len()
{
    if us.len() > 0 {
        assert(!p(us[0]));
        assert forall|j: int| 0 <= j < us.drop_first().len() implies !p(#[trigger] us.drop_first()[j]) by { assert(us.drop_first()[j] == us[j + 1]); }
        lemma_first_use_none(us.drop_first(), p);
    }
}
pub proof fn lemma_first_use_idx(us: Seq<UseV>, p: spec_fn(UseV) -> bool, i: int)
    requires 0 <= i < us.len(), p(us[i]), forall|j: int| 0 <= j < i ==> !p(#[trigger] us[j])
    ensures first_use(us, p) == Some(us[i])
    decreases us.len()
{
    if i > 0 {
        assert(!p(us[0]));
        assert forall|j: int| 0 <= j < i - 1 implies !p(#[trigger] us.drop_first()[j]) by { assert(us.drop_first()[j] == us[j + 1]); }
        assert(us.drop_first()[i - 1] == us[i]);
        lemma_first_use_idx(us.drop_first(), p, i - 1);
    }
}

/// a definition whose NAME span on (1-based) line1 contains column ch
pub open spec fn p_def_at(file: PV, line1: int, ch: int) -> spec_fn(DefV) -> bool {
    |d: DefV| d.file == file && d.line == line1 && d.start_char <= ch < d.end_char
}
pub open spec fn p_def_line(file: PV, line1: int) -> spec_fn(DefV) -> bool { |d: DefV| d.file == file && d.line == line1 }
/// what find_fixture_or_definition_at_position computes (implementation / call-hierarchy entry point): the
/// usage under the cursor resolved as go-to-definition does, else the definition whose name is under the cursor
pub open spec fn op_goto_or_def(cache: Map<PV, String>, defs: Map<Seq<char>, Seq<DefV>>, uses: Map<PV, Seq<UseV>>,
                                provf: spec_fn(Seq<char>) -> spec_fn(PV) -> bool, file: PV, line: u32, ch: u32) -> Option<DefV> {
    match op_goto(cache, defs, uses, provf, file, line, ch) {
        Some(d) => Some(d),
        None => match file_content(cache, file) {
            None => None,
            Some(t) => match line_of(t, line as int) {
                None => None,
                Some(lc) => match word_at(lc, ch as int) {
                    None => None,
                    Some(w) => first_match(bucket(defs, w), p_def_at(file, line as int + 1, ch as int)),
                },
            },
        },
    }
}
