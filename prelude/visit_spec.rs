// ---------------------------------------------------------------------------------------------
// Operational specification of the AST visitors of src/fixtures/analyzer.rs (visit_stmt, visit_assignment_fixture,
// visit_pytestmark_assignment, all_args): WHAT one statement of a file makes the index record, as functions of
// the real rustpython AST.  Written from property C03 / C15 and the README "Supported Fixture Patterns".
// Needs: build/astspec.rs, prelude/ast_spec.rs (decorator forms), prelude/line_spec.rs + bytes.rs (line / column),
// prelude/types.rs (DefV / UseV), prelude/path.rs (PV).
pub type AArguments = rustpython_parser::ast::Arguments;
pub type AArg = rustpython_parser::ast::ArgWithDefault;
pub type AStmtAssign = rustpython_parser::ast::StmtAssign;
pub type AStmtAnnAssign = rustpython_parser::ast::StmtAnnAssign;
pub type AExprName = rustpython_parser::ast::ExprName;
pub type Lit = (Seq<char>, TextRange);

// ---- environment inputs (abstract) ------------------------------------------------------------------------
/// `self.is_in_site_packages(file_path) || self.is_editable_install_third_party(file_path)` (units classify)
pub uninterp spec fn env_third_party(file: PV) -> bool;
/// `self.plugin_fixture_files.contains_key(file_path)`
pub uninterp spec fn env_is_plugin(file: PV) -> bool;
/// string_utils::find_function_name_position(content, line, func_name): (start_char, end_char) of the name
pub uninterp spec fn name_pos(src: Seq<char>, line: usize, fname: Seq<char>) -> (usize, usize);
/// `func_name.starts_with("test")` -- pytest's default `python_functions` prefix, no underscore required (F-03f repaired):
/// the name begins with the four characters t e s t.  Opaque: the visitors' proofs use it as an uninterpreted predicate of
/// the name; only the lemmas about concrete names reveal it.
#[verifier::opaque]
pub open spec fn is_test_name(name: Seq<char>) -> bool { name.len() >= 4 && name.subrange(0, 4) == "test"@ }
/// number of BYTES of the UTF-8 encoding of a text (`str::len`)
pub uninterp spec fn blen(s: Seq<char>) -> nat;
/// the line index get_line_index hands out for a text (memoised build_line_index: unit line_index)
pub uninterp spec fn src_line_index(src: Seq<char>) -> Seq<usize>;

pub mod visit_ax {
    use super::*;
    /// ASSUMED (text-size crate): a TextSize wraps a u32
    pub broadcast axiom fn axiom_tsv_u32(t: rustpython_parser::text_size::TextSize)
        ensures #[trigger] tsv(t) <= u32::MAX;
    /// ASSUMED: the byte length of a str is a function of its characters (UTF-8) and, as every Rust allocation, at
    /// most isize::MAX
    pub broadcast axiom fn axiom_str_blen(s: &str)
        ensures #[trigger] s.spec_bytes().len() == blen(s@), blen(s@) <= isize::MAX;
}
pub use visit_ax::*;

/// derive(Default) on FixtureScope with `#[default] Function` (src/fixtures/types.rs) -- A5
pub assume_specification[ <FixtureScope as Default>::default ]() -> (r: FixtureScope)
    ensures r == FixtureScope::Function;

// ---- positions ----------------------------------------------------------------------------------------------
pub open spec fn vline(li: Seq<usize>, off: usize) -> usize { op_line(ints(li), off as int) as usize }
pub open spec fn vcol(li: Seq<usize>, off: usize) -> usize { op_col(ints(li), off as int) as usize }
pub open spec fn r_start(r: TextRange) -> usize { tsv(tr_start(r)) }
pub open spec fn r_end(r: TextRange) -> usize { tsv(tr_end(r)) }

/// usage recorded for a string literal of a DECORATOR (`@pytest.mark.usefixtures("a")`, parametrize indirect):
/// the span excludes the quotes: [col(start) + 1, col(end) - 1)          (C15; plain `+ 1` / `- 1` in the code)
pub open spec fn lit_use(p: Lit, file: PV, li: Seq<usize>) -> UseV {
    UseV { name: p.0, file, line: vline(li, r_start(p.1)),
           start_char: (vcol(li, r_start(p.1)) + 1) as usize, end_char: (vcol(li, r_end(p.1)) - 1) as usize }
}
/// ... of a `pytestmark = ...` assignment: same span, computed with saturating_add / saturating_sub
pub open spec fn lit_use_sat(p: Lit, file: PV, li: Seq<usize>) -> UseV {
    let s = vcol(li, r_start(p.1));
    let e = vcol(li, r_end(p.1));
    UseV { name: p.0, file, line: vline(li, r_start(p.1)),
           start_char: if s == usize::MAX { s } else { (s + 1) as usize }, end_char: if e == 0 { 0usize } else { (e - 1) as usize } }
}
pub open spec fn lit_use_fn(file: PV, li: Seq<usize>, sat: bool) -> spec_fn(Lit) -> UseV {
    |p: Lit| if sat { lit_use_sat(p, file, li) } else { lit_use(p, file, li) }
}
pub open spec fn lit_uses(ps: Seq<Lit>, file: PV, li: Seq<usize>, sat: bool) -> Seq<UseV> { ps.map_values(lit_use_fn(file, li, sat)) }
/// the string-literal names one decorator contributes: which = 0 usefixtures, 1 parametrize(indirect)
pub open spec fn deco_lits(d: Expr, which: int) -> Seq<Lit> {
    if which == 0 { spec_usefixtures(&d) } else { spec_parametrize_indirect(&d) }
}
/// usages of the first n decorators, in decorator order then argument order
pub open spec fn decos_uses(ds: Seq<Expr>, n: int, which: int, file: PV, li: Seq<usize>) -> Seq<UseV>
    decreases n
{
    if n <= 0 || n > ds.len() { Seq::empty() } else { decos_uses(ds, n - 1, which, file, li) + lit_uses(deco_lits(ds[n - 1], which), file, li, false) }
}

// ---- parameters ---------------------------------------------------------------------------------------------
/// ASSUMED order of `Self::all_args(args)` is PROVED for the real all_args (chain of the three slices)
pub open spec fn all_params(a: AArguments) -> Seq<AArg> { a.posonlyargs@ + a.args@ + a.kwonlyargs@ }
pub open spec fn pname(a: AArg) -> Seq<char> { idv(&a.def.arg) }
/// a parameter WITH a default value (`def f(x=1)`, `def f(*, k=None)`) is an ordinary argument: pytest never treats it as a
/// fixture request (F-03e)
pub open spec fn has_default(a: AArg) -> bool { a.default is Some }
/// a fixture's parameter is a fixture request (dependency + usage): not self / request, no default
pub open spec fn is_dep(a: AArg) -> bool { pname(a) != "self"@ && pname(a) != "request"@ && !has_default(a) }
/// a test function's parameter is a fixture request (usage): not self, no default
pub open spec fn is_test_req(a: AArg) -> bool { pname(a) != "self"@ && !has_default(a) }
/// usage recorded for a parameter: [col(start of the parameter), + byte length of its NAME)  (C15: not the AST range,
/// which includes the annotation)
pub open spec fn param_use(a: AArg, file: PV, li: Seq<usize>) -> UseV {
    let c = vcol(li, r_start(a.def.range));
    UseV { name: pname(a), file, line: vline(li, r_start(a.def.range)), start_char: c, end_char: (c + blen(pname(a))) as usize }
}
/// dependency list: the first n parameters that are neither `self` nor `request` and have NO default value, in order
pub open spec fn deps_of(ps: Seq<AArg>, n: int) -> Seq<Seq<char>>
    decreases n
{
    if n <= 0 || n > ps.len() { Seq::empty() } else if is_dep(ps[n - 1]) { deps_of(ps, n - 1).push(pname(ps[n - 1])) } else { deps_of(ps, n - 1) }
}
/// usages of the first n parameters: a fixture skips self and request, a test only self; both skip defaulted parameters
pub open spec fn param_uses(ps: Seq<AArg>, n: int, fixture: bool, file: PV, li: Seq<usize>) -> Seq<UseV>
    decreases n
{
    if n <= 0 || n > ps.len() { Seq::empty() } else {
        let a = ps[n - 1];
        if (if fixture { is_dep(a) } else { is_test_req(a) }) { param_uses(ps, n - 1, fixture, file, li).push(param_use(a, file, li)) }
        else { param_uses(ps, n - 1, fixture, file, li) }
    }
}
/// the set handed to the undeclared-fixture scan as "declared": EVERY parameter, defaulted or not (a defaulted parameter is
/// a local name of the body)
pub open spec fn declared_of(ps: Seq<AArg>, n: int, base: Set<Seq<char>>) -> Set<Seq<char>>
    decreases n
{
    if n <= 0 || n > ps.len() { base } else { declared_of(ps, n - 1, base).insert(pname(ps[n - 1])) }
}
pub open spec fn declared_fixture(fname: Seq<char>, a: AArguments) -> Set<Seq<char>> {
    declared_of(all_params(a), all_params(a).len() as int, Set::<Seq<char>>::empty().insert("self"@).insert("request"@).insert(fname))
}
pub open spec fn declared_test(a: AArguments) -> Set<Seq<char>> {
    declared_of(all_params(a), all_params(a).len() as int, Set::<Seq<char>>::empty().insert("self"@).insert("request"@))
}

// ---- functions ----------------------------------------------------------------------------------------------
/// what visit_stmt reads of a (sync or async) function definition
pub struct FnV { pub name: Seq<char>, pub decos: Seq<Expr>, pub args: AArguments, pub range: TextRange, pub body: Seq<Stmt>,
                 pub returns: Option<Box<Expr>> }
pub open spec fn fn_view(s: Stmt) -> Option<FnV> {
    match s {
        Stmt::FunctionDef(f) => Some(FnV { name: idv(&f.name), decos: f.decorator_list@, args: *f.args, range: f.range, body: f.body@, returns: f.returns }),
        Stmt::AsyncFunctionDef(f) => Some(FnV { name: idv(&f.name), decos: f.decorator_list@, args: *f.args, range: f.range, body: f.body@, returns: f.returns }),
        _ => None,
    }
}
/// index of the FIRST decorator that is a fixture decorator (`decorator_list.iter().find(..)`)
pub open spec fn first_fix(ds: Seq<Expr>, k: int) -> Option<int>
    decreases ds.len() - k
{
    if k < 0 || k >= ds.len() { None } else if spec_is_fixture_decorator(&ds[k]) { Some(k) } else { first_fix(ds, k + 1) }
}
pub open spec fn opt_or_else<T>(o: Option<T>, d: T) -> T { match o { Some(x) => x, None => d } }
/// the definition a fixture function yields: every field as the property wants it
pub open spec fn fixture_def(v: FnV, d: Expr, file: PV, src: Seq<char>, li: Seq<usize>) -> DefV {
    let line = vline(li, r_start(v.range));
    let pos = name_pos(src, line, v.name);
    DefV {
        name: opt_or_else(spec_kw(&d, kw_str_fn("name"@)), v.name),                       // name= wins over the function name
        file, line, end_line: vline(li, r_end(v.range)),
        start_char: pos.0, end_char: pos.1,
        docstring: spec_docstring(v.body), return_type: spec_return_type(v.returns, v.body, src),
        is_third_party: env_third_party(file), is_plugin: env_is_plugin(file),
        dependencies: deps_of(all_params(v.args), all_params(v.args).len() as int),
        scope: opt_or_else(spec_kw(&d, kw_scope_fn()), FixtureScope::Function),
        yield_line: fy_from(v.body, 0, li), autouse: spec_autouse(&d),
    }
}
pub open spec fn func_defs(v: FnV, file: PV, src: Seq<char>, li: Seq<usize>) -> Seq<DefV> {
    match first_fix(v.decos, 0) { Some(k) => seq![fixture_def(v, v.decos[k], file, src, li)], None => Seq::empty() }
}
/// usages of a function, in recording order: usefixtures marks, parametrize-indirect marks, then -- if it is a
/// fixture -- its parameters except self / request / defaulted ones, then -- if its name starts with `test` -- its
/// parameters except self / defaulted ones (a fixture-decorated `test_x` records its parameters twice: that is what the code does)
pub open spec fn func_uses(v: FnV, file: PV, li: Seq<usize>) -> Seq<UseV> {
    let ps = all_params(v.args);
    decos_uses(v.decos, v.decos.len() as int, 0, file, li) + decos_uses(v.decos, v.decos.len() as int, 1, file, li)
        + (if first_fix(v.decos, 0) is Some { param_uses(ps, ps.len() as int, true, file, li) } else { Seq::empty() })
        + (if is_test_name(v.name) { param_uses(ps, ps.len() as int, false, file, li) } else { Seq::empty() })
}

// ---- assignments --------------------------------------------------------------------------------------------
/// `x = pytest.fixture(...)(f)`: the value is a call whose callee is a call of a fixture decorator
pub open spec fn is_assign_fixture(a: AStmtAssign) -> bool {
    match *a.value {
        Expr::Call(outer) => match *outer.func { Expr::Call(inner) => spec_is_fixture_decorator(&*inner.func), _ => false },
        _ => false,
    }
}
pub open spec fn assign_def(nm: AExprName, range: TextRange, file: PV, li: Seq<usize>) -> DefV {
    let line = vline(li, r_start(range));
    DefV { name: idv(&nm.id), file, line, end_line: line, start_char: vcol(li, r_start(nm.range)), end_char: vcol(li, r_end(nm.range)),
           docstring: None, return_type: None, is_third_party: env_third_party(file), is_plugin: env_is_plugin(file),
           dependencies: Seq::empty(), scope: FixtureScope::Function, yield_line: None, autouse: false }
}
/// one definition per Name target among the first n targets (`a = b = pytest.fixture()(f)` records two)
pub open spec fn targets_defs(ts: Seq<Expr>, n: int, range: TextRange, file: PV, li: Seq<usize>) -> Seq<DefV>
    decreases n
{
    if n <= 0 || n > ts.len() { Seq::empty() } else {
        match ts[n - 1] {
            Expr::Name(nm) => targets_defs(ts, n - 1, range, file, li).push(assign_def(nm, range, file, li)),
            _ => targets_defs(ts, n - 1, range, file, li),
        }
    }
}
pub open spec fn assign_defs(a: AStmtAssign, file: PV, li: Seq<usize>) -> Seq<DefV> {
    if is_assign_fixture(a) { targets_defs(a.targets@, a.targets@.len() as int, a.range, file, li) } else { Seq::empty() }
}
pub open spec fn is_pytestmark_name(e: Expr) -> bool { match e { Expr::Name(n) => idv(&n.id) == "pytestmark"@, _ => false } }
pub open spec fn has_pytestmark_target(ts: Seq<Expr>) -> bool { exists|i: int| 0 <= i < ts.len() && is_pytestmark_name(#[trigger] ts[i]) }
/// visit_pytestmark_assignment(value): the usefixtures names of the value (a mark call, or lists / tuples of them)
pub open spec fn pytestmark_uses(value: Option<Expr>, file: PV, li: Seq<usize>) -> Seq<UseV> {
    match value { Some(e) => lit_uses(spec_usefixtures_from_expr(&e), file, li, true), None => Seq::empty() }
}
pub open spec fn assign_uses(a: AStmtAssign, file: PV, li: Seq<usize>) -> Seq<UseV> {
    if has_pytestmark_target(a.targets@) { pytestmark_uses(Some(*a.value), file, li) } else { Seq::empty() }
}
pub open spec fn opt_unbox(o: Option<Box<Expr>>) -> Option<Expr> { match o { Some(b) => Some(*b), None => None } }
pub open spec fn annassign_uses(a: AStmtAnnAssign, file: PV, li: Seq<usize>) -> Seq<UseV> {
    if is_pytestmark_name(*a.target) { pytestmark_uses(opt_unbox(a.value), file, li) } else { Seq::empty() }
}

// ---- statements ---------------------------------------------------------------------------------------------
/// definitions visit_stmt records for a statement: assignment-style fixtures, fixture functions, and -- through
/// class bodies, recursively -- the same for the statements of a class.  Nothing else produces an entry.
pub open spec fn visit_defs(s: Stmt, file: PV, src: Seq<char>, li: Seq<usize>) -> Seq<DefV>
    decreases s, 0int
{
    match s {
        Stmt::Assign(a) => assign_defs(a, file, li),
        Stmt::ClassDef(c) => body_defs(c.body@, c.body@.len() as int, file, src, li),
        Stmt::FunctionDef(_) => func_defs(fn_view(s)->0, file, src, li),
        Stmt::AsyncFunctionDef(_) => func_defs(fn_view(s)->0, file, src, li),
        _ => Seq::empty(),
    }
}
pub open spec fn body_defs(b: Seq<Stmt>, n: int, file: PV, src: Seq<char>, li: Seq<usize>) -> Seq<DefV>
    decreases b, n
{
    if n <= 0 || n > b.len() { Seq::empty() } else { body_defs(b, n - 1, file, src, li) + visit_defs(b[n - 1], file, src, li) }
}
/// usages: pytestmark assignments (plain and annotated), class-level usefixtures marks followed by the class
/// body, functions
pub open spec fn visit_uses(s: Stmt, file: PV, src: Seq<char>, li: Seq<usize>) -> Seq<UseV>
    decreases s, 0int
{
    match s {
        Stmt::Assign(a) => assign_uses(a, file, li),
        Stmt::AnnAssign(a) => annassign_uses(a, file, li),
        Stmt::ClassDef(c) => decos_uses(c.decorator_list@, c.decorator_list@.len() as int, 0, file, li)
            + body_uses(c.body@, c.body@.len() as int, file, src, li),
        Stmt::FunctionDef(_) => func_uses(fn_view(s)->0, file, li),
        Stmt::AsyncFunctionDef(_) => func_uses(fn_view(s)->0, file, li),
        _ => Seq::empty(),
    }
}
pub open spec fn body_uses(b: Seq<Stmt>, n: int, file: PV, src: Seq<char>, li: Seq<usize>) -> Seq<UseV>
    decreases b, n
{
    if n <= 0 || n > b.len() { Seq::empty() } else { body_uses(b, n - 1, file, src, li) + visit_uses(b[n - 1], file, src, li) }
}

// ---- precondition: the decorator string literals end at a column >= 1 ---------------------------------------
/// `end_char - 1` is computed with a plain subtraction for decorator literals: a literal whose END is at column 0
/// would underflow (panic in debug builds, wrap in release).  A string literal ends with its closing quote, so for a
/// range produced by the parser for the text the line index was built from the column is >= 1 -- a fact about
/// the parser, taken as PRECONDITION here.
pub open spec fn lits_ok(ps: Seq<Lit>, li: Seq<usize>) -> bool { forall|i: int| 0 <= i < ps.len() ==> vcol(li, r_end((#[trigger] ps[i]).1)) >= 1 }
pub open spec fn decos_ok(ds: Seq<Expr>, which: int, li: Seq<usize>) -> bool {
    forall|j: int| 0 <= j < ds.len() ==> lits_ok(#[trigger] deco_lits(ds[j], which), li)
}
pub open spec fn visit_pre(s: Stmt, li: Seq<usize>) -> bool
    decreases s, 0int
{
    match s {
        Stmt::ClassDef(c) => decos_ok(c.decorator_list@, 0, li) && body_pre(c.body@, c.body@.len() as int, li),
        Stmt::FunctionDef(f) => decos_ok(f.decorator_list@, 0, li) && decos_ok(f.decorator_list@, 1, li),
        Stmt::AsyncFunctionDef(f) => decos_ok(f.decorator_list@, 0, li) && decos_ok(f.decorator_list@, 1, li),
        _ => true,
    }
}
pub open spec fn body_pre(b: Seq<Stmt>, n: int, li: Seq<usize>) -> bool
    decreases b, n
{
    if n <= 0 || n > b.len() { true } else { body_pre(b, n - 1, li) && visit_pre(b[n - 1], li) }
}

// ---- the version counter: one bump per recorded definition, wrap-around included ----------------------------
pub open spec fn bump1(v: u64) -> u64 { if v == u64::MAX { 0u64 } else { (v + 1) as u64 } }
pub open spec fn bumpn(v: u64, n: int) -> u64
    decreases n
{
    if n <= 0 { v } else { bump1(bumpn(v, n - 1)) }
}
pub proof fn lemma_bumpn_add(v: u64, a: int, b: int)
    requires a >= 0, b >= 0,
    ensures bumpn(bumpn(v, a), b) == bumpn(v, a + b),
    decreases b
{
    if b > 0 { lemma_bumpn_add(v, a, b - 1); }
}
/// without wrap-around the counter moves by exactly the number of definitions
pub proof fn lemma_bumpn_no_wrap(v: u64, n: int)
    requires n >= 0, v + n <= u64::MAX,
    ensures bumpn(v, n) == v + n,
    decreases n
{
    if n > 0 { lemma_bumpn_no_wrap(v, n - 1); }
}

// ---- helper lemmas for the L1 proofs ------------------------------------------------------------------------
pub proof fn lemma_body_pre_at(b: Seq<Stmt>, n: int, k: int, li: Seq<usize>)
    requires body_pre(b, n, li), 0 <= k < n <= b.len(),
    ensures visit_pre(b[k], li),
    decreases n
{
    if k < n - 1 { lemma_body_pre_at(b, n - 1, k, li); }
}
/// the first fixture decorator is at k: nothing before it is one
pub proof fn lemma_first_fix_at(ds: Seq<Expr>, k0: int, k: int)
    requires 0 <= k0 <= k < ds.len(), spec_is_fixture_decorator(&ds[k]),
        forall|j: int| k0 <= j < k ==> !spec_is_fixture_decorator(&#[trigger] ds[j]),
    ensures first_fix(ds, k0) == Some(k),
    decreases k - k0
{
    if k0 < k { lemma_first_fix_at(ds, k0 + 1, k); }
}
pub proof fn lemma_first_fix_none(ds: Seq<Expr>, k0: int)
    requires 0 <= k0, forall|j: int| k0 <= j < ds.len() ==> !spec_is_fixture_decorator(&#[trigger] ds[j]),
    ensures first_fix(ds, k0) is None,
    decreases ds.len() - k0
{
    if k0 < ds.len() { lemma_first_fix_none(ds, k0 + 1); }
}
