// ---------------------------------------------------------------------------------------------
// Unit strings_struct: the primitive `str` / `char` / slice operations of src/fixtures/string_utils.rs and of the
// text-based parts of src/fixtures/resolver.rs, on `Seq<char>` views.  TRUSTED BASE of the unit (A3): every
// `assume_specification`, every `external_body` helper and every `axiom` in this file is an ASSUMED statement about a
// std function; each is written to be TRUE of the real function (documented behaviour), nothing more.  What the unit
// PROVES is everything the repo's functions build on top: which lines are looked at, loop bounds, index arithmetic,
// min / max, branch order, what is pushed / joined / returned.  Byte-level panic freedom of the std functions
// themselves is Kani's (bounded).
//
//   byte lengths   blen(s) = |encode_utf8(s)|  -- vstd's own UTF-8 model (vstd::utf8), NOT an assumption;
//                  `str::len` is specified by vstd as `spec_bytes().len()` = blen(view)
//   P0  axiom_str_fits        a `&str` has at most usize::MAX bytes
//   P1  str::trim             r@ == trim_v(s@)                      (trim_v uninterpreted)
//   P2  str::trim_start       r@ == trim_start_v(s@) = s@.skip(ts_n(s@)),  0 <= ts_n(s) <= |s|     (a SUFFIX of s)
//   P3  str::trim_end         r@ == trim_end_v(s@)  = s@.take(te_n(s@)),   0 <= te_n(s) <= |s|     (a PREFIX of s)
//   P4  str::find(pat)        pat a `&str` or a `char`: byte offset boff(s, k) of the FIRST char index k at which the
//                             pattern occurs (find_k, a defined function), None iff it occurs nowhere
//   P5  str::contains(pat)    r == (find_k(s, pat) is Some)
//   P6  str::starts_with(pat) r == occurs_at(s, pat, 0)
//   P7  str::ends_with(pat)   r == occurs_at(s, pat, |s| - pat_len(pat))
//   P8  str::get(a..)         Some(suffix from the char that starts at byte a) iff a is a char boundary (<= len), else None
//   P9  vp_lines_*            `s.lines().collect()` / `.lines().nth(n)`: lines_v(s) (uninterpreted), in order
//   P10 vp_char_indices       `s.char_indices().collect()`: the pairs (boff(s, k), s[k]) in order
//   P11 char::is_alphanumeric r == is_alnum(c)                      (uninterpreted)
//   P12 <[String]>::join(&str) r@ == join_v(views, sep@)            (defined: elements separated by sep)
//   P13 str slicing           `&s[a..]`, `&s[..b]`, `&s[a..b]` (external_body helpers, @wrapexpr): REQUIRE both ends to
//                             be char boundaries, a <= b <= len (otherwise the real index panics); return the chars between
//   P14 slice.iter().enumerate()  the pairs (k, &s[k]) in order (vp_enumerate)
//   P15 usize::min / max / saturating_sub: vstd
pub use vstd::string::StringSliceAdditionalSpecFns;

// ---- byte lengths and char boundaries (defined on vstd's UTF-8 model) ------------------------------------------------
/// UTF-8 length of a character sequence
pub closed spec fn blen(s: Seq<char>) -> nat { vstd::utf8::encode_utf8(s).len() }
/// byte offset at which character k of s starts (k == |s|: the end)
pub open spec fn boff(s: Seq<char>, k: int) -> nat { blen(s.take(k)) }
/// n is a char boundary of s (`str::is_char_boundary`): the offset of some character, or the end
pub open spec fn is_bnd(s: Seq<char>, n: int) -> bool { exists|k: int| 0 <= k <= s.len() && #[trigger] boff(s, k) == n }
/// the character index whose offset is n
pub open spec fn cidx(s: Seq<char>, n: int) -> int { choose|k: int| 0 <= k <= s.len() && #[trigger] boff(s, k) == n }

pub open spec fn sv(v: Seq<&str>) -> Seq<Seq<char>> { v.map_values(|x: &str| x@) }
pub open spec fn ssv(v: Seq<String>) -> Seq<Seq<char>> { v.map_values(|x: String| x@) }

pub mod strstruct_ax {
    use super::*;
    /// P0: no string slice is longer than the address space
    pub broadcast axiom fn axiom_str_fits(s: &str)
        ensures #[trigger] s.spec_bytes().len() <= usize::MAX;
    /// P2 / P3: how many characters trim_start / trim_end remove is between 0 and the length
    pub broadcast axiom fn axiom_ts_n(s: Seq<char>)
        ensures 0 <= #[trigger] ts_n(s) <= s.len();
    pub broadcast axiom fn axiom_te_n(s: Seq<char>)
        ensures 0 <= #[trigger] te_n(s) <= s.len();
    /// P4: the two pattern kinds the code uses
    pub broadcast axiom fn axiom_pat_str(p: &str)
        ensures #[trigger] pat_v::<&str>(p) == PatV::Str(p@);
    pub broadcast axiom fn axiom_pat_char(p: char)
        ensures #[trigger] pat_v::<char>(p) == PatV::Ch(p);
    /// P8
    pub broadcast axiom fn axiom_out_str(x: &str)
        ensures #[trigger] out_v::<str>(x) == x@;
    pub broadcast axiom fn axiom_get_from(s: Seq<char>, i: core::ops::RangeFrom<usize>)
        ensures #[trigger] get_v::<core::ops::RangeFrom<usize>>(s, i) == get_from_v(s, i.start as int);
}
pub use strstruct_ax::*;

pub mod strstruct_bc {
    use super::*;
    /// P0 on views, and vstd's `str::len` (= spec_bytes().len()) read as blen of the view: PROVED (blen is vstd's encoding length)
    pub broadcast proof fn lemma_fits(s: &str)
        ensures blen(s@) <= usize::MAX, #[trigger] s.spec_bytes().len() == blen(s@),
    {
        axiom_str_fits(s);
    }
}
pub use strstruct_bc::*;
// ---- PROVED facts about blen / boff (from vstd::utf8 lemmas; no assumption) ------------------------------------------
pub proof fn lemma_blen_add(a: Seq<char>, b: Seq<char>)
    ensures blen(a + b) == blen(a) + blen(b),
{
    vstd::utf8::encode_utf8_concat(a, b);
}
pub proof fn lemma_blen_empty()
    ensures blen(Seq::<char>::empty()) == 0,
{ }
/// splitting at a character index splits the byte length
pub proof fn lemma_blen_split(s: Seq<char>, k: int)
    requires 0 <= k <= s.len(),
    ensures blen(s) == boff(s, k) + blen(s.skip(k)), boff(s, k) <= blen(s),
{
    assert(s =~= s.take(k) + s.skip(k));
    lemma_blen_add(s.take(k), s.skip(k));
}
pub proof fn lemma_boff_ends(s: Seq<char>)
    ensures boff(s, 0) == 0, boff(s, s.len() as int) == blen(s),
{
    assert(s.take(0) =~= Seq::<char>::empty());
    assert(s.take(s.len() as int) =~= s);
}
/// offsets are strictly increasing in the character index
pub proof fn lemma_boff_mono(s: Seq<char>, i: int, j: int)
    requires 0 <= i < j <= s.len(),
    ensures boff(s, i) < boff(s, j),
{
    vstd::utf8::lemma_encode_utf8_len_strictly_monotonic(s, i, j);
    assert(s.take(i) =~= s.subrange(0, i));
    assert(s.take(j) =~= s.subrange(0, j));
}
/// ... hence a boundary determines its character index
pub proof fn lemma_cidx(s: Seq<char>, k: int)
    requires 0 <= k <= s.len(),
    ensures is_bnd(s, boff(s, k) as int), cidx(s, boff(s, k) as int) == k,
{
    let c = cidx(s, boff(s, k) as int);
    if c < k { lemma_boff_mono(s, c, k); }
    if k < c { lemma_boff_mono(s, k, c); }
}
pub proof fn lemma_boff_add(s: Seq<char>, k: int, m: int)
    requires 0 <= k, 0 <= m, k + m <= s.len(),
    ensures boff(s, k + m) == boff(s, k) + blen(s.subrange(k, k + m)),
{
    assert(s.take(k + m) =~= s.take(k) + s.subrange(k, k + m));
    lemma_blen_add(s.take(k), s.subrange(k, k + m));
}
/// offsets inside a suffix
pub proof fn lemma_boff_skip(s: Seq<char>, k: int, j: int)
    requires 0 <= k, 0 <= j, k + j <= s.len(),
    ensures boff(s.skip(k), j) + boff(s, k) == boff(s, k + j),
{
    assert(s.skip(k).take(j) =~= s.subrange(k, k + j));
    lemma_boff_add(s, k, j);
}

// ---- P1..P3 trimming --------------------------------------------------------------------------------------------------
pub uninterp spec fn trim_v(s: Seq<char>) -> Seq<char>;
/// number of leading / the length without the trailing characters that `trim_start` / `trim_end` remove
pub uninterp spec fn ts_n(s: Seq<char>) -> int;
pub uninterp spec fn te_n(s: Seq<char>) -> int;
pub open spec fn trim_start_v(s: Seq<char>) -> Seq<char> { s.skip(ts_n(s)) }
pub open spec fn trim_end_v(s: Seq<char>) -> Seq<char> { s.take(te_n(s)) }
pub assume_specification<'a>[ str::trim ](s: &'a str) -> (r: &'a str)
    ensures r@ == trim_v(s@);
pub assume_specification<'a>[ str::trim_start ](s: &'a str) -> (r: &'a str)
    ensures r@ == trim_start_v(s@);
pub assume_specification<'a>[ str::trim_end ](s: &'a str) -> (r: &'a str)
    ensures r@ == trim_end_v(s@);

// ---- P4..P7 patterns ---------------------------------------------------------------------------------------------------
pub enum PatV { Str(Seq<char>), Ch(char), Other }
pub uninterp spec fn pat_v<P>(p: P) -> PatV;
pub open spec fn pat_len(p: PatV) -> int { match p { PatV::Str(t) => t.len() as int, PatV::Ch(_) => 1, PatV::Other => 0 } }
/// the pattern occurs in s at character index k
pub open spec fn occurs_at(s: Seq<char>, p: PatV, k: int) -> bool {
    match p {
        PatV::Str(t) => 0 <= k && k + t.len() <= s.len() && s.subrange(k, k + t.len()) == t,
        PatV::Ch(c) => 0 <= k < s.len() && s[k] == c,
        PatV::Other => false,
    }
}
/// first character index >= k at which the pattern occurs
pub open spec fn find_from(s: Seq<char>, p: PatV, k: int) -> Option<int>
    decreases s.len() + 1 - k
{
    if k < 0 || k > s.len() { None } else if occurs_at(s, p, k) { Some(k) } else { find_from(s, p, k + 1) }
}
pub open spec fn find_k(s: Seq<char>, p: PatV) -> Option<int> { find_from(s, p, 0) }
/// what `str::find` returns: the BYTE offset of that character
pub open spec fn find_b(s: Seq<char>, p: PatV) -> Option<usize> {
    match find_k(s, p) { Some(k) => Some(boff(s, k) as usize), None => None }
}
#[verifier::allow(undeclared_external_trait)]
pub assume_specification<P: core::str::pattern::Pattern>[ str::find::<P> ](s: &str, p: P) -> (r: Option<usize>)
    requires !(pat_v(p) is Other),
    ensures r == find_b(s@, pat_v(p));
#[verifier::allow(undeclared_external_trait)]
pub assume_specification<P: core::str::pattern::Pattern>[ str::contains::<P> ](s: &str, p: P) -> (r: bool)
    requires !(pat_v(p) is Other),
    ensures r == (find_k(s@, pat_v(p)) is Some);
#[verifier::allow(undeclared_external_trait)]
pub assume_specification<P: core::str::pattern::Pattern>[ str::starts_with::<P> ](s: &str, p: P) -> (r: bool)
    requires !(pat_v(p) is Other),
    ensures r == occurs_at(s@, pat_v(p), 0);
#[verifier::allow(undeclared_external_trait)]
pub assume_specification<P: core::str::pattern::Pattern>[ str::ends_with::<P> ](s: &str, p: P) -> (r: bool)
    where for<'a> P::Searcher<'a>: core::str::pattern::ReverseSearcher<'a>
    requires !(pat_v(p) is Other),
    ensures r == occurs_at(s@, pat_v(p), s@.len() - pat_len(pat_v(p)));

/// PROVED: what find_from means
pub proof fn lemma_find_from(s: Seq<char>, p: PatV, k: int)
    requires 0 <= k <= s.len(),
    ensures match find_from(s, p, k) {
        Some(i) => k <= i <= s.len() && occurs_at(s, p, i) && (forall|j: int| k <= j < i ==> !occurs_at(s, p, j)),
        None => forall|j: int| k <= j <= s.len() ==> !occurs_at(s, p, j),
    },
    decreases s.len() + 1 - k,
{
    if !occurs_at(s, p, k) {
        if k < s.len() { lemma_find_from(s, p, k + 1); } else { assert(find_from(s, p, k + 1) is None); }
    }
}
/// PROVED: a hit of `find` is a char boundary, and so is its end; both lie inside the string
pub proof fn lemma_find_k(s: Seq<char>, p: PatV)
    ensures match find_k(s, p) {
        Some(i) => 0 <= i && i + pat_len(p) <= s.len() && occurs_at(s, p, i) && (forall|j: int| 0 <= j < i ==> !occurs_at(s, p, j))
            && boff(s, i) <= boff(s, i + pat_len(p)) <= blen(s),
        None => forall|j: int| 0 <= j <= s.len() ==> !occurs_at(s, p, j),
    },
{
    lemma_find_from(s, p, 0);
    if let Some(i) = find_k(s, p) {
        lemma_blen_split(s, i + pat_len(p));
        if pat_len(p) > 0 { lemma_boff_mono(s, i, i + pat_len(p)); }
    }
}

/// PROVED, quantifier-free reading of a hit of `find` for the exec proofs: the hit and its end are char boundaries inside s
pub proof fn lemma_hit(s: Seq<char>, p: PatV)
    requires find_k(s, p) is Some,
    ensures ({
        let k = find_k(s, p)->0;
        &&& 0 <= k && k + pat_len(p) <= s.len() && occurs_at(s, p, k)
        &&& boff(s, k) <= boff(s, k + pat_len(p)) <= blen(s)
        &&& boff(s, k + pat_len(p)) == boff(s, k) + blen(s.subrange(k, k + pat_len(p)))
        &&& is_bnd(s, boff(s, k) as int) && cidx(s, boff(s, k) as int) == k
        &&& is_bnd(s, boff(s, k + pat_len(p)) as int) && cidx(s, boff(s, k + pat_len(p)) as int) == k + pat_len(p)
        &&& blen(s) == boff(s, k + pat_len(p)) + blen(s.skip(k + pat_len(p)))
    }),
{
    lemma_find_k(s, p);
    let k = find_k(s, p)->0;
    lemma_cidx(s, k);
    lemma_cidx(s, k + pat_len(p));
    lemma_boff_add(s, k, pat_len(p));
    lemma_blen_split(s, k + pat_len(p));
}
/// PROVED: offsets order as character indices do
pub proof fn lemma_boff_order(s: Seq<char>, i: int, j: int)
    requires 0 <= i <= s.len(), 0 <= j <= s.len(),
    ensures (boff(s, i) < boff(s, j)) == (i < j), (boff(s, i) <= boff(s, j)) == (i <= j),
{
    if i < j { lemma_boff_mono(s, i, j); }
    if j < i { lemma_boff_mono(s, j, i); }
}

// ---- P8 `str::get(a..)` ------------------------------------------------------------------------------------------------
pub open spec fn get_from_v(s: Seq<char>, n: int) -> Option<Seq<char>> {
    if is_bnd(s, n) { Some(s.skip(cidx(s, n))) } else { None }
}
/// `str::get` is generic over the index type; its meaning is pinned down for `a..` only (the only use in the code)
pub uninterp spec fn get_v<I>(s: Seq<char>, i: I) -> Option<Seq<char>>;
/// view of the (generic) output type of a string index: the characters, for `str`
pub uninterp spec fn out_v<T: ?Sized>(x: &T) -> Seq<char>;
#[verifier::allow(undeclared_external_trait)]
pub assume_specification<'a, I: core::slice::SliceIndex<str>>[ str::get::<I> ](s: &'a str, i: I) -> (r: Option<&'a <I as core::slice::SliceIndex<str>>::Output>)
    ensures (match r { Some(t) => Some(out_v(t)), None => None::<Seq<char>> }) == get_v(s@, i);

// ---- P9 lines ----------------------------------------------------------------------------------------------------------
/// the lines of a text as `str::lines` yields them
pub uninterp spec fn lines_v(s: Seq<char>) -> Seq<Seq<char>>;

pub open spec fn nth_line(ls: Seq<Seq<char>>, n: int) -> Option<Seq<char>> { if 0 <= n < ls.len() { Some(ls[n]) } else { None } }
pub open spec fn osv(o: Option<&str>) -> Option<Seq<char>> { match o { Some(t) => Some(t@), None => None } }
/// `s.lines()` followed by `.nth(n)` on the fresh iterator (@rename lines vp_lines)
pub struct SsLines<'a> { pub text: &'a str }
pub trait VpStrLines {
    fn vp_lines(&self) -> (r: SsLines<'_>);
}
impl VpStrLines for str {
    #[verifier::external_body]
    fn vp_lines(&self) -> (r: SsLines<'_>) ensures r.text@ == self@
    { SsLines { text: self } }
}
impl<'a> SsLines<'a> {
    #[verifier::external_body]
    pub fn nth(&mut self, n: usize) -> (r: Option<&'a str>)
        ensures osv(r) == nth_line(lines_v(old(self).text@), n as int)
    { self.text.lines().nth(n) }
}

// ---- PROVED: ASCII literals have one byte per character -----------------------------------------------------------------
pub proof fn lemma_ascii_blen(s: Seq<char>)
    requires vstd::utf8::is_ascii_chars(s),
    ensures blen(s) == s.len(),
{
    vstd::utf8::is_ascii_chars_encode_utf8(s);
}

// ---- P11 char classes ---------------------------------------------------------------------------------------------------
pub uninterp spec fn is_alnum(c: char) -> bool;
pub assume_specification[ char::is_alphanumeric ](c: char) -> (r: bool)
    ensures r == is_alnum(c);

// ---- P12 join -----------------------------------------------------------------------------------------------------------
pub open spec fn join_v(ss: Seq<Seq<char>>, sep: Seq<char>) -> Seq<char>
    decreases ss.len()
{
    if ss.len() == 0 { Seq::empty() } else if ss.len() == 1 { ss[0] } else { join_v(ss.drop_last(), sep) + sep + ss.last() }
}

// ---- P14 enumerate -------------------------------------------------------------------------------------------------------
pub trait VpEnumerate<'a, T: 'a>: Sized + Iterator<Item = &'a T> {
    fn vp_enumerate(self) -> (r: std::vec::IntoIter<(usize, &'a T)>);
}
impl<'a, T: 'a> VpEnumerate<'a, T> for core::slice::Iter<'a, T> {
    /// `slice.iter().enumerate()` driven by a `for` loop: the pairs (k, &s[k]) in order; finite
    #[verifier::external_body]
    fn vp_enumerate(self) -> (r: std::vec::IntoIter<(usize, &'a T)>)
        ensures r.obeys_prophetic_iter_laws(), r.decrease() is Some,
            r.remaining().len() == self.remaining().len(),
            forall|k: int| 0 <= k < r.remaining().len() ==> (#[trigger] r.remaining()[k]).0 == k && r.remaining()[k].1 == self.remaining()[k],
    { self.enumerate().collect::<Vec<(usize, &'a T)>>().into_iter() }
}
