// ---------------------------------------------------------------------------------------------
// std::collections::HashMap shim, further methods (trusted base A3, same conventions as prelude/hashmap.rs;
// `get` is already there).  `keys()` yields *some* duplicate-free enumeration of the key set (a vec::IntoIter
// of key references, whose iterator laws vstd knows): nothing proved may depend on hash order.
impl<K: KeyView, V> HashMap<K, V> {
    #[verifier::external_body]
    pub fn keys<'a>(&'a self) -> (r: std::vec::IntoIter<&'a K>)
        ensures r.obeys_prophetic_iter_laws(), r.decrease() is Some,
            r.remaining().len() == self.m().dom().len(),
            forall|i: int| 0 <= i < r.remaining().len() ==> self.m().contains_key((#[trigger] r.remaining()[i]).kview()),
            forall|i: int, j: int| 0 <= i < j < r.remaining().len() ==> r.remaining()[i].kview() != r.remaining()[j].kview(),
            forall|k: K::KV| self.m().contains_key(k) ==> exists|i: int| 0 <= i < r.remaining().len() && #[trigger] r.remaining()[i].kview() == k,
    { unimplemented!() }
}
