// ---------------------------------------------------------------------------------------------
// The database views the contracts PROVED in unit module_resolve speak about (`//@stub module_resolve
// resolve_module_to_file` copies the text `op_resolve(.., self.dom(), self.sps(), self.ers())`).  The definitions are
// those written in the BODY of units/module_resolve.rs (roots, dom, sps, ers), verbatim.  Include AFTER the
// `//@dbstruct[_arc]` line (fields file_cache, site_packages_paths, editable_install_roots) and after
// `//@item src/fixtures/mod.rs struct EditableInstall`; needs prelude/modres_path.rs (pbvs).
// (Owner of unit module_resolve: including this file there would make the sharing textual.)
/// only the source root of an editable install matters here
pub open spec fn roots(s: Seq<EditableInstall>) -> Seq<PV> { s.map_values(|e: EditableInstall| pbv(&e.source_root)) }
impl FixtureDatabase {
    pub open spec fn dom(&self) -> Set<PV> { self.file_cache.m().dom() }
    pub open spec fn sps(&self) -> Seq<PV> { pbvs(self.site_packages_paths@) }
    pub open spec fn ers(&self) -> Seq<PV> { roots(self.editable_install_roots@) }
}
