// ---------------------------------------------------------------------------------------------
// Unit server_init: the server state as `initialize` / `shutdown` (src/main.rs) see it.  Same conventions as
// prelude/lsp_backend_mut.rs (T3/T6, T13): the handlers write through `&self` (tokio RwLock / Mutex behind Arc); here the
// `Arc<RwLock<..>>` / `Arc<Mutex<..>>` wrappers are stripped, the receivers become `&mut self`, `x.write().await` /
// `x.lock().await` hand out the protected value (sequential reading; interleavings at `.await` are NOT modelled).
//        client                  : tower_lsp_server::Client                      -> opaque `Client` (Clone)
//        fixture_db              : Arc<FixtureDatabase>                          kept (real std Arc)
//        workspace_root          : Arc<RwLock<Option<PathBuf>>>                  -> Option<PathBuf>
//        original_workspace_root : Arc<RwLock<Option<PathBuf>>>                  -> Option<PathBuf>
//        scan_task               : Arc<Mutex<Option<JoinHandle<()>>>>            -> Option<JoinHandle>
//        config                  : Arc<RwLock<Config>>                           -> Config
//        uri_cache                                                              DROPPED (not touched)
// Effects on the outside world (messages to the client, task control) are appended to `log()`, an uninterpreted function
// of the Backend value (same device as prelude/clitree_out.rs): every such call is replaced (@replace / @wrapexpr) by a
// stand-in that appends ONE event.  Spliced AFTER the FixtureDatabase struct, `Config` and build/lspspec_init.rs.
pub mod jsonrpc {
    use super::*;
    #[verifier::external_body]
    pub struct Error { _p: () }
    pub type Result<T> = core::result::Result<T, Error>;
}
#[verifier::external_body]
pub struct Client { _p: () }
impl Client { pub uninterp spec fn effects(&self) -> Seq<SEv>; }
impl Clone for Client {
    #[verifier::external_body]
    fn clone(&self) -> (r: Self) { unimplemented!() }
}
/// what a spawned task does: the workspace scan of `initialize` (which database, which root, which exclude patterns)
pub struct ScanTaskV { pub db: Arc<FixtureDatabase>, pub root: PV, pub pats: Seq<Seq<char>> }
/// tokio::task::JoinHandle<()>: opaque; `task()` = what it runs
#[verifier::external_body]
pub struct JoinHandle { _p: () }
impl JoinHandle { pub uninterp spec fn task(&self) -> ScanTaskV; }
/// effects, in program order
pub enum SEv {
    /// `client.log_message(MessageType::WARNING, <text>)`
    Warn { text: Seq<char> },
    /// `handle.abort()`
    Abort { h: JoinHandle },
    /// `tokio::time::timeout(Duration::from_millis(ms), handle).await`: the ONLY way the handler waits for the task
    JoinWithTimeout { ms: u64, h: JoinHandle },
    /// `tokio::spawn(async { sleep(..); process::exit(..) })`: the forced-exit task of shutdown
    SpawnForcedExit,
}
pub struct Backend {
    pub client: Client,
    pub fixture_db: Arc<FixtureDatabase>,
    pub workspace_root: Option<PathBuf>,
    pub original_workspace_root: Option<PathBuf>,
    pub scan_task: Option<JoinHandle>,
    pub config: Config,
}
/// `x.write().await` / `x.read().await` on a tokio RwLock, `x.lock().await` on a tokio Mutex (no poisoning in tokio: the
/// guard itself is returned): sequential stand-ins handing out the protected value
pub trait VpRw: Sized {
    fn write(&mut self) -> (r: &mut Self) ensures *r == *old(self), *final(self) == *final(r);
    fn read(&self) -> (r: &Self) ensures r == self;
}
impl VpRw for Option<PathBuf> {
    #[verifier::external_body] fn write(&mut self) -> (r: &mut Self) { self }
    #[verifier::external_body] fn read(&self) -> (r: &Self) { self }
}
impl VpRw for Config {
    #[verifier::external_body] fn write(&mut self) -> (r: &mut Self) { self }
    #[verifier::external_body] fn read(&self) -> (r: &Self) { self }
}
pub trait VpTokioMutex: Sized {
    fn lock(&mut self) -> (r: &mut Self) ensures *r == *old(self), *final(self) == *final(r);
}
impl VpTokioMutex for Option<JoinHandle> {
    #[verifier::external_body] fn lock(&mut self) -> (r: &mut Self) { self }
}
/// every field but the effect log is the same
pub open spec fn same_state(a: Backend, b: Backend) -> bool {
    a.fixture_db == b.fixture_db && a.workspace_root == b.workspace_root && a.original_workspace_root == b.original_workspace_root
    && a.scan_task == b.scan_task && a.config == b.config
}
impl Backend {
    /// the effects so far: hidden state of the `client` field (the only field the stand-ins below change)
    pub open spec fn log(&self) -> Seq<SEv> { self.client.effects() }
    #[verifier::external_body]
    pub fn vp_warn(&mut self, text: &str)
        ensures final(self).log() == old(self).log().push(SEv::Warn { text: text@ }), same_state(*final(self), *old(self))
    { }
    #[verifier::external_body]
    pub fn vp_abort(&mut self, handle: &JoinHandle)
        ensures final(self).log() == old(self).log().push(SEv::Abort { h: *handle }), same_state(*final(self), *old(self))
    { }
    #[verifier::external_body]
    pub fn vp_join_with_timeout(&mut self, d: VpDuration, handle: JoinHandle) -> (r: Result<Result<(), ()>, ()>)
        ensures final(self).log() == old(self).log().push(SEv::JoinWithTimeout { ms: d.ms, h: handle }), same_state(*final(self), *old(self))
    { unimplemented!() }
}
