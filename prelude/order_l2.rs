// ---------------------------------------------------------------------------------------------
// L2 for C08: which parts of resolution depend on registration order.
// A scan schedule only interleaves the per-file analyses: for every file the sub-sequence of definitions[name]
// coming from that file is the same in every schedule (a file is analysed by one thread, in source order).
pub open spec fn in_file2(f: PV) -> spec_fn(DefV) -> bool { |d: DefV| d.file == f }
/// ds and ds2 differ only by interleaving of files
pub open spec fn same_per_file(ds: Seq<DefV>, ds2: Seq<DefV>) -> bool {
    forall|f: PV| #[trigger] ds.filter(in_file2(f)) == ds2.filter(in_file2(f))
}

/// the first match of a predicate that pins the file only looks at that file's sub-sequence
pub proof fn lemma_first_match_per_file(ds: Seq<DefV>, c: PV, fs: spec_fn(DefV) -> bool)
    ensures first_match(ds, p_same(c, fs)) == first_match(ds.filter(in_file2(c)), fs)
    decreases ds.len()
{
    if ds.len() == 0 {
        reveal(Seq::filter);
        assert(ds.filter(in_file2(c)) =~= Seq::<DefV>::empty());
    } else {
        let t = ds.drop_first();
        lemma_first_match_per_file(t, c, fs);
        lemma_filter_drop_first(ds, in_file2(c));
        let sub = ds.filter(in_file2(c));
        if in_file2(c)(ds[0]) {
            assert(sub =~= seq![ds[0]] + t.filter(in_file2(c)));
            assert(sub[0] == ds[0]);
            assert(sub.drop_first() =~= t.filter(in_file2(c)));
        }
    }
}
/// same for the same-file choice (last definition of maximal line)
pub proof fn lemma_best_same_per_file(ds: Seq<DefV>, c: PV, fs: spec_fn(DefV) -> bool)
    ensures best_same(ds, p_same(c, fs)) == best_same(ds.filter(in_file2(c)), fs)
    decreases ds.len()
{
    reveal(Seq::filter);
    if ds.len() == 0 {
        assert(ds.filter(in_file2(c)) =~= Seq::<DefV>::empty());
    } else {
        let t = ds.drop_last();
        lemma_best_same_per_file(t, c, fs);
        if in_file2(c)(ds.last()) {
            let sub = ds.filter(in_file2(c));
            assert(sub == t.filter(in_file2(c)).push(ds.last()));
            assert(sub.drop_last() =~= t.filter(in_file2(c)));
            assert(sub.last() == ds.last());
        }
    }
}

//@tags C08
/// C08.resolve — two registration orders that only interleave files differently give the same answer, PROVIDED
/// the three first-come-first-served choices agree: the import branch (resolver.rs:241, known finding F-01),
/// the plugin choice and the third-party choice (first registered among several plugins / packages defining
/// the name).  Same-file and conftest-level choices never depend on the schedule.
pub proof fn lemma_C08_resolve_order_independent(ds: Seq<DefV>, ds2: Seq<DefV>, file: PV, prov: spec_fn(PV) -> bool, fs: spec_fn(DefV) -> bool)
    requires same_per_file(ds, ds2),
        first_match(ds, fs) == first_match(ds2, fs),
        first_match(ds, p_plugin(fs)) == first_match(ds2, p_plugin(fs)),
        first_match(ds, p_third(fs)) == first_match(ds2, p_third(fs)),
    ensures op_resolve(ds, file, prov, fs) == op_resolve(ds2, file, prov, fs)
{
    lemma_best_same_per_file(ds, file, fs);
    lemma_best_same_per_file(ds2, file, fs);
    assert(ds.filter(in_file2(file)) == ds2.filter(in_file2(file)));
    if pv_has_parent(file) && file.len() > 0 { lemma_walk_order_independent(ds, ds2, file.drop_last(), prov, fs); }
}
pub proof fn lemma_walk_order_independent(ds: Seq<DefV>, ds2: Seq<DefV>, dir: PV, prov: spec_fn(PV) -> bool, fs: spec_fn(DefV) -> bool)
    requires same_per_file(ds, ds2), first_match(ds, fs) == first_match(ds2, fs),
    ensures walk(ds, dir, prov, fs) == walk(ds2, dir, prov, fs)
    decreases dir.len()
{
    let c = conftest_of(dir);
    lemma_first_match_per_file(ds, c, fs);
    lemma_first_match_per_file(ds2, c, fs);
    assert(ds.filter(in_file2(c)) == ds2.filter(in_file2(c)));
    if pv_has_parent(dir) && dir.len() > 0 { lemma_walk_order_independent(ds, ds2, dir.drop_last(), prov, fs); }
}

// ---- canary: must FAIL — without the three hypotheses resolution is NOT order independent
pub proof fn canary_C08_unconditional(ds: Seq<DefV>, ds2: Seq<DefV>, file: PV, prov: spec_fn(PV) -> bool, fs: spec_fn(DefV) -> bool)
    requires same_per_file(ds, ds2),
    ensures op_resolve(ds, file, prov, fs) == op_resolve(ds2, file, prov, fs)
{
    lemma_best_same_per_file(ds, file, fs);
    lemma_best_same_per_file(ds2, file, fs);
}
