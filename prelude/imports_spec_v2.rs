// ---------------------------------------------------------------------------------------------
// C14 (closure part): the abstract import graph and the import closure of a file.
//
// COMPOSED variant of prelude/imports_spec.rs (unit imports_closure_v2): import extraction, pytest_plugins
// extraction and module resolution are no longer uninterpreted -- `imports_of`, `plugins_of` and the resolution
// inside `target` are DEFINED through the operational specs PROVED in units imports_extract
// (prelude/imports_extract_spec.rs: imports_core, spec_pytest_plugins) and module_resolve (prelude/modres_spec.rs:
// op_resolve).  Still uninterpreted (assumed callee contracts, listed in the unit): parser, file reading, hashing,
// canonicalisation (`canon` is the one of prelude/modres_spec.rs).
// Needs, before it: prelude/modres_path.rs, modres_str.rs, modres_spec.rs, str_dotted.rs, imports_extract_spec.rs.
pub type Stmt0 = rustpython_parser::ast::Stmt;
pub type Mod0 = rustpython_parser::ast::Mod;
pub type Name = Seq<char>;
pub type MemoEntry = (u64, u64, Arc<HashSet<String>>);

// canon(p): prelude/modres_spec.rs (get_canonical_path, abstractly)
pub uninterp spec fn parse_ok(src: Seq<char>) -> bool;
pub uninterp spec fn ast_of(src: Seq<char>) -> Mod0;
/// DefaultHasher over the text (no injectivity assumed anywhere)
pub uninterp spec fn hash_of(src: Seq<char>) -> u64;
/// what get_file_content returns for a path: the file_cache entry, else the file system (a constant)
pub uninterp spec fn content_of(cache: Map<PV, Arc<String>>, p: PV) -> Option<Seq<char>>;
/// the finite universe of readable files (file_cache keys and readable files of the file system)
pub uninterp spec fn known_files(cache: Map<PV, Arc<String>>) -> Set<PV>;

// ImpV (module, star, names): prelude/imports_extract_spec.rs -- the `line` and `importing_file` fields of a
// FixtureImport play no role in the closure; imp_cv / imps_cv (FixtureImport -> ImpV) are defined in the unit
/// extract_fixture_imports as the closure sees it: the (module, star, names) parts of the records unit
/// imports_extract proves the function to return (they do not depend on the importing file: lemma_imports_core_v2)
pub open spec fn imports_of(body: Seq<Stmt0>, file: PV) -> Seq<ImpV> { imports_core(body) }
/// extract_pytest_plugins: the operational spec proved in unit imports_extract (last assignment wins)
pub open spec fn plugins_of(body: Seq<Stmt0>) -> Seq<Seq<char>> { spec_pytest_plugins(body) }
/// the (module, star, names) parts of spec_fixture_imports depend neither on the importing file nor on the line
/// index (same statement and proof as lemma_imports_core of prelude/imports_extract_l2.rs, re-proved here so that
/// that file's canaries are not pulled in)
pub proof fn lemma_imports_core_v2(stmts: Seq<Stmt0>, file: PV, li: Seq<usize>)
    ensures spec_fixture_imports(stmts, file, li).map_values(rec_core_fn()) =~= imports_core(stmts),
    decreases stmts.len(),
{
    if stmts.len() > 0 {
        lemma_imports_core_v2(stmts.drop_last(), file, li);
        let r = spec_fixture_imports(stmts.drop_last(), file, li);
        match import_rec_of(stmts.last(), file, li) {
            Some(v) => { assert(r.push(v).map_values(rec_core_fn()) =~= r.map_values(rec_core_fn()).push(v.imp)); }
            None => {}
        }
    }
}
// resolve_module_to_file: op_resolve(module, importing file, keys of file_cache, site-packages paths, editable
// source roots) of prelude/modres_spec.rs (proved in unit module_resolve); the two lists are part of Env now

/// what the import closure depends on
pub struct Env {
    pub cache: Map<PV, Arc<String>>,          // file_cache
    pub fdefs: Map<PV, Set<Name>>,            // file_definitions
    pub defkeys: Set<Name>,                   // keys of definitions
    pub sps: Seq<PV>,                         // site_packages_paths, list order
    pub ers: Seq<PV>,                         // source roots of editable_install_roots, list order
}
/// top-level statements of file f as compute_imported_fixtures sees them (None: unreadable, unparsable,
/// or not a `Mod::Module`)
pub open spec fn body_at(env: Env, f: PV) -> Option<Seq<Stmt0>> {
    match content_of(env.cache, f) {
        Some(t) => if parse_ok(t) {
            match ast_of(t) { rustpython_parser::ast::Mod::Module(m) => Some(m.body@), _ => None }
        } else { None },
        None => None,
    }
}
pub open spec fn imps(env: Env, f: PV) -> Seq<ImpV> {
    match body_at(env, f) { Some(b) => imports_of(b, f), None => Seq::<ImpV>::empty() }
}
pub open spec fn plugs(env: Env, f: PV) -> Seq<Seq<char>> {
    match body_at(env, f) { Some(b) => plugins_of(b), None => Seq::<Seq<char>>::empty() }
}
/// canonical file a module path resolves to from file f
pub open spec fn target(env: Env, module: Seq<char>, f: PV) -> Option<PV> {
    match op_resolve(module, f, env.cache.dom(), env.sps, env.ers) { Some(p) => Some(canon(p)), None => None }
}
pub open spec fn imp_target(env: Env, f: PV, i: int) -> Option<PV> { target(env, imps(env, f)[i].module, f) }
pub open spec fn plug_target(env: Env, f: PV, j: int) -> Option<PV> { target(env, plugs(env, f)[j], f) }

/// i-th import of f is a star import resolving to h
pub open spec fn star_at(env: Env, f: PV, i: int, h: PV) -> bool {
    0 <= i < imps(env, f).len() && imps(env, f)[i].star && imp_target(env, f, i) == Some(h)
}
/// j-th pytest_plugins entry of f resolves to h
pub open spec fn plug_at(env: Env, f: PV, j: int, h: PV) -> bool {
    0 <= j < plugs(env, f).len() && plug_target(env, f, j) == Some(h)
}
/// star edge f -> h of the import graph: a resolvable `from M import *` or pytest_plugins entry of f
#[verifier::opaque]
pub open spec fn edge(env: Env, f: PV, h: PV) -> bool {
    (exists|i: int| #[trigger] star_at(env, f, i, h)) || (exists|j: int| #[trigger] plug_at(env, f, j, h))
}
/// k-th name of the i-th import of f, an explicit import of a resolvable module, is a known fixture name
pub open spec fn explicit_at(env: Env, f: PV, i: int, k: int, n: Name) -> bool {
    0 <= i < imps(env, f).len() && !imps(env, f)[i].star && imp_target(env, f, i) is Some
    && 0 <= k < imps(env, f)[i].names.len() && imps(env, f)[i].names[k] == n && env.defkeys.contains(n)
}
/// explicit_names(f): names f imports explicitly that are fixture names
#[verifier::opaque]
pub open spec fn explicit_name(env: Env, f: PV, n: Name) -> bool {
    exists|i: int, k: int| #[trigger] explicit_at(env, f, i, k, n)
}
/// the names file f makes available by its own import statements, one level deep
#[verifier::opaque]
pub open spec fn in_local(env: Env, f: PV, n: Name) -> bool {
    explicit_name(env, f, n) || (exists|h: PV| #[trigger] edge(env, f, h) && sbucket(env.fdefs, h).contains(n))
}
/// n is in the closure of f, witnessed by a chain of at most `fuel` star edges
pub open spec fn in_clo(env: Env, f: PV, n: Name, fuel: nat) -> bool
    decreases fuel
{
    in_local(env, f, n) || (fuel > 0 && exists|h: PV| #[trigger] edge(env, f, h) && in_clo(env, h, n, (fuel - 1) as nat))
}
/// closure(f) = least set with explicit_names(f) ⊆ closure(f) and, for every star edge f -> h,
/// fdefs[h] ⊆ closure(f) and closure(h) ⊆ closure(f)
#[verifier::opaque]
pub open spec fn in_closure(env: Env, f: PV, n: Name) -> bool { exists|fuel: nat| #[trigger] in_clo(env, f, n, fuel) }

pub open spec fn set_in_closure(env: Env, f: PV, s: Set<Name>) -> bool {
    forall|n: Name| #[trigger] s.contains(n) ==> in_closure(env, f, n)
}
pub open spec fn set_is_closure(env: Env, f: PV, s: Set<Name>) -> bool {
    forall|n: Name| #![trigger s.contains(n)] #![trigger in_closure(env, f, n)] s.contains(n) <==> in_closure(env, f, n)
}

// ---- the three closure rules (and nothing else: in_clo is the least such predicate by construction)
pub proof fn lemma_clo_local(env: Env, f: PV, n: Name)
    requires in_local(env, f, n) ensures in_closure(env, f, n)
{
    reveal(in_closure);
    assert(in_clo(env, f, n, 0));
}
pub proof fn lemma_clo_explicit(env: Env, f: PV, i: int, k: int, n: Name)
    requires explicit_at(env, f, i, k, n) ensures in_closure(env, f, n)
{
    reveal(explicit_name); reveal(in_local);
    lemma_clo_local(env, f, n);
}
pub proof fn lemma_edge_star(env: Env, f: PV, i: int, h: PV)
    requires star_at(env, f, i, h) ensures edge(env, f, h)
{ reveal(edge); }
pub proof fn lemma_edge_plug(env: Env, f: PV, j: int, h: PV)
    requires plug_at(env, f, j, h) ensures edge(env, f, h)
{ reveal(edge); }
pub proof fn lemma_clo_fdefs(env: Env, f: PV, h: PV, n: Name)
    requires edge(env, f, h), sbucket(env.fdefs, h).contains(n) ensures in_closure(env, f, n)
{
    reveal(in_local);
    lemma_clo_local(env, f, n);
}
pub proof fn lemma_clo_step(env: Env, f: PV, h: PV, n: Name)
    requires edge(env, f, h), in_closure(env, h, n) ensures in_closure(env, f, n)
{
    reveal(in_closure);
    let fuel = choose|fuel: nat| in_clo(env, h, n, fuel);
    assert(in_clo(env, f, n, fuel + 1));
}
pub proof fn lemma_clo_step_set(env: Env, f: PV, h: PV, s: Set<Name>)
    requires edge(env, f, h), set_in_closure(env, h, s) ensures set_in_closure(env, f, s)
{
    assert forall|n: Name| #[trigger] s.contains(n) implies in_closure(env, f, n) by { lemma_clo_step(env, f, h, n); }
}

// ---- termination measure: readable files not yet on the visiting path
pub open spec fn todo(known: Set<PV>, visited: Set<PV>) -> nat { known.difference(visited).len() }
//@tags C12 C14
/// nested calls never enlarge the measure (visited only grows)
pub proof fn lemma_todo_mono(known: Set<PV>, a: Set<PV>, b: Set<PV>)
    requires a.subset_of(b) ensures todo(known, b) <= todo(known, a)
{
    vstd::set_lib::lemma_len_subset(known.difference(b), known.difference(a));
}
//@tags C12 C14
/// every descent get_imported_fixtures -> compute_imported_fixtures puts a new readable file on the visiting path:
/// the measure drops strictly, so import cycles and self imports cannot recurse forever
pub proof fn lemma_todo_insert(known: Set<PV>, a: Set<PV>, c: PV)
    requires known.contains(c), !a.contains(c) ensures todo(known, a.insert(c)) < todo(known, a)
{
    assert(known.difference(a.insert(c)) =~= known.difference(a).remove(c));
    assert(known.difference(a).contains(c));
}
//@tags C12 C14
/// the recursion depth is bounded by the number of readable files
pub proof fn lemma_C12_depth_bound(known: Set<PV>, visited: Set<PV>)
    ensures todo(known, visited) <= known.len()
{
    vstd::set_lib::lemma_len_subset(known.difference(visited), known);
}
pub proof fn lemma_nonempty(s: Set<PV>, a: PV)
    requires s.contains(a) ensures s.len() > 0
{
    if s.len() == 0 { assert(s =~= Set::<PV>::empty()); }
}

// ---------------------------------------------------------------------------------------------
// Completeness: the DFS invariant.  R = names collected so far, V = files on the visited set.
/// closure(g) ⊆ R  (g was answered from a current memo entry, or completely explored)
#[verifier::opaque]
pub open spec fn closed(env: Env, g: PV, r: Set<Name>) -> bool {
    forall|n: Name| #[trigger] in_closure(env, g, n) ==> r.contains(n)
}
/// g's own import statements have been processed: its one-level names are in R, its star targets are in V
#[verifier::opaque]
pub open spec fn expanded(env: Env, g: PV, r: Set<Name>, v: Set<PV>) -> bool {
    (forall|n: Name| #[trigger] in_local(env, g, n) ==> r.contains(n)) && (forall|h: PV| #[trigger] edge(env, g, h) ==> v.contains(h))
}
pub open spec fn done(env: Env, g: PV, r: Set<Name>, v: Set<PV>) -> bool { closed(env, g, r) || expanded(env, g, r, v) }
/// every file that entered the visited set between v0 and v1 is done
#[verifier::opaque]
pub open spec fn covered(env: Env, v0: Set<PV>, v1: Set<PV>, r: Set<Name>) -> bool {
    forall|g: PV| #[trigger] v1.contains(g) && !v0.contains(g) ==> done(env, g, r, v1)
}
pub proof fn lemma_closed_mono(env: Env, g: PV, r: Set<Name>, r2: Set<Name>)
    requires closed(env, g, r), r.subset_of(r2) ensures closed(env, g, r2)
{ reveal(closed); }
pub proof fn lemma_expanded_mono(env: Env, g: PV, r: Set<Name>, v: Set<PV>, r2: Set<Name>, v2: Set<PV>)
    requires expanded(env, g, r, v), r.subset_of(r2), v.subset_of(v2) ensures expanded(env, g, r2, v2)
{ reveal(expanded); }
pub proof fn lemma_covered_refl(env: Env, v0: Set<PV>, r: Set<Name>)
    ensures covered(env, v0, v0, r)
{ reveal(covered); }
/// one more file c, itself done
pub proof fn lemma_covered_add(env: Env, v0: Set<PV>, c: PV, r: Set<Name>)
    requires done(env, c, r, v0.insert(c)) ensures covered(env, v0, v0.insert(c), r)
{ reveal(covered); }
/// a nested call (covered from v to v2 with result t) joined into the caller's state
pub proof fn lemma_covered_join(env: Env, v0: Set<PV>, v: Set<PV>, r: Set<Name>, v2: Set<PV>, t: Set<Name>, r2: Set<Name>)
    requires covered(env, v0, v, r), covered(env, v, v2, t), v.subset_of(v2), r.subset_of(r2), t.subset_of(r2)
    ensures covered(env, v0, v2, r2)
{
    reveal(covered);
    assert forall|g: PV| #[trigger] v2.contains(g) && !v0.contains(g) implies done(env, g, r2, v2) by {
        if v.contains(g) {
            if closed(env, g, r) { lemma_closed_mono(env, g, r, r2); } else { lemma_expanded_mono(env, g, r, v, r2, v2); }
        } else {
            if closed(env, g, t) { lemma_closed_mono(env, g, t, r2); } else { lemma_expanded_mono(env, g, t, v2, r2, v2); }
        }
    }
}
pub proof fn lemma_covered_grow(env: Env, v0: Set<PV>, v: Set<PV>, r: Set<Name>, r2: Set<Name>)
    requires covered(env, v0, v, r), r.subset_of(r2) ensures covered(env, v0, v, r2)
{
    lemma_covered_refl(env, v, r2);
    lemma_covered_join(env, v0, v, r, v, r2, r2);
}
/// get_imported_fixtures after compute_imported_fixtures: c itself is expanded, everything after it covered
pub proof fn lemma_covered_close(env: Env, v0: Set<PV>, c: PV, v1: Set<PV>, r: Set<Name>)
    requires covered(env, v0.insert(c), v1, r), done(env, c, r, v1), v0.insert(c).subset_of(v1)
    ensures covered(env, v0, v1, r)
{ reveal(covered); }
/// a file without a module body (unreadable, unparsable, not Mod::Module) has no edges and no names
pub proof fn lemma_no_body(env: Env, f: PV, r: Set<Name>, v: Set<PV>)
    requires body_at(env, f) is None ensures expanded(env, f, r, v)
{
    reveal(expanded); reveal(in_local); reveal(edge); reveal(explicit_name);
}
/// top level: if every visited file is done, every visited file's closure is in R
pub proof fn lemma_complete(env: Env, v: Set<PV>, r: Set<Name>, g: PV, n: Name, fuel: nat)
    requires covered(env, Set::<PV>::empty(), v, r), v.contains(g), in_clo(env, g, n, fuel)
    ensures r.contains(n)
    decreases fuel
{
    assert(done(env, g, r, v)) by { reveal(covered); }
    if closed(env, g, r) {
        reveal(closed); reveal(in_closure);
        assert(in_closure(env, g, n));
    } else {
        reveal(expanded);
        if !in_local(env, g, n) {
            let h = choose|h: PV| #[trigger] edge(env, g, h) && in_clo(env, h, n, (fuel - 1) as nat);
            lemma_complete(env, v, r, h, n, (fuel - 1) as nat);
        }
    }
}
pub proof fn lemma_top(env: Env, v: Set<PV>, r: Set<Name>, c: PV)
    requires covered(env, Set::<PV>::empty(), v, r), v.contains(c)
    ensures closed(env, c, r)
{
    reveal(closed);
    assert forall|n: Name| #[trigger] in_closure(env, c, n) implies r.contains(n) by {
        reveal(in_closure);
        let fuel = choose|fuel: nat| in_clo(env, c, n, fuel);
        lemma_complete(env, v, r, c, n, fuel);
    }
}
pub proof fn lemma_exact(env: Env, c: PV, r: Set<Name>)
    requires closed(env, c, r), set_in_closure(env, c, r) ensures set_is_closure(env, c, r)
{ reveal(closed); }
pub proof fn lemma_exact_closed(env: Env, c: PV, r: Set<Name>)
    requires set_is_closure(env, c, r) ensures closed(env, c, r), set_in_closure(env, c, r)
{ reveal(closed); }

// ---- progress through the import list / the pytest_plugins list of file c
#[verifier::opaque]
pub open spec fn imps_done(env: Env, c: PV, upto: int, r: Set<Name>, v: Set<PV>) -> bool {
    (forall|i: int, h: PV| 0 <= i < upto && #[trigger] star_at(env, c, i, h) ==> v.contains(h) && sbucket(env.fdefs, h).subset_of(r))
    && (forall|i: int, k: int, n: Name| 0 <= i < upto && #[trigger] explicit_at(env, c, i, k, n) ==> r.contains(n))
}
#[verifier::opaque]
pub open spec fn plugs_done(env: Env, c: PV, upto: int, r: Set<Name>, v: Set<PV>) -> bool {
    forall|j: int, h: PV| 0 <= j < upto && #[trigger] plug_at(env, c, j, h) ==> v.contains(h) && sbucket(env.fdefs, h).subset_of(r)
}
pub proof fn lemma_imps_done_mono(env: Env, c: PV, upto: int, r: Set<Name>, v: Set<PV>, r2: Set<Name>, v2: Set<PV>)
    requires imps_done(env, c, upto, r, v), r.subset_of(r2), v.subset_of(v2) ensures imps_done(env, c, upto, r2, v2)
{ reveal(imps_done); }
pub proof fn lemma_plugs_done_mono(env: Env, c: PV, upto: int, r: Set<Name>, v: Set<PV>, r2: Set<Name>, v2: Set<PV>)
    requires plugs_done(env, c, upto, r, v), r.subset_of(r2), v.subset_of(v2) ensures plugs_done(env, c, upto, r2, v2)
{ reveal(plugs_done); }
pub proof fn lemma_imps_done_zero(env: Env, c: PV, r: Set<Name>, v: Set<PV>) ensures imps_done(env, c, 0, r, v)
{ reveal(imps_done); }
pub proof fn lemma_plugs_done_zero(env: Env, c: PV, r: Set<Name>, v: Set<PV>) ensures plugs_done(env, c, 0, r, v)
{ reveal(plugs_done); }
pub proof fn lemma_imps_step_unresolved(env: Env, c: PV, i: int, r: Set<Name>, v: Set<PV>)
    requires imps_done(env, c, i, r, v), imp_target(env, c, i) is None ensures imps_done(env, c, i + 1, r, v)
{ reveal(imps_done); }
pub proof fn lemma_imps_step_star(env: Env, c: PV, i: int, h: PV, r: Set<Name>, v: Set<PV>)
    requires imps_done(env, c, i, r, v), imps(env, c)[i].star, imp_target(env, c, i) == Some(h), v.contains(h), sbucket(env.fdefs, h).subset_of(r)
    ensures imps_done(env, c, i + 1, r, v)
{ reveal(imps_done); }
pub proof fn lemma_imps_step_explicit(env: Env, c: PV, i: int, r: Set<Name>, v: Set<PV>)
    requires imps_done(env, c, i, r, v), !imps(env, c)[i].star,
        forall|k: int| 0 <= k < imps(env, c)[i].names.len() && env.defkeys.contains(#[trigger] imps(env, c)[i].names[k]) ==> r.contains(imps(env, c)[i].names[k])
    ensures imps_done(env, c, i + 1, r, v)
{ reveal(imps_done); }
pub proof fn lemma_plugs_step_unresolved(env: Env, c: PV, j: int, r: Set<Name>, v: Set<PV>)
    requires plugs_done(env, c, j, r, v), plug_target(env, c, j) is None ensures plugs_done(env, c, j + 1, r, v)
{ reveal(plugs_done); }
pub proof fn lemma_plugs_step(env: Env, c: PV, j: int, h: PV, r: Set<Name>, v: Set<PV>)
    requires plugs_done(env, c, j, r, v), plug_target(env, c, j) == Some(h), v.contains(h), sbucket(env.fdefs, h).subset_of(r)
    ensures plugs_done(env, c, j + 1, r, v)
{ reveal(plugs_done); }
pub proof fn lemma_expanded_from_done(env: Env, c: PV, r: Set<Name>, v: Set<PV>)
    requires imps_done(env, c, imps(env, c).len() as int, r, v), plugs_done(env, c, plugs(env, c).len() as int, r, v)
    ensures expanded(env, c, r, v)
{
    reveal(imps_done); reveal(plugs_done); reveal(expanded); reveal(edge);
    assert forall|n: Name| #[trigger] in_local(env, c, n) implies r.contains(n) by {
        reveal(in_local); reveal(explicit_name);
        if explicit_name(env, c, n) {
            let (i, k) = choose|i: int, k: int| #[trigger] explicit_at(env, c, i, k, n);
        } else {
            let h = choose|h: PV| #[trigger] edge(env, c, h) && sbucket(env.fdefs, h).contains(n);
            if exists|i: int| #[trigger] star_at(env, c, i, h) {
                let i = choose|i: int| #[trigger] star_at(env, c, i, h);
            } else {
                let j = choose|j: int| #[trigger] plug_at(env, c, j, h);
            }
        }
    }
    assert forall|h: PV| #[trigger] edge(env, c, h) implies v.contains(h) by {
        if exists|i: int| #[trigger] star_at(env, c, i, h) {
            let i = choose|i: int| #[trigger] star_at(env, c, i, h);
        } else {
            let j = choose|j: int| #[trigger] plug_at(env, c, j, h);
        }
    }
}
pub proof fn lemma_len0_empty(s: Set<PV>)
    requires s.len() == 0 ensures s == Set::<PV>::empty()
{
    assert forall|a: PV| !s.contains(a) by { if s.contains(a) { lemma_nonempty(s, a); } }
    assert(s =~= Set::<PV>::empty());
}
