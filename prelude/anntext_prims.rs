// ---------------------------------------------------------------------------------------------
// Unit ann_text: the primitive operations of src/fixtures/docstring.rs expr_to_string on `Seq<char>` views.
// TRUSTED BASE of the unit (A3): every `assume_specification`, `external_body` helper and `axiom` below is an ASSUMED
// statement about a std / rustpython function, written to be true of the real function (documented behaviour).  What
// the unit PROVES is which of them is applied to what, in which order, in which case of the match, and the recursion.
// Self-contained on purpose (no dependency on prelude/strstruct_prims.rs, whose `trim_v` / `str::trim` clash with
// prelude/iter_slice.rs): unit ast_helpers can include this file next to its own preludes.
//   AT1  str::get(a..b)            Some(the characters between the two byte offsets) iff a <= b and both are char
//                                  boundaries of the text (which implies b <= len); else None  (byte lengths and
//                                  boundaries are vstd's UTF-8 model `encode_utf8`, not assumptions)
//   AT2  `format!` with the format strings of the table prelude/anntext_fmt_macro.rs (a local `macro_rules! format`
//        that shadows the std macro inside the unit), through external_body helpers whose body IS the `std::format!` call:   "{}.{}" -> a "." b     "{}[{}]" -> a "[" b "]"     "{} | {}" -> a " | " b
//                          "{}{}" -> a b   "{}" -> a   "{:?}" -> debug_v(a)   (+ a few near misses so that an edit
//                          of a format string is REFUTED rather than undecided)
//        where a, b = what `Display` writes for the argument (disp_v): the text of a String, the text of an Identifier
//   AT3  <[String]>::join(sep)     elements separated by sep (join_v, defined)            (@rename join vp_join)
//   AT4  slice.iter().map(f)       driven to its end by the `.collect()` that follows: f is called once on every
//                                  element, in order; the results in order                  (@rename map vp_map)
//   AT5  `<Expr as Ranged>::range` the node's own source range: an uninterpreted function ann_expr_range of the node (same
//        statement as prelude/completion_ctx_spec.rs `expr_range`; copied, not included, under its own name)
//   (Identifier::to_string, TextRange::start/end, TextSize::to_usize: build/astspec.rs; `str::to_string`,
//    Option::map / unwrap_or_else, Vec collect: vstd)

// ---- byte lengths and char boundaries (vstd::utf8) -------------------------------------------------------------------
/// UTF-8 length of a character sequence
pub open spec fn blen(s: Seq<char>) -> nat { vstd::utf8::encode_utf8(s).len() }
/// byte offset at which character k of s starts (k == |s|: the end)
pub open spec fn boff(s: Seq<char>, k: int) -> nat { blen(s.take(k)) }
/// n is a char boundary of s: the offset of some character, or the end
pub open spec fn is_bnd(s: Seq<char>, n: int) -> bool { exists|k: int| 0 <= k <= s.len() && #[trigger] boff(s, k) == n }
/// the character index whose offset is n
pub open spec fn cidx(s: Seq<char>, n: int) -> int { choose|k: int| 0 <= k <= s.len() && #[trigger] boff(s, k) == n }

// ---- AT1 ---------------------------------------------------------------------------------------------------------------
pub open spec fn get_range_v(s: Seq<char>, a: int, b: int) -> Option<Seq<char>> {
    if a <= b && is_bnd(s, a) && is_bnd(s, b) { Some(s.subrange(cidx(s, a), cidx(s, b))) } else { None }
}
/// `str::get` is generic over the index type; its meaning is pinned down for `a..b` only (the only use in this code)
pub uninterp spec fn get_v<I>(s: Seq<char>, i: I) -> Option<Seq<char>>;
/// view of the (generic) output type of a string index: the characters, for `str`
pub uninterp spec fn out_v<T: ?Sized>(x: &T) -> Seq<char>;
#[verifier::allow(undeclared_external_trait)]
pub assume_specification<'a, I: core::slice::SliceIndex<str>>[ str::get::<I> ](s: &'a str, i: I) -> (r: Option<&'a <I as core::slice::SliceIndex<str>>::Output>)
    ensures (match r { Some(t) => Some(out_v(t)), None => None::<Seq<char>> }) == get_v(s@, i);

// ---- AT5 ---------------------------------------------------------------------------------------------------------------
/// `expr.range()` (trait Ranged: the node's own `range` field through a generated 27-arm match): a function of the node
pub uninterp spec fn ann_expr_range(e: rustpython_parser::ast::Expr) -> rustpython_parser::text_size::TextRange;
pub assume_specification[ <rustpython_parser::ast::Expr as rustpython_parser::ast::Ranged>::range ](e: &rustpython_parser::ast::Expr) -> (r: rustpython_parser::text_size::TextRange)
    ensures r == ann_expr_range(*e);

// ---- AT2 ---------------------------------------------------------------------------------------------------------------
/// what `Display` writes for a value
pub uninterp spec fn disp_v<T>(t: &T) -> Seq<char>;
/// what `Debug` writes for a value (left abstract: only the pre-fix printing of constants and the out-of-range fallback use it)
pub uninterp spec fn debug_v<T>(t: &T) -> Seq<char>;
pub mod anntext_ax {
    use super::*;
    pub broadcast axiom fn axiom_out_str(x: &str)
        ensures #[trigger] out_v::<str>(x) == x@;
    pub broadcast axiom fn axiom_get_range(s: Seq<char>, i: core::ops::Range<usize>)
        ensures #[trigger] get_v::<core::ops::Range<usize>>(s, i) == get_range_v(s, i.start as int, i.end as int);
    pub broadcast axiom fn axiom_disp_string(s: &String)
        ensures #[trigger] disp_v::<String>(s) == s@;
    pub broadcast axiom fn axiom_disp_identifier(i: &rustpython_parser::ast::Identifier)
        ensures #[trigger] disp_v::<rustpython_parser::ast::Identifier>(i) == idv(i);
}
pub use anntext_ax::*;
#[verifier::external_body]
pub fn vp_fmt_dot<A: core::fmt::Display, B: core::fmt::Display>(a: &A, b: &B) -> (r: String)
    ensures r@ == disp_v(a) + "."@ + disp_v(b)
{ std::format!("{}.{}", a, b) }
#[verifier::external_body]
pub fn vp_fmt_sub<A: core::fmt::Display, B: core::fmt::Display>(a: &A, b: &B) -> (r: String)
    ensures r@ == disp_v(a) + "["@ + disp_v(b) + "]"@
{ std::format!("{}[{}]", a, b) }
#[verifier::external_body]
pub fn vp_fmt_bitor<A: core::fmt::Display, B: core::fmt::Display>(a: &A, b: &B) -> (r: String)
    ensures r@ == disp_v(a) + " | "@ + disp_v(b)
{ std::format!("{} | {}", a, b) }
#[verifier::external_body]
pub fn vp_fmt_bitor_tight<A: core::fmt::Display, B: core::fmt::Display>(a: &A, b: &B) -> (r: String)
    ensures r@ == disp_v(a) + "|"@ + disp_v(b)
{ std::format!("{}|{}", a, b) }
#[verifier::external_body]
pub fn vp_fmt_cat<A: core::fmt::Display, B: core::fmt::Display>(a: &A, b: &B) -> (r: String)
    ensures r@ == disp_v(a) + disp_v(b)
{ std::format!("{}{}", a, b) }
#[verifier::external_body]
pub fn vp_fmt_comma<A: core::fmt::Display, B: core::fmt::Display>(a: &A, b: &B) -> (r: String)
    ensures r@ == disp_v(a) + ", "@ + disp_v(b)
{ std::format!("{}, {}", a, b) }
#[verifier::external_body]
pub fn vp_fmt_paren<A: core::fmt::Display, B: core::fmt::Display>(a: &A, b: &B) -> (r: String)
    ensures r@ == disp_v(a) + "("@ + disp_v(b) + ")"@
{ std::format!("{}({})", a, b) }
#[verifier::external_body]
pub fn vp_fmt_one<A: core::fmt::Display>(a: &A) -> (r: String)
    ensures r@ == disp_v(a)
{ std::format!("{}", a) }
#[verifier::external_body]
pub fn vp_fmt_debug<A: core::fmt::Debug>(a: &A) -> (r: String)
    ensures r@ == debug_v(a)
{ std::format!("{:?}", a) }

// ---- AT3 ---------------------------------------------------------------------------------------------------------------
pub open spec fn ssv(v: Seq<String>) -> Seq<Seq<char>> { v.map_values(|x: String| x@) }
pub open spec fn join_v(ss: Seq<Seq<char>>, sep: Seq<char>) -> Seq<char>
    decreases ss.len()
{
    if ss.len() == 0 { Seq::empty() } else if ss.len() == 1 { ss[0] } else { join_v(ss.drop_last(), sep) + sep + ss.last() }
}
pub trait VpJoin { fn vp_join(&self, sep: &str) -> (r: String); }
impl VpJoin for Vec<String> {
    #[verifier::external_body]
    fn vp_join(&self, sep: &str) -> (r: String)
        ensures r@ == join_v(ssv(self@), sep@)
    { self.join(sep) }
}

// ---- AT4 ---------------------------------------------------------------------------------------------------------------
pub trait VpSliceMap<'a, T: 'a>: Sized + Iterator<Item = &'a T> {
    fn vp_map<B, F: FnMut(&'a T) -> B>(self, f: F) -> (r: std::vec::IntoIter<B>)
        requires forall|j: int| 0 <= j < self.remaining().len() ==> call_requires(f, (#[trigger] self.remaining()[j],));
}
impl<'a, T: 'a> VpSliceMap<'a, T> for core::slice::Iter<'a, T> {
    #[verifier::external_body]
    fn vp_map<B, F: FnMut(&'a T) -> B>(self, f: F) -> (r: std::vec::IntoIter<B>)
        ensures r.obeys_prophetic_iter_laws(), r.decrease() is Some,
            r.remaining().len() == self.remaining().len(),
            forall|j: int| 0 <= j < self.remaining().len() ==> call_ensures(f, (self.remaining()[j],), #[trigger] r.remaining()[j]),
    { self.map(f).collect::<Vec<B>>().into_iter() }
}
