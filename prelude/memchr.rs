// ---------------------------------------------------------------------------------------------
// memchr::memchr_iter specification shim (trusted base A3, transformation T6).  Needs prelude/bytes.rs (`ints`).
// The real function (crate memchr 2.x) returns the iterator `Memchr<'_>`; the shim returns a `vec::IntoIter<usize>`
// (whose iterator laws vstd knows) — the extracted code only consumes it with a `for` loop.
// ASSUMED, and nothing else: the yielded sequence y
//   (1) holds only positions of the needle:   0 <= y[k] < haystack.len()  and  haystack[y[k]] == needle,
//   (2) is strictly increasing,
//   (3) misses none: every i with haystack[i] == needle occurs in y.
// (memchr docs: "An iterator over all occurrences of a single byte in a haystack", forward iteration.)
pub open spec fn yields_pos(c: u8, s: Seq<u8>, y: Seq<int>) -> bool {
    &&& forall|k: int| 0 <= k < y.len() ==> 0 <= (#[trigger] y[k]) < s.len() && s[y[k]] == c
    &&& forall|j: int, k: int| 0 <= j < k < y.len() ==> (#[trigger] y[j]) < (#[trigger] y[k])
    &&& forall|i: int| 0 <= i < s.len() && (#[trigger] s[i]) == c ==> y.contains(i)
}

pub mod memchr {
    use super::*;
    #[verifier::external_body]
    pub fn memchr_iter(needle: u8, haystack: &[u8]) -> (r: std::vec::IntoIter<usize>)
        ensures r.obeys_prophetic_iter_laws(), r.decrease() is Some,
            yields_pos(needle, haystack@, ints(r.remaining())),
    { unimplemented!() }
}

/// operational counterpart: the ascending positions of byte c in s
pub open spec fn positions(c: u8, s: Seq<u8>) -> Seq<int>
    decreases s.len(),
{
    if s.len() == 0 { Seq::<int>::empty() }
    else if s.last() == c { positions(c, s.drop_last()).push(s.len() - 1) }
    else { positions(c, s.drop_last()) }
}

// PROVED: `yields_pos` determines the sequence, and it is `positions` (so the shim's contract is equivalent to
// "memchr_iter yields positions(needle, haystack)").
pub mod memchr_lemmas {
    use super::*;
    pub proof fn lemma_positions_sound(c: u8, s: Seq<u8>)
        ensures yields_pos(c, s, positions(c, s)),
        decreases s.len(),
    {
        if s.len() > 0 {
            let t = s.drop_last();
            let n = s.len() - 1;
            lemma_positions_sound(c, t);
            let pt = positions(c, t);
            let y = positions(c, s);
            assert forall|k: int| 0 <= k < y.len() implies 0 <= (#[trigger] y[k]) < s.len() && s[y[k]] == c by {
                if k < pt.len() { assert(y[k] == pt[k]); assert(t[pt[k]] == s[pt[k]]); }
            }
            assert forall|j: int, k: int| 0 <= j < k < y.len() implies (#[trigger] y[j]) < (#[trigger] y[k]) by {
                assert(y[j] == pt[j]);
                if k < pt.len() { assert(y[k] == pt[k]); }
            }
            assert forall|i: int| 0 <= i < s.len() && (#[trigger] s[i]) == c implies y.contains(i) by {
                if i < n {
                    assert(t[i] == c);
                    assert(pt.contains(i));
                    let k = choose|k: int| 0 <= k < pt.len() && pt[k] == i;
                    assert(y[k] == i);
                } else {
                    assert(y[y.len() - 1] == i);
                }
            }
        }
    }

    pub broadcast proof fn lemma_positions_unique(c: u8, s: Seq<u8>, y: Seq<int>)
        requires #[trigger] yields_pos(c, s, y),
        ensures y == positions(c, s),
        decreases s.len(),
    {
        if s.len() == 0 {
            if y.len() > 0 { assert(0 <= y[0] < s.len()); }
            assert(y =~= positions(c, s));
        } else {
            let t = s.drop_last();
            let n = s.len() - 1;
            if s.last() == c {
                assert(s[n] == c);
                assert(y.contains(n));
                let k = choose|k: int| 0 <= k < y.len() && y[k] == n;
                if k < y.len() - 1 { assert(y[k] < y[y.len() - 1]); assert(y[y.len() - 1] < s.len()); }
                let y1 = y.drop_last();
                assert forall|k: int| 0 <= k < y1.len() implies 0 <= (#[trigger] y1[k]) < t.len() && t[y1[k]] == c by {
                    assert(y1[k] == y[k]); assert(y[k] < y[y.len() - 1]); assert(s[y[k]] == c);
                }
                assert forall|j: int, k: int| 0 <= j < k < y1.len() implies (#[trigger] y1[j]) < (#[trigger] y1[k]) by {
                    assert(y1[j] == y[j] && y1[k] == y[k]);
                }
                assert forall|i: int| 0 <= i < t.len() && (#[trigger] t[i]) == c implies y1.contains(i) by {
                    assert(s[i] == c);
                    assert(y.contains(i));
                    let k = choose|k: int| 0 <= k < y.len() && y[k] == i;
                    assert(y1[k] == i);
                }
                lemma_positions_unique(c, t, y1);
                assert(y =~= y1.push(n));
            } else {
                assert forall|k: int| 0 <= k < y.len() implies 0 <= (#[trigger] y[k]) < t.len() && t[y[k]] == c by {
                    assert(s[y[k]] == c);
                }
                assert forall|i: int| 0 <= i < t.len() && (#[trigger] t[i]) == c implies y.contains(i) by {
                    assert(s[i] == c);
                }
                lemma_positions_unique(c, t, y);
            }
        }
    }

    /// the occurrences before offset o are a prefix of all occurrences
    pub proof fn lemma_positions_prefix(c: u8, s: Seq<u8>, o: int, m: int)
        requires 0 <= o <= s.len(), 0 <= m <= positions(c, s).len(),
            forall|k: int| 0 <= k < m ==> (#[trigger] positions(c, s)[k]) < o,
            forall|k: int| m <= k < positions(c, s).len() ==> (#[trigger] positions(c, s)[k]) >= o,
        ensures positions(c, s.take(o)) == positions(c, s).take(m),
    {
        let pos = positions(c, s);
        let y = pos.take(m);
        let t = s.take(o);
        lemma_positions_sound(c, s);
        assert forall|k: int| 0 <= k < y.len() implies 0 <= (#[trigger] y[k]) < t.len() && t[y[k]] == c by {
            assert(y[k] == pos[k]);
            assert(s[pos[k]] == c);
        }
        assert forall|j: int, k: int| 0 <= j < k < y.len() implies (#[trigger] y[j]) < (#[trigger] y[k]) by {
            assert(y[j] == pos[j] && y[k] == pos[k]);
        }
        assert forall|i: int| 0 <= i < t.len() && (#[trigger] t[i]) == c implies y.contains(i) by {
            assert(s[i] == c);
            assert(pos.contains(i));
            let k = choose|k: int| 0 <= k < pos.len() && pos[k] == i;
            if k >= m { assert(pos[k] >= o); }
            assert(y[k] == i);
        }
        lemma_positions_unique(c, t, y);
    }
}
pub use memchr_lemmas::*;
