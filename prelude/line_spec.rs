// ---------------------------------------------------------------------------------------------
// MECHANICAL COPY of the line / column specification functions of units/line_index.rs (is_line_index, op_line,
// op_col, line_post, lemma_line_sound) so that the contracts imported by `//@stub line_index get_line_from_offset`
// / `get_char_position_from_offset` can be read in another unit.  Needs prelude/bytes.rs (`ints`).
// Only change: is_line_index is OPAQUE here (its pairwise quantifier fires on every index term of a caller that
// merely passes the line index on); lemma_line_sound reveals it.
/// a line index: the byte offsets at which lines start — non-empty, starts with 0, strictly increasing
#[verifier::opaque]
pub open spec fn is_line_index(idx: Seq<int>) -> bool {
    &&& idx.len() > 0
    &&& idx[0] == 0
    &&& forall|i: int, j: int| 0 <= i < j < idx.len() ==> (#[trigger] idx[i]) < (#[trigger] idx[j])
}
/// 1-based line of byte offset o: the (1-based) number of the last line start that is <= o
pub open spec fn op_line(idx: Seq<int>, o: int) -> int
    decreases idx.len(),
{
    if idx.len() == 0 { 0 } else if idx.last() <= o { idx.len() as int } else { op_line(idx.drop_last(), o) }
}
/// column of byte offset o: distance from the start of its line
pub open spec fn op_col(idx: Seq<int>, o: int) -> int { o - idx[op_line(idx, o) - 1] }
/// declarative reading of "r is the 1-based line containing offset o"
pub open spec fn line_post(idx: Seq<int>, o: int, r: int) -> bool {
    &&& 1 <= r <= idx.len()
    &&& idx[r - 1] <= o
    &&& (r < idx.len() ==> o < idx[r])
}
pub proof fn lemma_line_sound(idx: Seq<int>, o: int)
    requires is_line_index(idx), 0 <= o,
    ensures line_post(idx, o, op_line(idx, o)),
    decreases idx.len(),
{
    reveal(is_line_index);
    if idx.last() <= o {
    } else {
        if idx.len() == 1 { assert(idx.last() == idx[0]); }
        let t = idx.drop_last();
        assert(is_line_index(t)) by {
            assert(t[0] == idx[0]);
            assert forall|i: int, j: int| 0 <= i < j < t.len() implies (#[trigger] t[i]) < (#[trigger] t[j]) by {
                assert(t[i] == idx[i] && t[j] == idx[j]);
            }
        }
        lemma_line_sound(t, o);
        let r = op_line(t, o);
        assert(t[r - 1] == idx[r - 1]);
        if r < t.len() { assert(t[r] == idx[r]); } else { assert(idx[r] == idx.last()); }
    }
}
