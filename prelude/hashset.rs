// ---------------------------------------------------------------------------------------------
// std::collections::HashSet specification shim (trusted base A3, transformation T6): same method
// names and signatures as the std type for the subset the extracted code uses; iteration yields
// *some* duplicate-free enumeration of the set (a vec::IntoIter, whose iterator laws vstd knows),
// so nothing proved may depend on hash order.
#[verifier::external_body]
#[verifier::reject_recursive_types(T)]
pub struct HashSet<T: KeyView> { inner: std::collections::HashSet<T> }

impl<T: KeyView> HashSet<T> {
    pub uninterp spec fn s(&self) -> Set<T::KV>;

    #[verifier::external_body]
    pub fn new() -> (r: Self) ensures r.s() == Set::<T::KV>::empty()
    { unimplemented!() }

    #[verifier::external_body]
    pub fn insert(&mut self, v: T) -> (r: bool)
        ensures final(self).s() == old(self).s().insert(v.kview()), r == !old(self).s().contains(v.kview())
    { unimplemented!() }

    #[verifier::external_body]
    pub fn remove<Q: KeyView<KV = T::KV> + ?Sized>(&mut self, v: &Q) -> (r: bool)
        ensures final(self).s() == old(self).s().remove(v.kview()), r == old(self).s().contains(v.kview())
    { unimplemented!() }

    #[verifier::external_body]
    pub fn contains<Q: KeyView<KV = T::KV> + ?Sized>(&self, v: &Q) -> (r: bool)
        ensures r == self.s().contains(v.kview())
    { unimplemented!() }

    #[verifier::external_body]
    pub fn len(&self) -> (r: usize) ensures r == self.s().len()
    { unimplemented!() }

    #[verifier::external_body]
    pub fn is_empty(&self) -> (r: bool) ensures r == (self.s().len() == 0)
    { unimplemented!() }

    #[verifier::external_body]
    pub fn iter<'a>(&'a self) -> (r: std::vec::IntoIter<&'a T>)
        ensures r.obeys_prophetic_iter_laws(), r.decrease() is Some,
            r.remaining().len() == self.s().len(),
            forall|i: int| 0 <= i < r.remaining().len() ==> self.s().contains((#[trigger] r.remaining()[i]).kview()),
            forall|i: int, j: int| 0 <= i < j < r.remaining().len() ==> r.remaining()[i].kview() != r.remaining()[j].kview(),
            forall|k: T::KV| self.s().contains(k) ==> exists|i: int| 0 <= i < r.remaining().len() && #[trigger] r.remaining()[i].kview() == k,
    { unimplemented!() }
}

impl<T: KeyView> IntoIterator for HashSet<T> {
    type Item = T;
    type IntoIter = std::vec::IntoIter<T>;
    #[verifier::external_body]
    fn into_iter(self) -> (r: std::vec::IntoIter<T>)
        ensures r.obeys_prophetic_iter_laws(), r.decrease() is Some,
            r.remaining().len() == self.s().len(),
            forall|i: int| 0 <= i < r.remaining().len() ==> self.s().contains((#[trigger] r.remaining()[i]).kview()),
            forall|i: int, j: int| 0 <= i < j < r.remaining().len() ==> r.remaining()[i].kview() != r.remaining()[j].kview(),
            forall|k: T::KV| self.s().contains(k) ==> exists|i: int| 0 <= i < r.remaining().len() && #[trigger] r.remaining()[i].kview() == k,
    { unimplemented!() }
}

impl<T: KeyView> Default for HashSet<T> {
    #[verifier::external_body]
    fn default() -> (r: Self) ensures r.s() == Set::<T::KV>::empty()
    { unimplemented!() }
}
pub mod hs_ax {
    use super::*;
    pub broadcast axiom fn axiom_default_hashset<T: KeyView>()
        ensures #[trigger] default_val::<HashSet<T>>().s() == Set::<T::KV>::empty();
}
pub use hs_ax::*;
