// ---------------------------------------------------------------------------------------------
// Unit cli_tree: operational specification of print_fixtures_tree (src/fixtures/cli.rs), phase by phase, over the
// views of prelude/clitree_spec.rs.  Needs cli_spec.rs, clitree_btree.rs, clitree_shims.rs, clitree_spec.rs.

// ---- views of the local vectors ---------------------------------------------------------------------------------------
pub open spec fn ppairs_v(s: Seq<(PathBuf, PathBuf)>) -> Seq<(PV, PV)> { s.map_values(|e: (PathBuf, PathBuf)| (pbv(&e.0), pbv(&e.1))) }
pub open spec fn mvs_v(s: Seq<((PathBuf, String), (PathBuf, String))>) -> Seq<(CKey, CKey)> {
    s.map_values(|e: ((PathBuf, String), (PathBuf, String))| (e.0.kview(), e.1.kview()))
}

// ---- phase A / C: the file -> names table and the autouse keys, from the definitions ---------------------------------
/// one of the first `upto` definitions registered under key.1 lives in file key.0
pub open spec fn has_def_upto(defs: Map<Seq<char>, Seq<DefV>>, key: CKey, upto: int) -> bool {
    exists|i: int| 0 <= i < upto && i < bucket(defs, key.1).len() && (#[trigger] bucket(defs, key.1)[i]).file == key.0
}
/// ... and is autouse
pub open spec fn au_def_upto(defs: Map<Seq<char>, Seq<DefV>>, key: CKey, upto: int) -> bool {
    exists|i: int| 0 <= i < upto && i < bucket(defs, key.1).len() && (#[trigger] bucket(defs, key.1)[i]).file == key.0 && bucket(defs, key.1)[i].autouse
}
pub open spec fn au_def_in(defs: Map<Seq<char>, Seq<DefV>>, key: CKey) -> bool { au_def_upto(defs, key, bucket(defs, key.1).len() as int) }
pub open spec fn in_ff(ff: FFV, f: PV, n: Seq<char>) -> bool { ff.contains_key(f) && ff[f].contains(n) }
/// file_fixtures after the first loop: f -> { n : some definition registered under n lives in f }, no empty entries
pub open spec fn is_ff0(ff: FFV, defs: Map<Seq<char>, Seq<DefV>>) -> bool {
    &&& forall|f: PV, n: Seq<char>| #![trigger in_ff(ff, f, n)] #![trigger has_def_in(defs, (f, n))] in_ff(ff, f, n) <==> has_def_in(defs, (f, n))
    &&& forall|f: PV| #[trigger] ff.contains_key(f) ==> exists|n: Seq<char>| ff[f].contains(n)
}
/// autouse_fixtures after its loop: (f, n) such that SOME definition registered under n in f is autouse
pub open spec fn is_au0(au: Set<CKey>, defs: Map<Seq<char>, Seq<DefV>>) -> bool {
    forall|k: CKey| #[trigger] au.contains(k) <==> au_def_in(defs, k)
}
/// loop invariants of the two double loops: names in `done` are finished, name nm up to its upto-th definition
pub open spec fn ff_inv(ff: FFV, defs: Map<Seq<char>, Seq<DefV>>, done: Set<Seq<char>>, nm: Seq<char>, upto: int) -> bool {
    &&& forall|f: PV, n: Seq<char>| #[trigger] in_ff(ff, f, n)
            <==> ((done.contains(n) && has_def_in(defs, (f, n))) || (n == nm && has_def_upto(defs, (f, nm), upto)))
    &&& forall|f: PV| #[trigger] ff.contains_key(f) ==> exists|n: Seq<char>| ff[f].contains(n)
}
pub open spec fn au_inv(au: Set<CKey>, defs: Map<Seq<char>, Seq<DefV>>, done: Set<Seq<char>>, nm: Seq<char>, upto: int) -> bool {
    forall|k: CKey| #[trigger] au.contains(k) <==> ((done.contains(k.1) && au_def_in(defs, k)) || (k.1 == nm && au_def_upto(defs, k, upto)))
}
pub proof fn lemma_ff0_unique(a: FFV, b: FFV, defs: Map<Seq<char>, Seq<DefV>>)
    requires is_ff0(a, defs), is_ff0(b, defs)
    ensures a =~= b
{
    assert forall|f: PV| a.contains_key(f) <==> b.contains_key(f) by {
        if a.contains_key(f) { let n = choose|n: Seq<char>| a[f].contains(n); assert(in_ff(a, f, n)); assert(has_def_in(defs, (f, n))); assert(in_ff(b, f, n)); }
        if b.contains_key(f) { let n = choose|n: Seq<char>| b[f].contains(n); assert(in_ff(b, f, n)); assert(has_def_in(defs, (f, n))); assert(in_ff(a, f, n)); }
    }
    assert forall|f: PV| a.contains_key(f) implies a[f] =~= b[f] by {
        assert forall|n: Seq<char>| a[f].contains(n) <==> b[f].contains(n) by {
            if a[f].contains(n) { assert(in_ff(a, f, n)); assert(has_def_in(defs, (f, n))); assert(in_ff(b, f, n)); }
            if b[f].contains(n) { assert(in_ff(b, f, n)); assert(has_def_in(defs, (f, n))); assert(in_ff(a, f, n)); }
        }
    }
}
pub proof fn lemma_au0_unique(a: Set<CKey>, b: Set<CKey>, defs: Map<Seq<char>, Seq<DefV>>)
    requires is_au0(a, defs), is_au0(b, defs)
    ensures a =~= b
{
    assert forall|k: CKey| a.contains(k) <==> b.contains(k) by { assert(a.contains(k) <==> au_def_in(defs, k)); assert(b.contains(k) <==> au_def_in(defs, k)); }
}

// ---- phase D: which files are re-labelled (editable installs outside the workspace) -------------------------------------
/// the install is skipped: its source root and the workspace root are nested either way
pub open spec fn overlaps(i: InstV, ws: Option<PV>) -> bool {
    match ws { Some(w) => pv_is_prefix(w, i.src) || pv_is_prefix(i.src, w), None => false }
}
pub open spec fn under_fn(src: PV) -> spec_fn(PV) -> bool { |k: PV| pv_is_prefix(src, k) }
/// the virtual path shown for file k of install i: site-packages + (k relative to the source root)
pub open spec fn virt(i: InstV, k: PV) -> PV { i.sp + k.skip(i.src.len() as int) }
pub open spec fn pair_fn(i: InstV) -> spec_fn(PV) -> (PV, PV) { |k: PV| (k, virt(i, k)) }
/// the (original, virtual) pairs install i contributes, in key order
pub open spec fn inst_pairs(i: InstV, keys: Seq<PV>) -> Seq<(PV, PV)> { keys.filter(under_fn(i.src)).map_values(pair_fn(i)) }
/// `remapped` after the first n installs (list order)
pub open spec fn op_remapped(insts: Seq<InstV>, ws: Option<PV>, keys: Seq<PV>, n: int) -> Seq<(PV, PV)>
    decreases n
{
    if n <= 0 { Seq::empty() } else {
        op_remapped(insts, ws, keys, n - 1) + (if overlaps(insts[n - 1], ws) { Seq::<(PV, PV)>::empty() } else { inst_pairs(insts[n - 1], keys) })
    }
}
/// the label directory of install i: site-packages / part_1 / .. / part_m, parts = raw name split at '.', '-' -> '_'
pub open spec fn label_upto(i: InstV, m: int) -> PV
    decreases m
{
    if m <= 0 { i.sp } else { label_upto(i, m - 1) + str_path(dash_us(split_dot(i.raw)[m - 1])) }
}
pub open spec fn label(i: InstV) -> PV { label_upto(i, split_dot(i.raw).len() as int) }
/// `editable_dirs` after the first n installs: the label of every non-skipped install that re-labels at least one file
pub open spec fn op_dirs(insts: Seq<InstV>, ws: Option<PV>, keys: Seq<PV>, n: int) -> Set<PV>
    decreases n
{
    if n <= 0 { Set::empty() } else {
        let d = op_dirs(insts, ws, keys, n - 1);
        let i = insts[n - 1];
        if !overlaps(i, ws) && keys.filter(under_fn(i.src)).len() > 0 && split_dot(i.raw).len() > 0 { d.insert(label(i)) } else { d }
    }
}

// ---- phase E: re-keying file_fixtures, pair by pair ---------------------------------------------------------------------
pub open spec fn ff_step(ff: FFV, e: (PV, PV)) -> FFV { if ff.contains_key(e.0) { ff.remove(e.0).insert(e.1, ff[e.0]) } else { ff } }
pub open spec fn fold_ff(ff: FFV, rv: Seq<(PV, PV)>, n: int) -> FFV
    decreases n
{
    if n <= 0 { ff } else { ff_step(fold_ff(ff, rv, n - 1), rv[n - 1]) }
}

// ---- phase F: re-keying the counts and the autouse keys -----------------------------------------------------------------
/// the keys of file o met along the enumeration ks (hash order), each moved to file v
pub open spec fn of_file(o: PV) -> spec_fn(CKey) -> bool { |k: CKey| k.0 == o }
pub open spec fn move_fn(v: PV) -> spec_fn(CKey) -> (CKey, CKey) { |k: CKey| (k, (v, k.1)) }
pub open spec fn block_moves(ks: Seq<CKey>, e: (PV, PV)) -> Seq<(CKey, CKey)> { ks.filter(of_file(e.0)).map_values(move_fn(e.1)) }
/// all moves: for the b-th pair, the keys of its original file in the order kss[b] enumerated the key set
pub open spec fn moves_of(rv: Seq<(PV, PV)>, kss: Seq<Seq<CKey>>, n: int) -> Seq<(CKey, CKey)>
    decreases n
{
    if n <= 0 { Seq::empty() } else { moves_of(rv, kss, n - 1) + block_moves(kss[n - 1], rv[n - 1]) }
}
/// `if let Some(count) = counts.remove(&old) { counts.insert(new, count); }`
pub open spec fn cm_step(cm: Map<CKey, usize>, mv: (CKey, CKey)) -> Map<CKey, usize> {
    if cm.contains_key(mv.0) { cm.remove(mv.0).insert(mv.1, cm[mv.0]) } else { cm }
}
pub open spec fn apply_moves(cm: Map<CKey, usize>, mvs: Seq<(CKey, CKey)>, n: int) -> Map<CKey, usize>
    decreases n
{
    if n <= 0 { cm } else { cm_step(apply_moves(cm, mvs, n - 1), mvs[n - 1]) }
}
/// `autouse.remove(&old); autouse.insert(new);`
pub open spec fn au_step(au: Set<CKey>, mv: (CKey, CKey)) -> Set<CKey> { au.remove(mv.0).insert(mv.1) }
pub open spec fn apply_au(au: Set<CKey>, mvs: Seq<(CKey, CKey)>, n: int) -> Set<CKey>
    decreases n
{
    if n <= 0 { au } else { au_step(apply_au(au, mvs, n - 1), mvs[n - 1]) }
}
/// ks enumerates the finite set d without repetition (what iterating a hash table gives)
pub open spec fn is_enum_of<A>(ks: Seq<A>, d: Set<A>) -> bool {
    &&& ks.no_duplicates()
    &&& forall|i: int| 0 <= i < ks.len() ==> d.contains(#[trigger] ks[i])
    &&& forall|x: A| d.contains(x) ==> exists|i: int| 0 <= i < ks.len() && #[trigger] ks[i] == x
}
pub open spec fn valid_orders(kss: Seq<Seq<CKey>>, d: Set<CKey>, n: int) -> bool {
    kss.len() == n && forall|b: int| 0 <= b < n ==> is_enum_of(#[trigger] kss[b], d)
}

// ---- phase G: all_paths = the files and their ancestor directories below the root ---------------------------------------
/// the directories added for file/directory v: its ancestors, up to (excluding) the root / the empty path
pub open spec fn anc(v: PV, root: PV) -> Set<PV>
    decreases v.len()
{
    if !pv_has_parent(v) || v.len() == 0 { Set::empty() } else {
        let q = v.drop_last();
        if q == root || q.len() == 0 { Set::empty() } else { anc(q, root).insert(q) }
    }
}
pub open spec fn paths_upto(keys: Seq<PV>, root: PV, n: int) -> Set<PV>
    decreases n
{
    if n <= 0 { Set::empty() } else { paths_upto(keys, root, n - 1).insert(keys[n - 1]).union(anc(keys[n - 1], root)) }
}

// ---- phase H: the directory -> children table ---------------------------------------------------------------------------
/// c is filed under its parent directory
pub open spec fn goes(c: PV, root: PV) -> bool { pv_has_parent(c) && c.len() > 0 && c.drop_last() != root && c.drop_last().len() != 0 }
pub open spec fn tree_upto(ps: Seq<PV>, root: PV, n: int) -> TreeV
    decreases n
{
    if n <= 0 { Map::empty() } else {
        let t = tree_upto(ps, root, n - 1);
        let c = ps[n - 1];
        if goes(c, root) { t.insert(c.drop_last(), bucket(t, c.drop_last()).push(c)) } else { t }
    }
}

// ---- phase J: the top-level entries and the whole output ------------------------------------------------------------------
pub open spec fn top_fn(root: PV) -> spec_fn(PV) -> bool { |c: PV| pv_has_parent(c) && c.len() > 0 && c.drop_last() == root }
pub open spec fn op_tops(ctx: Ctx, dirs: Set<PV>, top: Seq<PV>, n: int) -> Seq<Ev>
    decreases n
{
    if n <= 0 { Seq::empty() } else { op_tops(ctx, dirs, top, n - 1) + op_node(ctx, dirs, top[n - 1], ""@, n - 1 == top.len() - 1, true) }
}
/// what print_fixtures_tree is a function of
pub struct ListIn {
    pub ff0: FFV, pub cm0: Map<CKey, usize>, pub au0: Set<CKey>,
    pub insts: Seq<InstV>, pub ws: Option<PV>, pub root: PV, pub skip: bool, pub only: bool,
}
pub open spec fn op_keys0(li: ListIn) -> Seq<PV> { sorted_paths(li.ff0.dom()) }
pub open spec fn op_rv(li: ListIn) -> Seq<(PV, PV)> { op_remapped(li.insts, li.ws, op_keys0(li), li.insts.len() as int) }
pub open spec fn op_dirs_all(li: ListIn) -> Set<PV> { op_dirs(li.insts, li.ws, op_keys0(li), li.insts.len() as int) }
pub open spec fn op_ff(li: ListIn) -> FFV { fold_ff(li.ff0, op_rv(li), op_rv(li).len() as int) }
pub open spec fn op_keys1(li: ListIn) -> Seq<PV> { sorted_paths(op_ff(li).dom()) }
pub open spec fn op_paths(li: ListIn) -> Set<PV> { paths_upto(op_keys1(li), li.root, op_keys1(li).len() as int) }
pub open spec fn op_ps(li: ListIn) -> Seq<PV> { sorted_paths(op_paths(li)) }
pub open spec fn op_tree(li: ListIn) -> TreeV { tree_upto(op_ps(li), li.root, op_ps(li).len() as int) }
pub open spec fn op_top(li: ListIn) -> Seq<PV> { op_ps(li).filter(top_fn(li.root)) }
pub open spec fn op_ctx(li: ListIn, cm: Map<CKey, usize>, au: Set<CKey>) -> Ctx {
    Ctx { ff: op_ff(li), tree: op_tree(li), cm: cm, au: au, skip: li.skip, only: li.only }
}
/// the events of one run, given the re-keyed counts and autouse keys
pub open spec fn op_list_out(li: ListIn, cm: Map<CKey, usize>, au: Set<CKey>) -> Seq<Ev> {
    seq![Ev::Header { root: li.root }, Ev::Blank]
        + (if op_ff(li).dom().len() == 0 { seq![Ev::NoFixtures] }
           else { op_tops(op_ctx(li, cm, au), op_dirs_all(li), op_top(li), op_top(li).len() as int) })
}
/// the re-keyed counts / autouse keys for given hash iteration orders
pub open spec fn op_cm(li: ListIn, kss: Seq<Seq<CKey>>) -> Map<CKey, usize> {
    let mvs = moves_of(op_rv(li), kss, op_rv(li).len() as int);
    apply_moves(li.cm0, mvs, mvs.len() as int)
}
pub open spec fn op_au(li: ListIn, kss: Seq<Seq<CKey>>) -> Set<CKey> {
    let mvs = moves_of(op_rv(li), kss, op_rv(li).len() as int);
    apply_au(li.au0, mvs, mvs.len() as int)
}
/// postcondition of print_fixtures_tree: the output appended is op_list_out for the counts / autouse keys re-keyed along
/// SOME enumeration orders of the two hash tables (one order per re-labelled file)
pub open spec fn list_post(o_old: Seq<Ev>, o_new: Seq<Ev>, li: ListIn) -> bool {
    exists|kss: Seq<Seq<CKey>>, akss: Seq<Seq<CKey>>|
        valid_orders(kss, li.cm0.dom(), op_rv(li).len() as int) && valid_orders(akss, li.au0, op_rv(li).len() as int)
        && o_new == o_old + #[trigger] op_list_out(li, op_cm(li, kss), op_au(li, akss))
}
/// li is the input read off the database: the tables built from the definitions, the counts of
/// compute_definition_usage_counts, the editable installs, the workspace root
pub open spec fn list_inputs(li: ListIn, defs: Map<Seq<char>, Seq<DefV>>, uses: Map<PV, Seq<UseV>>, provf: spec_fn(Seq<char>) -> spec_fn(PV) -> bool,
        insts: Seq<InstV>, ws: Option<PV>, root: PV, skip: bool, only: bool) -> bool {
    &&& is_ff0(li.ff0, defs) &&& counts_post(li.cm0, defs, uses, provf) &&& is_au0(li.au0, defs)
    &&& li.insts == insts &&& li.ws == ws &&& li.root == root &&& li.skip == skip &&& li.only == only
}
