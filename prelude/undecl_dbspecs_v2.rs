// ---------------------------------------------------------------------------------------------
// "the database moved from o to s by pushing the findings us (in that order) onto undeclared_fixtures[f] and
// touching nothing else" -- the relation every function of the undeclared-fixture scanner establishes.
// Needs the FixtureDatabase of the unit (fields definitions, file_definitions, usages, usage_by_fixture,
// definitions_version, file_cache, undeclared_fixtures, imports, plugin_fixture_files + the memo tables and environment
// fields: every field but ast_cache) and prelude/undecl_spec.rs.  [v2 of prelude/undecl_dbspecs.rs]
/// every field other than undeclared_fixtures is the same object -- v2: over EVERY field of the database except
/// ast_cache (the struct of unit undeclared_scan_v2 lists them all), so that the frame of the scanner's contract
/// speaks about the memo tables and the environment fields too
pub open spec fn same_rest(o: FixtureDatabase, s: FixtureDatabase) -> bool {
    &&& s.definitions == o.definitions
    &&& s.file_definitions == o.file_definitions
    &&& s.usages == o.usages
    &&& s.usage_by_fixture == o.usage_by_fixture
    &&& s.definitions_version == o.definitions_version
    &&& s.file_cache == o.file_cache
    &&& s.imports == o.imports
    &&& s.plugin_fixture_files == o.plugin_fixture_files
    &&& s.canonical_path_cache == o.canonical_path_cache
    &&& s.line_index_cache == o.line_index_cache
    &&& s.cycle_cache == o.cycle_cache
    &&& s.available_fixtures_cache == o.available_fixtures_cache
    &&& s.imported_fixtures_cache == o.imported_fixtures_cache
    &&& s.site_packages_paths == o.site_packages_paths
    &&& s.editable_install_roots == o.editable_install_roots
    &&& s.workspace_root == o.workspace_root
}
#[verifier::opaque]
pub open spec fn und_rel(o: FixtureDatabase, s: FixtureDatabase, f: PV, us: Seq<UndV>) -> bool {
    &&& undecl_view(s.undeclared_fixtures.m()) == push_undecl(undecl_view(o.undeclared_fixtures.m()), f, us)
    &&& s.undeclared_fixtures.m().remove(f) == o.undeclared_fixtures.m().remove(f)
}
pub proof fn lemma_und_refl(o: FixtureDatabase, f: PV)
    ensures und_rel(o, o, f, Seq::empty())
{
    reveal(und_rel);
}
pub proof fn lemma_und_trans(o: FixtureDatabase, a: FixtureDatabase, b: FixtureDatabase, f: PV, u1: Seq<UndV>, u2: Seq<UndV>)
    requires und_rel(o, a, f, u1), und_rel(a, b, f, u2),
    ensures und_rel(o, b, f, u1 + u2),
{
    reveal(und_rel);
    lemma_push_undecl_concat(undecl_view(o.undeclared_fixtures.m()), f, u1, u2);
    assert(b.undeclared_fixtures.m().remove(f) == o.undeclared_fixtures.m().remove(f));
}
/// one `undeclared_fixtures.entry(f).or_default().push(u)` (what the shim contracts give is the hypothesis)
pub proof fn lemma_und_push(a: FixtureDatabase, b: FixtureDatabase, f: PV, x: UndV)
    requires
        undecl_view(b.undeclared_fixtures.m()) == undecl_view(a.undeclared_fixtures.m()).insert(f, bucket(undecl_view(a.undeclared_fixtures.m()), f).push(x)),
        b.undeclared_fixtures.m().remove(f) == a.undeclared_fixtures.m().remove(f),
    ensures und_rel(a, b, f, seq![x]),
{
    reveal(und_rel);
    let m = undecl_view(a.undeclared_fixtures.m());
    assert(bucket(m, f).push(x) =~= bucket(m, f) + seq![x]);
}
pub proof fn lemma_und_open(o: FixtureDatabase, s: FixtureDatabase, f: PV, us: Seq<UndV>)
    requires und_rel(o, s, f, us),
    ensures undecl_view(s.undeclared_fixtures.m()) == push_undecl(undecl_view(o.undeclared_fixtures.m()), f, us),
        s.undeclared_fixtures.m().remove(f) == o.undeclared_fixtures.m().remove(f),
{
    reveal(und_rel);
}
