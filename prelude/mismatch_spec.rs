// ---------------------------------------------------------------------------------------------
// The vocabulary of the contract PROVED for resolver.rs detect_scope_mismatches_in_file in unit scope_mismatch
// (`//@stub scope_mismatch detect_scope_mismatches_in_file` takes the contract TEXT from there).  The definitions
// below are COPIED VERBATIM from units/scope_mismatch.rs, where they are written in the unit body, not in a prelude
// file (suggestion to the owner: move them here and include this file from the unit, so that there is one copy).
// Needs types.rs (rank, DefV, dv), resolve_spec.rs (op_resolve, first_match, p_same, fs_*), dbview.rs (bucket).
#[verifier::external_type_specification] pub struct ExScopeMismatch(ScopeMismatch);

/// every definition is filed under its own name (index well-formedness, A7)
pub open spec fn wf_names(defs: Map<Seq<char>, Seq<DefV>>) -> bool {
    forall|n: Seq<char>, i: int| defs.contains_key(n) && 0 <= i < defs[n].len() ==> (#[trigger] defs[n][i]).name == n
}
/// the definition pytest resolves F's j-th dependency to, seen from F's file (own name -> overridden parent)
pub open spec fn dep_target(defs: Map<Seq<char>, Seq<DefV>>, provf: spec_fn(Seq<char>) -> spec_fn(PV) -> bool, file: PV, f: DefV, j: int) -> Option<DefV> {
    let dep = f.dependencies[j];
    if dep == f.name { op_resolve(bucket(defs, dep), file, provf(dep), fs_excl(Some(f))) }
    else { op_resolve(bucket(defs, dep), file, provf(dep), fs_true()) }
}
/// what one reported pair is: F = the first definition in `file` of a name listed for the file, D = the
/// definition resolution selects from `file` for one of F's dependencies, and F's scope is broader than D's
#[verifier::opaque]
pub open spec fn is_mismatch(defs: Map<Seq<char>, Seq<DefV>>, fdefs: Map<PV, Set<Seq<char>>>, provf: spec_fn(Seq<char>) -> spec_fn(PV) -> bool, file: PV, f: DefV, d: DefV) -> bool {
    fdefs.contains_key(file) && fdefs[file].contains(f.name) && defs.contains_key(f.name)
    && first_match(defs[f.name], p_same(file, fs_true())) == Some(f)
    && (exists|j: int| 0 <= j < f.dependencies.len() && #[trigger] dep_target(defs, provf, file, f, j) == Some(d))
    && rank(f.scope) > rank(d.scope)
}
#[verifier::opaque]
pub open spec fn reported(rs: Seq<ScopeMismatch>, f: DefV, d: DefV) -> bool {
    exists|k: int| 0 <= k < rs.len() && dv(&(#[trigger] rs[k]).fixture) == f && dv(&rs[k].dependency) == d
}
