// ---------------------------------------------------------------------------------------------
// DashMap specification shim (trusted base A3).  Sequential view: m(): Map<key view, V>.
// Write operations take &mut self (T3); their effect is stated with old()/final().
pub trait KeyView { type KV; spec fn kview(&self) -> Self::KV; }
impl KeyView for String { type KV = Seq<char>; open spec fn kview(&self) -> Seq<char> { self@ } }
impl KeyView for str { type KV = Seq<char>; open spec fn kview(&self) -> Seq<char> { self@ } }
impl KeyView for PathBuf { type KV = PV; open spec fn kview(&self) -> PV { pbv(self) } }
impl KeyView for Path { type KV = PV; open spec fn kview(&self) -> PV { pv(self) } }
impl KeyView for () { type KV = (); open spec fn kview(&self) -> () { () } }

#[verifier::external_body]
#[verifier::reject_recursive_types(K)]
#[verifier::reject_recursive_types(V)]
pub struct DashMap<K: KeyView, V> { _k: core::marker::PhantomData<(K, V)> }

pub struct Ref<'a, K, V> { pub k: &'a K, pub r: &'a V }
impl<'a, K, V> Ref<'a, K, V> {
    pub fn value(&self) -> (o: &V) ensures *o == *self.r { self.r }
    pub fn key(&self) -> (o: &K) ensures *o == *self.k { self.k }
}
impl<'a, K, V> core::ops::Deref for Ref<'a, K, V> {
    type Target = V;
    fn deref(&self) -> (o: &V) ensures *o == *self.r { self.r }
}
pub struct Entry<'a, V> { pub slot: &'a mut Option<V> }

pub uninterp spec fn default_val<V>() -> V;
pub mod dm_ax {
    use super::*;
    pub broadcast axiom fn axiom_default_vec<T>()
        ensures #[trigger] default_val::<Vec<T>>()@ == Seq::<T>::empty();
}
pub use dm_ax::*;

impl<K: KeyView, V> DashMap<K, V> {
    pub uninterp spec fn m(&self) -> Map<K::KV, V>;

    #[verifier::external_body]
    pub fn get<'a, Q: KeyView<KV = K::KV> + ?Sized>(&'a self, k: &Q) -> (r: Option<Ref<'a, K, V>>)
        ensures match r {
            Some(g) => self.m().contains_key(k.kview()) && *g.r == self.m()[k.kview()] && g.k.kview() == k.kview(),
            None => !self.m().contains_key(k.kview()) }
    { unimplemented!() }

    #[verifier::external_body]
    pub fn contains_key<Q: KeyView<KV = K::KV> + ?Sized>(&self, k: &Q) -> (r: bool)
        ensures r == self.m().contains_key(k.kview())
    { unimplemented!() }

    #[verifier::external_body]
    pub fn len(&self) -> (r: usize)
        ensures r == self.m().dom().len()
    { unimplemented!() }

    #[verifier::external_body]
    pub fn get_mut<'a, Q: KeyView<KV = K::KV> + ?Sized>(&'a mut self, k: &Q) -> (r: Option<&'a mut V>)
        ensures match r {
            Some(g) => old(self).m().contains_key(k.kview()) && *g == old(self).m()[k.kview()]
                       && final(self).m() == old(self).m().insert(k.kview(), *final(g)),
            None => !old(self).m().contains_key(k.kview()) && final(self).m() == old(self).m() }
    { unimplemented!() }

    #[verifier::external_body]
    pub fn entry<'a>(&'a mut self, k: K) -> (e: Entry<'a, V>)
        ensures *e.slot == (if old(self).m().contains_key(k.kview()) { Some(old(self).m()[k.kview()]) } else { None::<V> }),
                final(self).m() == (match *final(e.slot) {
                    Some(v) => old(self).m().insert(k.kview(), v),
                    None => old(self).m().remove(k.kview()) })
    { unimplemented!() }

    #[verifier::external_body]
    pub fn insert(&mut self, k: K, v: V) -> (r: Option<V>)
        ensures final(self).m() == old(self).m().insert(k.kview(), v),
                r == (if old(self).m().contains_key(k.kview()) { Some(old(self).m()[k.kview()]) } else { None::<V> })
    { unimplemented!() }

    #[verifier::external_body]
    pub fn remove<Q: KeyView<KV = K::KV> + ?Sized>(&mut self, k: &Q) -> (r: Option<(K, V)>)
        ensures final(self).m() == old(self).m().remove(k.kview()),
                match r { Some(kv) => old(self).m().contains_key(k.kview()) && kv.1 == old(self).m()[k.kview()] && kv.0.kview() == k.kview(),
                          None => !old(self).m().contains_key(k.kview()) }
    { unimplemented!() }

    #[verifier::external_body]
    pub fn remove_if<Q: KeyView<KV = K::KV> + ?Sized, F: FnOnce(&K, &V) -> bool>(&mut self, k: &Q, f: F) -> (r: Option<(K, V)>)
        requires forall|kk: &K, vv: &V| #[trigger] call_requires(f, (kk, vv)),
        ensures
            !old(self).m().contains_key(k.kview()) ==> final(self).m() == old(self).m(),
            old(self).m().contains_key(k.kview()) ==> (exists|kk: &K, b: bool| kk.kview() == k.kview()
                && #[trigger] call_ensures(f, (kk, &old(self).m()[k.kview()]), b)
                && final(self).m() == (if b { old(self).m().remove(k.kview()) } else { old(self).m() })),
    { unimplemented!() }

    #[verifier::external_body]
    pub fn iter<'a>(&'a self) -> (r: std::vec::IntoIter<RefMulti<'a, K, V>>)
        ensures r.obeys_prophetic_iter_laws(), r.decrease() is Some,
            r.remaining().len() == self.m().dom().len(),
            forall|i: int| 0 <= i < r.remaining().len() ==>
                self.m().contains_key((#[trigger] r.remaining()[i]).k.kview())
                && *r.remaining()[i].v == self.m()[r.remaining()[i].k.kview()],
            forall|i: int, j: int| 0 <= i < j < r.remaining().len() ==>
                r.remaining()[i].k.kview() != r.remaining()[j].k.kview(),
            forall|key: K::KV| self.m().contains_key(key) ==>
                exists|i: int| 0 <= i < r.remaining().len() && #[trigger] r.remaining()[i].k.kview() == key,
    { unimplemented!() }
}

pub struct RefMulti<'a, K, V> { pub k: &'a K, pub v: &'a V }
impl<'a, K, V> RefMulti<'a, K, V> {
    pub fn key(&self) -> (o: &K) ensures *o == *self.k { self.k }
    pub fn value(&self) -> (o: &V) ensures *o == *self.v { self.v }
}

impl<'a, V: Default> Entry<'a, V> {
    #[verifier::external_body]
    pub fn or_default(self) -> (r: &'a mut V)
        ensures *r == (match *old(self.slot) { Some(v) => v, None => default_val::<V>() }),
                *final(self.slot) == Some(*final(r))
    { unimplemented!() }
}
