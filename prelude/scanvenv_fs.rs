// ---------------------------------------------------------------------------------------------
// Unit scan_venv: std::path / std::fs shims and assumed specifications (trusted base A3 / A4), in addition to
// prelude/path.rs, path_ext.rs and scansel_shims.rs (canonicalize P6, read_to_string F1, is_file P8, walkdir W*).
// The file system is a set of uninterpreted, STATIC functions of the path (A4: it does not change during the scan).
//   V1  axiom_str_path          a `&str` used as a path denotes str_pv(text) (uninterpreted); for a PLAIN NAME (not
//                               empty, no '/', not "." / "..") that is the single component [text]; the literal
//                               "Lib/site-packages" is the two components ["Lib", "site-packages"]
//   V2  PathBuf::push(p)        a function push_pv of base and p; for a `&&str`: base + str_pv(text) unless the text is
//                               absolute (then push_abs_v, uninterpreted)
//   V3  Path::with_extension    with_ext_v (uninterpreted); for a last component that is a plain name without '.':
//                               the same path with last component `name.ext`
//   V4  Path::is_dir            fs_is_dir (uninterpreted, static)
//   V5  Path::is_absolute       pv_is_abs (uninterpreted)
//   V6  PathBuf::from(&str)     pbv == str_pv(text), absolute iff str_is_abs(text)
//   V7  std::fs::read_dir + `.flatten()` / `.into_iter().flatten()` driven by a `for` loop (@rename / @wrapexpr):
//                               the entries fs_dir(p) of the directory (uninterpreted, finite), each with its path and
//                               file name; an unreadable directory has no entries
//   V8  std::env::var("VIRTUAL_ENV")   env_virtual_env() (uninterpreted, static)

// ---- V1 &str as a path --------------------------------------------------------------------------------------------------
pub uninterp spec fn str_pv(s: Seq<char>) -> PV;
/// the path text is absolute (Unix: starts with '/')
pub open spec fn str_is_abs(s: Seq<char>) -> bool { s.len() > 0 && s[0] == '/' }
/// a single normal path component
pub open spec fn plain_name(s: Seq<char>) -> bool {
    s.len() > 0 && !s.contains('/') && s != "."@ && s != ".."@
}
pub open spec fn lib_sp() -> Seq<char> { "Lib/site-packages"@ }
pub mod scanvenv_fs_ax {
    use super::*;
    pub broadcast axiom fn axiom_str_path(s: &str)
        ensures #[trigger] as_path_view::<&str>(s) == str_pv(s@);
    pub broadcast axiom fn axiom_refstr_path<'a, 'b>(s: &'a &'b str)
        ensures #[trigger] as_path_view::<&'a &'b str>(s) == str_pv((**s)@);
    pub broadcast axiom fn axiom_plain_pv(s: Seq<char>)
        requires plain_name(s)
        ensures #[trigger] str_pv(s) == seq![s];
    pub broadcast axiom fn axiom_lib_sp_pv()
        ensures #[trigger] str_pv(lib_sp()) == seq!["Lib"@, "site-packages"@];
    /// V2 for a `&&str` argument (the only use in the code)
    pub broadcast axiom fn axiom_push_refstr<'a, 'b>(base: PV, s: &'a &'b str)
        ensures #[trigger] push_pv::<&'a &'b str>(base, s) == push_str_v(base, (**s)@);
    pub broadcast axiom fn axiom_os_str(s: &str)
        ensures #[trigger] os_v::<&str>(s) == s@;
    /// V3 for a dot-free plain last component
    pub broadcast axiom fn axiom_with_ext_plain(p: PV, ext: Seq<char>)
        requires p.len() > 0, plain_name(p.last()), !p.last().contains('.'), ext.len() > 0
        ensures #[trigger] with_ext_v(p, ext) == p.drop_last().push(p.last() + seq!['.'] + ext);
}
pub use scanvenv_fs_ax::*;

// ---- V2 PathBuf::push ---------------------------------------------------------------------------------------------------
/// the components after `base.push(p)`: a function of the components of base and of p
pub uninterp spec fn push_pv<P>(base: PV, p: P) -> PV;
/// for a text argument: base + its components unless the text is absolute (then push REPLACES the path: push_abs_v,
/// about which nothing is assumed)
pub uninterp spec fn push_abs_v(base: PV, s: Seq<char>) -> PV;
pub open spec fn push_str_v(base: PV, s: Seq<char>) -> PV { if str_is_abs(s) { push_abs_v(base, s) } else { base + str_pv(s) } }
#[verifier::allow(undeclared_external_trait)]
pub assume_specification<P: AsRef<Path>>[ PathBuf::push::<P> ](b: &mut PathBuf, p: P)
    ensures pbv(final(b)) == push_pv(pbv(old(b)), p);

// ---- V3 with_extension --------------------------------------------------------------------------------------------------
pub uninterp spec fn os_v<S>(s: S) -> Seq<char>;
pub uninterp spec fn with_ext_v(p: PV, ext: Seq<char>) -> PV;
#[verifier::allow(undeclared_external_trait)]
pub assume_specification<S: AsRef<std::ffi::OsStr>>[ Path::with_extension::<S> ](p: &Path, ext: S) -> (r: PathBuf)
    ensures pbv(&r) == with_ext_v(pv(p), os_v(ext));

// ---- V4 / V5 ------------------------------------------------------------------------------------------------------------
pub uninterp spec fn fs_is_dir(p: PV) -> bool;
pub assume_specification[ Path::is_dir ](p: &Path) -> (r: bool)
    ensures r == fs_is_dir(pv(p));
pub uninterp spec fn pv_is_abs(p: PV) -> bool;
pub assume_specification[ Path::is_absolute ](p: &Path) -> (r: bool)
    ensures r == pv_is_abs(pv(p));

pub open spec fn opt_pbv(o: Option<PathBuf>) -> Option<PV> { match o { Some(p) => Some(pbv(&p)), None => None } }

// ---- V6 PathBuf::from(&str) ---------------------------------------------------------------------------------------------
pub uninterp spec fn from_pv<T: ?Sized>(s: &T) -> PV;
#[verifier::allow(undeclared_external_trait)]
pub assume_specification<'a, T: ?Sized + AsRef<std::ffi::OsStr>>[ <PathBuf as From<&'a T>>::from ](s: &T) -> (r: PathBuf)
    ensures pbv(&r) == from_pv(s);
pub mod scanvenv_fs_ax2 {
    use super::*;
    pub broadcast axiom fn axiom_from_str(s: &str)
        ensures #[trigger] from_pv::<str>(s) == str_pv(s@);
}
pub use scanvenv_fs_ax2::*;

// ---- the `.pth` index: real std::collections::HashMap<String, PathBuf> ---------------------------------------------------
// The signatures of build_pth_index / find_editable_pth_source_root name the std type, so the std type it is.  Its
// sequential view hmv(m): Map<stem text, path components> is uninterpreted; it is pinned down by the contracts of the
// @wrapexpr helpers that ARE the two writing calls (`HashMap::new()`, `index.insert(..)`, in the unit) and by H1 below.
pub type PthIndex = std::collections::HashMap<String, PathBuf>;
pub uninterp spec fn hmv(m: &PthIndex) -> Map<Seq<char>, PV>;
pub open spec fn pair_v(p: (&String, &PathBuf)) -> (Seq<char>, PV) { (p.0@, pbv(p.1)) }
pub open spec fn pairs_v(s: Seq<(&String, &PathBuf)>) -> Seq<(Seq<char>, PV)> { s.map_values(|p: (&String, &PathBuf)| pair_v(p)) }
/// s enumerates m: every element is an entry of m, no key twice, every key occurs
pub open spec fn is_enum_v(s: Seq<(Seq<char>, PV)>, m: Map<Seq<char>, PV>) -> bool {
    &&& s.len() == m.dom().len()
    &&& forall|i: int| 0 <= i < s.len() ==> m.contains_key((#[trigger] s[i]).0) && m[s[i].0] == s[i].1
    &&& forall|i: int, j: int| 0 <= i < j < s.len() ==> (#[trigger] s[i]).0 != (#[trigger] s[j]).0
    &&& forall|k: Seq<char>| m.contains_key(k) ==> exists|i: int| 0 <= i < s.len() && (#[trigger] s[i]).0 == k
}
/// the order in which `(&map).into_iter()` goes through the map (uninterpreted: hash order; a function of the map
/// value — an unmodified std HashMap iterates in the same order every time)
pub uninterp spec fn hm_enum<'a, K, V, S, A: std::alloc::Allocator>(m: &'a std::collections::HashMap<K, V, S, A>) -> Seq<(&'a K, &'a V)>;
pub assume_specification<'a, K, V, S, A: std::alloc::Allocator>[ <&'a std::collections::HashMap<K, V, S, A> as IntoIterator>::into_iter ](m: &'a std::collections::HashMap<K, V, S, A>) -> (r: std::collections::hash_map::Iter<'a, K, V>)
    ensures r.obeys_prophetic_iter_laws(), r.decrease() is Some, r.remaining() == hm_enum(m);
pub mod scanvenv_hm_ax {
    use super::*;
    /// H1: the iteration order of the .pth index is SOME duplicate-free enumeration of its entries
    pub broadcast axiom fn axiom_pth_enum<'a>(m: &'a PthIndex)
        ensures is_enum_v(#[trigger] pairs_v(hm_enum(m)), hmv(m));
    /// PROVED: views of a sequence of entries under `drop_first` (what `Iterator::next` leaves)
    pub broadcast proof fn lemma_pairs_step(r: Seq<(&String, &PathBuf)>)
        ensures #![trigger pairs_v(r)] pairs_v(r).len() == r.len(),
            r.len() > 0 ==> pairs_v(r.drop_first()) == pairs_v(r).drop_first() && pairs_v(r)[0] == pair_v(r[0]),
    { if r.len() > 0 { assert(pairs_v(r.drop_first()) =~= pairs_v(r).drop_first()); } }
}
pub use scanvenv_hm_ax::*;
