// ---------------------------------------------------------------------------------------------
// Unit handlers_completion: operational specification of src/providers/completion.rs handle_completion and the three
// item builders it dispatches to.  Spliced at the crate root BEFORE prelude/hcomp_filter_spec.rs uses sort_text_of and
// AFTER prelude/lsp_backend.rs (point_range, lsp_line, uri_path), build/lspspec_completion.rs and avail_spec.rs.

// ---- the completion context, as unit completion_ctx states it --------------------------------------------------------
// COPY of prelude/completion_ctx_spec.rs "views of the result" (FnCtxV, CtxV, ccv, opt_ccv), so that
// `//@stub completion_ctx get_completion_context` -- textually
//     ensures opt_ccv(r) == spec_completion_ctx(self.content_of(pv(file_path)), line)
// -- reads here as it was PROVED there.  `spec_completion_ctx` is DEFINED there over the real rustpython AST (decorator
// context > function context > text fallback); that vocabulary (build/astspec.rs, 93 types + ast_spec.rs) is not
// dragged into this unit: here it is an UNINTERPRETED function of (file text, 0-based line) with the same name and
// signature.  Everything proved in this unit holds for every such function, in particular for the one of unit
// completion_ctx (whose lemma_C18_* say WHEN it is Some / which kind it is).
pub struct FnCtxV {
    pub in_signature: bool,          // FunctionSignature (true) / FunctionBody (false)
    pub name: Seq<char>, pub line: int, pub is_fixture: bool,
    pub declared: Seq<Seq<char>>, pub scope: Option<FixtureScope>,
}
pub enum CtxV { Func(FnCtxV), Usefixtures, Parametrize }
pub open spec fn ccv(c: CompletionContext) -> CtxV {
    match c {
        CompletionContext::FunctionSignature { function_name, function_line, is_fixture, declared_params, fixture_scope } =>
            CtxV::Func(FnCtxV { in_signature: true, name: function_name@, line: function_line as int, is_fixture,
                                declared: str_views(declared_params@), scope: fixture_scope }),
        CompletionContext::FunctionBody { function_name, function_line, is_fixture, declared_params, fixture_scope } =>
            CtxV::Func(FnCtxV { in_signature: false, name: function_name@, line: function_line as int, is_fixture,
                                declared: str_views(declared_params@), scope: fixture_scope }),
        CompletionContext::UsefixturesDecorator => CtxV::Usefixtures,
        CompletionContext::ParametrizeIndirect => CtxV::Parametrize,
    }
}
pub open spec fn opt_ccv(o: Option<CompletionContext>) -> Option<CtxV> {
    match o { Some(c) => Some(ccv(c)), None => None }
}
/// what FixtureDatabase::get_completion_context computes from (text of the file, 0-based cursor line); the cursor
/// COLUMN is not an argument (the real function ignores `character` on the AST path).  See the header comment.
pub uninterp spec fn spec_completion_ctx(content: Option<Seq<char>>, line: u32) -> Option<CtxV>;

// ---- the parameter-insertion point, as unit strings_struct states it --------------------------------------------------
/// what FixtureDatabase::get_function_param_insertion_info computes from (text of the file, 1-based line of the `def`):
/// DEFINED in units/strings_struct.rs (first "):" in the window [fl-1, fl+10) of lines; char_pos = its byte column;
/// needs_comma = text between '(' and "):"), PROVED there for the real function.  Its vocabulary (str primitives over
/// a UTF-8 byte model) is not dragged into this unit: an UNINTERPRETED function with the same name and signature.
pub uninterp spec fn op_insertion(content: Option<Seq<char>>, fl: usize) -> Option<ParamInsertionInfo>;

// ---- sort_text ---------------------------------------------------------------------------------------------------------
/// the character that prints decimal digit d
pub open spec fn digit_char(d: int) -> char {
    if d == 0 { '0' } else if d == 1 { '1' } else if d == 2 { '2' } else if d == 3 { '3' } else if d == 4 { '4' }
    else if d == 5 { '5' } else if d == 6 { '6' } else if d == 7 { '7' } else if d == 8 { '8' } else { '9' }
}
/// decimal rendering of a natural number, no sign, no padding (what `{}` prints for a u8)
pub open spec fn dec_digits(n: nat) -> Seq<char>
    decreases n
{
    if n < 10 { seq![digit_char(n as int)] } else { dec_digits(n / 10).push(digit_char((n % 10) as int)) }
}
/// make_sort_text: `format!("{}_{}", priority, fixture_name)` = decimal priority, '_', the name
pub open spec fn sort_text_of(priority: u8, name: Seq<char>) -> Seq<char> {
    dec_digits(priority as nat) + seq!['_'] + name
}

// ---- views of what is sent -------------------------------------------------------------------------------------------
pub ghost struct TextEditV { pub range: Range, pub new_text: Seq<char> }
pub open spec fn edit_v(e: TextEdit) -> TextEditV { TextEditV { range: e.range, new_text: e.new_text@ } }
pub open spec fn edits_v(s: Seq<TextEdit>) -> Seq<TextEditV> { s.map_values(|e: TextEdit| edit_v(e)) }
pub ghost enum DocV { Markdown(Seq<char>), Other }
pub open spec fn doc_v(d: Documentation) -> DocV {
    match d {
        Documentation::MarkupContent(mc) => (match mc.kind { MarkupKind::Markdown => DocV::Markdown(mc.value@), _ => DocV::Other }),
        _ => DocV::Other,
    }
}
/// what a CompletionItem says (strings / vectors through their views); `rest_unset`: every field the builders do not
/// mention (label_details, deprecated, preselect, filter_text, insert_text_mode, text_edit, command,
/// commit_characters, data, tags) is None
pub ghost struct ItemV {
    pub label: Seq<char>, pub kind: Option<CompletionItemKind>, pub detail: Option<Seq<char>>, pub doc: Option<DocV>,
    pub sort_text: Option<Seq<char>>, pub insert_text: Option<Seq<char>>, pub insert_text_format: Option<InsertTextFormat>,
    pub edits: Option<Seq<TextEditV>>, pub rest_unset: bool,
}
pub open spec fn item_v(i: CompletionItem) -> ItemV {
    ItemV { label: i.label@, kind: i.kind, detail: opt_sv(i.detail),
            doc: match i.documentation { Some(d) => Some(doc_v(d)), None => None },
            sort_text: opt_sv(i.sort_text), insert_text: opt_sv(i.insert_text), insert_text_format: i.insert_text_format,
            edits: match i.additional_text_edits { Some(v) => Some(edits_v(v@)), None => None },
            rest_unset: i.label_details is None && i.deprecated is None && i.preselect is None && i.filter_text is None
                && i.insert_text_mode is None && i.text_edit is None && i.command is None && i.commit_characters is None
                && i.data is None && i.tags is None }
}
pub open spec fn items_v(s: Seq<CompletionItem>) -> Seq<ItemV> { s.map_values(|i: CompletionItem| item_v(i)) }
/// the answer is a plain ARRAY of items (never a CompletionList) with these views
pub open spec fn resp_is(r: CompletionResponse, items: Seq<ItemV>) -> bool {
    match r { CompletionResponse::Array(v) => items_v(v@) == items, _ => false }
}

/// uninterpreted: the private i32 newtypes' associated consts CompletionItemKind::VARIABLE / ::TEXT and
/// InsertTextFormat::PLAIN_TEXT
pub uninterp spec fn cik_variable() -> CompletionItemKind;
pub uninterp spec fn cik_text() -> CompletionItemKind;
pub uninterp spec fn itf_plain() -> InsertTextFormat;
/// ASSUMED / uninterpreted: the markdown Backend::format_fixture_documentation builds for a definition
pub uninterp spec fn doc_text(d: DefV, root: Option<PV>) -> Seq<char>;
pub open spec fn opt_ref_pbv(o: Option<&PathBuf>) -> Option<PV> { match o { Some(p) => Some(pbv(p)), None => None } }

// ---- the items ---------------------------------------------------------------------------------------------------------
pub open spec fn comma_name(name: Seq<char>) -> Seq<char> { seq![',', ' '] + name }
/// the parameter edit of a body completion: ONE insertion (empty range) at the point op_insertion names, of `name` or
/// `, name`; none when op_insertion found no place
pub open spec fn op_edit(ins: Option<ParamInsertionInfo>, name: Seq<char>) -> Option<Seq<TextEditV>> {
    match ins {
        None => None,
        Some(i) => Some(seq![TextEditV { range: point_range(lsp_line(i.line), i.char_pos as u32),
                                         new_text: if i.needs_comma { comma_name(name) } else { name } }]),
    }
}
pub open spec fn op_item(e: EnrV, kind: CompletionItemKind, root: Option<PV>, prefix: Seq<char>, edits: Option<Seq<TextEditV>>) -> ItemV {
    ItemV { label: e.fixture.name, kind: Some(kind), detail: Some(e.detail), doc: Some(DocV::Markdown(doc_text(e.fixture, root))),
            sort_text: Some(e.sort_text), insert_text: Some(prefix + e.fixture.name), insert_text_format: Some(itf_plain()),
            edits: edits, rest_unset: true }
}
// named item functions (one term each)
pub open spec fn sig_item_fn(root: Option<PV>, prefix: Seq<char>) -> spec_fn(EnrV) -> ItemV {
    |e: EnrV| op_item(e, cik_variable(), root, prefix, None)
}
pub open spec fn body_item_fn(root: Option<PV>, prefix: Seq<char>, ins: Option<ParamInsertionInfo>) -> spec_fn(EnrV) -> ItemV {
    |e: EnrV| op_item(e, cik_variable(), root, prefix, op_edit(ins, e.fixture.name))
}
pub open spec fn str_item_fn(root: Option<PV>, prefix: Seq<char>) -> spec_fn(EnrV) -> ItemV {
    |e: EnrV| op_item(e, cik_text(), root, prefix, None)
}
/// create_fixture_completions: declared parameters, current fixture, scope filter; kind VARIABLE; no edit
pub open spec fn op_sig_items(av: Seq<DefV>, file: PV, declared: Seq<Seq<char>>, root: Option<PV>, o: OptsV) -> Seq<ItemV> {
    op_offer(av, file, Some(declared), o).map_values(sig_item_fn(root, o.prefix))
}
/// create_fixture_completions_with_auto_add: the same offer; every item carries the parameter edit
pub open spec fn op_body_items(av: Seq<DefV>, file: PV, declared: Seq<Seq<char>>, ins: Option<ParamInsertionInfo>, root: Option<PV>, o: OptsV) -> Seq<ItemV> {
    op_offer(av, file, Some(declared), o).map_values(body_item_fn(root, o.prefix, ins))
}
/// the options create_string_fixture_completions filters with: NO declared list, NO current fixture, NO scope
pub open spec fn str_opts(prefix: Seq<char>) -> OptsV { OptsV { scope: None, current: None, prefix: prefix } }
/// create_string_fixture_completions: kind TEXT; the bare name (no quotes) is inserted
pub open spec fn op_str_items(av: Seq<DefV>, file: PV, root: Option<PV>, prefix: Seq<char>) -> Seq<ItemV> {
    op_offer(av, file, None, str_opts(prefix)).map_values(str_item_fn(root, prefix))
}

// ---- the builders' postconditions: `av` = what get_available_fixtures returned (SOME list satisfying the contract
// proved in units memo + available: avail_post; the list is not a function of the view in this vocabulary)
pub open spec fn sig_post(r: CompletionResponse, a: AvV, file: PV, declared: Seq<Seq<char>>, root: Option<PV>, o: OptsV) -> bool {
    exists|av: Seq<DefV>| #[trigger] avail_post(av, a, canon_pv(file)) && resp_is(r, op_sig_items(av, file, declared, root, o))
}
pub open spec fn body_post(r: CompletionResponse, a: AvV, file: PV, declared: Seq<Seq<char>>, ins: Option<ParamInsertionInfo>, root: Option<PV>, o: OptsV) -> bool {
    exists|av: Seq<DefV>| #[trigger] avail_post(av, a, canon_pv(file)) && resp_is(r, op_body_items(av, file, declared, ins, root, o))
}
pub open spec fn str_post(r: CompletionResponse, a: AvV, file: PV, root: Option<PV>, prefix: Seq<char>) -> bool {
    exists|av: Seq<DefV>| #[trigger] avail_post(av, a, canon_pv(file)) && resp_is(r, op_str_items(av, file, root, prefix))
}

// ---- handle_completion -----------------------------------------------------------------------------------------------
/// was the request triggered by typing a comma (CompletionParams.context.triggerCharacter == ",")
pub open spec fn comma_triggered(c: Option<ls_types::CompletionContext>) -> bool {
    match c { Some(x) => (match x.trigger_character { Some(s) => s@ == ","@, None => false }), None => false }
}
/// " " after a comma trigger (so that `a,` becomes `a, b`), else nothing
pub open spec fn op_prefix(c: Option<ls_types::CompletionContext>) -> Seq<char> { if comma_triggered(c) { " "@ } else { ""@ } }
/// the options of a function context: the fixture's scope (None in a test); the function's own name iff it is a fixture
pub open spec fn op_opts(f: FnCtxV, prefix: Seq<char>) -> OptsV {
    OptsV { scope: f.scope, current: if f.is_fixture { Some(f.name) } else { None }, prefix: prefix }
}
/// DISPATCH: which builder, with which arguments, each context kind gets
pub open spec fn op_ctx_items(c: CtxV, av: Seq<DefV>, file: PV, content: Option<Seq<char>>, root: Option<PV>, prefix: Seq<char>) -> Seq<ItemV> {
    match c {
        CtxV::Func(f) =>
            if f.in_signature { op_sig_items(av, file, f.declared, root, op_opts(f, prefix)) }
            else { op_body_items(av, file, f.declared, op_insertion(content, f.line as usize), root, op_opts(f, prefix)) },
        CtxV::Usefixtures => op_str_items(av, file, root, prefix),
        CtxV::Parametrize => op_str_items(av, file, root, prefix),
    }
}
/// the context of a request (None: the URI has no path / the line gives no context)
pub open spec fn req_ctx(cache: Map<PV, String>, uri: Uri, line: u32) -> Option<CtxV> {
    match uri_path(uri) { None => None, Some(p) => spec_completion_ctx(file_content(cache, p), line) }
}
/// `function_line + 10` in get_function_param_insertion_info is unchecked: the callee contract (unit strings_struct)
/// REQUIRES it not to overflow.  A body context's function_line is a line number of the text (< 2^32 lines: TextSize)
pub open spec fn ctx_fits(c: Option<CtxV>) -> bool {
    match c { Some(CtxV::Func(f)) => f.in_signature || f.line + 10 <= usize::MAX, _ => true }
}
/// NO-TRUNCATION hypothesis of the parameter edit (as line_fits elsewhere): Backend::internal_line_to_lsp is under
/// contract for lines up to 2^32 only
pub open spec fn ins_fits(ins: Option<ParamInsertionInfo>) -> bool { ins is Some ==> line_fits(ins->0.line) }
pub open spec fn req_fits(cache: Map<PV, String>, uri: Uri, line: u32) -> bool {
    match req_ctx(cache, uri, line) {
        Some(CtxV::Func(f)) => f.in_signature || ins_fits(op_insertion(file_content(cache, uri_path(uri)->0), f.line as usize)),
        _ => true,
    }
}
/// L1 postcondition of handle_completion
pub open spec fn completion_post(a: AvV, cache: Map<PV, String>, root: Option<PV>, uri: Uri, line: u32,
                                 trig: Option<ls_types::CompletionContext>, r: jsonrpc::Result<Option<CompletionResponse>>) -> bool {
    match req_ctx(cache, uri, line) {
        None => r == Ok::<Option<CompletionResponse>, jsonrpc::Error>(None),
        Some(c) => match r {
            Ok(Some(resp)) => exists|av: Seq<DefV>| #[trigger] avail_post(av, a, canon_pv(uri_path(uri)->0))
                && resp_is(resp, op_ctx_items(c, av, uri_path(uri)->0, file_content(cache, uri_path(uri)->0), root, op_prefix(trig))),
            _ => false,
        },
    }
}
/// the item views of an answer
pub open spec fn answer_items(r: jsonrpc::Result<Option<CompletionResponse>>) -> Option<Seq<ItemV>> {
    match r { Ok(Some(CompletionResponse::Array(v))) => Some(items_v(v@)), _ => None }
}
