// ---------------------------------------------------------------------------------------------
// Unit uri_glue: ASSUMED specifications / stand-ins (trusted base A3 / A4 / T5) for what Backend::uri_to_path and
// Backend::path_to_uri (src/providers/mod.rs) touch outside the repo.  Needs prelude/path.rs, path_ext.rs (P4
// axiom_path_as_path), dashmap.rs, fs_canonical_decl.rs, memokeys_canon_spec.rs, uri_abs_decl.rs, uri_spec.rs.
//   US1  ls_types::Uri: opaque type (same type specification as build/lspspec*.rs: include only one of them)
//   US2  `<Uri as Clone>::clone`: equal value                                   (copy of SI4 of prelude/srvinit_shims.rs)
//   US3  `Path::canonicalize` (P6, A4: ONE file-system state) against fs_canonical  (copy of P6 of prelude/memokeys_shims.rs)
//   US4  `Result::unwrap_or`: the documented case distinction                    (copy of prelude/cli_main_shims.rs)
//   US5  `Uri::to_file_path` (T5 rename -> vp_to_file_path: the Cow<Path> it returns cannot be given a specification;
//        the stand-in returns a ghost-view struct whose only method is the `to_path_buf` the real code calls on it):
//        the uninterpreted function file_path_of of the URI                      (same method as SI3 of srvinit_shims.rs)
//   U0   `Uri::from_file_path::<A>`: the uninterpreted function uri_of_path of the COMPONENTS of the argument.
//        MODELLING ASSUMPTION: the real function reads the spelling (`to_string_lossy`), so it is a function of the
//        components only for paths in normal spelling (no trailing '/', no "//", no "/./"): "/a/b/" and "/a/b" are EQUAL
//        PathBufs (same components, same uri_cache key) with different URIs.  Every path std::fs::canonicalize returns is
//        in normal spelling, and so is every path built from one by Path::join / WalkDir.
//   US6  `Option::<T>::as_deref` for T = PathBuf                                 (copy of prelude/hcomp_shims.rs + deref axiom)
//   US7  what only the compile-time-dead macOS / Windows arms of path_to_uri call (`cfg!(target_os = ..)` is the
//        literal `false` on this target): Path::to_str, str::starts_with, str::replacen, str::strip_prefix,
//        PathBuf::from -- specifications WITHOUT any ensures (nothing is assumed about them; they exist so that Verus
//        takes the real text of the two arms instead of rejecting it as unsupported)
#[verifier::external_type_specification] #[verifier::external_body] pub struct ExUri(ls_types::Uri);
/// US2
pub assume_specification[ <Uri as Clone>::clone ](u: &Uri) -> (r: Uri)
    ensures r == *u;
/// US3
#[verifier::external_type_specification] #[verifier::external_body] pub struct ExIoError(std::io::Error);
pub assume_specification[ Path::canonicalize ](p: &Path) -> (r: Result<PathBuf, std::io::Error>)
    ensures match r { Ok(c) => fs_canonical(pv(p)) == Some(pbv(&c)), Err(_) => fs_canonical(pv(p)) is None };
/// US4
pub assume_specification<T, E>[ Result::<T, E>::unwrap_or ](r: Result<T, E>, default: T) -> (v: T)
    ensures v == (match r { Ok(x) => x, Err(_) => default });
/// US5
pub struct VpFilePath { pub p: Ghost<PV> }
impl VpFilePath {
    #[verifier::external_body]
    pub fn to_path_buf(&self) -> (r: PathBuf) ensures pbv(&r) == self.p@ { unimplemented!() }
}
pub trait VpUriPath { fn vp_to_file_path(&self) -> (r: Option<VpFilePath>); }
impl VpUriPath for Uri {
    #[verifier::external_body]
    fn vp_to_file_path(&self) -> (r: Option<VpFilePath>)
        ensures (match r { Some(x) => Some(x.p@), None => None::<PV> }) == file_path_of(*self)
    { unimplemented!() }
}
/// U0
#[verifier::allow(undeclared_external_trait)]
pub assume_specification<A: AsRef<Path>>[ Uri::from_file_path::<A> ](path: A) -> (r: Option<Uri>)
    ensures r == uri_of_path(as_path_view(path));
/// US6
pub uninterp spec fn vp_deref_of<T: core::ops::Deref>(t: &T) -> &T::Target;
pub assume_specification<T: core::ops::Deref>[ Option::<T>::as_deref ](o: &Option<T>) -> (r: Option<&T::Target>)
    ensures match *o { Some(t) => r == Some(vp_deref_of(&t)), None => r is None };
pub mod uri_shims_ax {
    use super::*;
    /// (US6) `<PathBuf as Deref>::deref`: the same components
    pub broadcast axiom fn axiom_pathbuf_deref_of(p: &PathBuf)
        ensures pv(#[trigger] vp_deref_of::<PathBuf>(p)) == pbv(p);
    /// (P4', for variants of the code that hand a PathBuf / &PathBuf to from_file_path) an owned or borrowed PathBuf
    /// passed as `AsRef<Path>` denotes its own components
    pub broadcast axiom fn axiom_pathbuf_as_path_uri(p: PathBuf)
        ensures #[trigger] as_path_view::<PathBuf>(p) == pbv(&p);
    pub broadcast axiom fn axiom_pathbuf_ref_as_path_uri<'a>(p: &'a PathBuf)
        ensures #[trigger] as_path_view::<&'a PathBuf>(p) == pbv(p);
}
pub use uri_shims_ax::*;
/// US7 (no ensures: nothing assumed)
pub assume_specification[ Path::to_str ](p: &Path) -> (r: Option<&str>);
pub assume_specification<'a, P: core::str::pattern::Pattern>[ str::starts_with::<P> ](s: &'a str, p: P) -> (r: bool);
pub assume_specification<'a, P: core::str::pattern::Pattern>[ str::replacen::<P> ](s: &'a str, p: P, to: &str, count: usize) -> (r: String);
pub assume_specification<'a, P: core::str::pattern::Pattern>[ str::strip_prefix::<P> ](s: &'a str, p: P) -> (r: Option<&'a str>);
pub assume_specification[ <PathBuf as From<String>>::from ](s: String) -> (r: PathBuf);
#[verifier::allow(undeclared_external_trait)]
pub assume_specification<'a, T: ?Sized + AsRef<std::ffi::OsStr>>[ <PathBuf as From<&'a T>>::from ](s: &T) -> (r: PathBuf);
