// ---------------------------------------------------------------------------------------------
// L2 for publish_diagnostics_for_file (C19 / C15), over the operational spec of prelude/diag_spec.rs.

pub proof fn lemma_codes_distinct()
    ensures code_undeclared() != code_cycle(), code_undeclared() != code_mismatch(), code_cycle() != code_mismatch()
{
    reveal_strlit("undeclared-fixture"); reveal_strlit("circular-dependency"); reveal_strlit("scope-mismatch");
    assert(code_undeclared().len() == 18 && code_cycle().len() == 19 && code_mismatch().len() == 14);
}
/// every element of one kind's contribution carries that kind's code (as a string) and source "pytest-lsp"
pub proof fn lemma_gated_codes<A>(c: CfgV, code: Seq<char>, xs: Seq<A>, f: spec_fn(A) -> DiagV, k: int)
    requires 0 <= k < gated(c, code, xs, f).len(), forall|a: A| (#[trigger] f(a)).code == Some(code)
    ensures gated(c, code, xs, f)[k].code == Some(code), !op_is_disabled(c, code), gated(c, code, xs, f)[k] == f(xs[k]),
        gated(c, code, xs, f).len() == xs.len()
{}

//@tags C19
/// C19 — a disabled code contributes NOTHING: no published diagnostic carries it, and the list is the one that
/// would be published if that kind had no findings at all (the other two kinds are untouched) — for each of the
/// three codes
pub proof fn lemma_C19_disabled_code_contributes_nothing(c: CfgV, us: Seq<UndeclV>, cs: Seq<CycV>, ms: Seq<(DefV, DefV)>, k: int)
    requires 0 <= k < expected_diags(c, us, cs, ms).len()
    ensures
        op_is_disabled(c, code_undeclared()) ==> expected_diags(c, us, cs, ms) == expected_diags(c, Seq::empty(), cs, ms)
            && expected_diags(c, us, cs, ms)[k].code != Some(code_undeclared()),
        op_is_disabled(c, code_cycle()) ==> expected_diags(c, us, cs, ms) == expected_diags(c, us, Seq::empty(), ms)
            && expected_diags(c, us, cs, ms)[k].code != Some(code_cycle()),
        op_is_disabled(c, code_mismatch()) ==> expected_diags(c, us, cs, ms) == expected_diags(c, us, cs, Seq::empty())
            && expected_diags(c, us, cs, ms)[k].code != Some(code_mismatch()),
{
    lemma_codes_distinct();
    let e1 = gated(c, code_undeclared(), us, undecl_diag_fn());
    let e2 = gated(c, code_cycle(), cs, cycle_diag_fn());
    let e3 = gated(c, code_mismatch(), ms, mismatch_diag_fn());
    assert(Seq::<UndeclV>::empty().map_values(undecl_diag_fn()) =~= Seq::<DiagV>::empty());
    assert(Seq::<CycV>::empty().map_values(cycle_diag_fn()) =~= Seq::<DiagV>::empty());
    assert(Seq::<(DefV, DefV)>::empty().map_values(mismatch_diag_fn()) =~= Seq::<DiagV>::empty());
    let all = e1 + e2 + e3;
    if k < e1.len() { assert(all[k] == e1[k]); }
    else if k < e1.len() + e2.len() { assert(all[k] == e2[k - e1.len()]); }
    else { assert(all[k] == e3[k - e1.len() - e2.len()]); }
}
//@tags C19
/// C19 — independence: what one kind contributes depends on the configuration ONLY through its own code: two
/// configurations that agree on code X publish the same X-diagnostics, whatever else they disable (in particular a
/// disabled code never suppresses another kind, and entries of `disabled` that are none of the three codes — unit
/// config filters them out anyway — change nothing)
pub proof fn lemma_C19_kinds_are_independent(c1: CfgV, c2: CfgV, us: Seq<UndeclV>, cs: Seq<CycV>, ms: Seq<(DefV, DefV)>)
    ensures
        op_is_disabled(c1, code_undeclared()) == op_is_disabled(c2, code_undeclared())
            ==> gated(c1, code_undeclared(), us, undecl_diag_fn()) == gated(c2, code_undeclared(), us, undecl_diag_fn()),
        op_is_disabled(c1, code_cycle()) == op_is_disabled(c2, code_cycle())
            ==> gated(c1, code_cycle(), cs, cycle_diag_fn()) == gated(c2, code_cycle(), cs, cycle_diag_fn()),
        op_is_disabled(c1, code_mismatch()) == op_is_disabled(c2, code_mismatch())
            ==> gated(c1, code_mismatch(), ms, mismatch_diag_fn()) == gated(c2, code_mismatch(), ms, mismatch_diag_fn()),
        (op_is_disabled(c1, code_undeclared()) == op_is_disabled(c2, code_undeclared())
            && op_is_disabled(c1, code_cycle()) == op_is_disabled(c2, code_cycle())
            && op_is_disabled(c1, code_mismatch()) == op_is_disabled(c2, code_mismatch()))
            ==> expected_diags(c1, us, cs, ms) == expected_diags(c2, us, cs, ms),
{}
//@tags C19 C15
/// C19 / C15 — every undeclared finding of the file is published (when its code is enabled), in recorded order, at
/// the head of the list, as a WARNING with code "undeclared-fixture", source "pytest-lsp", and EXACTLY its span:
/// (line-1, start_char)-(line-1, end_char) (explicit no-truncation hypotheses); same for cycles (ERROR, on the name
/// span of the fixture the cycle is attached to) and scope mismatches (WARNING, on the name span of the broader fixture)
pub proof fn lemma_C19_every_finding_published_with_its_range(c: CfgV, us: Seq<UndeclV>, cs: Seq<CycV>, ms: Seq<(DefV, DefV)>, i: int)
    requires !op_is_disabled(c, code_undeclared()), 0 <= i < us.len(),
        1 <= us[i].line, line_fits(us[i].line), col_fits(us[i].start_char), col_fits(us[i].end_char),
    ensures ({
        let d = expected_diags(c, us, cs, ms)[i];
        &&& i < expected_diags(c, us, cs, ms).len() && d == undecl_diag(us[i])
        &&& d.severity == Some(sev_warning()) && d.code == Some(code_undeclared()) && d.source == Some("pytest-lsp"@)
        &&& d.message == msg_undeclared(us[i].name)
        &&& d.range.start.line as int == us[i].line - 1 && d.range.end.line == d.range.start.line
        &&& d.range.start.character as int == us[i].start_char && d.range.end.character as int == us[i].end_char
        &&& range_wf(d.range) <==> us[i].start_char <= us[i].end_char
    })
{
    let e1 = gated(c, code_undeclared(), us, undecl_diag_fn());
    assert(expected_diags(c, us, cs, ms)[i] == e1[i]);
}
//@tags C19
/// the published list has exactly one diagnostic per finding of an enabled kind (nothing else, nothing twice unless a
/// finding is recorded twice)
pub proof fn lemma_C19_one_diagnostic_per_enabled_finding(c: CfgV, us: Seq<UndeclV>, cs: Seq<CycV>, ms: Seq<(DefV, DefV)>)
    ensures expected_diags(c, us, cs, ms).len() ==
        (if op_is_disabled(c, code_undeclared()) { 0 } else { us.len() }) + (if op_is_disabled(c, code_cycle()) { 0 } else { cs.len() })
        + (if op_is_disabled(c, code_mismatch()) { 0 } else { ms.len() })
{}
//@tags C19
/// C19 — removing the cause clears: when none of the three finders reports anything for the file (or every kind is
/// disabled), the EMPTY list is published (which is what makes the client drop the previous diagnostics)
pub proof fn lemma_C19_no_findings_publishes_empty(c: CfgV, us: Seq<UndeclV>, cs: Seq<CycV>, ms: Seq<(DefV, DefV)>)
    ensures
        expected_diags(c, Seq::empty(), Seq::empty(), Seq::empty()) =~= Seq::<DiagV>::empty(),
        (op_is_disabled(c, code_undeclared()) && op_is_disabled(c, code_cycle()) && op_is_disabled(c, code_mismatch()))
            ==> expected_diags(c, us, cs, ms) =~= Seq::<DiagV>::empty(),
{
    assert(Seq::<UndeclV>::empty().map_values(undecl_diag_fn()) =~= Seq::<DiagV>::empty());
    assert(Seq::<CycV>::empty().map_values(cycle_diag_fn()) =~= Seq::<DiagV>::empty());
    assert(Seq::<(DefV, DefV)>::empty().map_values(mismatch_diag_fn()) =~= Seq::<DiagV>::empty());
}
//@tags C19
/// handler level: whatever admissible order the scope-mismatch finder returned, with the default configuration
/// (nothing disabled) and no findings of any kind the handler publishes the empty list
pub proof fn lemma_C19_handler_clears(x: DiagCtx, ds: Seq<DiagV>)
    requires publish_pre(x, ds), x.undecl.len() == 0, x.cycles.len() == 0,
        forall|f: DefV, d: DefV| !is_mismatch(x.defs, x.fdefs, x.provf, x.file, f, d),
    ensures ds =~= Seq::<DiagV>::empty()
{
    let ms = choose|ms: Seq<ScopeMismatch>| #[trigger] publish_pre_ms(x, ds, ms);
    if !op_is_disabled(x.cfg, code_mismatch()) {
        if ms.len() > 0 { assert(is_mismatch(x.defs, x.fdefs, x.provf, x.file, dv(&ms[0].fixture), dv(&ms[0].dependency))); }
    }
    assert(miss_v(ms) =~= Seq::<(DefV, DefV)>::empty());
    assert(x.undecl =~= Seq::<UndeclV>::empty() && x.cycles =~= Seq::<CycV>::empty());
    lemma_C19_no_findings_publishes_empty(x.cfg, x.undecl, x.cycles, miss_v(ms));
}

// ---- vacuity guards: each of these must FAIL -------------------------------------------------------------------
/// the configuration is ignored
proof fn canary_diag_config_ignored(c1: CfgV, c2: CfgV, us: Seq<UndeclV>, cs: Seq<CycV>, ms: Seq<(DefV, DefV)>)
    ensures expected_diags(c1, us, cs, ms) == expected_diags(c2, us, cs, ms)
{}
/// one disabled code suppresses everything (`||`)
proof fn canary_diag_one_disabled_suppresses_all(c: CfgV, us: Seq<UndeclV>, cs: Seq<CycV>, ms: Seq<(DefV, DefV)>)
    requires op_is_disabled(c, code_undeclared())
    ensures expected_diags(c, us, cs, ms) =~= Seq::<DiagV>::empty()
{}
/// cycles are gated by the scope-mismatch code
proof fn canary_diag_cycles_gated_by_mismatch_code(c: CfgV, cs: Seq<CycV>)
    requires op_is_disabled(c, code_mismatch())
    ensures gated(c, code_cycle(), cs, cycle_diag_fn()) =~= Seq::<DiagV>::empty()
{}
/// diagnostic ranges are well-formed without the span hypothesis
proof fn canary_diag_range_always_well_formed(u: UndeclV)
    requires 1 <= u.line, line_fits(u.line), col_fits(u.start_char), col_fits(u.end_char)
    ensures range_wf(undecl_diag(u).range)
{}
/// the published order of the scope-mismatch diagnostics is determined by the view (it is a hash-set order)
proof fn canary_diag_publish_deterministic(x: DiagCtx, d1: Seq<DiagV>, d2: Seq<DiagV>)
    requires publish_pre(x, d1), publish_pre(x, d2), findings_fit(x.undecl, x.cycles, Seq::empty()),
    ensures d1 == d2
{}
/// the hypotheses of lemma_C19_handler_clears are satisfiable
proof fn canary_hyp_handler_clears(x: DiagCtx, ds: Seq<DiagV>)
    requires publish_pre(x, ds), x.undecl.len() == 0, x.cycles.len() == 0,
        forall|f: DefV, d: DefV| !is_mismatch(x.defs, x.fdefs, x.provf, x.file, f, d),
    ensures false
{}
