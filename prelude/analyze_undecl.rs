// ---------------------------------------------------------------------------------------------
// Vocabulary of analyze_file_internal's contract about `undeclared_fixtures` (the per-file list of undeclared-fixture
// findings publish_diagnostics_for_file / the code-action handler read): what a successful analysis leaves under the
// analysed file is a function of the CURRENT text and of the definitions map the second pass starts from -- NOT of what
// was filed under it before.  Pure specification + proved lemmas, no assumption.
// Needs prelude/analyze_spec.rs (stmts_vdefs, push_defs, parse_ok / ast_of / body_of), analyze_imports.rs (module_names),
// visit_undecl.rs (visit_undecl: PROVED for the real visit_stmt in unit visit), undecl_avail_spec.rs + undecl_spec.rs (UndV,
// push_undecl, scan_fn).  L2 (C06 / C17 / C19 lemmas + canaries): prelude/analyze_undecl_l2.rs.
// Every unit that reads analyze's @sig through `//@stub analyze ..` must include undecl_avail_spec.rs, undecl_spec.rs,
// visit_undecl.rs and this file (after analyze_spec.rs / analyze_imports.rs).

/// the SECOND PASS of analyze_file_internal on the findings: visit_stmt folded over the top-level statements, in order
/// (left fold, like stmts_vdefs); statement k is visited on the definitions map the first k statements left
/// (push_defs(d0, stmts_vdefs(prefix))), every scan reads the same `imps` (imports[f] is written before the second pass)
pub open spec fn stmts_vundecl(body: Seq<Stmt0>, file: PV, src: Seq<char>, d0: Map<Seq<char>, Seq<DefV>>, imps: Set<Seq<char>>) -> Seq<UndV>
    decreases body.len()
{
    if body.len() == 0 { Seq::<UndV>::empty() } else {
        stmts_vundecl(body.drop_last(), file, src, d0, imps)
            + visit_undecl(body.last(), file, src, src_line_index(src), push_defs(d0, stmts_vdefs(body.drop_last(), file, src)), imps)
    }
}
/// the findings a successful analysis of (file, text t) records, given the definitions map d0 the second pass starts
/// from (the old map with the file's definitions cleaned -- analyze_file -- or as it is -- analyze_file_fresh):
/// every scan runs against the module-level names of THIS text
pub open spec fn findings_of(t: Seq<char>, file: PV, d0: Map<Seq<char>, Seq<DefV>>) -> Seq<UndV> {
    stmts_vundecl(body_of(ast_of(t)), file, t, d0, module_names(body_of(ast_of(t))))
}
/// THE CONTRACT of a successful analysis about the findings view (uo before, us after): the file's old list is DROPPED
/// (`self.undeclared_fixtures.remove(&file_path)`, unconditionally), then the findings of this text are pushed;
/// no finding at all = no entry (the key is only created by the first push)
pub open spec fn undecl_post(uo: Map<PV, Seq<UndV>>, us: Map<PV, Seq<UndV>>, f: PV, t: Seq<char>, d0: Map<Seq<char>, Seq<DefV>>) -> bool {
    us == push_undecl(uo.remove(f), f, findings_of(t, f, d0))
}
/// one round of the second-pass loop
pub proof fn lemma_stmts_vundecl_step(body: Seq<Stmt0>, i: int, file: PV, src: Seq<char>, d0: Map<Seq<char>, Seq<DefV>>, imps: Set<Seq<char>>)
    requires 0 <= i < body.len(),
    ensures stmts_vundecl(body.take(i + 1), file, src, d0, imps) == stmts_vundecl(body.take(i), file, src, d0, imps)
        + visit_undecl(body[i], file, src, src_line_index(src), push_defs(d0, stmts_vdefs(body.take(i), file, src)), imps),
{
    let t1 = body.take(i + 1);
    assert(t1.drop_last() =~= body.take(i));
    assert(t1.last() == body[i]);
}
pub proof fn lemma_undecl_view_remove(m: Map<PV, Vec<UndeclaredFixture>>, f: PV)
    ensures undecl_view(m.remove(f)) == undecl_view(m).remove(f),
{
    assert(undecl_view(m.remove(f)) =~= undecl_view(m).remove(f));
}
/// what the readers see: f's bucket after the contract, and every other file's
pub proof fn lemma_undecl_post_buckets(uo: Map<PV, Seq<UndV>>, us: Map<PV, Seq<UndV>>, f: PV, t: Seq<char>, d0: Map<Seq<char>, Seq<DefV>>, g: PV)
    requires undecl_post(uo, us, f, t, d0),
    ensures bucket(us, f) == findings_of(t, f, d0),
        us.contains_key(f) == (findings_of(t, f, d0).len() > 0),
        g != f ==> us.contains_key(g) == uo.contains_key(g) && bucket(us, g) == bucket(uo, g),
{
    let xs = findings_of(t, f, d0);
    let m = uo.remove(f);
    assert(bucket(m, f) =~= Seq::<UndV>::empty());
    if xs.len() > 0 { assert(bucket(m, f) + xs =~= xs); }
}

