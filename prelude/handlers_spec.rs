// ---------------------------------------------------------------------------------------------
// Operational specifications of the navigation request handlers (src/providers/{definition,references,...}.rs)
// over the abstract view of the server state.  Needs refs_spec.rs, lsp_backend.rs, build/lspspec.rs.

/// the part of the server state the navigation handlers read
pub ghost struct NavV {
    pub cache: Map<PV, String>,                                   // file_cache (texts)
    pub defs: Map<Seq<char>, Seq<DefV>>,                          // definitions, per name, registration order
    pub uses: Map<PV, Seq<UseV>>,                                 // usages per file
    pub byfix: Map<Seq<char>, Seq<(PV, UseV)>>,                   // usage_by_fixture (reverse index)
    pub provf: spec_fn(Seq<char>) -> spec_fn(PV) -> bool,         // import facts (imports unit)
    pub uc: UriCache,                                             // Backend::uri_cache
}

pub open spec fn td_uri(p: TextDocumentPositionParams) -> Uri { p.text_document.uri }
pub open spec fn td_line(p: TextDocumentPositionParams) -> u32 { p.position.line }
pub open spec fn td_char(p: TextDocumentPositionParams) -> u32 { p.position.character }

pub open spec fn def_fits(o: Option<DefV>) -> bool { o is Some ==> line_fits(o->0.line) }

/// where a navigation answer that names definition d points: the definition's line, column 0, empty range
pub open spec fn def_location(u: Uri, d: DefV) -> Location { Location { uri: u, range: point_range(lsp_line(d.line), 0) } }

// ---- textDocument/definition -------------------------------------------------------------------------------
/// the definition go-to-definition selects: RESOLVER = find_fixture_definition (op_goto)
pub open spec fn goto_target(v: NavV, uri: Uri, line: u32, ch: u32) -> Option<DefV> {
    match uri_path(uri) {
        None => None,
        Some(p) => op_goto(v.cache, v.defs, v.uses, v.provf, p, line, ch),
    }
}
pub open spec fn op_handle_goto(v: NavV, uri: Uri, line: u32, ch: u32) -> Option<GotoDefinitionResponse> {
    match goto_target(v, uri, line, ch) {
        None => None,
        Some(d) => match path_uri(v.uc, d.file) {
            None => None,
            Some(u) => Some(GotoDefinitionResponse::Scalar(def_location(u, d))),
        },
    }
}

// ---- textDocument/references -------------------------------------------------------------------------------
/// the fixture NAME at a position = what find_fixture_at_position computes (contract PROVED in unit position:
/// op_name_at, prelude/position_spec.rs)
pub open spec fn name_at(cache: Map<PV, String>, defs: Map<Seq<char>, Seq<DefV>>, uses: Map<PV, Seq<UseV>>,
                         file: PV, line: u32, ch: u32) -> Option<Seq<char>> {
    op_name_at(cache, defs, uses, file, line, ch)
}

/// the location a listed usage gets: its line, columns start_char..end_char (`as u32`: see col_fits)
pub open spec fn use_range(x: UseV) -> Range { mk_range(lsp_line(x.line), x.start_char as u32, lsp_line(x.line), x.end_char as u32) }
pub open spec fn use_location(u: Uri, x: UseV) -> Location { Location { uri: u, range: use_range(x) } }
/// usage x sits on the (file, line) of the definition that heads the list: DROPPED by the handler
pub open spec fn same_spot(od: Option<DefV>, x: UseV) -> bool { od is Some && x.file == od->0.file && x.line == od->0.line }
/// is usage x turned into a location: not on the definition's own line, and its path has a URI
pub open spec fn listed(uc: UriCache, od: Option<DefV>, x: UseV) -> bool { !same_spot(od, x) && path_uri(uc, x.file) is Some }
/// the locations of the usages us, in order, minus the dropped ones
pub open spec fn ref_locs(uc: UriCache, us: Seq<UseV>, od: Option<DefV>) -> Seq<Location>
    decreases us.len()
{
    if us.len() == 0 { Seq::empty() } else {
        let rest = ref_locs(uc, us.drop_last(), od);
        let x = us.last();
        if listed(uc, od, x) { rest.push(use_location(path_uri(uc, x.file)->0, x)) } else { rest }
    }
}
/// the definition find-references works for: RESOLVER = find_fixture_definition (op_goto) when the cursor is on a
/// usage, else the first definition registered under the name at the cursor that sits on the cursor's line
pub open spec fn refs_target(v: NavV, n: Seq<char>, p: PV, line: u32, ch: u32) -> Option<DefV> {
    match op_goto(v.cache, v.defs, v.uses, v.provf, p, line, ch) {
        Some(d) => Some(d),
        None => first_match(bucket(v.defs, n), p_def_line(p, line as int + 1)),
    }
}
/// the fixture name the references handler works with; None: the URI has no path / no fixture name at the position
pub open spec fn refs_name(v: NavV, uri: Uri, line: u32, ch: u32) -> Option<Seq<char>> {
    match uri_path(uri) {
        None => None,
        Some(p) => name_at(v.cache, v.defs, v.uses, p, line, ch),
    }
}
/// the definition it determines (None with a name: the by-name fallback is taken)
pub open spec fn refs_def(v: NavV, uri: Uri, line: u32, ch: u32) -> Option<DefV> {
    match refs_name(v, uri, line, ch) {
        None => None,
        Some(n) => refs_target(v, n, uri_path(uri)->0, line, ch),
    }
}
/// (definition to include, usages to list) as the handler selects them; `fl` = the list find_fixture_references
/// returned, used in the by-name fallback only (it is not a function of the view: see references_post)
pub open spec fn refs_sel(v: NavV, uri: Uri, line: u32, ch: u32, fl: Seq<UseV>) -> Option<(Option<DefV>, Seq<UseV>)> {
    match refs_name(v, uri, line, ch) {
        None => None,
        Some(n) => match refs_def(v, uri, line, ch) {
            Some(d) => Some((Some(d), op_refs(v.defs, v.byfix, v.provf, d))),
            None => Some((None::<DefV>, fl)),      // by-name fallback
        },
    }
}
pub open spec fn locs_of_sel(uc: UriCache, od: Option<DefV>, us: Seq<UseV>) -> Option<Seq<Location>> {
    match od {
        Some(d) => match path_uri(uc, d.file) {
            None => None,                       // the definition's path has no URI: the WHOLE answer is dropped
            Some(u) => Some(seq![def_location(u, d)] + ref_locs(uc, us, od)),
        },
        None => if us.len() == 0 { None } else { Some(ref_locs(uc, us, od)) },
    }
}
pub open spec fn op_handle_references(v: NavV, uri: Uri, line: u32, ch: u32, fl: Seq<UseV>) -> Option<Seq<Location>> {
    match refs_sel(v, uri, line, ch, fl) {
        None => None,
        Some(s) => locs_of_sel(v.uc, s.0, s.1),
    }
}
/// in the by-name fallback, fl is what find_fixture_references may return (contract PROVED in unit position): the
/// usages carrying the name, file by file, for SOME duplicate-free enumeration of the files (the hash order)
pub open spec fn by_name_ok(v: NavV, uri: Uri, line: u32, ch: u32, fl: Seq<UseV>) -> bool {
    refs_name(v, uri, line, ch) is Some && refs_def(v, uri, line, ch) is None
        ==> refs_by_name_post(v.uses, refs_name(v, uri, line, ch)->0, fl)
}
pub open spec fn references_post_fl(v: NavV, uri: Uri, line: u32, ch: u32, r: jsonrpc::Result<Option<Vec<Location>>>, fl: Seq<UseV>) -> bool {
    by_name_ok(v, uri, line, ch, fl)
    && (sel_fits(refs_sel(v, uri, line, ch, fl)) ==> opt_vec_view(r) == op_handle_references(v, uri, line, ch, fl))
}
/// L1 postcondition of handle_references: a function of the view whenever a definition is determined; in the by-name
/// fallback, relational (SOME admissible by-name list)
pub open spec fn references_post(v: NavV, uri: Uri, line: u32, ch: u32, r: jsonrpc::Result<Option<Vec<Location>>>) -> bool {
    exists|fl: Seq<UseV>| #[trigger] references_post_fl(v, uri, line, ch, r, fl)
}
pub open spec fn uses_fit(us: Seq<UseV>) -> bool { forall|i: int| 0 <= i < us.len() ==> line_fits((#[trigger] us[i]).line) }
pub open spec fn sel_fits(s: Option<(Option<DefV>, Seq<UseV>)>) -> bool { s is Some ==> def_fits((s->0).0) && uses_fit((s->0).1) }
pub open spec fn opt_vec_view<T>(r: jsonrpc::Result<Option<Vec<T>>>) -> Option<Seq<T>> {
    match r { Ok(Some(v)) => Some(v@), _ => None }
}

// ---- textDocument/implementation ---------------------------------------------------------------------------
/// the definition go-to-implementation / call-hierarchy preparation select: RESOLVER =
/// find_fixture_or_definition_at_position (op_goto_or_def = op_goto, else the definition whose name is under the cursor)
pub open spec fn goto_or_def_target(v: NavV, uri: Uri, line: u32, ch: u32) -> Option<DefV> {
    match uri_path(uri) {
        None => None,
        Some(p) => op_goto_or_def(v.cache, v.defs, v.uses, v.provf, p, line, ch),
    }
}
/// the line go-to-implementation points at: the yield line of a generator fixture, else the definition line
pub open spec fn impl_line(d: DefV) -> usize { match d.yield_line { Some(y) => y, None => d.line } }
pub open spec fn impl_fits(o: Option<DefV>) -> bool { o is Some ==> line_fits(impl_line(o->0)) }
pub open spec fn op_handle_impl(v: NavV, uri: Uri, line: u32, ch: u32) -> Option<GotoDefinitionResponse> {
    match goto_or_def_target(v, uri, line, ch) {
        None => None,
        Some(d) => match path_uri(v.uc, d.file) {
            None => None,
            Some(u) => Some(GotoDefinitionResponse::Scalar(Location { uri: u, range: point_range(lsp_line(impl_line(d)), 0) })),
        },
    }
}

// ---- textDocument/hover ------------------------------------------------------------------------------------
/// ASSUMED / uninterpreted: the markdown Backend::format_fixture_documentation builds for a definition
pub uninterp spec fn doc_text(d: DefV, root: Option<PV>) -> Seq<char>;
/// h is a markdown hover with text t and no range
pub open spec fn hover_is(h: Hover, t: Seq<char>) -> bool {
    h.range is None && match h.contents {
        HoverContents::Markup(mc) => (match mc.kind { MarkupKind::Markdown => true, _ => false }) && mc.value@ == t,
        _ => false,
    }
}
/// RESOLVER of hover = find_fixture_definition (op_goto): the same target as go-to-definition
pub open spec fn hover_post(v: NavV, root: Option<PV>, uri: Uri, line: u32, ch: u32, r: jsonrpc::Result<Option<Hover>>) -> bool {
    match goto_target(v, uri, line, ch) {
        None => r == Ok::<Option<Hover>, jsonrpc::Error>(None),
        Some(d) => match r { Ok(Some(h)) => hover_is(h, doc_text(d, root)), _ => false },
    }
}

// ---- textDocument/prepareCallHierarchy ---------------------------------------------------------------------
/// what a CallHierarchyItem says (strings through their views)
pub ghost struct ItemV {
    pub name: Seq<char>, pub kind: SymbolKind, pub tags_none: bool, pub detail: Option<Seq<char>>,
    pub uri: Uri, pub range: Range, pub selection_range: Range, pub data_none: bool,
}
pub open spec fn item_v(i: CallHierarchyItem) -> ItemV {
    ItemV { name: i.name@, kind: i.kind, tags_none: i.tags is None, detail: opt_sv(i.detail), uri: i.uri, range: i.range,
            selection_range: i.selection_range, data_none: i.data is None }
}
pub open spec fn items_v(s: Seq<CallHierarchyItem>) -> Seq<ItemV> { s.map_values(|i: CallHierarchyItem| item_v(i)) }
/// uninterpreted: `SymbolKind::FUNCTION` (a private i32 newtype) and the `@pytest.fixture(scope=..)` detail text
pub uninterp spec fn sk_function() -> SymbolKind;
pub uninterp spec fn fixture_detail(scope: FixtureScope) -> Seq<char>;
/// the range that marks the NAME of definition d on its line
pub open spec fn def_name_range(d: DefV) -> Range { mk_range(lsp_line(d.line), d.start_char as u32, lsp_line(d.line), d.end_char as u32) }
pub open spec fn def_item(u: Uri, d: DefV) -> ItemV {
    ItemV { name: d.name, kind: sk_function(), tags_none: true, detail: Some(fixture_detail(d.scope)), uri: u,
            range: mk_range(lsp_line(d.line), 0, lsp_line(d.line), d.end_char as u32), selection_range: def_name_range(d), data_none: true }
}
pub open spec fn op_handle_prepare(v: NavV, uri: Uri, line: u32, ch: u32) -> Option<Seq<ItemV>> {
    match goto_or_def_target(v, uri, line, ch) {
        None => None,
        Some(d) => match path_uri(v.uc, d.file) {
            None => None,
            Some(u) => Some(seq![def_item(u, d)]),
        },
    }
}
pub open spec fn opt_items_view(r: jsonrpc::Result<Option<Vec<CallHierarchyItem>>>) -> Option<Seq<ItemV>> {
    match r { Ok(Some(v)) => Some(items_v(v@)), _ => None }
}

// ---- textDocument/codeLens ---------------------------------------------------------------------------------
/// what a CodeLens says (strings / vectors through their views)
pub ghost struct LensV {
    pub range: Range,
    pub cmd: Option<(Seq<char>, Seq<char>, Option<Seq<LSPAny>>)>,      // (title, command, arguments)
    pub data_none: bool,
}
pub open spec fn lens_v(l: CodeLens) -> LensV {
    LensV { range: l.range,
            cmd: match l.command { Some(c) => Some((c.title@, c.command@, match c.arguments { Some(a) => Some(a@), None => None })), None => None },
            data_none: l.data is None }
}
pub open spec fn lenses_v(s: Seq<CodeLens>) -> Seq<LensV> { s.map_values(|l: CodeLens| lens_v(l)) }
/// uninterpreted: `format!("{} usages", n)` and the text of a URI
pub uninterp spec fn fmt_usages(n: nat) -> Seq<char>;
pub uninterp spec fn uri_text(u: Uri) -> Seq<char>;
/// the lens title is a function of the usage COUNT n
pub open spec fn lens_title(n: nat) -> Seq<char> { if n == 1 { "1 usage"@ } else { fmt_usages(n) } }
pub open spec fn lens_args(uri: Uri, line: u32, sc: usize) -> Option<Seq<LSPAny>> {
    match (json_str(uri_text(uri)), json_u32(line), json_usize(sc)) {
        (Some(a), Some(b), Some(c)) => Some(seq![a, b, c]),
        _ => None,
    }
}
/// definitions that get a lens: defined in the requested file, not third party
pub open spec fn lens_wanted(p: PV, d: DefV) -> bool { d.file == p && !d.is_third_party }
/// the lens of definition d: the COUNT is the number of references of d (op_refs = find_references_for_definition)
pub open spec fn lens_for(v: NavV, uri: Uri, d: DefV) -> Option<LensV> {
    match lens_args(uri, lsp_line(d.line), d.start_char) {
        None => None,       // a serialisation failure drops the lens
        Some(a) => Some(LensV { range: point_range(lsp_line(d.line), 0),
                                cmd: Some((lens_title(op_refs(v.defs, v.byfix, v.provf, d).len()), "pytest-lsp.findReferences"@, Some(a))),
                                data_none: true }),
    }
}
pub open spec fn lenses_of_defs(v: NavV, uri: Uri, p: PV, ds: Seq<DefV>) -> Seq<LensV>
    decreases ds.len()
{
    if ds.len() == 0 { Seq::empty() } else {
        let rest = lenses_of_defs(v, uri, p, ds.drop_last());
        let d = ds.last();
        if lens_wanted(p, d) && lens_for(v, uri, d) is Some { rest.push(lens_for(v, uri, d)->0) } else { rest }
    }
}
/// the lenses of the names ks[0], ks[1], .. in that order, each name's definitions in registration order
pub open spec fn lenses_of_keys(v: NavV, uri: Uri, p: PV, ks: Seq<Seq<char>>) -> Seq<LensV>
    decreases ks.len()
{
    if ks.len() == 0 { Seq::empty() } else { lenses_of_keys(v, uri, p, ks.drop_last()) + lenses_of_defs(v, uri, p, bucket(v.defs, ks.last())) }
}
/// ks lists every key of m exactly once (a hash iteration order is one such ks; nothing else is known of it)
pub open spec fn enumerates_keys<V>(ks: Seq<Seq<char>>, m: Map<Seq<char>, V>) -> bool {
    ks.no_duplicates() && (forall|k: Seq<char>| ks.contains(k) <==> m.contains_key(k))
}
pub open spec fn defs_fit(defs: Map<Seq<char>, Seq<DefV>>) -> bool {
    forall|n: Seq<char>, i: int| defs.contains_key(n) && 0 <= i < defs[n].len() ==> line_fits((#[trigger] defs[n][i]).line)
}
pub open spec fn opt_lenses_view(r: jsonrpc::Result<Option<Vec<CodeLens>>>) -> Option<Seq<LensV>> {
    match r { Ok(Some(v)) => Some(lenses_v(v@)), _ => None }
}
pub open spec fn nonempty<T>(s: Seq<T>) -> Option<Seq<T>> { if s.len() == 0 { None } else { Some(s) } }
/// postcondition of handle_code_lens: for SOME enumeration of the fixture names (the hash order), the concatenation
pub open spec fn lens_post(v: NavV, uri: Uri, r: jsonrpc::Result<Option<Vec<CodeLens>>>) -> bool {
    match uri_path(uri) {
        None => r == Ok::<Option<Vec<CodeLens>>, jsonrpc::Error>(None),
        Some(p) => r is Ok && exists|ks: Seq<Seq<char>>| enumerates_keys(ks, v.defs)
            && opt_lenses_view(r) == nonempty(#[trigger] lenses_of_keys(v, uri, p, ks)),
    }
}
pub open spec fn keys_of(s: Seq<RefMulti<'_, String, Vec<FixtureDefinition>>>) -> Seq<Seq<char>> {
    s.map_values(|e: RefMulti<'_, String, Vec<FixtureDefinition>>| e.k@)
}

// ---- callHierarchy/incomingCalls ---------------------------------------------------------------------------
/// the definition incoming / outgoing calls work for (RESOLVER = NONE; re-identification of the prepared item, since
/// the repair of F-05c BY ITS OWN LINE): among the definitions registered under the item's name, the first one in the
/// file of the item's URI that sits ON the line of the item's selection range (sel_line + 1); if there is none (stale
/// item), the FIRST definition of that name in the file
pub open spec fn item_def(v: NavV, name: Seq<char>, uri: Uri, sel_line: u32) -> Option<DefV> {
    match uri_path(uri) {
        None => None,
        Some(p) => match first_match(bucket(v.defs, name), p_def_line(p, sel_line as int + 1)) {
            Some(d) => Some(d),
            None => first_match(bucket(v.defs, name), p_same(p, fs_true())),
        },
    }
}
/// exec-level reading of p_def_line (a NAMED predicate: a conjunction inlined in a `find` closure contract sends Z3
/// into a matching loop, cf. x_ws_plugin in prelude/avail_spec.rs)
pub open spec fn x_def_on_line(d: &FixtureDefinition, file: PV, line: usize) -> bool { pbv(&d.file_path) == file && d.line == line }
/// ASSUMED callee (resolver.rs find_containing_function: AST search): name of the function around a line
pub uninterp spec fn containing_fn(cache: Map<PV, String>, file: PV, line: usize) -> Option<Seq<char>>;
/// uninterpreted: `Path::display().to_string()`
pub uninterp spec fn path_display(p: PV) -> Seq<char>;
pub open spec fn caller_name_of(o: Option<Seq<char>>) -> Seq<char> { match o { Some(s) => s, None => "<unknown>"@ } }
pub ghost struct InCallV { pub from: ItemV, pub from_ranges: Seq<Range> }
pub open spec fn in_call_v(c: CallHierarchyIncomingCall) -> InCallV { InCallV { from: item_v(c.from), from_ranges: c.from_ranges@ } }
pub open spec fn in_calls_v(s: Seq<CallHierarchyIncomingCall>) -> Seq<InCallV> { s.map_values(|c: CallHierarchyIncomingCall| in_call_v(c)) }
/// the incoming call a listed usage x becomes: all three ranges are the usage's name span
pub open spec fn in_call_for(v: NavV, u: Uri, x: UseV) -> InCallV {
    InCallV { from: ItemV { name: caller_name_of(containing_fn(v.cache, x.file, x.line)), kind: sk_function(), tags_none: true,
                            detail: Some(path_display(x.file)), uri: u, range: use_range(x), selection_range: use_range(x), data_none: true },
              from_ranges: seq![use_range(x)] }
}
/// one incoming call per usage of us that is `listed` (same filters as find-references), in order
pub open spec fn in_calls(v: NavV, us: Seq<UseV>, od: Option<DefV>) -> Seq<InCallV>
    decreases us.len()
{
    if us.len() == 0 { Seq::empty() } else {
        let rest = in_calls(v, us.drop_last(), od);
        let x = us.last();
        if listed(v.uc, od, x) { rest.push(in_call_for(v, path_uri(v.uc, x.file)->0, x)) } else { rest }
    }
}
/// incoming calls = the references (op_refs) of item_def
pub open spec fn op_handle_incoming(v: NavV, name: Seq<char>, uri: Uri, sel_line: u32) -> Option<Seq<InCallV>> {
    match item_def(v, name, uri, sel_line) {
        None => None,
        Some(d) => Some(in_calls(v, op_refs(v.defs, v.byfix, v.provf, d), Some(d))),
    }
}
pub open spec fn in_fits(v: NavV, name: Seq<char>, uri: Uri, sel_line: u32) -> bool {
    item_def(v, name, uri, sel_line) is Some ==> uses_fit(op_refs(v.defs, v.byfix, v.provf, item_def(v, name, uri, sel_line)->0))
}
pub open spec fn opt_in_calls_view(r: jsonrpc::Result<Option<Vec<CallHierarchyIncomingCall>>>) -> Option<Seq<InCallV>> {
    match r { Ok(Some(v)) => Some(in_calls_v(v@)), _ => None }
}
