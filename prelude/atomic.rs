// ---------------------------------------------------------------------------------------------
// AtomicU64 shim (T6): the sequential view of the version counter
pub struct AtomicU64 { pub v: u64 }
impl AtomicU64 {
    #[verifier::external_body]
    pub fn fetch_add(&mut self, n: u64, o: std::sync::atomic::Ordering) -> (r: u64)
        ensures r == old(self).v, final(self).v == (if old(self).v + n > u64::MAX { (old(self).v + n - u64::MAX - 1) as u64 } else { (old(self).v + n) as u64 })
    { unimplemented!() }
    #[verifier::external_body]
    pub fn load(&self, o: std::sync::atomic::Ordering) -> (r: u64)
        ensures r == self.v
    { unimplemented!() }
}
