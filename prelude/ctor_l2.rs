// ---------------------------------------------------------------------------------------------
// Unit constructors, L2: the state `FixtureDatabase::new()` returns (db_fresh, PROVED of the real body) satisfies the
// invariants the other units assume of their input state.  Every lemma is  requires db_fresh(db)  ensures <invariant>;
// the invariant's definition is the one of the prelude it is `//@include`d from (or a cited verbatim copy:
// prelude/ctor_copies.rs).  No assume / admit / axiom in this file.

/// the four index views (and the version) of a fresh database
pub proof fn lemma_fresh_views(db: FixtureDatabase)
    requires db_fresh(db)
    ensures db.defs() == Map::<Seq<char>, Seq<DefV>>::empty(), db.fdefs() == Map::<PV, Set<Seq<char>>>::empty(),
        db.uses() == Map::<PV, Seq<UseV>>::empty(), db.byfix() == Map::<Seq<char>, Seq<(PV, UseV)>>::empty(),
        db.version() == 0,
{
    assert(db.defs() =~= Map::<Seq<char>, Seq<DefV>>::empty());
    assert(db.fdefs() =~= Map::<PV, Set<Seq<char>>>::empty());
    assert(db.uses() =~= Map::<PV, Seq<UseV>>::empty());
    assert(db.byfix() =~= Map::<Seq<char>, Seq<(PV, UseV)>>::empty());
}

// ---- C06 / C10: the base state of unit history's induction ---------------------------------------------------------------
//@tags C06 C10
/// the index view of `FixtureDatabase::new()` IS idx_empty(), the start state of run(..) in every history theorem of
/// unit history (theorem_C06_database_after_any_history requires idx(dbs[0]) == idx_empty()), and it satisfies that
/// unit's whole invariant inv = core (W1 + no empty bucket) + wf (wf_names, uses_filed, byfix_wf, mirror_strong)
pub proof fn lemma_C06_new_is_history_base(db: FixtureDatabase)
    requires db_fresh(db)
    ensures idx(db) == idx_empty(), inv(idx(db)),
{
    lemma_fresh_views(db);
    lemma_idx_empty_inv();
}
/// inv(idx_empty()) -- also proved as lemma_empty_inv in prelude/history_l2.rs (not included here: 958 lines of proofs)
pub proof fn lemma_idx_empty_inv()
    ensures inv(idx_empty())
{
    let e = idx_empty();
    assert forall|g: PV, n: Seq<char>| #[trigger] bucket(e.byfix, n).filter(pair_in_file(g)) == pairs_of(bucket(e.uses, g).filter(use_named(n))) by {
        reveal(Seq::filter);
        assert(bucket(e.byfix, n) =~= Seq::<(PV, UseV)>::empty());
        assert(bucket(e.uses, g) =~= Seq::<UseV>::empty());
        assert(bucket(e.byfix, n).filter(pair_in_file(g)) =~= Seq::<(PV, UseV)>::empty());
        assert(bucket(e.uses, g).filter(use_named(n)) =~= Seq::<UseV>::empty());
        assert(pairs_of(Seq::<UseV>::empty()) =~= Seq::<(PV, UseV)>::empty());
    }
}
//@tags C06 C10
/// W1 (the reverse index file_definitions covers every definition: prelude/analyze_l2.rs, verbatim prelude/history_vocab.rs)
pub proof fn lemma_new_satisfies_w1(db: FixtureDatabase)
    requires db_fresh(db)
    ensures w1(db.defs(), db.fdefs())
{ lemma_fresh_views(db); }
//@tags C06 C19
/// wf_names (every definition is filed under its own name: the hypothesis of units available / scope_mismatch /
/// handlers_diag -- prelude/avail_spec.rs, mismatch_spec.rs, history_spec.rs carry the same text)
pub proof fn lemma_new_satisfies_wf_names(db: FixtureDatabase)
    requires db_fresh(db)
    ensures wf_names(db.defs())
{ lemma_fresh_views(db); }
//@tags C06 C19
pub proof fn lemma_new_satisfies_mirror_strong(db: FixtureDatabase)
    requires db_fresh(db)
    ensures mirror_strong(db.uses(), db.byfix()), uses_filed(db.uses()), byfix_wf(db.byfix()), ne4(idx(db)),
{ lemma_C06_new_is_history_base(db); }

// ---- C07: memo tables ----------------------------------------------------------------------------------------------------
//@tags C07
/// the content-hash keyed memo tables (unit memo_keys: prelude/memokeys_spec.rs, memokeys_canon_spec.rs)
pub proof fn lemma_new_satisfies_li_cache_wf(db: FixtureDatabase)
    requires db_fresh(db)
    ensures li_cache_wf(db.line_index_cache.m())
{}
//@tags C07
pub proof fn lemma_new_satisfies_canon_cache_wf(db: FixtureDatabase)
    requires db_fresh(db)
    ensures canon_cache_wf(db.canonical_path_cache.m())
{}
//@tags C07
pub proof fn lemma_new_satisfies_ast_cache_wf(db: FixtureDatabase)
    requires db_fresh(db)
    ensures ast_cache_wf(db.ast_cache.m())
{}
//@tags C07
/// the per-call H-ideal hypothesis of analyze_file / get_line_index / get_parsed_ast (no collision with the text a
/// cached entry was built from) holds of the fresh database for EVERY file and text: nothing is cached
pub proof fn lemma_C07_new_has_no_collision(db: FixtureDatabase, f: PV, t: Seq<char>)
    requires db_fresh(db)
    ensures li_no_collision(db.line_index_cache.m(), f, t), ast_no_collision(db.ast_cache.m(), f, t),
        !li_hit(db.line_index_cache.m(), f, t), !ast_hit(db.ast_cache.m(), f, t),
{}
//@tags C07
/// the version-stamped memo tables of unit memo (available fixtures, cycles): verbatim copies, prelude/ctor_copies.rs
pub proof fn lemma_new_satisfies_avail_cache_ok(db: FixtureDatabase)
    requires db_fresh(db)
    ensures db.avail_cache_ok()
{}
//@tags C07
pub proof fn lemma_new_satisfies_cycle_cache_ok(db: FixtureDatabase)
    requires db_fresh(db)
    ensures db.cycle_cache_ok()
{}

// ---- env_ok: NOT an invariant the constructor can establish --------------------------------------------------------------
/// what the environment hypothesis env_ok (prelude/visit_env.rs) says of the FRESH database: the two uninterpreted
/// functions of prelude/visit_spec.rs are fixed to "third-party == some path component is named site-packages" and
/// "no file is a plugin file".  env_third_party / env_is_plugin are uninterpreted CONSTANTS of a verification unit: env_ok
/// is a hypothesis that ties them to one environment (workspace root, editable installs, plugin files), not a property
/// a state can be proved to have.
pub open spec fn env_is_fresh() -> bool {
    &&& forall|file: PV| #[trigger] env_third_party(file) == has_sp_component(file)
    &&& forall|file: PV| !#[trigger] env_is_plugin(file)
}
//@tags C06 C19
pub proof fn lemma_new_env_ok_iff(db: FixtureDatabase)
    requires db_fresh(db)
    ensures db.env_ok() <==> env_is_fresh()
{
    assert(roots(db.editable_install_roots@) =~= Seq::<PV>::empty());
    assert(opt_pbv(db.workspace_root) == None::<PV>);
    assert(db.plugin_fixture_files.m().dom() =~= Set::<PV>::empty());
    assert forall|file: PV| op_editable_third_party(Seq::<PV>::empty(), None::<PV>, file) == false by {}
    assert forall|file: PV| op_in_site_packages(None::<PV>, file) == has_sp_component(file) by {}
    if db.env_ok() {
        assert forall|file: PV| #[trigger] env_third_party(file) == has_sp_component(file) by {}
        assert forall|file: PV| !#[trigger] env_is_plugin(file) by {}
    }
    if env_is_fresh() {
        assert(env_is(None::<PV>, Seq::<PV>::empty(), Set::<PV>::empty()));
    }
}
//@tags C06 C10 C19
/// db_inv (prelude/main_spec_v2.rs; == db_hyp of unit history) of the fresh database: the two memo-table clauses hold
/// outright, the environment clause is the hypothesis env_is_fresh()
pub proof fn lemma_C19_new_db_inv_iff_env(db: FixtureDatabase)
    requires db_fresh(db)
    ensures db_inv(db) <==> env_is_fresh(), db_hyp(db) <==> env_is_fresh(),
{
    lemma_new_env_ok_iff(db);
}
//@tags C06 C10
/// the precondition of the FIRST analysis (analyze_pre of main_spec_v2.rs = the `requires` of analyze_file, unit analyze)
/// on the fresh database: only the environment hypothesis and the (astronomic) no-wrap bound are left
pub proof fn lemma_C06_new_analyze_pre(db: FixtureDatabase, file: PV, text: Seq<char>)
    requires db_fresh(db), env_is_fresh(),
        parse_ok(text) ==> 1 + stmts_vdefs(body_of(ast_of(text)), canon(file), text).len() <= u64::MAX,
    ensures analyze_pre(db, file, text)
{
    lemma_new_env_ok_iff(db);
}
