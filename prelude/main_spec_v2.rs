// ---------------------------------------------------------------------------------------------
// Specifications for the notification handlers of src/main.rs.  Needs the analyze vocabulary (index_spec.rs,
// visit_spec.rs, analyze_spec.rs, index_dbspecs.rs) and lsp_backend_mut.rs.
// v2 (unit handlers_main_v2, composed with analyze_v2 / memo_v2): the hypotheses analyze_file now makes explicit --
// environment hypothesis env_ok (prelude/visit_env.rs), cache invariants li_cache_wf / canon_cache_wf and the per-text
// H-ideal hypothesis of unit memo_keys -- are part of analyze_pre; db_inv (the state part) is re-established by every
// handler, so it is an INVARIANT of any sequence of didOpen / didChange / didClose notifications.
// Needs additionally prelude/memokeys_spec.rs, memokeys_canon_spec.rs, visit_env.rs.
// v3 (composed with unit uri_glue through prelude/lsp_backend_mut_v3.rs): uri_path is op_uri_to_path, and the invariant
// of the URI cache (cache_inv, prelude/uri_spec.rs: every remembered URI is one uri_to_path maps to its key) is KEPT by
// all three handlers -- proved on the real bodies (separate ensures clause cache_inv_kept of each handler) and again at
// L2 from the *_post relations (lemma_srv_inv_is_invariant).

/// the state hypotheses of an analysis: environment hypothesis + invariants of the two memo tables analyze_file reads
pub open spec fn db_inv(o: FixtureDatabase) -> bool {
    o.env_ok() && li_cache_wf(o.line_index_cache.m()) && canon_cache_wf(o.canonical_path_cache.m())
}

/// no-wrap precondition of analyze_file for (file, text) (unit analyze: the version counter must not wrap)
pub open spec fn analyze_pre(o: FixtureDatabase, file: PV, text: Seq<char>) -> bool {
    &&& o.version() < u64::MAX
    &&& parse_ok(text) ==> o.version() + 1 + stmts_vdefs(body_of(ast_of(text)), canon(file), text).len() <= u64::MAX
    // v2
    &&& db_inv(o)
    &&& li_no_collision(o.line_index_cache.m(), canon(file), text)   // H-ideal for THIS call (unit memo_keys); implied by hash_collides_with_nothing(text)
}
/// the POSTCONDITION PROVED for analyze_file in unit analyze, as a relation between the database before (o) and
/// after (s).  A restatement of that @sig: it is CHECKED here, not trusted -- each handler proves it from the stub's
/// ensures right after the call (a copy stronger than the proved contract would not verify).
pub open spec fn analyze_file_post(o: FixtureDatabase, s: FixtureDatabase, file: PV, text: Seq<char>) -> bool {
    &&& s.version() != o.version()
    &&& db_inv(s)   // v2
    &&& !parse_ok(text) ==> s.defs() == o.defs() && s.fdefs() == o.fdefs() && s.uses() == o.uses() && s.byfix() == o.byfix()
            && s.undeclared_fixtures == o.undeclared_fixtures && s.imports == o.imports
    &&& parse_ok(text) ==> ({
            let f = canon(file);
            let body = body_of(ast_of(text));
            let d0 = clean_defs_names(o.defs(), f, sbucket(o.fdefs(), f));
            let fd0 = o.fdefs().remove(f);
            &&& s.defs() == push_defs(d0, stmts_vdefs(body, f, text))
            &&& s.fdefs() == add_fdefs(fd0, stmts_vdefs(body, f, text))
            &&& s.uses() == push_uses(o.uses().remove(f), stmts_vuses(body, f, text))
            &&& s.byfix() == push_byfix(clean_byfix(o.byfix(), f), stmts_vuses(body, f, text))
        })
}
/// didOpen: nothing happens for a URI without a path; otherwise the URI is remembered for the path, and the database
/// is the result of analyze_file(path, text of the opened document)
pub open spec fn did_open_post(o: Backend, s: Backend, uri: Uri, text: Seq<char>) -> bool {
    match uri_path(uri) {
        None => s.fixture_db == o.fixture_db && s.uri_cache.m() == o.uri_cache.m(),
        Some(p) => analyze_file_post(o.fixture_db, s.fixture_db, p, text) && s.uri_cache.m() == o.uri_cache.m().insert(p, uri),
    }
}
/// didChange (full document sync): the LAST content change is the document's latest content and the only one analysed (after fix faeeb2a; F-06b); an empty list changes nothing; the URI
/// cache is not touched
pub open spec fn did_change_post(o: Backend, s: Backend, uri: Uri, changes: Seq<TextDocumentContentChangeEvent>) -> bool {
    s.uri_cache.m() == o.uri_cache.m() && match uri_path(uri) {
        None => s.fixture_db == o.fixture_db,
        Some(p) => if changes.len() == 0 { s.fixture_db == o.fixture_db } else { analyze_file_post(o.fixture_db, s.fixture_db, p, changes.last().text@) },
    }
}
/// didClose: the cached text / per-file memo entries of the (canonical) path and its URI-cache entry go; the INDEX
/// (definitions, usages, reverse indexes, undeclared findings, imports, version) and the cycle cache are untouched
pub open spec fn did_close_post(o: Backend, s: Backend, uri: Uri) -> bool {
    match uri_path(uri) {
        None => s.fixture_db == o.fixture_db && s.uri_cache.m() == o.uri_cache.m(),
        Some(p) => {
            &&& s.uri_cache.m() == o.uri_cache.m().remove(p)
            &&& s.fixture_db.definitions == o.fixture_db.definitions && s.fixture_db.file_definitions == o.fixture_db.file_definitions
            &&& s.fixture_db.usages == o.fixture_db.usages && s.fixture_db.usage_by_fixture == o.fixture_db.usage_by_fixture
            &&& s.fixture_db.undeclared_fixtures == o.fixture_db.undeclared_fixtures && s.fixture_db.imports == o.fixture_db.imports
            &&& s.fixture_db.version() == o.fixture_db.version() && s.fixture_db.cycle_cache == o.fixture_db.cycle_cache
            &&& s.fixture_db.file_cache.m() == o.fixture_db.file_cache.m().remove(canon(p))
            &&& s.fixture_db.available_fixtures_cache.m() == o.fixture_db.available_fixtures_cache.m().remove(canon(p))
            // v2: closing a document keeps the state hypotheses
            &&& db_inv(o.fixture_db) ==> db_inv(s.fixture_db)
        },
    }
}

/// v3: the handler keeps the invariant of the URI cache
pub open spec fn cache_inv_kept(o: Backend, s: Backend) -> bool { cache_inv(o.uri_cache.m()) ==> cache_inv(s.uri_cache.m()) }
/// v3: after didOpen(uri) of a URI with a path, path_to_uri answers the document's path with the client's OWN URI
pub open spec fn own_uri_after_open(s: Backend, uri: Uri) -> bool {
    uri_path(uri) is Some ==> path_uri(s.uri_cache, uri_path(uri)->0) == Some(uri)
}
/// v3: the invariant of the whole server state the notification handlers keep: database part + URI cache part
pub open spec fn srv_inv(o: Backend) -> bool { db_inv(o.fixture_db) && cache_inv(o.uri_cache.m()) }
