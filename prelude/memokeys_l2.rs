// ---------------------------------------------------------------------------------------------
// Unit memo_keys: PROVED lemmas a caller of get_line_index / get_parsed_ast uses to discharge the no-collision
// hypothesis of a call (li_no_collision / ast_no_collision).  Needs prelude/memokeys_spec.rs.  No assumption here.
/// how the hypothesis of a call is discharged (1): from the skolem witness of the entry under the invariant
//@tags C07
pub proof fn lemma_li_no_collision_from_witness(m: LiMap, f: PV, t: Seq<char>)
    requires li_cache_wf(m), m.contains_key(f) ==> hash_collision_free(t, li_src(m[f])),
    ensures li_no_collision(m, f, t),
{
    if m.contains_key(f) { assert(li_entry_ok(m[f])); assert(li_built_from(m[f], li_src(m[f]))); }
}
/// (2): from the state-independent form "t collides with no other text"
//@tags C07
pub proof fn lemma_no_collision_from_collides_with_nothing(lm: LiMap, am: AstMap, f: PV, t: Seq<char>)
    requires li_cache_wf(lm), ast_cache_wf(am), hash_collides_with_nothing(t),
    ensures li_no_collision(lm, f, t), ast_no_collision(am, f, t),
{
    if lm.contains_key(f) { assert(li_entry_ok(lm[f])); let t0 = li_src(lm[f]); assert(li_built_from(lm[f], t0)); assert(hash_collision_free(t, t0)); }
    if am.contains_key(f) { assert(ast_entry_ok(am[f])); let t0 = ast_src(am[f]); assert(ast_built_from(am[f], t0)); assert(hash_collision_free(t, t0)); }
}
//@tags C07
pub proof fn lemma_ast_no_collision_from_witness(m: AstMap, f: PV, t: Seq<char>)
    requires ast_cache_wf(m), m.contains_key(f) ==> hash_collision_free(t, ast_src(m[f])),
    ensures ast_no_collision(m, f, t),
{
    if m.contains_key(f) { assert(ast_entry_ok(m[f])); assert(ast_built_from(m[f], ast_src(m[f]))); }
}
