// ---------------------------------------------------------------------------------------------
// Unit constructors: vacuity guards.  Each `canary_*` must FAIL.
/// THE invariant that is NOT established by the constructor: env_ok.  It ties the uninterpreted env_third_party /
/// env_is_plugin of prelude/visit_spec.rs to the database's environment fields; of a fresh database it says "no file is
/// a plugin file and third-party == has a site-packages component" -- a HYPOTHESIS about those functions, not a theorem
pub proof fn canary_new_satisfies_env_ok(db: FixtureDatabase)
    requires db_fresh(db)
    ensures db.env_ok()
{
    lemma_new_env_ok_iff(db);
}
/// ... hence db_inv / srv_inv are not unconditional either
pub proof fn canary_initial_srv_inv_without_env(b: providers::Backend)
    requires server_initial(b)
    ensures srv_inv(model_of(b))
{
    lemma_cache_inv_initially();
    let m = model_of(b);
    lemma_C19_new_db_inv_iff_env(m.fixture_db);
}
/// positive control for the two canaries above: the same statements WITH the hypothesis verify (lemma_C19_initial_srv_inv)
pub proof fn lemma_control_env_ok(db: FixtureDatabase)
    requires db_fresh(db), env_is_fresh()
    ensures db.env_ok()
{
    lemma_new_env_ok_iff(db);
}
/// env_ok of the fresh database is REFUTED in any environment with a plugin file (so it cannot be dropped as "obvious")
pub proof fn lemma_env_ok_refuted_by_a_plugin_file(db: FixtureDatabase, f: PV)
    requires db_fresh(db), env_is_plugin(f)
    ensures !db.env_ok()
{
    lemma_new_env_ok_iff(db);
}
/// db_fresh is contradictory
pub proof fn canary_db_fresh_contradictory(db: FixtureDatabase)
    requires db_fresh(db)
    ensures false
{}
/// the invariants hold of ANY database (the lemmas do not need db_fresh): W1
pub proof fn canary_any_db_satisfies_w1(db: FixtureDatabase)
    ensures w1(db.defs(), db.fdefs())
{}
/// ... the memo-table invariant
pub proof fn canary_any_db_satisfies_li_cache_wf(db: FixtureDatabase)
    ensures li_cache_wf(db.line_index_cache.m())
{}
/// ... the available-fixtures cache invariant when only the cache is empty but the version is arbitrary and the cycle
/// cache is not
pub proof fn canary_cycle_cache_ok_needs_nothing(db: FixtureDatabase)
    requires db.available_fixtures_cache.m() == Map::<PV, (u64, Arc<Vec<FixtureDefinition>>)>::empty()
    ensures db.cycle_cache_ok()
{}
/// a database that differs from the fresh one ONLY in the version (starts at 1) is the history base with version 0
pub proof fn canary_version_one_is_fresh(db: FixtureDatabase)
    requires idx(db) == idx_empty(), db.definitions_version.v == 1
    ensures db_fresh(db)
{}
/// a Backend whose cache already remembers a URI is fresh
pub proof fn canary_prefilled_cache_is_fresh(b: providers::Backend, p: PV)
    requires b.uri_cache.m().contains_key(p), b.workspace_root.v is None, b.original_workspace_root.v is None, b.scan_task.v is None, cfg_is_default(b.config.v)
    ensures backend_fresh(b)
{}
/// cache_inv holds of ANY cache (lemma_C19_new_backend_cache_inv does not need the emptiness)
pub proof fn canary_any_cache_satisfies_cache_inv(b: providers::Backend)
    ensures cache_inv(b.uri_cache.m())
{}
/// the initial index already lists a definition
pub proof fn canary_initial_index_has_definition(b: providers::Backend, n: Seq<char>)
    requires server_initial(b)
    ensures bucket(model_of(b).fixture_db.defs(), n).len() > 0
{
    let m = model_of(b);
    lemma_fresh_views(m.fixture_db);
}
