// ---------------------------------------------------------------------------------------------
// Operational specification of textDocument/codeAction (C17 quick fix "add the fixture as a parameter").
// Needs diag_spec.rs (DiagV, diag_v), position_spec.rs (UndeclV), text.rs (file_content), handlers2-style text_lines.
// All string computations on the function's signature line are UNINTERPRETED functions of that line.

pub ghost struct TextEditV { pub range: Range, pub new_text: Seq<char> }
pub open spec fn text_edit_v(e: TextEdit) -> TextEditV { TextEditV { range: e.range, new_text: e.new_text@ } }
pub open spec fn text_edits_v(s: Seq<TextEdit>) -> Seq<TextEditV> { s.map_values(|e: TextEdit| text_edit_v(e)) }
/// the content of `WorkspaceEdit::changes` (a std HashMap<Uri, Vec<TextEdit>>) as a list of (document, edits): opaque,
/// pinned down by the helper that builds the one-entry map
pub uninterp spec fn changes_v(m: std::collections::HashMap<Uri, Vec<TextEdit>>) -> Seq<(Uri, Seq<TextEditV>)>;
pub ghost struct ActV {
    pub title: Seq<char>, pub kind: Option<CodeActionKind>, pub diags: Option<Seq<DiagV>>,
    pub changes: Option<Seq<(Uri, Seq<TextEditV>)>>, pub other_edit_fields_none: bool, pub has_edit: bool,
    pub command_none: bool, pub is_preferred: Option<bool>, pub disabled_none: bool, pub data_none: bool,
}
pub open spec fn act_v(a: CodeAction) -> ActV {
    ActV { title: a.title@, kind: a.kind, diags: match a.diagnostics { Some(v) => Some(diags_v(v@)), None => None },
           changes: match a.edit { Some(e) => (match e.changes { Some(m) => Some(changes_v(m)), None => None }), None => None },
           other_edit_fields_none: match a.edit { Some(e) => e.document_changes is None && e.change_annotations is None, None => true },
           has_edit: a.edit is Some,
           command_none: a.command is None, is_preferred: a.is_preferred, disabled_none: a.disabled is None, data_none: a.data is None }
}
pub open spec fn acts_v(s: Seq<CodeActionOrCommand>) -> Seq<Option<ActV>> {
    s.map_values(|x: CodeActionOrCommand| match x { CodeActionOrCommand::CodeAction(a) => Some(act_v(a)), _ => None })
}
/// uninterpreted: `CodeActionKind::QUICKFIX`, the `only` filter test, the lines of a text, and the string functions
/// applied to the signature line L of the enclosing function
pub uninterp spec fn kind_quickfix() -> CodeActionKind;
pub uninterp spec fn wants_quickfix(only: Seq<CodeActionKind>) -> bool;
pub uninterp spec fn lines_of(t: Seq<char>) -> Seq<Seq<char>>;
pub uninterp spec fn sig_close(l: Seq<char>) -> Option<usize>;                 // `L.find("):")`
pub uninterp spec fn prefix_has_open(l: Seq<char>, pp: usize) -> bool;         // `L[..pp].contains('(')`
pub uninterp spec fn first_open(l: Seq<char>) -> Option<usize>;                // `L.find('(')`
pub uninterp spec fn params_blank(l: Seq<char>, a: usize, b: usize) -> bool;   // `L[a..b].trim().is_empty()`
pub uninterp spec fn has_params(l: Seq<char>, pp: usize) -> bool;              // `!L[..pp].split('(').next_back().unwrap_or("").trim().is_empty()`
pub uninterp spec fn fmt_comma_name(n: Seq<char>) -> Seq<char>;                // `format!(", {}", name)`
pub uninterp spec fn fmt_action_title(n: Seq<char>) -> Seq<char>;             // `format!("Add '{}' fixture parameter", name)`

/// the undeclared finding a diagnostic refers to: the FIRST recorded one of the file that starts exactly at the
/// diagnostic's start position (line + 1, character); the diagnostic's end and message are not compared
pub open spec fn und_at(line1: int, ch: int) -> spec_fn(UndeclV) -> bool { |u: UndeclV| u.line == line1 && u.start_char == ch }
pub open spec fn first_undecl(us: Seq<UndeclV>, p: spec_fn(UndeclV) -> bool) -> Option<UndeclV>
    decreases us.len()
{
    if us.len() == 0 { None } else if p(us[0]) { Some(us[0]) } else { first_undecl(us.drop_first(), p) }
}
/// where the parameter is inserted on signature line L, and what: None = no action (signature not of the single-line
/// `...(...):` shape)
pub open spec fn insertion(l: Seq<char>, name: Seq<char>) -> Option<(usize, Seq<char>)> {
    match sig_close(l) {
        None => None,
        Some(pp) => if !prefix_has_open(l, pp) { None } else {
            match first_open(l) {
                None => None,
                Some(po) => Some((if params_blank(l, (po + 1) as usize, pp) { (po + 1) as usize } else { pp },
                                  if has_params(l, pp) { fmt_comma_name(name) } else { name })),
            }
        },
    }
}
/// the quick fix for undeclared finding u of the document `uri` whose text is t, requested through diagnostic dg:
/// ONE insertion on the signature line of the function that CONTAINS the usage (u.function_line), in that document
pub open spec fn action_for(uri: Uri, t: Seq<char>, u: UndeclV, dg: DiagV) -> Option<ActV> {
    let fl = lsp_line(u.function_line);
    if fl as int >= lines_of(t).len() { None } else {
        match insertion(lines_of(t)[fl as int], u.name) {
            None => None,
            Some(ins) => Some(ActV {
                title: fmt_action_title(u.name), kind: Some(kind_quickfix()), diags: Some(seq![dg]),
                changes: Some(seq![(uri, seq![TextEditV { range: point_range(fl, ins.0 as u32), new_text: ins.1 }])]),
                other_edit_fields_none: true, has_edit: true, command_none: true, is_preferred: Some(true), disabled_none: true, data_none: true }),
        }
    }
}
/// the action (if any) one diagnostic of the request gives rise to
pub open spec fn action_of_diag(uri: Uri, content: Option<Seq<char>>, us: Seq<UndeclV>, dg: DiagV) -> Option<ActV> {
    if !(dg.code_is_string && dg.code == Some(code_undeclared())) { None } else {
        match first_undecl(us, und_at(dg.range.start.line as int + 1, dg.range.start.character as int)) {
            None => None,
            Some(u) => match content { None => None, Some(t) => action_for(uri, t, u, dg) },
        }
    }
}
pub open spec fn actions_of(uri: Uri, content: Option<Seq<char>>, us: Seq<UndeclV>, dgs: Seq<DiagV>) -> Seq<Option<ActV>>
    decreases dgs.len()
{
    if dgs.len() == 0 { Seq::empty() } else {
        let rest = actions_of(uri, content, us, dgs.drop_last());
        match action_of_diag(uri, content, us, dgs.last()) { Some(a) => rest.push(Some(a)), None => rest }
    }
}
pub open spec fn fn_lines_fit(us: Seq<UndeclV>) -> bool { forall|i: int| 0 <= i < us.len() ==> line_fits((#[trigger] us[i]).function_line) }
pub open spec fn opt_acts_view(r: jsonrpc::Result<Option<Vec<CodeActionOrCommand>>>) -> Option<Seq<Option<ActV>>> {
    match r { Ok(Some(v)) => Some(acts_v(v@)), _ => None }
}
/// what handle_code_action returns: nothing when the client filters quick fixes out or the URI has no path;
/// otherwise the actions of the request's diagnostics, in order (None when there are none)
pub open spec fn op_handle_code_action(cache: Map<PV, String>, undecl: Map<PV, Seq<UndeclV>>, uri: Uri, only: Option<Seq<CodeActionKind>>, dgs: Seq<DiagV>) -> Option<Seq<Option<ActV>>> {
    if only is Some && !wants_quickfix(only->0) { None } else {
        match uri_path(uri) {
            None => None,
            Some(p) => nonempty(actions_of(uri, file_content(cache, p), bucket(undecl, p), dgs)),
        }
    }
}
/// helper vocabulary of the T5b wrappers: the blank test of a parameter section text
pub uninterp spec fn params_text(s: Seq<char>) -> bool;
pub open spec fn strs_ref_v2(s: Seq<&str>) -> Seq<Seq<char>> { s.map_values(|x: &str| x@) }
pub assume_specification[ <Diagnostic as Clone>::clone ](a: &Diagnostic) -> (r: Diagnostic)
    ensures diag_v(r) == diag_v(*a);
pub proof fn lemma_first_undecl_none(us: Seq<UndeclV>, p: spec_fn(UndeclV) -> bool)
    requires forall|j: int| 0 <= j < us.len() ==> !p(#[trigger] us[j])
    ensures first_undecl(us, p) is None
    decreases us.len()
{
    if us.len() > 0 {
        assert(!p(us[0]));
        assert forall|j: int| 0 <= j < us.drop_first().len() implies !p(#[trigger] us.drop_first()[j]) by { assert(us.drop_first()[j] == us[j + 1]); }
        lemma_first_undecl_none(us.drop_first(), p);
    }
}
pub proof fn lemma_first_undecl_idx(us: Seq<UndeclV>, p: spec_fn(UndeclV) -> bool, i: int)
    requires 0 <= i < us.len(), p(us[i]), forall|j: int| 0 <= j < i ==> !p(#[trigger] us[j])
    ensures first_undecl(us, p) == Some(us[i])
    decreases us.len()
{
    if i > 0 {
        assert(!p(us[0]));
        assert forall|j: int| 0 <= j < i - 1 implies !p(#[trigger] us.drop_first()[j]) by { assert(us.drop_first()[j] == us[j + 1]); }
        assert(us.drop_first()[i - 1] == us[i]);
        lemma_first_undecl_idx(us.drop_first(), p, i - 1);
    }
}
