// ---------------------------------------------------------------------------------------------
// glob 0.3 — shim for `glob::Pattern` (trusted base A3).  The type is opaque; what a pattern string
// "is valid" means is left uninterpreted (`glob_valid`); a compiled pattern remembers its source text
// (`Pattern::as_str`), which is its view.
#[verifier::external_body] pub struct Pattern { _p: core::marker::PhantomData<()> }
#[verifier::external_body] pub struct PatternError { _p: core::marker::PhantomData<()> }
pub uninterp spec fn glob_valid(s: Seq<char>) -> bool;
impl Pattern {
    pub uninterp spec fn view(&self) -> Seq<char>;
    /// glob::Pattern::new: Ok exactly for the valid pattern strings; the result's source text is the argument
    #[verifier::external_body]
    pub fn new(pattern: &str) -> (r: Result<Pattern, PatternError>)
        ensures match r { Ok(p) => glob_valid(pattern@) && p@ == pattern@, Err(_) => !glob_valid(pattern@) }
    { unimplemented!() }
}
pub open spec fn pat_views(v: Seq<Pattern>) -> Seq<Seq<char>> { v.map_values(|p: Pattern| p@) }
pub open spec fn glob_valid_fn() -> spec_fn(Seq<char>) -> bool { |s: Seq<char>| glob_valid(s) }
