// ---------------------------------------------------------------------------------------------
// Unit scan_venv: further ASSUMED `str` primitives (trusted base A3; continues prelude/strstruct_prims.rs /
// strstruct_prims2.rs, same conventions: every statement is written to be TRUE of the std function, nothing more).
//   T1  str::lines() driven by a `for` loop (real `core::str::Lines`, prophetic iterator model of vstd): the lines lines_v(s) (uninterpreted), in order
//   T2  str::split_once(pat)   pat a `char` / `&str`: split at the FIRST occurrence (find_k); the pattern is dropped
//   T3  str::strip_suffix(pat) / str::strip_prefix(pat)   pat a `&str`: the rest iff the text ends / starts with it
//   T4  str::split(char)       axiom_split_def: split_v(s, c) (P16 of strstruct_prims2, @rename split vp_split_c) ==
//                              split_def(s, c), the pieces between the occurrences of c (defined; at least one piece)
//   T5  str::char_indices() driven by `.find(..)` (real `core::str::CharIndices`): the pairs (boff(s,k), s[k])
//   T6  char::is_ascii_digit   r == ('0' <= c <= '9')
//   T7  str::replace(['-','.'], "_").to_lowercase()   (@wrapexpr helper in the unit): norm_v (uninterpreted)
//   T8  str::to_string / String views: vstd
//   T9  str::bytes().any(|b| b < 0x20 && b != b'\t')   (@wrapexpr helper): has_ctl_v (uninterpreted)
//   T10 `s[a..]` / `s[..b]` on str (@wrapexpr_opt helpers in the unit): REQUIRE char boundaries (P13 convention)

// ---- T1 lines ---------------------------------------------------------------------------------------------------------
#[verifier::external_type_specification] #[verifier::external_body] pub struct ExLines<'a>(core::str::Lines<'a>);
/// `s.lines()`, driven by `next()`: the lines lines_v(s) (uninterpreted, P9), in order; finite
pub assume_specification<'a>[ str::lines ](s: &'a str) -> (r: core::str::Lines<'a>)
    ensures r.obeys_prophetic_iter_laws(), r.decrease() is Some, sv(r.remaining()) == lines_v(s@);
pub mod scanvenv_str_bc {
    use super::*;
    /// PROVED: views of a sequence of `&str` under `drop_first` (what `Iterator::next` leaves)
    pub broadcast proof fn lemma_sv_step(r: Seq<&str>)
        ensures #![trigger sv(r)] sv(r).len() == r.len(),
            r.len() > 0 ==> sv(r.drop_first()) == sv(r).drop_first() && sv(r)[0] == r[0]@,
    { if r.len() > 0 { assert(sv(r.drop_first()) =~= sv(r).drop_first()); } }
}
pub use scanvenv_str_bc::*;

// ---- T2 split_once ----------------------------------------------------------------------------------------------------
pub open spec fn split_once_v(s: Seq<char>, p: PatV) -> Option<(Seq<char>, Seq<char>)> {
    match find_k(s, p) { Some(k) => Some((s.take(k), s.skip(k + pat_len(p)))), None => None }
}
pub open spec fn opair_v(o: Option<(&str, &str)>) -> Option<(Seq<char>, Seq<char>)> {
    match o { Some(p) => Some((p.0@, p.1@)), None => None }
}
#[verifier::allow(undeclared_external_trait)]
pub assume_specification<'a, P: core::str::pattern::Pattern>[ str::split_once::<P> ](s: &'a str, p: P) -> (r: Option<(&'a str, &'a str)>)
    requires !(pat_v(p) is Other),
    ensures opair_v(r) == split_once_v(s@, pat_v(p));

// ---- T3 strip_suffix / strip_prefix -----------------------------------------------------------------------------------
pub open spec fn strip_suffix_v(s: Seq<char>, p: PatV) -> Option<Seq<char>> {
    if occurs_at(s, p, s.len() - pat_len(p)) { Some(s.take(s.len() - pat_len(p))) } else { None }
}
pub open spec fn strip_prefix_v(s: Seq<char>, p: PatV) -> Option<Seq<char>> {
    if occurs_at(s, p, 0) { Some(s.skip(pat_len(p))) } else { None }
}
#[verifier::allow(undeclared_external_trait)]
pub assume_specification<'a, P: core::str::pattern::Pattern>[ str::strip_suffix::<P> ](s: &'a str, p: P) -> (r: Option<&'a str>)
    where for<'b> P::Searcher<'b>: core::str::pattern::ReverseSearcher<'b>
    requires pat_v(p) is Str,
    ensures osv(r) == strip_suffix_v(s@, pat_v(p));
#[verifier::allow(undeclared_external_trait)]
pub assume_specification<'a, P: core::str::pattern::Pattern>[ str::strip_prefix::<P> ](s: &'a str, p: P) -> (r: Option<&'a str>)
    requires pat_v(p) is Str,
    ensures osv(r) == strip_prefix_v(s@, pat_v(p));

// ---- T4 split(char), defined -------------------------------------------------------------------------------------------
/// the pieces of s between the occurrences of c, in order (at least one piece; a piece never contains c)
pub open spec fn split_def(s: Seq<char>, c: char) -> Seq<Seq<char>>
    decreases s.len()
{
    match find_k(s, PatV::Ch(c)) {
        Some(k) => if 0 <= k < s.len() { seq![s.take(k)] + split_def(s.skip(k + 1), c) } else { seq![s] },
        None => seq![s],
    }
}
pub mod scanvenv_str_ax {
    use super::*;
    /// T4: `str::split(c)` (P16: split_v, yielded in order by vp_split_c) is split_def(s, c)
    pub broadcast axiom fn axiom_split_def(s: Seq<char>, c: char)
        ensures #[trigger] split_v(s, c) == split_def(s, c);
    /// a `&String` pattern is the text it refers to (std: `impl Pattern for &String`)
    pub broadcast axiom fn axiom_pat_string_ref<'a>(p: &'a String)
        ensures #[trigger] pat_v::<&'a String>(p) == PatV::Str(p@);
}
pub use scanvenv_str_ax::*;
/// PROVED: split_def has at least one piece, and the first piece is s up to the first c
pub proof fn lemma_split_def_first(s: Seq<char>, c: char)
    ensures split_def(s, c).len() >= 1,
        split_def(s, c)[0] == (match find_k(s, PatV::Ch(c)) { Some(k) => s.take(k), None => s }),
{
    lemma_find_k(s, PatV::Ch(c));
}
/// PROVED: no piece contains the separator
pub proof fn lemma_split_def_no_sep(s: Seq<char>, c: char, i: int)
    requires 0 <= i < split_def(s, c).len(),
    ensures !split_def(s, c)[i].contains(c),
    decreases s.len(),
{
    lemma_find_k(s, PatV::Ch(c));
    match find_k(s, PatV::Ch(c)) {
        Some(k) => {
            if i == 0 {
                let p = s.take(k);
                if p.contains(c) {
                    let j = choose|j: int| 0 <= j < p.len() && p[j] == c;
                    assert(occurs_at(s, PatV::Ch(c), j));
                }
            } else {
                lemma_split_def_no_sep(s.skip(k + 1), c, i - 1);
                assert(split_def(s, c)[i] == split_def(s.skip(k + 1), c)[i - 1]);
            }
        },
        None => {
            if s.contains(c) {
                let j = choose|j: int| 0 <= j < s.len() && s[j] == c;
                assert(occurs_at(s, PatV::Ch(c), j));
            }
        },
    }
}
/// PROVED: a text without the separator is its own single piece
pub proof fn lemma_split_def_none(s: Seq<char>, c: char)
    requires !s.contains(c),
    ensures split_def(s, c) == seq![s],
{
    lemma_find_k(s, PatV::Ch(c));
    if let Some(k) = find_k(s, PatV::Ch(c)) { assert(s[k] == c); assert(s.contains(c)); }
}
/// PROVED: `a + [c] + b` with a free of c splits into a followed by the pieces of b
pub proof fn lemma_split_def_cons(a: Seq<char>, c: char, b: Seq<char>)
    requires !a.contains(c),
    ensures split_def(a + seq![c] + b, c) == seq![a] + split_def(b, c),
{
    let s = a + seq![c] + b;
    lemma_find_k(s, PatV::Ch(c));
    assert(s[a.len() as int] == c);
    assert(occurs_at(s, PatV::Ch(c), a.len() as int));
    let k = find_k(s, PatV::Ch(c))->0;
    if k < a.len() { assert(a[k] == c); assert(a.contains(c)); }
    assert(k == a.len());
    assert(s.take(k) =~= a);
    assert(s.skip(k + 1) =~= b);
}

// ---- T5 char_indices ---------------------------------------------------------------------------------------------------
#[verifier::external_type_specification] #[verifier::external_body] pub struct ExCharIndices<'a>(core::str::CharIndices<'a>);
/// `s.char_indices()` consumed by an iterator method: the pairs (byte offset of character k, character k), in order
pub assume_specification<'a>[ str::char_indices ](s: &'a str) -> (r: core::str::CharIndices<'a>)
    ensures r.obeys_prophetic_iter_laws(), r.decrease() is Some, r.remaining() == ci_seq(s@);

// ---- T6 char::is_ascii_digit --------------------------------------------------------------------------------------------
pub open spec fn is_digit(c: char) -> bool { '0' <= c && c <= '9' }
pub assume_specification[ char::is_ascii_digit ](c: &char) -> (r: bool)
    ensures r == is_digit(*c);

// ---- T7 / T9 uninterpreted text functions -------------------------------------------------------------------------------
/// `name.replace(['-', '.'], "_").to_lowercase()` (PEP 503-style normalisation as the code spells it)
pub uninterp spec fn norm_v(s: Seq<char>) -> Seq<char>;
/// `line.bytes().any(|b| b < 0x20 && b != b'\t')`: the text has a control byte other than TAB
pub uninterp spec fn has_ctl_v(s: Seq<char>) -> bool;

// ---- T5 (continued): the pairs `char_indices` yields, as a defined sequence -----------------------------------------------
pub open spec fn ci_seq(s: Seq<char>) -> Seq<(usize, char)> { Seq::new(s.len(), |k: int| (boff(s, k) as usize, s[k])) }
/// p is a pair char_indices yields for s; ci_k: the character index it belongs to
pub open spec fn ci_ok(s: Seq<char>, p: (usize, char)) -> bool { exists|k: int| 0 <= k < s.len() && p.0 == #[trigger] boff(s, k) && p.1 == s[k] }
pub open spec fn ci_k(s: Seq<char>, p: (usize, char)) -> int { choose|k: int| 0 <= k < s.len() && p.0 == #[trigger] boff(s, k) && p.1 == s[k] }
pub mod scanvenv_str_bc2 {
    use super::*;
    /// PROVED: the k-th pair belongs to character k (offsets are strictly increasing)
    pub broadcast proof fn lemma_ci_k(s: Seq<char>, k: int)
        requires 0 <= k < s.len(), blen(s) <= usize::MAX,
        ensures ci_ok(s, #[trigger] ci_seq(s)[k]), ci_k(s, ci_seq(s)[k]) == k, ci_seq(s)[k].0 == boff(s, k), ci_seq(s)[k].1 == s[k],
    {
        lemma_blen_split(s, k);
        let p = ci_seq(s)[k];
        assert(p.0 == boff(s, k));
        let c = ci_k(s, p);
        if c < k { lemma_boff_mono(s, c, k); }
        if k < c { lemma_boff_mono(s, k, c); }
    }
}
pub use scanvenv_str_bc2::*;
/// PROVED: a '-' is one byte: the offset after it is a char boundary inside the text
pub proof fn lemma_dash_next(s: Seq<char>, k: int)
    requires 0 <= k < s.len(), s[k] == '-',
    ensures boff(s, k) + 1 == boff(s, k + 1), boff(s, k + 1) <= blen(s),
        is_bnd(s, (boff(s, k) + 1) as int), cidx(s, (boff(s, k) + 1) as int) == k + 1,
{
    lemma_boff_add(s, k, 1);
    assert(s.subrange(k, k + 1) =~= seq!['-']);
    assert(vstd::utf8::is_ascii_chars(seq!['-']));
    lemma_ascii_blen(seq!['-']);
    lemma_cidx(s, k + 1);
    lemma_blen_split(s, k + 1);
}

// ---- Option::or_else (vstd has no specification) ----------------------------------------------------------------------------
pub assume_specification<T, F>[ Option::<T>::or_else ](o: Option<T>, f: F) -> (r: Option<T>)
    where F: FnOnce() -> Option<T> + core::marker::Destruct, T: core::marker::Destruct
    requires o is None ==> call_requires(f, ()),
    ensures match o { Some(t) => r == o, None => call_ensures(f, (), r) };
/// `Option::is_some_and(f)`: `None => false`, `Some(x) => f(x)` (same statement as prelude/option_ext.rs)
pub assume_specification<T, F: FnOnce(T) -> bool>[ Option::<T>::is_some_and ](o: Option<T>, f: F) -> (r: bool)
    requires o is Some ==> call_requires(f, (o->0,)),
    ensures match o { Some(x) => call_ensures(f, (x,), r), None => !r };
