// ---------------------------------------------------------------------------------------------
// Unit cli_tree: std::collections::{BTreeMap, BTreeSet} specification shims (trusted base A3, transformation T6): the
// same method names and signatures as the std types for the subset src/fixtures/cli.rs uses.  Sequential views
// m(): Map<key view, V> / s(): Set<key view>; two keys are the same key iff their views are equal (what `Ord` decides
// for PathBuf / String: A3 `ord_total` of prelude/option_ext.rs).
//   BT1  iteration (`keys()`, `iter()`, `&set` as IntoIterator) yields THE ascending enumeration of the key set w.r.t.
//        the key type's `Ord` (path_ord / str_ord of prelude/option_ext.rs): `sorted_paths` / `sorted_strs` are
//        uninterpreted functions of the SET, pinned down by axiom_sorted_paths / axiom_sorted_strs (is_asc_enum).
//        This is what makes the printed order a function of the index and not of any hash order.
//   BT2  entry / or_default / insert / remove / get / contains_key / is_empty: the Map / Set operations.
// Needs prelude/path.rs, dashmap.rs (KeyView, Entry, default_val), option_ext.rs (path_ord, str_ord).
pub uninterp spec fn sorted_paths(d: Set<PV>) -> Seq<PV>;
pub uninterp spec fn sorted_strs(d: Set<Seq<char>>) -> Seq<Seq<char>>;
/// s is the strictly ascending (w.r.t. c) enumeration of the set d
pub open spec fn is_asc_enum<A>(s: Seq<A>, d: Set<A>, c: spec_fn(A, A) -> core::cmp::Ordering) -> bool {
    &&& forall|i: int, j: int| 0 <= i < j < s.len() ==> c(#[trigger] s[i], #[trigger] s[j]) is Less
    &&& forall|i: int| 0 <= i < s.len() ==> d.contains(#[trigger] s[i])
    &&& forall|x: A| d.contains(x) ==> exists|i: int| 0 <= i < s.len() && #[trigger] s[i] == x
}
pub mod bt_ax {
    use super::*;
    /// BT1
    pub axiom fn axiom_sorted_paths(d: Set<PV>) ensures is_asc_enum(sorted_paths(d), d, path_ord_fn());
    pub axiom fn axiom_sorted_strs(d: Set<Seq<char>>) ensures is_asc_enum(sorted_strs(d), d, str_ord_fn());
    pub broadcast axiom fn axiom_default_btreeset<T: OrdView>()
        ensures #[trigger] default_val::<BTreeSet<T>>().s() == Set::<T::KV>::empty();
}
pub use bt_ax::*;

/// a key type whose `Ord` is modelled: `sorted(d)` = the ascending enumeration of a finite set of key views
pub trait OrdView: KeyView { spec fn sorted(d: Set<Self::KV>) -> Seq<Self::KV>; }
impl OrdView for PathBuf { open spec fn sorted(d: Set<PV>) -> Seq<PV> { sorted_paths(d) } }
impl OrdView for String { open spec fn sorted(d: Set<Seq<char>>) -> Seq<Seq<char>> { sorted_strs(d) } }

pub open spec fn kviews<'a, K: KeyView>(s: Seq<&'a K>) -> Seq<K::KV> { s.map_values(|k: &'a K| k.kview()) }

#[verifier::external_body]
#[verifier::reject_recursive_types(K)]
#[verifier::reject_recursive_types(V)]
pub struct BTreeMap<K: OrdView, V> { _k: core::marker::PhantomData<(K, V)> }

impl<K: OrdView, V> BTreeMap<K, V> {
    pub uninterp spec fn m(&self) -> Map<K::KV, V>;

    #[verifier::external_body]
    pub fn new() -> (r: Self) ensures r.m() == Map::<K::KV, V>::empty()
    { unimplemented!() }

    /// same Entry model as the DashMap / HashMap shims: a mutable slot holding the current value, if any
    #[verifier::external_body]
    pub fn entry<'a>(&'a mut self, k: K) -> (e: Entry<'a, V>)
        ensures *e.slot == (if old(self).m().contains_key(k.kview()) { Some(old(self).m()[k.kview()]) } else { None::<V> }),
                final(self).m() == (match *final(e.slot) {
                    Some(v) => old(self).m().insert(k.kview(), v),
                    None => old(self).m().remove(k.kview()) })
    { unimplemented!() }

    #[verifier::external_body]
    pub fn insert(&mut self, k: K, v: V) -> (r: Option<V>)
        ensures final(self).m() == old(self).m().insert(k.kview(), v),
                r == (if old(self).m().contains_key(k.kview()) { Some(old(self).m()[k.kview()]) } else { None::<V> })
    { unimplemented!() }

    #[verifier::external_body]
    pub fn remove<Q: KeyView<KV = K::KV> + ?Sized>(&mut self, k: &Q) -> (r: Option<V>)
        ensures final(self).m() == old(self).m().remove(k.kview()),
                r == (if old(self).m().contains_key(k.kview()) { Some(old(self).m()[k.kview()]) } else { None::<V> })
    { unimplemented!() }

    #[verifier::external_body]
    pub fn get<'a, Q: KeyView<KV = K::KV> + ?Sized>(&'a self, k: &Q) -> (r: Option<&'a V>)
        ensures match r {
            Some(v) => self.m().contains_key(k.kview()) && *v == self.m()[k.kview()],
            None => !self.m().contains_key(k.kview()) }
    { unimplemented!() }

    #[verifier::external_body]
    pub fn contains_key<Q: KeyView<KV = K::KV> + ?Sized>(&self, k: &Q) -> (r: bool)
        ensures r == self.m().contains_key(k.kview())
    { unimplemented!() }

    #[verifier::external_body]
    pub fn is_empty(&self) -> (r: bool) ensures r == (self.m().dom().len() == 0)
    { unimplemented!() }

    /// BT1: the keys in ascending order
    #[verifier::external_body]
    pub fn keys<'a>(&'a self) -> (r: std::vec::IntoIter<&'a K>)
        ensures r.obeys_prophetic_iter_laws(), r.decrease() is Some,
            kviews(r.remaining()) == K::sorted(self.m().dom()),
    { unimplemented!() }
}
// only reached from the external_body helper that holds the `for children in tree.values_mut() { children.sort(); }` loop
#[verifier::external]
impl<K: OrdView, V> BTreeMap<K, V> { pub fn values_mut(&mut self) -> std::vec::IntoIter<&mut V> { unimplemented!() } }

#[verifier::external_body]
#[verifier::reject_recursive_types(T)]
pub struct BTreeSet<T: OrdView> { _t: core::marker::PhantomData<T> }

impl<T: OrdView> BTreeSet<T> {
    pub uninterp spec fn s(&self) -> Set<T::KV>;

    #[verifier::external_body]
    pub fn new() -> (r: Self) ensures r.s() == Set::<T::KV>::empty()
    { unimplemented!() }

    #[verifier::external_body]
    pub fn insert(&mut self, v: T) -> (r: bool)
        ensures final(self).s() == old(self).s().insert(v.kview()), r == !old(self).s().contains(v.kview())
    { unimplemented!() }

    /// BT1: the elements in ascending order
    #[verifier::external_body]
    pub fn iter<'a>(&'a self) -> (r: std::vec::IntoIter<&'a T>)
        ensures r.obeys_prophetic_iter_laws(), r.decrease() is Some,
            kviews(r.remaining()) == T::sorted(self.s()),
    { unimplemented!() }
}
impl<'a, T: OrdView> IntoIterator for &'a BTreeSet<T> {
    type Item = &'a T;
    type IntoIter = std::vec::IntoIter<&'a T>;
    /// BT1
    #[verifier::external_body]
    fn into_iter(self) -> (r: std::vec::IntoIter<&'a T>)
        ensures r.obeys_prophetic_iter_laws(), r.decrease() is Some,
            kviews(r.remaining()) == T::sorted(self.s()),
    { unimplemented!() }
}
impl<T: OrdView> Default for BTreeSet<T> {
    #[verifier::external_body]
    fn default() -> (r: Self) ensures r.s() == Set::<T::KV>::empty()
    { unimplemented!() }
}
