// ---------------------------------------------------------------------------------------------
// Unit constructors: invariants that other units write in their UNIT BODY (not in a prelude file), so they cannot be
// `//@include`d.  Each item below is a VERBATIM COPY (text-identical definition; units are verified as separate crates,
// so "the same definition" is textual in any case) with its source:
//   units/memo.rs    QView, op_avail, op_cycles, FixtureDatabase::q, avail_cache_ok, cycle_cache_ok   (lines 36-67)
//   units/cycles.rs  cycle_cache_ok  -- the same text as unit memo's                                   (lines 73-76)
//   units/history.rs idx, db_hyp                                                                        (lines 83-89)
//   units/cli_main.rs scanned_ok  -- see prelude/ctor_cli.rs (needs the cli vocabulary)
// `version()` of those unit bodies is index_dbspecs_all.rs's (same text).  Pure specification.
/// everything the memoised computations may read: definitions and cached texts (the file system is a constant)
pub struct QView { pub defs: Map<Seq<char>, Seq<DefV>>, pub texts: Map<PV, Seq<char>> }
/// what compute_available_fixtures returns (specified concretely in unit `available`; abstract here)
pub uninterp spec fn op_avail(q: QView, file: PV) -> Seq<DefV>;
/// what compute_fixture_cycles returns, abstractly (any function of the query view)
pub uninterp spec fn op_cycles(q: QView) -> Seq<FixtureCycle>;
impl FixtureDatabase {
    pub open spec fn q(&self) -> QView {
        QView { defs: defs_view(self.definitions.m()), texts: self.file_cache.m().map_values(|a: Arc<String>| (*a)@) }
    }
    /// cache invariant: an entry stamped with the current version holds what a recomputation would return
    pub open spec fn avail_cache_ok(&self) -> bool {
        forall|f: PV| #[trigger] self.available_fixtures_cache.m().contains_key(f)
            && self.available_fixtures_cache.m()[f].0 == self.version()
            ==> dvs((*self.available_fixtures_cache.m()[f].1)@) == op_avail(self.q(), f)
    }
    pub open spec fn cycle_cache_ok(&self) -> bool {
        self.cycle_cache.m().contains_key(()) && self.cycle_cache.m()[()].0 == self.version()
            ==> (*self.cycle_cache.m()[()].1)@ == op_cycles(self.q())
    }
}
/// the abstract index of a database: the four views unit analyze's contract speaks about (units/history.rs)
pub open spec fn idx(db: FixtureDatabase) -> IdxV {
    IdxV { defs: db.defs(), fdefs: db.fdefs(), uses: db.uses(), byfix: db.byfix() }
}
/// the state hypotheses of an analysis that analyze_file re-establishes (units/history.rs; == db_inv of main_spec_v2.rs)
pub open spec fn db_hyp(db: FixtureDatabase) -> bool {
    db.env_ok() && li_cache_wf(db.line_index_cache.m()) && canon_cache_wf(db.canonical_path_cache.m())
}
