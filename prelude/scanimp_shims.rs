// ---------------------------------------------------------------------------------------------
// HashSet shim (trusted base A3, same conventions as prelude/hashset.rs): `for x in &set` — iteration over a
// borrowed set yields *some* duplicate-free enumeration of its elements (same contract as `HashSet::iter`).
impl<'a, T: KeyView> IntoIterator for &'a HashSet<T> {
    type Item = &'a T;
    type IntoIter = std::vec::IntoIter<&'a T>;
    #[verifier::external_body]
    fn into_iter(self) -> (r: std::vec::IntoIter<&'a T>)
        ensures r.obeys_prophetic_iter_laws(), r.decrease() is Some,
            r.remaining().len() == self.s().len(),
            forall|i: int| 0 <= i < r.remaining().len() ==> self.s().contains((#[trigger] r.remaining()[i]).kview()),
            forall|i: int, j: int| 0 <= i < j < r.remaining().len() ==> r.remaining()[i].kview() != r.remaining()[j].kview(),
            forall|k: T::KV| self.s().contains(k) ==> exists|i: int| 0 <= i < r.remaining().len() && #[trigger] r.remaining()[i].kview() == k,
    { unimplemented!() }
}
// `iter.collect::<HashSet<T>>()`: the real std impl; nothing is specified about the result (vstd's `collect` leaves
// `from_iter_ensures` uninterpreted for this type), so a set built this way is an unknown set to the verifier.
#[verifier::external]
impl<T: KeyView + std::hash::Hash + Eq> FromIterator<T> for HashSet<T> {
    fn from_iter<I: IntoIterator<Item = T>>(iter: I) -> Self { HashSet { inner: iter.into_iter().collect() } }
}
// T5 wrapper: `Iterator::chain` is a provided method vstd does not specify.  `.chain(` is renamed to `.vp_chain(`; the
// external body IS the call to the real method, driven to its end (which the `.collect()` that follows does).  ASSUMED:
// first the elements of the receiver in order, then *some* duplicate-free enumeration of the set (hash order).
pub trait VpChainExt<T: KeyView>: Sized {
    fn vp_chain(self, other: HashSet<T>) -> (r: std::vec::IntoIter<T>);
}
impl<T: KeyView> VpChainExt<T> for std::vec::IntoIter<T> {
    #[verifier::external_body]
    fn vp_chain(self, other: HashSet<T>) -> (r: std::vec::IntoIter<T>)
        ensures r.obeys_prophetic_iter_laws(), r.decrease() is Some,
            r.remaining().len() == self.remaining().len() + other.s().len(),
            forall|i: int| #![trigger r.remaining()[i]] #![trigger self.remaining()[i]] 0 <= i < self.remaining().len() ==> r.remaining()[i] == self.remaining()[i],
            forall|i: int| self.remaining().len() <= i < r.remaining().len() ==> other.s().contains((#[trigger] r.remaining()[i]).kview()),
            forall|k: T::KV| other.s().contains(k) ==> exists|i: int| self.remaining().len() <= i < r.remaining().len() && #[trigger] r.remaining()[i].kview() == k,
    { self.chain(other.inner).collect::<Vec<T>>().into_iter() }
}
