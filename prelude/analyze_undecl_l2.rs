// ---------------------------------------------------------------------------------------------
// L2 over analyze_file_internal's contract about `undeclared_fixtures` (prelude/analyze_undecl.rs: undecl_post): C06 "the
// findings of a file depend on its current contents only", C17 "never flagged: a module-level or imported name" as ONE
// theorem over first pass + visitors + scanner, C19 "what is published follows the content".  Pure lemmas, no assumption.
// Needs prelude/analyze_undecl.rs, analyze_imports.rs + analyze_imports_l2.rs (imports_post, lemma_imports_post_entry,
// lemma_C17_module_level_name_is_in_imports), undecl_precision.rs (the scanner's precision theorem lemma_C17_a_precision,
// re-proved from its mechanical copy).

// ---- precision of everything the second pass records (composition with the scanner's theorem) ----------------------
/// every finding of xs has a name outside imps, is filed under `file`, and carries a name some registered fixture has
pub open spec fn all_outside(xs: Seq<UndV>, imps: Set<Seq<char>>, file: PV) -> bool {
    forall|i: int| 0 <= i < xs.len() ==> !imps.contains((#[trigger] xs[i]).name) && xs[i].file == file
}
pub proof fn lemma_all_outside_concat(a: Seq<UndV>, b: Seq<UndV>, imps: Set<Seq<char>>, file: PV)
    requires all_outside(a, imps, file), all_outside(b, imps, file),
    ensures all_outside(a + b, imps, file),
{
    assert forall|i: int| 0 <= i < (a + b).len() implies !imps.contains((#[trigger] (a + b)[i]).name) && (a + b)[i].file == file by {
        if i < a.len() { assert((a + b)[i] == a[i]); } else { assert((a + b)[i] == b[i - a.len()]); }
    }
}
pub proof fn lemma_scan_fn_outside(body: Seq<Stmt>, file: PV, li: Seq<usize>, declared: Set<Seq<char>>, fname: Seq<char>, fline: usize,
                                   defs: Map<Seq<char>, Seq<DefV>>, imps: Set<Seq<char>>)
    requires is_line_index(ints(li)), li.len() <= usize::MAX,
    ensures all_outside(scan_fn(body, file, li, declared, fname, fline, defs, imps), imps, file),
{
    let xs = scan_fn(body, file, li, declared, fname, fline, defs, imps);
    assert forall|i: int| 0 <= i < xs.len() implies !imps.contains((#[trigger] xs[i]).name) && xs[i].file == file by {
        lemma_C17_a_precision(body, file, li, declared, fname, fline, defs, imps, i);
    }
}
pub proof fn lemma_visit_undecl_outside(s: Stmt, file: PV, src: Seq<char>, li: Seq<usize>, defs0: Map<Seq<char>, Seq<DefV>>, imps: Set<Seq<char>>)
    requires is_line_index(ints(li)), li.len() <= usize::MAX,
    ensures all_outside(visit_undecl(s, file, src, li, defs0, imps), imps, file),
    decreases s, 0int
{
    match s {
        Stmt::ClassDef(c) => { lemma_body_undecl_outside(c.body@, c.body@.len() as int, file, src, li, defs0, imps); }
        Stmt::FunctionDef(_) => { lemma_func_undecl_outside(fn_view(s)->0, file, src, li, defs0, imps); }
        Stmt::AsyncFunctionDef(_) => { lemma_func_undecl_outside(fn_view(s)->0, file, src, li, defs0, imps); }
        _ => {}
    }
}
pub proof fn lemma_func_undecl_outside(v: FnV, file: PV, src: Seq<char>, li: Seq<usize>, defs0: Map<Seq<char>, Seq<DefV>>, imps: Set<Seq<char>>)
    requires is_line_index(ints(li)), li.len() <= usize::MAX,
    ensures all_outside(func_undecl(v, file, src, li, defs0, imps), imps, file),
{
    reveal(fix_scan); reveal(test_scan);
    let fline = vline(li, r_start(v.range));
    let d1 = push_defs(defs0, func_defs(v, file, src, li));
    lemma_scan_fn_outside(v.body, file, li, declared_fixture(v.name, v.args), v.name, fline, d1, imps);
    lemma_scan_fn_outside(v.body, file, li, declared_test(v.args), v.name, fline, d1, imps);
    lemma_all_outside_concat(fix_scan(v, file, src, li, defs0, imps), test_scan(v, file, src, li, defs0, imps), imps, file);
}
pub proof fn lemma_body_undecl_outside(b: Seq<Stmt>, n: int, file: PV, src: Seq<char>, li: Seq<usize>, defs0: Map<Seq<char>, Seq<DefV>>, imps: Set<Seq<char>>)
    requires is_line_index(ints(li)), li.len() <= usize::MAX,
    ensures all_outside(body_undecl(b, n, file, src, li, defs0, imps), imps, file),
    decreases b, n
{
    if 0 < n <= b.len() {
        lemma_body_undecl_outside(b, n - 1, file, src, li, defs0, imps);
        let d = push_defs(defs0, body_defs(b, n - 1, file, src, li));
        lemma_visit_undecl_outside(b[n - 1], file, src, li, d, imps);
        lemma_all_outside_concat(body_undecl(b, n - 1, file, src, li, defs0, imps), visit_undecl(b[n - 1], file, src, li, d, imps), imps, file);
    }
}
pub proof fn lemma_stmts_vundecl_outside(body: Seq<Stmt0>, file: PV, src: Seq<char>, d0: Map<Seq<char>, Seq<DefV>>, imps: Set<Seq<char>>)
    requires is_line_index(ints(src_line_index(src))), src_line_index(src).len() <= usize::MAX,
    ensures all_outside(stmts_vundecl(body, file, src, d0, imps), imps, file),
    decreases body.len()
{
    if body.len() > 0 {
        lemma_stmts_vundecl_outside(body.drop_last(), file, src, d0, imps);
        let d = push_defs(d0, stmts_vdefs(body.drop_last(), file, src));
        lemma_visit_undecl_outside(body.last(), file, src, src_line_index(src), d, imps);
        lemma_all_outside_concat(stmts_vundecl(body.drop_last(), file, src, d0, imps), visit_undecl(body.last(), file, src, src_line_index(src), d, imps), imps, file);
    }
}

// ==== L2 ============================================================================================================
//@tags C06
/// C06 -- f's findings after a SUCCESSFUL analysis are those of the CURRENT text only: two databases that agree on the
/// definitions map the second pass starts from (d0: all the scan reads besides the text -- availability is a function
/// of the definitions, unit undeclared_avail; the module-level names are those of the text itself) but hold ARBITRARY,
/// different old findings (uo1 / uo2, under f and elsewhere) end with the SAME list for f: nothing of a superseded
/// version survives, nothing accumulates; the key exists iff there is a finding; every other file's list is untouched
pub proof fn lemma_C06_findings_are_current_text_only(uo1: Map<PV, Seq<UndV>>, us1: Map<PV, Seq<UndV>>, uo2: Map<PV, Seq<UndV>>, us2: Map<PV, Seq<UndV>>,
        f: PV, t: Seq<char>, d0: Map<Seq<char>, Seq<DefV>>, g: PV)
    requires undecl_post(uo1, us1, f, t, d0), undecl_post(uo2, us2, f, t, d0),
    ensures
        bucket(us1, f) == findings_of(t, f, d0),
        bucket(us1, f) == bucket(us2, f),
        us1.contains_key(f) == us2.contains_key(f),
        g != f ==> us1.contains_key(g) == uo1.contains_key(g) && bucket(us1, g) == bucket(uo1, g),
{
    lemma_undecl_post_buckets(uo1, us1, f, t, d0, g);
    lemma_undecl_post_buckets(uo2, us2, f, t, d0, g);
}
//@tags C06
/// ... in particular analysing the SAME text twice in a row (same d0: e.g. a file without fixture definitions) is idempotent
/// on the findings, and analysing t1 then t2 leaves what analysing t2 alone leaves
pub proof fn lemma_C06_findings_superseded(u0: Map<PV, Seq<UndV>>, u1: Map<PV, Seq<UndV>>, u2: Map<PV, Seq<UndV>>, f: PV,
        t1: Seq<char>, d1: Map<Seq<char>, Seq<DefV>>, t2: Seq<char>, d2: Map<Seq<char>, Seq<DefV>>)
    requires undecl_post(u0, u1, f, t1, d1), undecl_post(u1, u2, f, t2, d2),
    ensures undecl_post(u0, u2, f, t2, d2),
{
    let x1 = findings_of(t1, f, d1);
    assert(u1.remove(f) =~= u0.remove(f)) by {
        if x1.len() > 0 { assert(u0.remove(f).insert(f, bucket(u0.remove(f), f) + x1).remove(f) =~= u0.remove(f)); }
        else { assert(u0.remove(f).remove(f) =~= u0.remove(f)); }
    }
}

//@tags C17
/// C17, ONE theorem over the whole pipeline (first pass + second pass + scanner): after a successful analysis of f
/// (text t, parsed to a module) NO finding filed under f carries a name that some top-level statement of the CURRENT
/// text binds (module_level_names: import / from-import aliases, non-fixture def / async def, class, assignment targets
/// -- the spec PROVED for collect_module_level_names in unit ast_helpers), nor any name of imports[f]; and it is filed
/// under f.  Hypotheses = clauses of analyze_file's (and analyze_file_fresh's) @sig: undecl_post on the findings view,
/// imports_post on the imports map, li_ok for the line index of the text (get_line_index, unit memo_keys).
/// Composes lemma_C17_a_precision (unit undeclared_scan, through undecl_precision.rs), visit_undecl (unit visit) and
/// lemma_C17_module_level_name_is_in_imports (analyze_imports_l2.rs).
pub proof fn lemma_C17_no_finding_for_module_level_name(uo: Map<PV, Seq<UndV>>, us: Map<PV, Seq<UndV>>, om: Map<PV, HashSet<String>>, sm: Map<PV, HashSet<String>>,
        f: PV, t: Seq<char>, d0: Map<Seq<char>, Seq<DefV>>, k: int, i: int)
    requires is_module(ast_of(t)),
        undecl_post(uo, us, f, t, d0), imports_post(om, sm, f, ast_of(t)),
        is_line_index(ints(src_line_index(t))), src_line_index(t).len() <= usize::MAX,
        0 <= k < bucket(us, f).len(),
    ensures
        0 <= i < body_of(ast_of(t)).len() ==> !module_level_names(body_of(ast_of(t))[i]).contains(bucket(us, f)[k].name),
        !imports_entry(sm, f).contains(bucket(us, f)[k].name),
        bucket(us, f)[k].file == f,
{
    let body = body_of(ast_of(t));
    lemma_undecl_post_buckets(uo, us, f, t, d0, f);
    lemma_stmts_vundecl_outside(body, f, t, d0, module_names(body));
    let u = bucket(us, f)[k];
    assert(u == findings_of(t, f, d0)[k]);
    assert(!module_names(body).contains(u.name));
    lemma_imports_post_entry(om, sm, f, ast_of(t));
    if 0 <= i < body.len() && module_level_names(body[i]).contains(u.name) {
        lemma_C17_module_level_name_is_in_imports(om, sm, f, ast_of(t), i, u.name);
    }
}

//@tags C19 C06
/// C19 -- what publish_diagnostics_for_file reads for a file (bucket(undecl_view(undeclared_fixtures), file): unit
/// handlers_diag dctx.undecl, through get_undeclared_fixtures, unit position) FOLLOWS THE CONTENT: after an analysis of
/// (f, t) it is the scan of t when t parses (whatever was published before), the previous list when it does not (the
/// last valid version stays in effect), and for every other file what it was.  Hypotheses = the two undeclared_fixtures
/// clauses of analyze_file's @sig on the view.
pub proof fn lemma_C19_findings_follow_content(uo: Map<PV, Seq<UndV>>, us: Map<PV, Seq<UndV>>, f: PV, t: Seq<char>, d0: Map<Seq<char>, Seq<DefV>>, g: PV)
    requires !parse_ok(t) ==> us == uo, parse_ok(t) ==> undecl_post(uo, us, f, t, d0),
    ensures
        bucket(us, f) == (if parse_ok(t) { findings_of(t, f, d0) } else { bucket(uo, f) }),
        g != f ==> bucket(us, g) == bucket(uo, g),
        // a text without top-level statements clears the file's findings
        parse_ok(t) && body_of(ast_of(t)).len() == 0 ==> !us.contains_key(f),
{
    if parse_ok(t) {
        lemma_undecl_post_buckets(uo, us, f, t, d0, g);
    }
}

// ---- vacuity guards: each of these must FAIL ----------------------------------------------------------------------------
/// findings ACCUMULATE over analyses: what was filed under f before is still there
pub proof fn canary_findings_accumulate(uo: Map<PV, Seq<UndV>>, us: Map<PV, Seq<UndV>>, f: PV, t: Seq<char>, d0: Map<Seq<char>, Seq<DefV>>)
    requires undecl_post(uo, us, f, t, d0),
    ensures bucket(us, f).len() >= bucket(uo, f).len(),
{
    lemma_undecl_post_buckets(uo, us, f, t, d0, f);
}
/// the analysis of f changes the findings of ANOTHER file g
pub proof fn canary_findings_other_file_changes(uo: Map<PV, Seq<UndV>>, us: Map<PV, Seq<UndV>>, f: PV, t: Seq<char>, d0: Map<Seq<char>, Seq<DefV>>, g: PV)
    requires undecl_post(uo, us, f, t, d0), g != f, uo.contains_key(g),
    ensures !us.contains_key(g) || us[g] != uo[g],
{
    lemma_undecl_post_buckets(uo, us, f, t, d0, g);
}
/// findings SURVIVE an analysis of an empty module
pub proof fn canary_findings_survive_empty_module(uo: Map<PV, Seq<UndV>>, us: Map<PV, Seq<UndV>>, f: PV, t: Seq<char>, d0: Map<Seq<char>, Seq<DefV>>)
    requires undecl_post(uo, us, f, t, d0), body_of(ast_of(t)).len() == 0, uo.contains_key(f),
    ensures us.contains_key(f),
{
    lemma_undecl_post_buckets(uo, us, f, t, d0, f);
}
/// undecl_post is contradictory
pub proof fn canary_undecl_post_contradictory(uo: Map<PV, Seq<UndV>>, us: Map<PV, Seq<UndV>>, f: PV, t: Seq<char>, d0: Map<Seq<char>, Seq<DefV>>)
    requires undecl_post(uo, us, f, t, d0), uo.contains_key(f),
    ensures false,
{}
/// a module-level name CAN be flagged when the line index is not known to be one (the hypothesis li_ok is needed)
pub proof fn canary_C17_without_line_index(body: Seq<Stmt0>, file: PV, src: Seq<char>, d0: Map<Seq<char>, Seq<DefV>>, imps: Set<Seq<char>>)
    ensures all_outside(stmts_vundecl(body, file, src, d0, imps), imps, file),
{}
