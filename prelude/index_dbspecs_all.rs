// ---------------------------------------------------------------------------------------------
// abstract views of the index maps -- variant of prelude/index_dbspecs.rs for a FixtureDatabase that lists EVERY field
// of src/fixtures/mod.rs except ast_cache:
//   definitions file_definitions usages usage_by_fixture definitions_version          (the index, viewed below)
//   file_cache undeclared_fixtures imports canonical_path_cache line_index_cache cycle_cache available_fixtures_cache
//   imported_fixtures_cache site_packages_paths editable_install_roots workspace_root plugin_fixture_files   (rest())
// `final(self).rest() == old(self).rest()` in a contract copied by `//@stub index_maint ..` then frames all twelve.
// SOUNDNESS RULE for `rest()`: a consumer may define rest() over any SUBSET of the fields the provider's rest() lists
// (unit index_maint proves the clause with THIS definition once index_maint_v2 is swapped in; with the three-field
// rest() of prelude/index_dbspecs.rs before that).
impl FixtureDatabase {
    pub open spec fn defs(&self) -> Map<Seq<char>, Seq<DefV>> { defs_view(self.definitions.m()) }
    pub open spec fn fdefs(&self) -> Map<PV, Set<Seq<char>>> { fdefs_view(self.file_definitions.m()) }
    pub open spec fn uses(&self) -> Map<PV, Seq<UseV>> { usages_view(self.usages.m()) }
    pub open spec fn byfix(&self) -> Map<Seq<char>, Seq<(PV, UseV)>> { byfix_view(self.usage_by_fixture.m()) }
    pub open spec fn version(&self) -> u64 { self.definitions_version.v }
    /// the fields no index-maintenance function touches: the texts / findings / names ...
    pub open spec fn rest_a(&self) -> (DashMap<PathBuf, Arc<String>>, DashMap<PathBuf, Vec<UndeclaredFixture>>, DashMap<PathBuf, HashSet<String>>) {
        (self.file_cache, self.undeclared_fixtures, self.imports)
    }
    /// ... the memo tables ...
    pub open spec fn rest_b(&self) -> (DashMap<PathBuf, PathBuf>, DashMap<PathBuf, (u64, Arc<Vec<usize>>)>, DashMap<(), (u64, Arc<Vec<FixtureCycle>>)>,
                                       DashMap<PathBuf, (u64, Arc<Vec<FixtureDefinition>>)>, DashMap<PathBuf, (u64, u64, Arc<HashSet<String>>)>) {
        (self.canonical_path_cache, self.line_index_cache, self.cycle_cache, self.available_fixtures_cache, self.imported_fixtures_cache)
    }
    /// ... and the environment
    pub open spec fn rest_c(&self) -> (Vec<PathBuf>, Vec<EditableInstall>, Option<PathBuf>, DashMap<PathBuf, ()>) {
        (self.site_packages_paths, self.editable_install_roots, self.workspace_root, self.plugin_fixture_files)
    }
    pub open spec fn rest(&self) -> ((DashMap<PathBuf, Arc<String>>, DashMap<PathBuf, Vec<UndeclaredFixture>>, DashMap<PathBuf, HashSet<String>>),
                                     (DashMap<PathBuf, PathBuf>, DashMap<PathBuf, (u64, Arc<Vec<usize>>)>, DashMap<(), (u64, Arc<Vec<FixtureCycle>>)>,
                                      DashMap<PathBuf, (u64, Arc<Vec<FixtureDefinition>>)>, DashMap<PathBuf, (u64, u64, Arc<HashSet<String>>)>),
                                     (Vec<PathBuf>, Vec<EditableInstall>, Option<PathBuf>, DashMap<PathBuf, ()>)) {
        (self.rest_a(), self.rest_b(), self.rest_c())
    }
}
