// ---------------------------------------------------------------------------------------------
// Unit constructors: stand-ins for what `start_lsp_server` (src/main.rs) calls outside the repo.  Spliced into
// `pub mod main_rs` AFTER providers / ctor_backend_spec.rs.  ASSUMED (trusted base A3, tower-lsp-server 0.23 / tokio):
//   CS3  LspService::new(init) calls `init` ONCE, on the client handle it creates, and the service it returns owns
//        exactly the Backend `init` returned (tower-lsp-server service.rs: `LspService::build(init).finish()`,
//        `inner: Router::new(init(client.clone()))`)
//   CS4  Server::new(stdin, stdout, socket).serve(service) serves with THAT service (and so that Backend)
// Server::serve carries the OBLIGATION of this unit as its precondition: the state served is server_initial.
pub mod tokio {
    pub mod io {
        use vstd::prelude::*;
        verus! {
        #[verifier::external_body] pub struct Stdin { _p: () }
        #[verifier::external_body] pub struct Stdout { _p: () }
        #[verifier::external_body] pub fn stdin() -> (r: Stdin) { unimplemented!() }
        #[verifier::external_body] pub fn stdout() -> (r: Stdout) { unimplemented!() }
        }
    }
}
/// the tower-lsp service: `backend` = the server state it dispatches every request to
pub struct LspService { pub backend: Backend }
#[verifier::external_body] pub struct ClientSocket { _p: () }
impl LspService {
    /// CS3
    #[verifier::external_body]
    pub fn new<F: FnOnce(Client) -> Backend>(init: F) -> (r: (LspService, ClientSocket))
        requires forall|c: Client| call_requires(init, (c,)),
        ensures exists|c: Client| call_ensures(init, (c,), r.0.backend),
    { unimplemented!() }
}
pub struct Server { pub stdin: tokio::io::Stdin, pub stdout: tokio::io::Stdout, pub socket: ClientSocket }
impl Server {
    pub fn new(stdin: tokio::io::Stdin, stdout: tokio::io::Stdout, socket: ClientSocket) -> (r: Server) { Server { stdin, stdout, socket } }
    /// CS4; the precondition is the unit's obligation on the real body: what is served is the initial server state
    #[verifier::external_body]
    pub fn serve(self, service: LspService)
        requires server_initial(service.backend)
    { }
}
/// `tracing_subscriber::fmt()....init()`: logging set-up, no server state involved
#[verifier::external_body] pub fn vp_init_logging() { }
impl Server {
    /// (canary only) a serve that demands a state in which an analysis has already bumped the version
    #[verifier::external_body]
    pub fn serve_c1(self, service: LspService)
        requires service.backend.fixture_db.definitions_version.v == 1
    { }
}
