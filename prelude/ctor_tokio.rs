// ---------------------------------------------------------------------------------------------
// Unit constructors: stand-ins for the tokio types in the field types of the REAL `struct Backend`
// (src/providers/mod.rs, taken verbatim by `//@item`).  Spliced into `pub mod providers`.
// The two lock types are MODELS (verified definitions, sequential reading as everywhere in /verif: T3/T6): a lock is
// the value it protects (`v`), `new(x)` protects x.  The std `Arc` around them is the REAL std Arc (vstd: `*Arc::new(x) == x`).
pub mod tokio {
    pub mod sync {
        use vstd::prelude::*;
        verus! {
        /// tokio::sync::RwLock<T>: the protected value
        pub struct RwLock<T> { pub v: T }
        impl<T> RwLock<T> {
            pub fn new(v: T) -> (r: Self)
                ensures r.v == v
            { RwLock { v } }
        }
        /// tokio::sync::Mutex<T>: the protected value
        pub struct Mutex<T> { pub v: T }
        impl<T> Mutex<T> {
            pub fn new(v: T) -> (r: Self)
                ensures r.v == v
            { Mutex { v } }
        }
        }
    }
    pub mod task {
        use vstd::prelude::*;
        verus! {
        /// tokio::task::JoinHandle<T>: opaque (Backend::new stores none)
        #[verifier::external_body]
        #[verifier::reject_recursive_types(T)]
        pub struct JoinHandle<T> { _p: core::marker::PhantomData<T> }
        }
    }
}
