// ---------------------------------------------------------------------------------------------
// Unit scan_select: L2 — property C13 (selection part) derived from the operational specification op_select of
// prelude/scansel_spec.rs.  Everything here is PROVED; hypotheses about the walk are explicit `requires`.

// ---- generic sequence lemmas --------------------------------------------------------------------------------------
pub open spec fn and_fn<A>(p: spec_fn(A) -> bool, q: spec_fn(A) -> bool) -> spec_fn(A) -> bool { |x: A| p(x) && q(x) }
pub proof fn lemma_filter_filter<A>(s: Seq<A>, p: spec_fn(A) -> bool, q: spec_fn(A) -> bool, pq: spec_fn(A) -> bool)
    requires forall|x: A| #[trigger] pq(x) == (p(x) && q(x)),
    ensures s.filter(p).filter(q) == s.filter(pq),
    decreases s.len(),
{
    reveal(Seq::filter);
    if s.len() > 0 {
        let t = s.drop_last();
        lemma_filter_filter(t, p, q, pq);
        if p(s.last()) {
            assert(t.filter(p).push(s.last()).drop_last() =~= t.filter(p));
        }
    }
}
/// two sequences that agree position by position on "kept" and, where kept, on the image, have the same
/// filtered images
pub proof fn lemma_filter_map_pointwise<A, B>(s1: Seq<A>, s2: Seq<A>, p1: spec_fn(A) -> bool, p2: spec_fn(A) -> bool,
                                               f1: spec_fn(A) -> B, f2: spec_fn(A) -> B)
    requires s1.len() == s2.len(),
        forall|k: int| 0 <= k < s1.len() ==> p1(#[trigger] s1[k]) == p2(s2[k]),
        forall|k: int| 0 <= k < s1.len() && p1(#[trigger] s1[k]) ==> f1(s1[k]) == f2(s2[k]),
    ensures s1.filter(p1).map_values(f1) =~= s2.filter(p2).map_values(f2),
    decreases s1.len(),
{
    reveal(Seq::filter);
    if s1.len() > 0 {
        let t1 = s1.drop_last(); let t2 = s2.drop_last();
        assert forall|k: int| 0 <= k < t1.len() implies p1(#[trigger] t1[k]) == p2(t2[k]) by { assert(t1[k] == s1[k]); assert(t2[k] == s2[k]); }
        assert forall|k: int| 0 <= k < t1.len() && p1(#[trigger] t1[k]) implies f1(t1[k]) == f2(t2[k]) by { assert(t1[k] == s1[k]); assert(t2[k] == s2[k]); }
        lemma_filter_map_pointwise(t1, t2, p1, p2, f1, f2);
        let n = s1.len() - 1;
        assert(s1.last() == s1[n] && s2.last() == s2[n]);
        if p1(s1[n]) {
            assert(t1.filter(p1).push(s1[n]).map_values(f1) =~= t1.filter(p1).map_values(f1).push(f1(s1[n])));
            assert(t2.filter(p2).push(s2[n]).map_values(f2) =~= t2.filter(p2).map_values(f2).push(f2(s2[n])));
        }
    }
}

// ---- (a) "precisely" ----------------------------------------------------------------------------------------------
/// the conjunction of the property text, on one item of the UNPRUNED walk: an entry (not an error) such that no
/// directory on the way from the root down to it (the root itself excepted) has an ignored name, no component of its
/// path below the root is an ignored name, no exclude pattern matches its path relative to the root, and its file
/// name is conftest.py / test_*.py / *_test.py, and it is a regular file (or a link to one)
pub open spec fn indexed(root: PV, pats: Seq<Seq<char>>, it: WalkItem) -> bool {
    match it {
        Err(_) => false,
        Ok(e) => {
            &&& entry_pred(e)
            &&& forall|j: int| 0 <= j < entry_ancestors(e).len() ==> entry_pred(#[trigger] entry_ancestors(e)[j])
            &&& !has_skip_component(below_root(root, entry_path(e)))
            &&& !excluded(root, pats, entry_path(e))
            &&& match file_name_v(entry_path(e)) { Some(n) => is_pytest_file_name(n), None => false }
            &&& fs_is_file(entry_path(e))
        }
    }
}
pub open spec fn indexed_fn(root: PV, pats: Seq<Seq<char>>) -> spec_fn(WalkItem) -> bool { |it: WalkItem| indexed(root, pats, it) }

/// C13 "indexes precisely": the collected paths are, in walk order, the paths of exactly the items of the walk for
/// which the conjunction holds — nothing else, nothing twice that the walk does not yield twice
//@tags C13
pub proof fn lemma_C13_a_precisely(root: PV, pats: Seq<Seq<char>>)
    ensures op_select(root, pats) == walk(root).filter(indexed_fn(root, pats)).map_values(item_path_fn()),
{
    lemma_filter_filter(walk(root), item_kept(entry_pred_fn()), sel_item_fn(root, pats), indexed_fn(root, pats));
}
/// ... in particular: an entry that lies inside an ignored directory — ANY component of its path below the root is an
/// ignored name, at any depth — is never indexed, whatever its name and whatever the patterns
//@tags C13
pub proof fn lemma_C13_a_inside_ignored_dir_never_indexed(root: PV, pats: Seq<Seq<char>>, e: DirEntry, k: int)
    requires pv_is_prefix(root, entry_path(e)), root.len() <= k < entry_path(e).len(), is_skip_name(entry_path(e)[k]),
    ensures !indexed(root, pats, Ok(e)),
{
    let rel = entry_path(e).skip(root.len() as int);
    assert(rel[k - root.len()] == entry_path(e)[k]);
}
/// the walk's view of an entry agrees with its path (what walkdir guarantees for a real tree: an entry at depth d
/// has d components below the root, the j-th directory above it is named by the j-th of them) — a HYPOTHESIS of the
/// next lemma, not an axiom
pub open spec fn entry_consistent(root: PV, e: DirEntry) -> bool {
    let p = entry_path(e);
    let a = entry_ancestors(e);
    &&& pv_is_prefix(root, p) && p.len() == root.len() + entry_depth(e)
    &&& a.len() == entry_depth(e)
    &&& forall|j: int| 0 <= j < a.len() ==> entry_depth(#[trigger] a[j]) == j
    &&& forall|j: int| 1 <= j < a.len() ==> (entry_name(#[trigger] a[j]) is Some ==> entry_name(a[j])->0 == p[root.len() + j - 1])
    &&& (entry_depth(e) > 0 && entry_name(e) is Some ==> entry_name(e)->0 == p.last())
}
//@tags C13
/// for such an entry the pruning is only an optimisation: it is indexed iff the three path tests hold — no component
/// below the root is an ignored name, no exclude pattern matches the relative path, the file name is a pytest name.
/// This is the property text's "precisely ... under the root that are not inside an ignored directory or matched by
/// a configured exclude pattern" as a statement about paths alone.
pub proof fn lemma_C13_a_path_characterisation(root: PV, pats: Seq<Seq<char>>, e: DirEntry)
    requires entry_consistent(root, e)
    ensures indexed(root, pats, Ok(e)) == selected(root, pats, e)
{
    let p = entry_path(e);
    let a = entry_ancestors(e);
    let rel = p.skip(root.len() as int);
    if selected(root, pats, e) {
        assert(below_root(root, p) == rel);
        assert forall|j: int| 0 <= j < a.len() implies entry_pred(#[trigger] a[j]) by {
            if j >= 1 && entry_name(a[j]) is Some { assert(rel[j - 1] == p[root.len() + j - 1]); }
        }
        if entry_depth(e) > 0 && entry_name(e) is Some { assert(rel[rel.len() - 1] == p.last()); }
    }
}
/// a pytest file name is never itself an ignored name (so the component test, which also looks at the entry's own
/// name, only ever fires on directories above the file): every pytest name ends in 'y', no ignored name does
//@tags C13
pub proof fn lemma_pytest_name_is_not_skip_name(n: Seq<char>)
    requires is_pytest_file_name(n)
    ensures !is_skip_name(n)
{
    assert(n.len() > 0 && n.last() == 'y') by {
        if n == "conftest.py"@ { assert("conftest.py"@.len() == 11 && "conftest.py"@[10] == 'y') by { reveal_strlit("conftest.py"); } }
        if sv_ends_with(n, ".py"@) {
            reveal_strlit(".py");
            assert(n.subrange(n.len() - 3, n.len() as int)[2] == 'y');
        }
        if sv_ends_with(n, "_test.py"@) {
            reveal_strlit("_test.py");
            assert(n.subrange(n.len() - 8, n.len() as int)[7] == 'y');
        }
    }
    if sv_ends_with(n, ".egg-info"@) {
        reveal_strlit(".egg-info");
        assert(n.subrange(n.len() - 9, n.len() as int)[8] == 'o');
    }
    if skip_names().contains(n) {
        let i = choose|i: int| 0 <= i < skip_names().len() && skip_names()[i] == n;
        lemma_skip_names_last_char(i);
    }
}
/// no ignored name ends in 'y'
//@tags C13
pub proof fn lemma_skip_names_last_char(i: int)
    requires 0 <= i < skip_names().len()
    ensures skip_names()[i].len() > 0, skip_names()[i].last() != 'y'
{
    reveal_strlit(".git"); reveal_strlit(".hg"); reveal_strlit(".svn");
    reveal_strlit(".venv"); reveal_strlit("venv"); reveal_strlit("env"); reveal_strlit(".env");
    reveal_strlit("__pycache__"); reveal_strlit(".pytest_cache"); reveal_strlit(".mypy_cache"); reveal_strlit(".ruff_cache");
    reveal_strlit(".tox"); reveal_strlit(".nox"); reveal_strlit("build"); reveal_strlit("dist"); reveal_strlit(".eggs");
    reveal_strlit("node_modules"); reveal_strlit("bower_components"); reveal_strlit("target");
    reveal_strlit(".idea"); reveal_strlit(".vscode"); reveal_strlit(".cache"); reveal_strlit(".local");
    reveal_strlit("vendor"); reveal_strlit("site-packages");
}

// ---- (b) relocation -----------------------------------------------------------------------------------------------
/// what the pruning predicate reads from an entry is the same for both
pub open spec fn corr_flat(e1: DirEntry, e2: DirEntry) -> bool {
    &&& entry_depth(e1) == entry_depth(e2)
    &&& entry_is_file(e1) == entry_is_file(e2)
    &&& (entry_depth(e1) > 0 ==> entry_name(e1) == entry_name(e2))
}
pub open spec fn corr_chain(a1: Seq<DirEntry>, a2: Seq<DirEntry>) -> bool {
    a1.len() == a2.len() && forall|j: int| 0 <= j < a1.len() ==> corr_flat(#[trigger] a1[j], a2[j])
}
/// e1 in the walk of r1 and e2 in the walk of r2 are "the same entry of the moved workspace": both paths lie under
/// their root with the same relative path, same kind / depth / name, and the directory entries above them correspond
pub open spec fn corr_entry(r1: PV, r2: PV, e1: DirEntry, e2: DirEntry) -> bool {
    &&& pv_is_prefix(r1, entry_path(e1)) && pv_is_prefix(r2, entry_path(e2))
    &&& entry_path(e1).skip(r1.len() as int) == entry_path(e2).skip(r2.len() as int)
    &&& fs_is_file(entry_path(e1)) == fs_is_file(entry_path(e2))
    &&& corr_flat(e1, e2)
    &&& corr_chain(entry_ancestors(e1), entry_ancestors(e2))
}
pub open spec fn corr_item(r1: PV, r2: PV, i1: WalkItem, i2: WalkItem) -> bool {
    match (i1, i2) {
        (Ok(e1), Ok(e2)) => corr_entry(r1, r2, e1, e2),
        (Err(x1), Err(x2)) => corr_chain(err_ancestors(x1), err_ancestors(x2)),
        _ => false,
    }
}
/// THE CORRESPONDENCE HYPOTHESIS of relocation invariance: the two walks have the same length and correspond item
/// by item under the re-rooting map (this is what "the whole workspace is moved" means for walkdir: same tree, same
/// order), and the workspace directory keeps its own name
pub open spec fn walks_correspond(r1: PV, r2: PV) -> bool {
    &&& walk(r1).len() == walk(r2).len()
    &&& forall|k: int| 0 <= k < walk(r1).len() ==> corr_item(r1, r2, #[trigger] walk(r1)[k], walk(r2)[k])
    &&& file_name_v(r1) == file_name_v(r2)
}
pub open spec fn rel_fn(root: PV) -> spec_fn(WalkItem) -> PV { |it: WalkItem| item_path(it).skip(root.len() as int) }
/// the outcome of the selection expressed relative to the root
pub open spec fn op_select_rel(root: PV, pats: Seq<Seq<char>>) -> Seq<PV> {
    walk(root).filter(indexed_fn(root, pats)).map_values(rel_fn(root))
}
//@tags C13
pub proof fn lemma_op_select_rel(root: PV, pats: Seq<Seq<char>>)
    ensures op_select_rel(root, pats) =~= op_select(root, pats).map_values(|p: PV| p.skip(root.len() as int)),
{
    lemma_C13_a_precisely(root, pats);
}
//@tags C13
pub proof fn lemma_corr_pred(e1: DirEntry, e2: DirEntry)
    requires corr_flat(e1, e2) ensures entry_pred(e1) == entry_pred(e2)
{}
/// corresponding entries are indexed alike, and their relative paths are equal
//@tags C13
pub proof fn lemma_corr_indexed(r1: PV, r2: PV, pats: Seq<Seq<char>>, i1: WalkItem, i2: WalkItem)
    requires corr_item(r1, r2, i1, i2), file_name_v(r1) == file_name_v(r2),
    ensures indexed(r1, pats, i1) == indexed(r2, pats, i2),
        indexed(r1, pats, i1) ==> rel_fn(r1)(i1) == rel_fn(r2)(i2),
{
    if let (Ok(e1), Ok(e2)) = (i1, i2) {
        let p1 = entry_path(e1); let p2 = entry_path(e2);
        let rel = p1.skip(r1.len() as int);
        assert(rel_to(r1, p1) == Some(rel) && rel_to(r2, p2) == Some(rel));
        lemma_corr_pred(e1, e2);
        let a1 = entry_ancestors(e1); let a2 = entry_ancestors(e2);
        if forall|j: int| 0 <= j < a1.len() ==> entry_pred(#[trigger] a1[j]) {
            assert forall|j: int| 0 <= j < a2.len() implies entry_pred(#[trigger] a2[j]) by { lemma_corr_pred(a1[j], a2[j]); }
        }
        if forall|j: int| 0 <= j < a2.len() ==> entry_pred(#[trigger] a2[j]) {
            assert forall|j: int| 0 <= j < a1.len() implies entry_pred(#[trigger] a1[j]) by { lemma_corr_pred(a1[j], a2[j]); }
        }
        // the file name: the last component of the relative path, or (root entry) the root's own name
        assert(file_name_v(p1) == file_name_v(p2)) by {
            if rel.len() > 0 {
                assert(p1.last() == rel.last()); assert(p2.last() == p2.skip(r2.len() as int).last());
            } else {
                assert(p1 =~= r1); assert(p2 =~= r2);
            }
        }
    }
}
/// C13 "the outcome, expressed relative to the root, is unchanged when the whole workspace is moved under a
/// different absolute path" (selection part): under the correspondence hypothesis the selected relative paths are
/// the same sequence
//@tags C13
pub proof fn lemma_C13_b_relocation(r1: PV, r2: PV, pats: Seq<Seq<char>>)
    requires walks_correspond(r1, r2)
    ensures op_select_rel(r1, pats) == op_select_rel(r2, pats)
{
    let w1 = walk(r1); let w2 = walk(r2);
    assert forall|k: int| 0 <= k < w1.len() implies indexed_fn(r1, pats)(#[trigger] w1[k]) == indexed_fn(r2, pats)(w2[k]) by {
        lemma_corr_indexed(r1, r2, pats, w1[k], w2[k]);
    }
    assert forall|k: int| 0 <= k < w1.len() && indexed_fn(r1, pats)(#[trigger] w1[k]) implies rel_fn(r1)(w1[k]) == rel_fn(r2)(w2[k]) by {
        lemma_corr_indexed(r1, r2, pats, w1[k], w2[k]);
    }
    lemma_filter_map_pointwise(w1, w2, indexed_fn(r1, pats), indexed_fn(r2, pats), rel_fn(r1), rel_fn(r2));
}

// the PRE-FIX behaviour (skip test on ALL components of the absolute path, root entry not exempted from the pruning
// predicate), kept as a specification so that the difference is on record
pub open spec fn entry_pred_old(e: DirEntry) -> bool {
    entry_is_file(e) || match entry_name(e) { Some(n) => !is_skip_name(n), None => true }
}
pub open spec fn indexed_old(root: PV, pats: Seq<Seq<char>>, it: WalkItem) -> bool {
    match it {
        Err(_) => false,
        Ok(e) => {
            &&& entry_pred_old(e)
            &&& forall|j: int| 0 <= j < entry_ancestors(e).len() ==> entry_pred_old(#[trigger] entry_ancestors(e)[j])
            &&& !has_skip_component(entry_path(e))
            &&& !excluded(root, pats, entry_path(e))
            &&& match file_name_v(entry_path(e)) { Some(n) => is_pytest_file_name(n), None => false }
        }
    }
}
pub open spec fn indexed_old_fn(root: PV, pats: Seq<Seq<char>>) -> spec_fn(WalkItem) -> bool { |it: WalkItem| indexed_old(root, pats, it) }
pub open spec fn op_select_rel_old(root: PV, pats: Seq<Seq<char>>) -> Seq<PV> {
    walk(root).filter(indexed_old_fn(root, pats)).map_values(rel_fn(root))
}
/// with the old test a workspace that lives below (or is itself) a directory with an ignored name is scanned to
/// nothing, wherever its files are — the outcome depended on the absolute location
//@tags C13
pub proof fn lemma_C13_b_old_test_was_location_dependent(root: PV, pats: Seq<Seq<char>>, k: int)
    requires 0 <= k < root.len(), is_skip_name(root[k]),
        forall|j: int| 0 <= j < walk(root).len() && walk(root)[j] is Ok ==> pv_is_prefix(root, entry_path((#[trigger] walk(root)[j])->Ok_0)),
    ensures op_select_rel_old(root, pats) =~= Seq::<PV>::empty()
{
    let w = walk(root);
    assert forall|j: int| 0 <= j < w.len() implies !indexed_old_fn(root, pats)(#[trigger] w[j]) by {
        if let Ok(e) = w[j] { assert(entry_path(e)[k] == root[k]); }
    }
    lemma_filter_none(w, indexed_old_fn(root, pats));
}
pub proof fn lemma_filter_none<A>(s: Seq<A>, p: spec_fn(A) -> bool)
    requires forall|j: int| 0 <= j < s.len() ==> !p(#[trigger] s[j])
    ensures s.filter(p) =~= Seq::<A>::empty()
    decreases s.len()
{
    reveal(Seq::filter);
    if s.len() > 0 {
        assert forall|j: int| 0 <= j < s.drop_last().len() implies !p(#[trigger] s.drop_last()[j]) by { assert(s.drop_last()[j] == s[j]); }
        lemma_filter_none(s.drop_last(), p);
        assert(!p(s[s.len() - 1]));
    }
}

// ---- (c) exclude patterns only remove -----------------------------------------------------------------------------
pub open spec fn no_pats() -> Seq<Seq<char>> { Seq::<Seq<char>>::empty() }
pub open spec fn not_excluded_fn(root: PV, pats: Seq<Seq<char>>) -> spec_fn(PV) -> bool { |p: PV| !excluded(root, pats, p) }
pub open spec fn item_not_excluded_fn(root: PV, pats: Seq<Seq<char>>) -> spec_fn(WalkItem) -> bool { |it: WalkItem| !excluded(root, pats, item_path(it)) }
/// C13 "or matched by a configured exclude pattern": the patterns only ever REMOVE files — the selection with
/// patterns is the selection without patterns minus the paths a pattern matches (order kept); no pattern can add,
/// reorder or otherwise change what is selected
//@tags C13
pub proof fn lemma_C13_c_excludes_only_remove(root: PV, pats: Seq<Seq<char>>)
    ensures op_select(root, pats) == op_select(root, no_pats()).filter(not_excluded_fn(root, pats)),
        forall|it: WalkItem| indexed(root, pats, it) ==> indexed(root, no_pats(), it),
{
    let items = pruned(walk(root), entry_pred_fn());
    lemma_filter_filter(items, sel_item_fn(root, no_pats()), item_not_excluded_fn(root, pats), sel_item_fn(root, pats));
    lemma_filter_map_commute(items.filter(sel_item_fn(root, no_pats())), item_path_fn(), item_not_excluded_fn(root, pats), not_excluded_fn(root, pats));
}
