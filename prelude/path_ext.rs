// ---------------------------------------------------------------------------------------------
// More std::path assumed specifications (trusted base A3) over the component view PV:
//  (P1) `p.ends_with(child)`   == the components of child are a suffix of the components of p
//       (for a one-component child such as "conftest.py": the last component of p equals it);
//  (P2) `p.starts_with(base)`  == the components of base are a prefix of the components of p;
//  (P3) `p.components().count()` == number of components of p;
//  (P4) a `&Path` argument passed as `AsRef<Path>` denotes its own components.
// std compares whole components (never substrings), which is what the view expresses.
pub open spec fn pv_is_prefix(a: PV, b: PV) -> bool { a.len() <= b.len() && b.subrange(0, a.len() as int) == a }
pub open spec fn pv_is_suffix(a: PV, b: PV) -> bool { a.len() <= b.len() && b.subrange(b.len() - a.len(), b.len() as int) == a }

pub mod path_ext_ax {
    use super::*;
    pub broadcast axiom fn axiom_path_as_path<'a>(p: &'a Path)
        ensures #[trigger] as_path_view::<&'a Path>(p) == pv(p);
}
pub use path_ext_ax::*;

#[verifier::allow(undeclared_external_trait)]
pub assume_specification<P: AsRef<Path>>[ Path::ends_with::<P> ](p: &Path, child: P) -> (r: bool)
    ensures r == pv_is_suffix(as_path_view(child), pv(p));
#[verifier::allow(undeclared_external_trait)]
pub assume_specification<P: AsRef<Path>>[ Path::starts_with::<P> ](p: &Path, base: P) -> (r: bool)
    ensures r == pv_is_prefix(as_path_view(base), pv(p));

#[verifier::external_type_specification] #[verifier::external_body] pub struct ExComponents<'a>(std::path::Components<'a>);
pub uninterp spec fn comps_view(c: std::path::Components<'_>) -> PV;
pub assume_specification<'a>[ Path::components ](p: &'a Path) -> (r: std::path::Components<'a>)
    ensures comps_view(r) == pv(p);
// T5 wrapper: `Iterator::count` is a provided method; `.count(` is renamed to `.vp_count(`, whose external
// body IS the call to the real method
pub trait VpComponents { fn vp_count(self) -> usize; }
impl<'a> VpComponents for std::path::Components<'a> {
    #[verifier::external_body]
    fn vp_count(self) -> (r: usize) ensures r == comps_view(self).len()
    { self.count() }
}

/// FixtureDatabase::get_canonical_path (mod.rs): canonical_path_cache, else `Path::canonicalize`, else the
/// path itself — abstract (file system, A4): some function of the path
pub uninterp spec fn canon_pv(p: PV) -> PV;
