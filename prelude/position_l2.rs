// ---------------------------------------------------------------------------------------------
// L2 for the position queries (C04 / C15), over the operational specs of prelude/position_spec.rs.
// Composes with: unit refs_goto (find_fixture_definition == op_goto, find_references_for_definition == op_refs,
// lemma_C04_d_goto_resolves_usage of prelude/refs_l2.rs) and unit visit (recorded spans are the token spans).

pub proof fn lemma_no_def_named(defs: Map<Seq<char>, Seq<DefV>>, file: PV, line1: int, w: Seq<char>)
    requires no_def_named_at(defs, file, line1, w)
    ensures !def_named_at(defs, file, line1, w)
{
    if def_named_at(defs, file, line1, w) {
        let (n, i) = choose|n: Seq<char>, i: int| defs.contains_key(n) && 0 <= i < defs[n].len()
            && (#[trigger] defs[n][i]).file == file && defs[n][i].line == line1 && defs[n][i].name == w;
        assert(!(defs[n][i].file == file && defs[n][i].line == line1 && defs[n][i].name == w));
    }
}

/// view-level reading of get_undeclared_fixtures' postcondition: exactly the file's bucket of the undeclared map
pub proof fn lemma_undecl_post_view(m: Map<PV, Vec<UndeclaredFixture>>, file: PV, r: Seq<UndeclaredFixture>)
    requires undecl_post(m, file, r)
    ensures udvs(r) == bucket(undecl_view(m), file)
{
    if m.contains_key(file) { assert(udvs(r) =~= udvs(m[file]@)); } else { assert(udvs(r) =~= Seq::<UndeclV>::empty()); }
}

/// index of the first element satisfying p (us.len() if there is none)
pub open spec fn first_use_idx(us: Seq<UseV>, p: spec_fn(UseV) -> bool) -> int
    decreases us.len()
{
    if us.len() == 0 { 0 } else if p(us[0]) { 0 } else { 1 + first_use_idx(us.drop_first(), p) }
}
pub proof fn lemma_first_use_char(us: Seq<UseV>, p: spec_fn(UseV) -> bool)
    ensures ({
        let i = first_use_idx(us, p);
        &&& 0 <= i <= us.len()
        &&& forall|j: int| 0 <= j < i ==> !p(#[trigger] us[j])
        &&& (i < us.len() ==> p(us[i]) && first_use(us, p) == Some(us[i]))
        &&& (i == us.len() ==> first_use(us, p) is None)
    }),
    decreases us.len()
{
    if us.len() > 0 && !p(us[0]) {
        let t = us.drop_first();
        lemma_first_use_char(t, p);
        let i = first_use_idx(us, p);
        assert forall|j: int| 0 <= j < i implies !p(#[trigger] us[j]) by { if j > 0 { assert(t[j - 1] == us[j]); } }
        if i < us.len() { assert(t[i - 1] == us[i]); }
    }
}

//@tags C15 C04
/// C15.p1 — a cursor position is attributed to a recorded usage U of the file iff U is on the cursor line and
/// U.start_char <= character < U.end_char (half-open span), and then to the FIRST such usage in list order; if no
/// usage covers the cursor the answer comes from the definition branch alone.  (find_fixture_at_position ==
/// op_name_at is the L1 contract of this unit.)
pub proof fn lemma_C15_cursor_attributed_by_span(cache: Map<PV, String>, defs: Map<Seq<char>, Seq<DefV>>, uses: Map<PV, Seq<UseV>>,
        file: PV, line: u32, ch: u32, t: Seq<char>, lc: Seq<char>)
    requires file_content(cache, file) == Some(t), line_of(t, line as int) == Some(lc),
    ensures ({
        let us = bucket(uses, file);
        let i = first_use_idx(us, covers(line as int + 1, ch as int));
        &&& 0 <= i <= us.len()
        &&& forall|j: int| 0 <= j < i ==> !((#[trigger] us[j]).line == line as int + 1 && us[j].start_char <= ch < us[j].end_char)
        &&& (i < us.len() ==> us[i].line == line as int + 1 && us[i].start_char <= ch < us[i].end_char
                && op_name_at(cache, defs, uses, file, line, ch) == Some(us[i].name))
        &&& (i == us.len() ==> op_name_at(cache, defs, uses, file, line, ch) == op_def_name_at(defs, file, line as int + 1, lc, ch as int))
    }),
{
    let us = bucket(uses, file);
    let cov = covers(line as int + 1, ch as int);
    lemma_first_use_char(us, cov);
    let i = first_use_idx(us, cov);
    assert forall|j: int| 0 <= j < i implies !((#[trigger] us[j]).line == line as int + 1 && us[j].start_char <= ch < us[j].end_char) by {
        assert(!cov(us[j]));
    }
}

//@tags C15
/// C15.p2 — the span is half-open: the first column of a non-empty span is inside, end_char itself and every
/// column before start_char are outside, and so is every other line
pub proof fn lemma_C15_span_half_open(u: UseV, line1: int, ch: int)
    ensures
        u.line == line1 && ch == u.start_char && u.start_char < u.end_char ==> covers(line1, ch)(u),
        u.line == line1 && u.start_char < u.end_char && ch == u.end_char - 1 ==> covers(line1, ch)(u),
        ch == u.end_char ==> !covers(line1, ch)(u),
        ch < u.start_char ==> !covers(line1, ch)(u),
        u.line != line1 ==> !covers(line1, ch)(u),
{}

//@tags C15 C04
/// C15.p3 — the definition branch: the answer is the word under the cursor, and only if a definition with exactly
/// that name is registered (under whatever key) on that line of that file; the hash order of the definitions map
/// cannot influence it
pub proof fn lemma_C15_definition_branch_is_word(defs: Map<Seq<char>, Seq<DefV>>, file: PV, line1: int, lc: Seq<char>, ch: int, nm: Seq<char>)
    requires op_def_name_at(defs, file, line1, lc, ch) == Some(nm)
    ensures word_at(lc, ch) == Some(nm), def_named_at(defs, file, line1, nm),
{}

//@tags C04
/// C04.p1 — cursor inside a recorded usage U (the first one covering it): the name find_fixture_at_position hands to
/// the references handler is U's name; and when the text under the cursor still is U's name (columns not stale),
/// find_fixture_definition (unit refs_goto: == op_goto) resolves exactly U, so the handler asks
/// find_references_for_definition (unit refs_goto: == op_refs) for the definition U denotes.
pub proof fn lemma_C04_position_names_the_usage(cache: Map<PV, String>, defs: Map<Seq<char>, Seq<DefV>>, uses: Map<PV, Seq<UseV>>,
        provf: spec_fn(Seq<char>) -> spec_fn(PV) -> bool, file: PV, line: u32, ch: u32, t: Seq<char>, lc: Seq<char>, i: int)
    requires
        file_content(cache, file) == Some(t), line_of(t, line as int) == Some(lc),
        0 <= i < bucket(uses, file).len(),
        covers(line as int + 1, ch as int)(bucket(uses, file)[i]),
        forall|j: int| 0 <= j < i ==> !covers(line as int + 1, ch as int)(#[trigger] bucket(uses, file)[j]),
    ensures
        op_name_at(cache, defs, uses, file, line, ch) == Some(bucket(uses, file)[i].name),
        word_at(lc, ch as int) == Some(bucket(uses, file)[i].name) ==>
            op_goto(cache, defs, uses, provf, file, line, ch) == resolve_usage(defs, provf, file, bucket(uses, file)[i]),
        // stale columns: nothing identifier-like under the cursor -> go-to-definition finds nothing although a name is reported
        word_at(lc, ch as int) is None ==> op_goto(cache, defs, uses, provf, file, line, ch) is None,
{
    let us = bucket(uses, file);
    lemma_first_use_idx(us, covers(line as int + 1, ch as int), i);
    if word_at(lc, ch as int) == Some(us[i].name) {
        assert forall|j: int| 0 <= j < i implies !hit(line as int + 1, us[i].name, ch as int)(#[trigger] us[j]) by {
            assert(!covers(line as int + 1, ch as int)(us[j]));
        }
        lemma_C04_d_goto_resolves_usage(cache, defs, uses, provf, file, line, ch, t, lc, i);
    }
}

// ---- find_fixture_references (by-name fallback of the references handler) ------------------------------------
pub proof fn lemma_count_concat<A>(a: Seq<A>, b: Seq<A>, x: A)
    ensures count_of(a + b, x) == count_of(a, x) + count_of(b, x)
    decreases b.len()
{
    if b.len() == 0 { assert(a + b =~= a); }
    else {
        assert((a + b).drop_last() =~= a + b.drop_last());
        assert((a + b).last() == b.last());
        lemma_count_concat(a, b.drop_last(), x);
    }
}
pub proof fn lemma_count_filter<A>(s: Seq<A>, p: spec_fn(A) -> bool, x: A)
    ensures count_of(s.filter(p), x) == (if p(x) { count_of(s, x) } else { 0 })
    decreases s.len()
{
    reveal(Seq::filter);
    if s.len() > 0 {
        lemma_count_filter(s.drop_last(), p, x);
        if p(s.last()) {
            let f = s.drop_last().filter(p).push(s.last());
            assert(f.drop_last() =~= s.drop_last().filter(p));
            assert(f.last() == s.last());
        }
    }
}
pub proof fn lemma_count_pos_contains<A>(s: Seq<A>, x: A)
    ensures (count_of(s, x) > 0) == s.contains(x)
    decreases s.len()
{
    if s.len() > 0 {
        lemma_count_pos_contains(s.drop_last(), x);
        if s.contains(x) {
            let i = choose|i: int| 0 <= i < s.len() && s[i] == x;
            if i < s.len() - 1 { assert(s.drop_last()[i] == x); }
        }
        if s.drop_last().contains(x) {
            let i = choose|i: int| 0 <= i < s.drop_last().len() && s.drop_last()[i] == x;
            assert(s[i] == x);
        }
        if s.last() == x { assert(s[s.len() - 1] == x); }
    }
}
pub proof fn lemma_count_le_one_no_dup<A>(s: Seq<A>)
    requires forall|x: A| count_of(s, x) <= 1
    ensures s.no_duplicates()
    decreases s.len()
{
    if s.len() > 0 {
        let t = s.drop_last();
        assert forall|x: A| count_of(t, x) <= 1 by { assert(count_of(s, x) <= 1); }
        lemma_count_le_one_no_dup(t);
        assert forall|i: int, j: int| 0 <= i < s.len() && 0 <= j < s.len() && i != j implies s[i] != s[j] by {
            if i < t.len() && j < t.len() { assert(t[i] == s[i] && t[j] == s[j]); }
            else {
                let k = if i < t.len() { i } else { j };
                if s[k] == s.last() {
                    assert(t[k] == s.last());
                    lemma_count_pos_contains(t, s.last());
                    assert(count_of(s, s.last()) <= 1);
                }
            }
        }
    }
}

//@tags C04 C15
/// C04.p2 / C15 "no duplicate entries" — multiplicity of the by-name list: a usage value x is listed exactly as
/// often as it is recorded in the per-file lists (over the enumerated files) when it carries the name, and never
/// otherwise: nothing is dropped, nothing is listed twice unless it is recorded twice, nothing else is listed.
pub proof fn lemma_C04_by_name_multiplicity(uses: Map<PV, Seq<UseV>>, ks: Seq<PV>, n: Seq<char>, x: UseV)
    ensures count_of(refs_by_name(uses, ks, n), x) == (if x.name == n { recorded_count(uses, ks, x) } else { 0 })
    decreases ks.len()
{
    if ks.len() > 0 {
        lemma_C04_by_name_multiplicity(uses, ks.drop_last(), n, x);
        lemma_count_concat(refs_by_name(uses, ks.drop_last(), n), bucket(uses, ks.last()).filter(named(n)), x);
        lemma_count_filter(bucket(uses, ks.last()), named(n), x);
    }
}

/// under W5 (a usage is filed under its own file: established by record_fixture_usage, unit index_maint) only the
/// bucket of x.file can contain x
pub open spec fn filed_under_own_file(uses: Map<PV, Seq<UseV>>) -> bool {
    forall|k: PV, i: int| uses.contains_key(k) && 0 <= i < uses[k].len() ==> (#[trigger] uses[k][i]).file == k
}
pub proof fn lemma_recorded_count_own_file(uses: Map<PV, Seq<UseV>>, ks: Seq<PV>, x: UseV)
    requires filed_under_own_file(uses), ks.no_duplicates()
    ensures recorded_count(uses, ks, x) == (if ks.contains(x.file) { count_of(bucket(uses, x.file), x) } else { 0 })
    decreases ks.len()
{
    if ks.len() > 0 {
        let t = ks.drop_last();
        let k = ks.last();
        assert(t.no_duplicates()) by { assert forall|i: int, j: int| 0 <= i < t.len() && 0 <= j < t.len() && i != j implies t[i] != t[j] by { assert(t[i] == ks[i] && t[j] == ks[j]); } }
        lemma_recorded_count_own_file(uses, t, x);
        lemma_count_pos_contains(bucket(uses, k), x);
        if k != x.file {
            if bucket(uses, k).contains(x) { let i = choose|i: int| 0 <= i < bucket(uses, k).len() && bucket(uses, k)[i] == x; assert(uses[k][i].file == k); }
            if ks.contains(x.file) { let i = choose|i: int| 0 <= i < ks.len() && ks[i] == x.file; assert(t[i] == x.file); }
            if t.contains(x.file) { let i = choose|i: int| 0 <= i < t.len() && t[i] == x.file; assert(ks[i] == x.file); }
        } else {
            assert(ks[ks.len() - 1] == x.file);
            if t.contains(x.file) { let i = choose|i: int| 0 <= i < t.len() && t[i] == x.file; assert(ks[i] == ks[ks.len() - 1]); }
        }
    }
}

//@tags C04 C15
/// C04.p3 — the by-name list does not depend on the hash order: for ANY enumeration of the files a usage value x
/// appears exactly count_of(its own file's list, x) times if it carries the name and its file is indexed, else not
/// at all (so two enumerations give permutations of one another)
pub proof fn lemma_C04_by_name_order_independent(uses: Map<PV, Seq<UseV>>, ks: Seq<PV>, n: Seq<char>, x: UseV)
    requires filed_under_own_file(uses), enumerates(ks, uses)
    ensures count_of(refs_by_name(uses, ks, n), x) ==
        (if x.name == n && uses.contains_key(x.file) { count_of(uses[x.file], x) } else { 0 })
{
    lemma_C04_by_name_multiplicity(uses, ks, n, x);
    lemma_recorded_count_own_file(uses, ks, x);
}

//@tags C04 C15
/// C15 "result lists contain no duplicate entries" / C04 "no usage is listed twice": if no per-file list records
/// the same usage value twice (same name, line and span: the visitor records one usage per token) the by-name list
/// has no duplicates; and it lists exactly the recorded usages carrying the name (with their recorded spans)
pub proof fn lemma_C15_by_name_no_duplicates(uses: Map<PV, Seq<UseV>>, n: Seq<char>, r: Seq<UseV>)
    requires filed_under_own_file(uses), refs_by_name_post(uses, n, r),
        forall|k: PV| uses.contains_key(k) ==> (#[trigger] uses[k]).no_duplicates(),
    ensures r.no_duplicates(),
        forall|x: UseV| r.contains(x) <==> (x.name == n && uses.contains_key(x.file) && uses[x.file].contains(x)),
{
    let ks = choose|ks: Seq<PV>| enumerates(ks, uses) && r == #[trigger] refs_by_name(uses, ks, n);
    assert forall|x: UseV| #[trigger] count_of(r, x) <= 1 by {
        lemma_C04_by_name_order_independent(uses, ks, n, x);
        if uses.contains_key(x.file) { lemma_no_dup_count_le_one(uses[x.file], x); }
    }
    assert forall|x: UseV| #[trigger] r.contains(x) <==> (x.name == n && uses.contains_key(x.file) && uses[x.file].contains(x)) by {
        lemma_C04_by_name_order_independent(uses, ks, n, x);
        lemma_count_pos_contains(r, x);
        if uses.contains_key(x.file) { lemma_count_pos_contains(uses[x.file], x); }
    }
    lemma_count_le_one_no_dup(r);
}
pub proof fn lemma_no_dup_count_le_one<A>(s: Seq<A>, x: A)
    requires s.no_duplicates()
    ensures count_of(s, x) <= 1
    decreases s.len()
{
    if s.len() > 0 {
        let t = s.drop_last();
        assert(t.no_duplicates()) by { assert forall|i: int, j: int| 0 <= i < t.len() && 0 <= j < t.len() && i != j implies t[i] != t[j] by { assert(t[i] == s[i] && t[j] == s[j]); } }
        lemma_no_dup_count_le_one(t, x);
        if s.last() == x {
            lemma_count_pos_contains(t, x);
            if t.contains(x) { let i = choose|i: int| 0 <= i < t.len() && t[i] == x; assert(s[i] == s[s.len() - 1]); }
        }
    }
}

// ---- canaries: must FAIL -------------------------------------------------------------------------------------
/// the column does matter: a usage on the cursor line that does not cover the column is NOT attributed
pub proof fn canary_position_ignores_span(cache: Map<PV, String>, defs: Map<Seq<char>, Seq<DefV>>, uses: Map<PV, Seq<UseV>>,
        file: PV, line: u32, ch: u32, t: Seq<char>, lc: Seq<char>)
    requires file_content(cache, file) == Some(t), line_of(t, line as int) == Some(lc),
        bucket(uses, file).len() == 1, bucket(uses, file)[0].line == line as int + 1,
    ensures op_name_at(cache, defs, uses, file, line, ch) == Some(bucket(uses, file)[0].name)
{
    lemma_C15_cursor_attributed_by_span(cache, defs, uses, file, line, ch, t, lc);
}
/// end_char is exclusive
pub proof fn canary_end_char_inclusive(u: UseV, line1: int)
    requires u.line == line1, u.start_char < u.end_char
    ensures covers(line1, u.end_char as int)(u)
{}
/// the definition branch does compare the word under the cursor
pub proof fn canary_definition_branch_without_word(defs: Map<Seq<char>, Seq<DefV>>, file: PV, line1: int, lc: Seq<char>, ch: int, n: Seq<char>)
    requires defs.contains_key(n), defs[n].len() > 0, defs[n][0].file == file, defs[n][0].line == line1, defs[n][0].name == n,
    ensures op_def_name_at(defs, file, line1, lc, ch) == Some(n)
{}
/// the by-name list is filtered by name
pub proof fn canary_by_name_lists_every_usage(uses: Map<PV, Seq<UseV>>, ks: Seq<PV>, n: Seq<char>, x: UseV)
    ensures count_of(refs_by_name(uses, ks, n), x) == recorded_count(uses, ks, x)
{
    lemma_C04_by_name_multiplicity(uses, ks, n, x);
}
/// a name reported at the cursor does not imply that go-to-definition finds something there
pub proof fn canary_name_at_implies_goto(cache: Map<PV, String>, defs: Map<Seq<char>, Seq<DefV>>, uses: Map<PV, Seq<UseV>>,
        provf: spec_fn(Seq<char>) -> spec_fn(PV) -> bool, file: PV, line: u32, ch: u32)
    requires op_name_at(cache, defs, uses, file, line, ch) is Some
    ensures op_goto(cache, defs, uses, provf, file, line, ch) is Some
{}
