// ---------------------------------------------------------------------------------------------
// HashSet shim, further methods (trusted base A3, same conventions as prelude/hashset.rs): `clone` and
// `extend` restricted to the one argument type the extracted code passes (another HashSet, by value).
impl<T: KeyView + Clone> Clone for HashSet<T> {
    #[verifier::external_body]
    fn clone(&self) -> (r: Self) ensures r.s() == self.s()
    { unimplemented!() }
}
impl<T: KeyView> HashSet<T> {
    /// `Extend::extend(&mut self, other)` for `other: HashSet<T>`: set union
    #[verifier::external_body]
    pub fn extend(&mut self, other: HashSet<T>)
        ensures final(self).s() == old(self).s().union(other.s())
    { unimplemented!() }
}
