// ---------------------------------------------------------------------------------------------
// Unit constructors: stand-ins for the CONSTRUCTORS of the container / wrapper types the two real constructors
// (FixtureDatabase::new of src/fixtures/mod.rs, Backend::new of src/providers/mod.rs) call.  Needs prelude/dashmap.rs,
// prelude/atomic.rs.
//
// ASSUMED (trusted base A3, external crates):
//   CS1  dashmap::DashMap::new()  returns a map without entries  (dashmap 6: `DashMap::with_hasher(RandomState::new())`)
impl<K: KeyView, V> DashMap<K, V> {
    /// CS1
    #[verifier::external_body]
    pub fn new() -> (r: Self)
        ensures r.m() == Map::<K::KV, V>::empty()
    { unimplemented!() }
}
// NOT assumed (a definition of the sequential model, verified): the prelude AtomicU64 shim (prelude/atomic.rs: the
// sequential view `v` of the counter) is constructed with the value handed to `AtomicU64::new`
impl AtomicU64 {
    pub fn new(v: u64) -> (r: Self)
        ensures r.v == v
    { AtomicU64 { v } }
}
//   CS1b std::path::PathBuf::new()  is the empty path (no component).  Not used by the real constructors; present so that a
//        variant that pre-fills a path-keyed map / the workspace root is REFUTED, not undecided.
pub assume_specification[ PathBuf::new ]() -> (r: PathBuf)
    ensures pbv(&r) == Seq::<Seq<char>>::empty();
