// ---------------------------------------------------------------------------------------------
// Unit history: bucket-level normal forms of the spec functions of analyze_file's contract (push_defs, add_fdefs,
// push_uses, push_byfix, clean_defs_names, clean_byfix).  Everything follows from their definitions; proved.

pub proof fn lemma_names_of_has(ds: Seq<DefV>, j: int)
    requires 0 <= j < ds.len()
    ensures names_of(ds).contains(ds[j].name)
    decreases ds.len()
{
    if j < ds.len() - 1 { lemma_names_of_has(ds.drop_last(), j); }
}
pub proof fn lemma_names_of_elem(ds: Seq<DefV>, n: Seq<char>) -> (j: int)
    requires names_of(ds).contains(n)
    ensures 0 <= j < ds.len(), ds[j].name == n
    decreases ds.len()
{
    if ds.len() == 0 { 0 } else if ds.last().name == n { ds.len() - 1 } else { lemma_names_of_elem(ds.drop_last(), n) }
}
pub proof fn lemma_pairs_of_push(s: Seq<UseV>, u: UseV)
    ensures pairs_of(s.push(u)) == pairs_of(s).push((u.file, u))
{
    assert(pairs_of(s.push(u)) =~= pairs_of(s).push((u.file, u)));
}

/// definitions: a sequence of record_fixture_definition calls appends, under every name, the recorded definitions of
/// that name (in order) -- and creates the bucket if there is one to append
pub proof fn lemma_push_defs_nf(c: Map<Seq<char>, Seq<DefV>>, ds: Seq<DefV>, n: Seq<char>)
    ensures
        bucket(push_defs(c, ds), n) == bucket(c, n) + ds.filter(named(n)),
        push_defs(c, ds).contains_key(n) == (c.contains_key(n) || ds.filter(named(n)).len() > 0),
    decreases ds.len()
{
    reveal(Seq::filter);
    if ds.len() == 0 {
        assert(ds.filter(named(n)) =~= Seq::<DefV>::empty());
        assert(bucket(c, n) + Seq::<DefV>::empty() =~= bucket(c, n));
    } else {
        let t = ds.drop_last();
        let x = ds.last();
        lemma_push_defs_nf(c, t, n);
        let m = push_defs(c, t);
        if x.name == n {
            assert(ds.filter(named(n)) == t.filter(named(n)).push(x));
            assert((bucket(c, n) + t.filter(named(n))).push(x) =~= bucket(c, n) + t.filter(named(n)).push(x));
        } else {
            assert(ds.filter(named(n)) == t.filter(named(n)));
        }
    }
}
/// cleanup_definitions_for_file under W1: every bucket loses exactly its entries of f (a name file_definitions does
/// not list for f has none, by W1); with no empty bucket before, a bucket survives iff something is left
pub proof fn lemma_clean_defs_nf(defs: Map<Seq<char>, Seq<DefV>>, fdefs: Map<PV, Set<Seq<char>>>, f: PV, n: Seq<char>)
    requires w1(defs, fdefs)
    ensures
        bucket(clean_defs_names(defs, f, sbucket(fdefs, f)), n) == bucket(defs, n).filter(not_in_file(f)),
        seqmap_ne(defs) ==> clean_defs_names(defs, f, sbucket(fdefs, f)).contains_key(n) == (bucket(defs, n).filter(not_in_file(f)).len() > 0),
{
    let names = sbucket(fdefs, f);
    let c = clean_defs_names(defs, f, names);
    if defs.contains_key(n) {
        let b = defs[n];
        if names.contains(n) {
            if b.filter(not_in_file(f)).len() > 0 { assert(c.contains_key(n)); assert(c[n] == b.filter(not_in_file(f))); }
            else { assert(!c.contains_key(n)); assert(b.filter(not_in_file(f)) =~= Seq::<DefV>::empty()); }
        } else {
            assert forall|i: int| 0 <= i < b.len() implies not_in_file(f)(#[trigger] b[i]) by {
                if b[i].file == f { assert(fdefs.contains_key(f) && fdefs[f].contains(n)); }
            }
            lemma_filter_all(b, not_in_file(f));
            assert(c.contains_key(n) && c[n] == b);
        }
    } else {
        assert(!c.contains_key(n));
        lemma_filter_none(Seq::<DefV>::empty(), not_in_file(f));
    }
}
/// file_definitions: other files untouched (key and set), the analysed file gains exactly the recorded names
pub proof fn lemma_add_fdefs_nf(m: Map<PV, Set<Seq<char>>>, ds: Seq<DefV>, f: PV, g: PV)
    requires all_in_file(ds, f)
    ensures
        g != f ==> add_fdefs(m, ds).contains_key(g) == m.contains_key(g) && sbucket(add_fdefs(m, ds), g) == sbucket(m, g),
        sbucket(add_fdefs(m, ds), f) == sbucket(m, f).union(names_of(ds)),
        add_fdefs(m, ds).contains_key(f) == (m.contains_key(f) || ds.len() > 0),
        setmap_ne(m) ==> setmap_ne(add_fdefs(m, ds)),
    decreases ds.len()
{
    if ds.len() == 0 {
        assert(sbucket(m, f).union(names_of(ds)) =~= sbucket(m, f));
    } else {
        let t = ds.drop_last();
        let x = ds.last();
        assert(all_in_file(t, f)) by { assert forall|i: int| 0 <= i < t.len() implies (#[trigger] t[i]).file == f by { assert(t[i] == ds[i]); } }
        lemma_add_fdefs_nf(m, t, f, g);
        let m1 = add_fdefs(m, t);
        assert(x.file == f);
        assert(sbucket(m1, f).insert(x.name) =~= sbucket(m, f).union(names_of(ds)));
        if setmap_ne(m) {
            let m2 = add_fdefs(m, ds);
            assert forall|k: PV| m2.contains_key(k) implies #[trigger] m2[k] != Set::<Seq<char>>::empty() by {
                if k == f { assert(m2[k].contains(x.name)); } else { assert(m1.contains_key(k) && m2[k] == m1[k]); }
            }
        }
    }
}
/// usages: the analysed file's key exists afterwards iff it existed or something was recorded
pub proof fn lemma_push_uses_key(uses: Map<PV, Seq<UseV>>, us: Seq<UseV>, f: PV)
    requires uses_in_file(us, f)
    ensures
        push_uses(uses, us).contains_key(f) == (uses.contains_key(f) || us.len() > 0),
        seqmap_ne(uses) ==> seqmap_ne(push_uses(uses, us)),
    decreases us.len()
{
    if us.len() > 0 {
        let t = us.drop_last();
        assert(uses_in_file(t, f)) by { assert forall|i: int| 0 <= i < t.len() implies (#[trigger] t[i]).file == f by { assert(t[i] == us[i]); } }
        lemma_push_uses_key(uses, t, f);
        assert(us.last().file == f);
        if seqmap_ne(uses) {
            let m1 = push_uses(uses, t);
            let m2 = push_uses(uses, us);
            assert forall|k: PV| m2.contains_key(k) implies (#[trigger] m2[k]).len() > 0 by {
                if k != f { assert(m1.contains_key(k) && m2[k] == m1[k]); }
            }
        }
    }
}
/// reverse usage index: a sequence of record_fixture_usage calls appends, under every name, (file, usage) for the
/// recorded usages of that name, in order
pub proof fn lemma_push_byfix_nf(c: Map<Seq<char>, Seq<(PV, UseV)>>, us: Seq<UseV>, n: Seq<char>)
    ensures
        bucket(push_byfix(c, us), n) == bucket(c, n) + pairs_of(us.filter(use_named(n))),
        push_byfix(c, us).contains_key(n) == (c.contains_key(n) || us.filter(use_named(n)).len() > 0),
    decreases us.len()
{
    reveal(Seq::filter);
    if us.len() == 0 {
        assert(us.filter(use_named(n)) =~= Seq::<UseV>::empty());
        assert(bucket(c, n) + pairs_of(Seq::<UseV>::empty()) =~= bucket(c, n));
    } else {
        let t = us.drop_last();
        let x = us.last();
        lemma_push_byfix_nf(c, t, n);
        if x.name == n {
            assert(us.filter(use_named(n)) == t.filter(use_named(n)).push(x));
            lemma_pairs_of_push(t.filter(use_named(n)), x);
            assert((bucket(c, n) + pairs_of(t.filter(use_named(n)))).push((x.file, x)) =~= bucket(c, n) + pairs_of(t.filter(use_named(n))).push((x.file, x)));
        } else {
            assert(us.filter(use_named(n)) == t.filter(use_named(n)));
        }
    }
}
/// cleanup_usages_for_file: every bucket loses exactly its entries filed under f; emptied buckets disappear
pub proof fn lemma_clean_byfix_nf(m: Map<Seq<char>, Seq<(PV, UseV)>>, f: PV, n: Seq<char>)
    ensures
        bucket(clean_byfix(m, f), n) == bucket(m, n).filter(pair_not_in_file(f)),
        clean_byfix(m, f).contains_key(n) == (bucket(m, n).filter(pair_not_in_file(f)).len() > 0),
{
    let c = clean_byfix(m, f);
    if m.contains_key(n) {
        if m[n].filter(pair_not_in_file(f)).len() > 0 { assert(c.contains_key(n)); }
        else { assert(!c.contains_key(n)); assert(m[n].filter(pair_not_in_file(f)) =~= Seq::<(PV, UseV)>::empty()); }
    } else {
        assert(!c.contains_key(n));
        lemma_filter_none(Seq::<(PV, UseV)>::empty(), pair_not_in_file(f));
    }
}
