// ---------------------------------------------------------------------------------------------
// L2 for C06 / C10 over the operational specification of analyze_file_internal

pub open spec fn in_file(f: PV) -> spec_fn(DefV) -> bool { |d: DefV| d.file == f }
pub open spec fn named(n: Seq<char>) -> spec_fn(DefV) -> bool { |d: DefV| d.name == n }
pub open spec fn all_in_file(ds: Seq<DefV>, f: PV) -> bool { forall|i: int| 0 <= i < ds.len() ==> (#[trigger] ds[i]).file == f }
pub open spec fn uses_in_file(us: Seq<UseV>, f: PV) -> bool { forall|i: int| 0 <= i < us.len() ==> (#[trigger] us[i]).file == f }
/// W1: the reverse index file_definitions covers every definition
pub open spec fn w1(defs: Map<Seq<char>, Seq<DefV>>, fdefs: Map<PV, Set<Seq<char>>>) -> bool {
    forall|n: Seq<char>, i: int| defs.contains_key(n) && 0 <= i < defs[n].len() ==>
        fdefs.contains_key((#[trigger] defs[n][i]).file) && fdefs[defs[n][i].file].contains(n)
}

pub proof fn lemma_filter_push<A>(s: Seq<A>, x: A, p: spec_fn(A) -> bool)
    ensures s.push(x).filter(p) == (if p(x) { s.filter(p).push(x) } else { s.filter(p) })
{
    reveal(Seq::filter);
    assert(s.push(x).drop_last() =~= s);
}

/// buckets after a sequence of pushes: the entries of other files are untouched, the entries of file f under
/// name n are the old ones followed by the pushed ones named n
pub proof fn lemma_push_defs_bucket(defs: Map<Seq<char>, Seq<DefV>>, ds: Seq<DefV>, f: PV, n: Seq<char>)
    requires all_in_file(ds, f)
    ensures
        bucket(push_defs(defs, ds), n).filter(not_in_file(f)) == bucket(defs, n).filter(not_in_file(f)),
        bucket(push_defs(defs, ds), n).filter(in_file(f)) == bucket(defs, n).filter(in_file(f)) + ds.filter(named(n)),
    decreases ds.len()
{
    reveal(Seq::filter);
    if ds.len() == 0 {
        assert(ds.filter(named(n)) =~= Seq::<DefV>::empty());
        assert(bucket(defs, n).filter(in_file(f)) + Seq::<DefV>::empty() =~= bucket(defs, n).filter(in_file(f)));
    } else {
        let t = ds.drop_last();
        let x = ds.last();
        assert(all_in_file(t, f)) by { assert forall|i: int| 0 <= i < t.len() implies (#[trigger] t[i]).file == f by { assert(t[i] == ds[i]); } }
        lemma_push_defs_bucket(defs, t, f, n);
        let m = push_defs(defs, t);
        assert(x.file == f);
        if x.name == n {
            lemma_filter_push(bucket(m, n), x, not_in_file(f));
            lemma_filter_push(bucket(m, n), x, in_file(f));
            assert(ds.filter(named(n)) == t.filter(named(n)).push(x));
            assert((bucket(defs, n).filter(in_file(f)) + t.filter(named(n))).push(x) =~= bucket(defs, n).filter(in_file(f)) + t.filter(named(n)).push(x));
        } else {
            assert(ds.filter(named(n)) == t.filter(named(n)));
        }
    }
}

/// cleaning removes every entry of f (given W1) and keeps every other entry in order
pub proof fn lemma_clean_bucket(defs: Map<Seq<char>, Seq<DefV>>, fdefs: Map<PV, Set<Seq<char>>>, f: PV, n: Seq<char>)
    requires w1(defs, fdefs)
    ensures
        bucket(clean_defs_names(defs, f, sbucket(fdefs, f)), n).filter(in_file(f)) =~= Seq::<DefV>::empty(),
        bucket(clean_defs_names(defs, f, sbucket(fdefs, f)), n).filter(not_in_file(f)) == bucket(defs, n).filter(not_in_file(f)),
{
    let names = sbucket(fdefs, f);
    let c = clean_defs_names(defs, f, names);
    if defs.contains_key(n) {
        let b = defs[n];
        lemma_filter_twice_disjoint(b, f);
        lemma_filter_idem(b, not_in_file(f));
        if names.contains(n) {
            if b.filter(not_in_file(f)).len() > 0 { assert(c.contains_key(n)); assert(c[n] == b.filter(not_in_file(f))); }
            else { assert(!c.contains_key(n)); reveal(Seq::filter); }
        } else {
            // no entry of f under n (W1), so the bucket is unchanged and has no f entries
            assert forall|i: int| 0 <= i < b.len() implies not_in_file(f)(#[trigger] b[i]) by {
                if b[i].file == f { assert(fdefs.contains_key(f) && fdefs[f].contains(n)); }
            }
            lemma_filter_all(b, not_in_file(f));
            assert(c.contains_key(n) && c[n] == b);
        }
    } else {
        assert(!c.contains_key(n));
        reveal(Seq::filter);
    }
}
pub proof fn lemma_filter_twice_disjoint(b: Seq<DefV>, f: PV)
    ensures b.filter(not_in_file(f)).filter(in_file(f)) =~= Seq::<DefV>::empty()
    decreases b.len()
{
    reveal(Seq::filter);
    if b.len() > 0 {
        lemma_filter_twice_disjoint(b.drop_last(), f);
        if not_in_file(f)(b.last()) { lemma_filter_push(b.drop_last().filter(not_in_file(f)), b.last(), in_file(f)); }
    }
}
pub proof fn lemma_filter_idem<A>(b: Seq<A>, p: spec_fn(A) -> bool)
    ensures b.filter(p).filter(p) == b.filter(p)
    decreases b.len()
{
    reveal(Seq::filter);
    if b.len() > 0 {
        lemma_filter_idem(b.drop_last(), p);
        if p(b.last()) { lemma_filter_push(b.drop_last().filter(p), b.last(), p); }
    }
}

//@tags C06 C10
/// C06.a / C10.a (definitions) — after analyze_file(F, t) of a well-formed index the entries of F under every
/// name are exactly what the visitors record for t (nothing of the superseded version survives, nothing is
/// duplicated) whatever the index held for F before; every other file's entries are untouched, in order
pub proof fn lemma_C06_a_defs_current_only(defs: Map<Seq<char>, Seq<DefV>>, fdefs: Map<PV, Set<Seq<char>>>, f: PV, ds: Seq<DefV>, n: Seq<char>)
    requires w1(defs, fdefs), all_in_file(ds, f)
    ensures ({
        let after = push_defs(clean_defs_names(defs, f, sbucket(fdefs, f)), ds);
        &&& bucket(after, n).filter(in_file(f)) =~= ds.filter(named(n))
        &&& bucket(after, n).filter(not_in_file(f)) == bucket(defs, n).filter(not_in_file(f))
    })
{
    let c = clean_defs_names(defs, f, sbucket(fdefs, f));
    lemma_clean_bucket(defs, fdefs, f, n);
    lemma_push_defs_bucket(c, ds, f, n);
}

//@tags C10
/// C10.c — analyze_file_fresh (no cleanup) on an index that already holds entries of F keeps them: the old
/// definitions of F stay next to the new ones.  This is the operational content of known finding F-10.
pub proof fn lemma_C10_c_fresh_keeps_old(defs: Map<Seq<char>, Seq<DefV>>, f: PV, ds: Seq<DefV>, n: Seq<char>)
    requires all_in_file(ds, f)
    ensures bucket(push_defs(defs, ds), n).filter(in_file(f)) == bucket(defs, n).filter(in_file(f)) + ds.filter(named(n))
{
    lemma_push_defs_bucket(defs, ds, f, n);
}

/// usages: the bucket of another file is untouched; the bucket of f is exactly the recorded usages
pub proof fn lemma_push_uses_bucket(uses: Map<PV, Seq<UseV>>, us: Seq<UseV>, f: PV, g: PV)
    requires uses_in_file(us, f)
    ensures
        g != f ==> bucket(push_uses(uses, us), g) == bucket(uses, g) && (push_uses(uses, us).contains_key(g) == uses.contains_key(g)),
        bucket(push_uses(uses, us), f) == bucket(uses, f) + us,
    decreases us.len()
{
    if us.len() == 0 { assert(bucket(uses, f) + us =~= bucket(uses, f)); }
    else {
        let t = us.drop_last();
        assert(uses_in_file(t, f)) by { assert forall|i: int| 0 <= i < t.len() implies (#[trigger] t[i]).file == f by { assert(t[i] == us[i]); } }
        lemma_push_uses_bucket(uses, t, f, g);
        assert(us.last().file == f);
        assert((bucket(uses, f) + t).push(us.last()) =~= bucket(uses, f) + us);
    }
}
//@tags C06 C10
/// C06.a (usages) — after a successful analysis the usages of F are exactly those of the current text and
/// every other file's usages are untouched
pub proof fn lemma_C06_a_uses_current_only(uses: Map<PV, Seq<UseV>>, us: Seq<UseV>, f: PV, g: PV)
    requires uses_in_file(us, f)
    ensures
        bucket(push_uses(uses.remove(f), us), f) =~= us,
        g != f ==> bucket(push_uses(uses.remove(f), us), g) == bucket(uses, g),
{
    lemma_push_uses_bucket(uses.remove(f), us, f, g);
    assert(bucket(uses.remove(f), f) + us =~= us);
}

// ---- canary: must FAIL — without W1 cleaning does not remove every entry of the file
pub proof fn canary_clean_without_w1(defs: Map<Seq<char>, Seq<DefV>>, fdefs: Map<PV, Set<Seq<char>>>, f: PV, n: Seq<char>)
    ensures bucket(clean_defs_names(defs, f, sbucket(fdefs, f)), n).filter(in_file(f)) =~= Seq::<DefV>::empty()
{
    lemma_filter_twice_disjoint(bucket(defs, n), f);
}
