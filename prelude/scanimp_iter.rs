// ---------------------------------------------------------------------------------------------
// PROVED facts about vstd's iterator specifications (no assumption): completeness of `filter` / `filter().map()` when
// the iterator is driven to its end (which `collect` does): every element the filter closure accepts is yielded.
// The broadcast lemmas fire on the marker `want(view_fn, key)` only (a trigger on the elements themselves would loop
// with vstd's own filter_postcondition).
pub proof fn lemma_filter_index_covers<A>(s: Seq<A>, ip: spec_fn(int) -> bool, j: int)
    requires 0 <= j < s.len(), ip(j)
    ensures exists|k: int| 0 <= k < s.filter_index(ip).len() && #[trigger] s.filter_index(ip)[k] == s[j]
    decreases s.len()
{
    reveal(Seq::filter_index);
    let t = s.drop_last();
    let sub = t.filter_index(ip);
    if j == s.len() - 1 {
        assert(s.filter_index(ip) == sub.push(s.last()));
        assert(s.filter_index(ip)[sub.len() as int] == s[j]);
    } else {
        lemma_filter_index_covers(t, ip, j);
        let k = choose|k: int| 0 <= k < sub.len() && #[trigger] sub[k] == t[j];
        assert(t[j] == s[j]);
        if ip(s.len() - 1) { assert(s.filter_index(ip) == sub.push(s.last())); assert(s.filter_index(ip)[k] == sub[k]); }
        else { assert(s.filter_index(ip) == sub); assert(s.filter_index(ip)[k] == sub[k]); }
    }
}
pub open spec fn want<T, K>(vw: spec_fn(T) -> K, key: K) -> bool { true }
pub mod scanimp_iter_ax {
    use super::*;
    pub broadcast proof fn lemma_filter_complete<I: Iterator, F: FnMut(&I::Item) -> bool, K>(i: I, f: F, r: core::iter::Filter<I, F>, vw: spec_fn(I::Item) -> K, key: K)
        requires
            i.obeys_prophetic_iter_laws(), i.decrease() is Some,
            forall|k: int| 0 <= k < i.remaining().len() ==> call_requires(f, (&#[trigger] i.remaining()[k],)),
            #[trigger] vstd::std_specs::iter::filter_post(i, f, r),
            #[trigger] want(vw, key),
            r.will_return_none(),
            exists|j: int| 0 <= j < i.remaining().len() && vw(#[trigger] i.remaining()[j]) == key && (forall|b: bool| call_ensures(f, (&i.remaining()[j],), b) ==> b),
        ensures
            exists|k: int| 0 <= k < r.remaining().len() && vw(#[trigger] r.remaining()[k]) == key,
    {
        vstd::std_specs::iter::filter_postcondition(i, f, r);
        let keep = vstd::std_specs::iter::filter_keep(r);
        let s = i.remaining();
        let j = choose|j: int| 0 <= j < i.remaining().len() && vw(#[trigger] i.remaining()[j]) == key && (forall|b: bool| call_ensures(f, (&i.remaining()[j],), b) ==> b);
        assert(s.take(keep.len() as int) =~= s);
        lemma_filter_index_covers(s, |q: int| keep[q], j);
    }
    pub broadcast proof fn lemma_filter_map_complete<I: Iterator, F: FnMut(&I::Item) -> bool, G: FnMut<(I::Item,)>, K>(
        i: I, f: F, r: core::iter::Filter<I, F>, g: G, m: core::iter::Map<core::iter::Filter<I, F>, G>, vw: spec_fn(I::Item) -> K, key: K)
        requires
            i.obeys_prophetic_iter_laws(), i.decrease() is Some,
            forall|k: int| 0 <= k < i.remaining().len() ==> call_requires(f, (&#[trigger] i.remaining()[k],)),
            #[trigger] vstd::std_specs::iter::filter_post(i, f, r),
            r.obeys_prophetic_iter_laws(),
            #[trigger] vstd::std_specs::iter::map_post(r, g, m),
            #[trigger] want(vw, key),
            m.will_return_none(),
            exists|j: int| 0 <= j < i.remaining().len() && vw(#[trigger] i.remaining()[j]) == key && (forall|b: bool| call_ensures(f, (&i.remaining()[j],), b) ==> b),
        ensures
            exists|k: int| 0 <= k < m.remaining().len() && k < r.remaining().len() && vw(r.remaining()[k]) == key
                && call_ensures(g, (r.remaining()[k],), #[trigger] m.remaining()[k]),
    {
        vstd::std_specs::iter::map_postcondition(r, g, m);
        lemma_filter_complete(i, f, r, vw, key);
        let k = choose|k: int| 0 <= k < r.remaining().len() && vw(#[trigger] r.remaining()[k]) == key;
        assert(call_ensures(g, (r.remaining()[k],), m.remaining()[k]));
    }
}
pub use scanimp_iter_ax::*;
