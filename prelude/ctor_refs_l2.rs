// ---------------------------------------------------------------------------------------------
// Unit constructors_refs, L2: the input hypotheses of the reference / CLI units (refs_goto, cli_unused, cli_tree, cli_main,
// handlers_nav) hold of the fresh database.  Vocabulary: prelude/refs_spec.rs (unique_at_line), prelude/cli_spec.rs
// (total_usages), prelude/cli_l2.rs (mirror, names_wf) -- included by the unit, read-only.  Needs ctor_spec.rs (db_fresh).
// No assume / admit / axiom in this file.
impl FixtureDatabase {
    pub open spec fn defs(&self) -> Map<Seq<char>, Seq<DefV>> { defs_view(self.definitions.m()) }
    pub open spec fn uses(&self) -> Map<PV, Seq<UseV>> { usages_view(self.usages.m()) }
    pub open spec fn byfix(&self) -> Map<Seq<char>, Seq<(PV, UseV)>> { byfix_view(self.usage_by_fixture.m()) }
}
pub proof fn lemma_fresh_views(db: FixtureDatabase)
    requires db_fresh(db)
    ensures db.defs() == Map::<Seq<char>, Seq<DefV>>::empty(),
        db.uses() == Map::<PV, Seq<UseV>>::empty(), db.byfix() == Map::<Seq<char>, Seq<(PV, UseV)>>::empty(),
{
    assert(db.defs() =~= Map::<Seq<char>, Seq<DefV>>::empty());
    assert(db.uses() =~= Map::<PV, Seq<UseV>>::empty());
    assert(db.byfix() =~= Map::<Seq<char>, Seq<(PV, UseV)>>::empty());
}
/// "the scan left a usable index" of unit cli_main (units/cli_main.rs:69, VERBATIM COPY: written in the unit body)
pub open spec fn scanned_ok(db: FixtureDatabase) -> bool { unique_at_line(db.defs()) && total_usages(db.uses()) <= usize::MAX }

//@tags C06 C19
/// W4 (at most one definition per (file, line)): the `requires` of find_fixture_definition / find_references_* (unit
/// refs_goto), get_unused_fixtures (cli_unused), print_fixtures_tree (cli_tree) and of every navigation handler
pub proof fn lemma_new_satisfies_unique_at_line(db: FixtureDatabase)
    requires db_fresh(db)
    ensures unique_at_line(db.defs())
{ lemma_fresh_views(db); }
//@tags C06 C19
/// the multiset mirror between usages and usage_by_fixture (prelude/cli_l2.rs) -- witness: the empty enumeration
pub proof fn lemma_new_satisfies_mirror(db: FixtureDatabase)
    requires db_fresh(db)
    ensures mirror(db.uses(), db.byfix())
{
    lemma_fresh_views(db);
    let ks = Seq::<PV>::empty();
    let uses = db.uses();
    let byfix = db.byfix();
    assert(is_enum(ks, uses.dom()));
    assert forall|n: Seq<char>| #[trigger] bucket(byfix, n).to_multiset() == flat(ks, uses).filter(name_is(n)).to_multiset() by {
        reveal(Seq::filter);
        assert(bucket(byfix, n) =~= Seq::<(PV, UseV)>::empty());
        assert(flat(ks, uses) =~= Seq::<(PV, UseV)>::empty());
        assert(flat(ks, uses).filter(name_is(n)) =~= Seq::<(PV, UseV)>::empty());
    }
    assert(mirror_via(uses, byfix, ks));
}
//@tags C06 C19
pub proof fn lemma_new_satisfies_names_wf(db: FixtureDatabase)
    requires db_fresh(db)
    ensures names_wf(db.defs())
{ lemma_fresh_views(db); }
//@tags C06 C19
/// scanned_ok of unit cli_main (what `cli list` / `cli unused` need of the database they print): no usage recorded yet
pub proof fn lemma_new_satisfies_scanned_ok(db: FixtureDatabase)
    requires db_fresh(db)
    ensures scanned_ok(db), total_usages(db.uses()) == 0,
{
    lemma_fresh_views(db);
    assert(db.uses().dom() =~= Set::<PV>::empty());
    lemma_sum_set_empty(file_len(db.uses()));
}
pub proof fn lemma_sum_set_empty<A>(w: spec_fn(A) -> nat)
    ensures sum_set(Set::<A>::empty(), w) == 0
{}

//@tags C06 C19
/// wf_names as units scope_mismatch / handlers_diag state it (prelude/mismatch_spec.rs)
pub proof fn lemma_new_satisfies_wf_names(db: FixtureDatabase)
    requires db_fresh(db)
    ensures wf_names(db.defs())
{ lemma_fresh_views(db); }
// ---- vacuity guards (must FAIL)
/// unique_at_line holds of any database
pub proof fn canary_any_db_unique_at_line(db: FixtureDatabase)
    ensures unique_at_line(db.defs())
{}
/// the mirror holds of a database whose reverse index alone is empty
pub proof fn canary_mirror_with_usages_only(db: FixtureDatabase)
    requires db.byfix() == Map::<Seq<char>, Seq<(PV, UseV)>>::empty()
    ensures mirror(db.uses(), db.byfix())
{}
