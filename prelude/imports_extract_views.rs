// ---------------------------------------------------------------------------------------------
// View functions of the contracts PROVED in unit imports_extract (`//@stub imports_extract extract_fixture_imports`
// copies the text `imps_v(r@) == spec_fixture_imports(..)`): FixtureImport -> ImpRecV, all five fields.
// The definitions are those written in the BODY of units/imports_extract.rs (imp_rec_v / imp_rec_fn / imps_v), with
// `strs_v` for that unit's `str_views` (both are `v.map_values(|s: String| s@)`; unit imports_extract defines
// strs_v(s) := str_views(s)).  Include AFTER `//@item src/fixtures/imports.rs struct FixtureImport`; needs
// prelude/imports_extract_spec.rs (ImpV, ImpRecV) and a `strs_v` (prelude/types.rs).
// (Owner of unit imports_extract: including this file there instead of the three local definitions would make the
//  sharing textual.)
spec fn imp_rec_v(i: FixtureImport) -> ImpRecV {
    ImpRecV { imp: ImpV { module: i.module_path@, star: i.is_star_import, names: strs_v(i.imported_names@) },
              file: pbv(&i.importing_file), line: i.line }
}
spec fn imp_rec_fn() -> spec_fn(FixtureImport) -> ImpRecV { |i: FixtureImport| imp_rec_v(i) }
spec fn imps_v(s: Seq<FixtureImport>) -> Seq<ImpRecV> { s.map_values(imp_rec_fn()) }
