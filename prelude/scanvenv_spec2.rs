// ---------------------------------------------------------------------------------------------
// Unit scan_venv2 (C14, plugin-discovery half of the scanner): the abstract database state and the OPERATIONAL
// specification of the database-writing functions of src/fixtures/scanner.rs (scan_single_plugin_file,
// scan_plugin_directory, resolve_entry_point_in_editable_installs, load_plugin_from_entry_point,
// scan_pytest_internal_fixtures, build_pth_index, discover_editable_installs, scan_pytest_plugins,
// scan_venv_site_packages, scan_venv_fixtures).  Everything here is DEFINED on top of the uninterpreted primitives
// (file system, walkdir, json, an_eff); no assumption.

/// the part of the database analyze_file* writes, as one value (the shim maps themselves)
pub struct Idx {
    pub definitions: DashMap<String, Vec<FixtureDefinition>>,
    pub file_definitions: DashMap<PathBuf, HashSet<String>>,
    pub usages: DashMap<PathBuf, Vec<FixtureUsage>>,
    pub usage_by_fixture: DashMap<String, Vec<(PathBuf, FixtureUsage)>>,
    pub file_cache: DashMap<PathBuf, String>,
    pub undeclared_fixtures: DashMap<PathBuf, Vec<UndeclaredFixture>>,
    pub imports: DashMap<PathBuf, HashSet<String>>,
    pub canonical_path_cache: DashMap<PathBuf, PathBuf>,
    pub definitions_version: AtomicU64,
}
/// an editable install, on views
pub struct EiV { pub package_name: Seq<char>, pub raw_package_name: Seq<char>, pub source_root: PV, pub site_packages: PV }
/// the modelled database: the index (what analyses write), the plugin-file marks, the discovered site-packages
/// directories, the editable installs, the workspace root
pub struct VSt { pub idx: Idx, pub plugins: Set<PV>, pub sp: Seq<PV>, pub er: Seq<EiV>, pub ws: Option<PV> }
/// the effect of ONE analysis on the index: an abstract function of everything the analysis can read (the whole
/// modelled state), the path it is given, the text, and whether it is analyze_file (cleanup) or analyze_file_fresh.
/// WHAT it does is the subject of units analyze / visit / index_maint.
pub uninterp spec fn an_eff(st: VSt, file: PV, text: Seq<char>, cleanup: bool) -> Idx;

pub open spec fn py_ext() -> Seq<char> { "py"@ }
pub open spec fn canon_or_self(p: PV) -> PV { match fs_canonical(p) { Some(c) => c, None => p } }
/// (M) mark + analyse: the canonical form of the path (else the path itself) becomes a plugin file; THEN the file is
/// analysed (analyze_file, with cleanup) under the path as given, with the text read from disk; unreadable: marked only
pub open spec fn op_mark_analyze(st: VSt, p: PV) -> VSt {
    let st1 = VSt { plugins: st.plugins.insert(canon_or_self(p)), ..st };
    match fs_read(p) { Some(t) => VSt { idx: an_eff(st1, p, t, true), ..st1 }, None => st1 }
}
/// (F1) scan_single_plugin_file: only `.py` files
pub open spec fn op_scan_single(st: VSt, p: PV) -> VSt {
    if path_ext_v(p) == Some(py_ext()) { op_mark_analyze(st, p) } else { st }
}
/// a walk entry scan_plugin_directory scans: extension `py`, UTF-8 file name, name not `test_*` and without `__pycache__`
pub open spec fn dir_scans(p: PV) -> bool {
    path_ext_v(p) == Some(py_ext()) && match file_name_v(p) {
        Some(n) => !(occurs_at(n, st("test_"@), 0) || find_k(n, st("__pycache__"@)) is Some),
        None => false }
}
pub open spec fn op_dir_step(st: VSt, e: DirEntry) -> VSt { if dir_scans(entry_path(e)) { op_mark_analyze(st, entry_path(e)) } else { st } }
pub open spec fn op_dir_fold(st: VSt, es: Seq<DirEntry>, n: int) -> VSt
    decreases n
{
    if n <= 0 { st } else { op_dir_step(op_dir_fold(st, es, n - 1), es[n - 1]) }
}
pub open spec fn plugin_depth() -> nat { 3 }
/// (F2) scan_plugin_directory: the entries of the walk limited to depth 3, in walk order
pub open spec fn op_scan_dir(st: VSt, dir: PV) -> VSt { op_dir_fold(st, walk_ok(dir, plugin_depth()), walk_ok(dir, plugin_depth()).len() as int) }

/// (F3) resolve_entry_point_in_editable_installs: the first install (list order) under whose source root the module resolves
pub open spec fn op_resolve_editable(er: Seq<EiV>, m: Seq<char>, k: int) -> Option<PV>
    decreases er.len() - k
{
    if k < 0 || k >= er.len() { None } else {
        match op_resolve_ep(er[k].source_root, m) { Some(p) => Some(p), None => op_resolve_editable(er, m, k + 1) }
    }
}
/// where an entry point's module is looked for: site-packages first, then the editable installs
pub open spec fn op_resolve_entry(st: VSt, sp: PV, m: Seq<char>) -> Option<PV> {
    match op_resolve_ep(sp, m) { Some(p) => Some(p), None => op_resolve_editable(st.er, m, 0) }
}
/// one entry of entry_points.txt: (state after, scanned?)
pub open spec fn op_entry_step(st: VSt, sp: PV, e: EpV) -> (VSt, bool) {
    match op_resolve_entry(st, sp, e.module) {
        Some(p) =>
            if file_name_v(p) == Some(init_py()) { (op_scan_dir(st, p.drop_last()), true) }
            else if fs_is_file(p) { (op_scan_single(st, p), true) }
            else { (st, false) },
        None => (st, false),
    }
}
pub open spec fn op_entries_fold(st: VSt, sp: PV, es: Seq<EpV>, n: int) -> (VSt, nat)
    decreases n
{
    if n <= 0 { (st, 0) } else {
        let prev = op_entries_fold(st, sp, es, n - 1);
        let step = op_entry_step(prev.0, sp, es[n - 1]);
        (step.0, if step.1 { prev.1 + 1 } else { prev.1 })
    }
}
pub open spec fn entry_points_txt() -> Seq<char> { "entry_points.txt"@ }
/// (F4) load_plugin_from_entry_point(dist_info, sp): (state after, number of entries scanned)
pub open spec fn op_load_plugin(st: VSt, dist: PV, sp: PV) -> (VSt, nat) {
    match fs_read(dist + str_pv(entry_points_txt())) {
        Some(c) => op_entries_fold(st, sp, op_parse_pytest11(c), op_parse_pytest11(c).len() as int),
        None => (st, 0),
    }
}
pub open spec fn pytest_dir() -> Seq<char> { "_pytest"@ }
/// (F5) scan_pytest_internal_fixtures
pub open spec fn op_internal(st: VSt, sp: PV) -> VSt {
    let d = sp + str_pv(pytest_dir());
    if !fs_exists(d) || !fs_is_dir(d) { st } else { op_scan_dir(st, d) }
}

// ---- editable installs ------------------------------------------------------------------------------------------------------
pub open spec fn pth_sfx() -> Seq<char> { ".pth"@ }
pub open spec fn pth_index_step(m: Map<Seq<char>, PV>, e: FsEntry) -> Map<Seq<char>, PV> {
    match strip_suffix_v(fse_name(e), st(pth_sfx())) { Some(stem) => m.insert(stem, fse_path(e)), None => m }
}
pub open spec fn pth_index_fold(es: Seq<FsEntry>, n: int) -> Map<Seq<char>, PV>
    decreases n
{
    if n <= 0 { Map::empty() } else { pth_index_step(pth_index_fold(es, n - 1), es[n - 1]) }
}
/// (F6) build_pth_index: stem -> path of every `*.pth` entry of the directory (a later entry with the same stem wins)
pub open spec fn op_pth_index(sp: PV) -> Map<Seq<char>, PV> {
    if !fs_is_dir(sp) { Map::empty() } else { pth_index_fold(dir_entries(sp), dir_entries(sp).len() as int) }
}
pub open spec fn direct_url_json() -> Seq<char> { "direct_url.json"@ }
/// `dir_info.editable` of a direct_url.json text is the boolean true
pub open spec fn json_editable(j: VpJson) -> bool {
    match jget(j, "dir_info"@) {
        Some(d) => match jget(d, "editable"@) { Some(e) => match jbool(e) { Some(b) => b, None => false }, None => false },
        None => false }
}
/// the editable install one site-packages entry contributes (idx: the .pth index that was built)
pub open spec fn op_editable_of(sp: PV, idx: &PthIndex, e: FsEntry) -> Option<EiV> {
    let name = lossy_name_v(fse_path(e));
    if !occurs_at(name, st(dist_info_sfx()), name.len() - dist_info_sfx().len()) { None } else {
        match fs_read(fse_path(e) + str_pv(direct_url_json())) {
            None => None,
            Some(text) => match json_parse(text) {
                None => None,
                Some(j) => if !json_editable(j) { None } else {
                    match op_dist_name(name) {
                        None => None,
                        Some(nm) => match op_pth_root(sp, idx, nm.0, nm.1) {
                            None => None,
                            Some(root) => Some(EiV { package_name: nm.1, raw_package_name: nm.0, source_root: root, site_packages: sp }),
                        } } } } }
    }
}
pub open spec fn op_editables_fold(sp: PV, idx: &PthIndex, es: Seq<FsEntry>, n: int) -> Seq<EiV>
    decreases n
{
    if n <= 0 { Seq::empty() } else {
        let prev = op_editables_fold(sp, idx, es, n - 1);
        match op_editable_of(sp, idx, es[n - 1]) { Some(x) => prev.push(x), None => prev }
    }
}
/// (F7) discover_editable_installs for a given built index: not a directory — nothing happens; otherwise the OLD list is
/// discarded and replaced by the installs of this directory's entries, in directory order (unreadable: the empty list)
pub open spec fn op_discover(st: VSt, sp: PV, idx: &PthIndex) -> VSt {
    if !fs_is_dir(sp) { st } else {
        VSt { er: match fs_dir(sp) { Some(es) => op_editables_fold(sp, idx, es, es.len() as int), None => Seq::empty() }, ..st }
    }
}
/// idx is a .pth index as build_pth_index returns it for sp (its iteration order is its own)
pub open spec fn idx_ok(idx: &PthIndex, sp: PV) -> bool { hmv(idx) == op_pth_index(sp) }
pub open spec fn disc_post(o: VSt, f: VSt, sp: PV, idx: PthIndex) -> bool { (fs_is_dir(sp) ==> idx_ok(&idx, sp)) && f == op_discover(o, sp, &idx) }

// ---- the drivers ------------------------------------------------------------------------------------------------------------
pub open spec fn ends_with_v(s: Seq<char>, t: Seq<char>) -> bool { occurs_at(s, st(t), s.len() - t.len()) }
/// a directory entry of site-packages that is looked at for entry points: `*.dist-info` or `*.egg-info` (lossy name)
pub open spec fn is_dist_meta(e: FsEntry) -> bool {
    ends_with_v(lossy_name_v(fse_path(e)), dist_info_sfx()) || ends_with_v(lossy_name_v(fse_path(e)), egg_info_sfx())
}
pub open spec fn op_dist_step(st: VSt, sp: PV, e: FsEntry) -> (VSt, nat) {
    if is_dist_meta(e) { op_load_plugin(st, fse_path(e), sp) } else { (st, 0) }
}
pub open spec fn op_dists_fold(st: VSt, sp: PV, es: Seq<FsEntry>, n: int) -> (VSt, nat)
    decreases n
{
    if n <= 0 { (st, 0) } else {
        let prev = op_dists_fold(st, sp, es, n - 1);
        let step = op_dist_step(prev.0, sp, es[n - 1]);
        (step.0, prev.1 + step.1)
    }
}
/// (F8) scan_pytest_plugins for a given built index: editable installs first, then pytest's own `_pytest`, then every
/// dist-info / egg-info entry of the directory, in directory order
pub open spec fn op_scan_plugins(st: VSt, sp: PV, idx: &PthIndex) -> VSt {
    op_dists_fold(op_internal(op_discover(st, sp, idx), sp), sp, dir_entries(sp), dir_entries(sp).len() as int).0
}
pub open spec fn plugins_post(o: VSt, f: VSt, sp: PV, idx: PthIndex) -> bool { (fs_is_dir(sp) ==> idx_ok(&idx, sp)) && f == op_scan_plugins(o, sp, &idx) }
/// C11: `plugin_count` is a usize sum of the per-package counts; each is at most the number of pytest11 entries
pub open spec fn ep_count(dist: PV) -> nat {
    match fs_read(dist + str_pv(entry_points_txt())) { Some(c) => op_parse_pytest11(c).len(), None => 0 }
}
pub open spec fn ep_total(es: Seq<FsEntry>, n: int) -> nat
    decreases n
{
    if n <= 0 { 0 } else { ep_total(es, n - 1) + ep_count(fse_path(es[n - 1])) }
}
/// the pytest11 entries of all packages of a site-packages directory fit a usize (fewer than 2^64)
pub open spec fn ep_fits(sp: PV) -> bool { ep_total(dir_entries(sp), dir_entries(sp).len() as int) <= usize::MAX }
pub proof fn lemma_entries_count(st: VSt, sp: PV, es: Seq<EpV>, n: int)
    requires 0 <= n <= es.len(),
    ensures op_entries_fold(st, sp, es, n).1 <= n,
    decreases n,
{
    if n > 0 { lemma_entries_count(st, sp, es, n - 1); }
}
pub proof fn lemma_load_count(st: VSt, dist: PV, sp: PV)
    ensures op_load_plugin(st, dist, sp).1 <= ep_count(dist),
{
    if let Some(c) = fs_read(dist + str_pv(entry_points_txt())) {
        lemma_entries_count(st, sp, op_parse_pytest11(c), op_parse_pytest11(c).len() as int);
    }
}
pub proof fn lemma_ep_total_mono(es: Seq<FsEntry>, k: int, n: int)
    requires k <= n,
    ensures ep_total(es, k) <= ep_total(es, n),
    decreases n - k,
{
    if k < n { lemma_ep_total_mono(es, k, n - 1); }
}

pub open spec fn lib_name() -> Seq<char> { "lib"@ }
pub open spec fn sp_dir_name() -> Seq<char> { "site-packages"@ }
pub open spec fn python_pfx() -> Seq<char> { "python"@ }
/// an entry of `<venv>/lib` that decides: a directory whose (lossy) name starts with `python` and that has a `site-packages`
pub open spec fn sp_cand(e: FsEntry) -> bool {
    fs_is_dir(fse_path(e)) && occurs_at(lossy_name_v(fse_path(e)), st(python_pfx()), 0) && fs_exists(fse_path(e) + str_pv(sp_dir_name()))
}
pub open spec fn first_sp(es: Seq<FsEntry>, k: int) -> Option<int>
    decreases es.len() - k
{
    if k < 0 || k >= es.len() { None } else if sp_cand(es[k]) { Some(k) } else { first_sp(es, k + 1) }
}
/// the site-packages directory of a venv as the code finds it: the FIRST `lib/python*` entry (directory order) with a
/// `site-packages`, else `Lib/site-packages`; canonicalised when possible
pub open spec fn venv_sp(venv: PV) -> Option<PV> {
    let lib = venv + str_pv(lib_name());
    let unix = if fs_exists(lib) {
        match fs_dir(lib) {
            Some(es) => match first_sp(es, 0) { Some(k) => Some(canon_or_self(fse_path(es[k]) + str_pv(sp_dir_name()))), None => None },
            None => None }
    } else { None };
    match unix {
        Some(p) => Some(p),
        None => if fs_exists(venv + str_pv(lib_sp())) { Some(canon_or_self(venv + str_pv(lib_sp()))) } else { None },
    }
}
/// (F9) scan_venv_site_packages for a given built index
pub open spec fn op_site_packages(st: VSt, venv: PV, idx: &PthIndex) -> VSt {
    match venv_sp(venv) { Some(sp) => op_scan_plugins(VSt { sp: st.sp.push(sp), ..st }, sp, idx), None => st }
}
pub open spec fn sp_idx_ok(venv: PV, idx: &PthIndex) -> bool { match venv_sp(venv) { Some(sp) => fs_is_dir(sp) ==> idx_ok(idx, sp), None => true } }
pub open spec fn site_post(o: VSt, f: VSt, venv: PV, idx: PthIndex) -> bool { sp_idx_ok(venv, &idx) && f == op_site_packages(o, venv, &idx) }
pub open spec fn venv_names() -> Seq<Seq<char>> { seq![".venv"@, "venv"@, "env"@] }
pub open spec fn first_venv(root: PV, k: int) -> Option<PV>
    decreases venv_names().len() - k
{
    if k < 0 || k >= venv_names().len() { None } else if fs_exists(root + str_pv(venv_names()[k])) { Some(root + str_pv(venv_names()[k])) } else { first_venv(root, k + 1) }
}
pub open spec fn virtual_env_name() -> Seq<char> { "VIRTUAL_ENV"@ }
/// the virtual environment that is scanned: the first EXISTING of `<root>/.venv`, `<root>/venv`, `<root>/env`; only if
/// none of them exists: `$VIRTUAL_ENV` (when set and existing, canonicalised)
pub open spec fn venv_of(root: PV) -> Option<PV> {
    match first_venv(root, 0) {
        Some(v) => Some(v),
        None => match env_var(virtual_env_name()) {
            Some(t) => if fs_exists(str_pv(t)) { Some(canon_or_self(str_pv(t))) } else { None },
            None => None },
    }
}
/// (F10) scan_venv_fixtures for a given built index
pub open spec fn op_venv(st: VSt, root: PV, idx: &PthIndex) -> VSt {
    match venv_of(root) { Some(v) => op_site_packages(st, v, idx), None => st }
}
pub open spec fn venv_post(o: VSt, f: VSt, root: PV, idx: PthIndex) -> bool {
    (match venv_of(root) { Some(v) => sp_idx_ok(v, &idx), None => true }) && f == op_venv(o, root, &idx)
}
