// ---------------------------------------------------------------------------------------------
// Text access shims (T6/T5).  String contents are opaque to Verus (no byte model): line splitting and
// word extraction are uninterpreted functions of the text; the real string code is checked by the
// Kani harnesses (bounded) instead.
pub struct Arc<T> { pub v: T }
impl<T> core::ops::Deref for Arc<T> {
    type Target = T;
    fn deref(&self) -> (o: &T) ensures *o == self.v { &self.v }
}
/// the n-th line (0-based) of a text, as `str::lines().nth(n)` returns it
pub uninterp spec fn line_of(text: Seq<char>, n: int) -> Option<Seq<char>>;
/// the identifier-like word around character index ch, as string_utils::extract_word_at_position returns it
pub uninterp spec fn word_at(line: Seq<char>, ch: int) -> Option<Seq<char>>;
/// content of a file as FixtureDatabase::get_file_content returns it (file_cache entry, else the file system)
pub uninterp spec fn file_content(cache: Map<PV, String>, file: PV) -> Option<Seq<char>>;

pub struct VpLines<'a> { pub text: &'a str, pub pos: Ghost<int> }
pub trait VpStr {
    fn vp_lines(&self) -> (r: VpLines<'_>);
}
impl VpStr for String {
    #[verifier::external_body]
    fn vp_lines(&self) -> (r: VpLines<'_>) ensures r.text@ == self@, r.pos@ == 0
    { VpLines { text: self.as_str(), pos: Ghost::assume_new() } }
}
impl<'a> VpLines<'a> {
    /// `Iterator::nth` on `str::lines()` for a fresh iterator
    #[verifier::external_body]
    pub fn nth(&mut self, n: usize) -> (r: Option<&'a str>)
        requires old(self).pos@ == 0
        ensures (match r { Some(l) => Some(l@), None => None::<Seq<char>> }) == line_of(old(self).text@, n as int)
    { self.text.lines().nth(n) }
}
