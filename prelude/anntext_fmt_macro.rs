// ---------------------------------------------------------------------------------------------
// Unit ann_text (AT2): inside the unit, `format!` IS this table (a `macro_rules! format` in textual scope shadows the
// std macro; the extracted code is not touched).  The table maps each format string to the external_body helper of
// prelude/anntext_prims.rs whose body is that very `std::format!` call and whose contract states the result as a
// concatenation of what Display / Debug write for the arguments.  A format string that is not in the table does not
// compile (UNDECIDED, never green).  Must stand OUTSIDE `verus!` and before it.
#[allow(unused_macros)]
macro_rules! format {
    ("{}.{}", $a:expr, $b:expr $(,)?) => { vp_fmt_dot(&$a, &$b) };
    ("{}[{}]", $a:expr, $b:expr $(,)?) => { vp_fmt_sub(&$a, &$b) };
    ("{} | {}", $a:expr, $b:expr $(,)?) => { vp_fmt_bitor(&$a, &$b) };
    ("{}|{}", $a:expr, $b:expr $(,)?) => { vp_fmt_bitor_tight(&$a, &$b) };
    ("{}{}", $a:expr, $b:expr $(,)?) => { vp_fmt_cat(&$a, &$b) };
    ("{}, {}", $a:expr, $b:expr $(,)?) => { vp_fmt_comma(&$a, &$b) };
    ("{}({})", $a:expr, $b:expr $(,)?) => { vp_fmt_paren(&$a, &$b) };
    ("{}", $a:expr $(,)?) => { vp_fmt_one(&$a) };
    ("{:?}", $a:expr $(,)?) => { vp_fmt_debug(&$a) };
}
