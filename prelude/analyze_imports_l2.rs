// ---------------------------------------------------------------------------------------------
// L2 over analyze_file_internal's contract about `imports` (prelude/analyze_imports.rs: imports_post): C06 "index state
// depends on current contents only" for the module-level names, C17 "never flagged: a module-level or imported name"
// (the hypothesis unit undeclared_scan's precision lemma needs), and the one-step / all-histories form for unit history.
// Pure lemmas, no assumption.  Needs prelude/analyze_imports.rs.

//@tags C06
/// C06 -- after a SUCCESSFUL analysis of f (text parsed to the module m) the names stored for f are module_names of
/// THIS text, whatever the map held for f before (two arbitrary prior maps om1 / om2 give the same entry: nothing of a
/// superseded version survives, nothing accumulates), the entry exists, and every other file's entry is the SAME stored
/// set as before (present iff it was present)
pub proof fn lemma_C06_imports_are_current_text_only(om1: Map<PV, HashSet<String>>, sm1: Map<PV, HashSet<String>>,
        om2: Map<PV, HashSet<String>>, sm2: Map<PV, HashSet<String>>, f: PV, m: Mod0, g: PV)
    requires imports_post(om1, sm1, f, m), imports_post(om2, sm2, f, m), is_module(m),
    ensures
        sm1.contains_key(f),
        imports_entry(sm1, f) == module_names(body_of(m)),
        imports_entry(sm1, f) == imports_entry(sm2, f),
        g != f ==> sm1.contains_key(g) == om1.contains_key(g) && (sm1.contains_key(g) ==> sm1[g] == om1[g])
            && imports_entry(sm1, g) == imports_entry(om1, g),
{
    lemma_imports_post_entry(om1, sm1, f, m);
    lemma_imports_post_entry(om2, sm2, f, m);
    if g != f { lemma_imports_post_frame(om1, sm1, f, m, g); }
}
/// f's entry after a successful analysis, from imports_post (also when the parser handed back no Mod::Module)
pub proof fn lemma_imports_post_entry(om: Map<PV, HashSet<String>>, sm: Map<PV, HashSet<String>>, f: PV, m: Mod0)
    requires imports_post(om, sm, f, m),
    ensures sm.contains_key(f) == is_module(m),
        imports_entry(sm, f) == (if is_module(m) { module_names(body_of(m)) } else { Set::<Seq<char>>::empty() }),
{
    let iv = imports_view(sm);
    assert(iv.contains_key(f) == sm.contains_key(f));
    if is_module(m) { assert(iv[f] == module_names(body_of(m))); assert(iv[f] == sm[f].s()); }
}
pub proof fn lemma_imports_post_frame(om: Map<PV, HashSet<String>>, sm: Map<PV, HashSet<String>>, f: PV, m: Mod0, g: PV)
    requires imports_post(om, sm, f, m), g != f,
    ensures sm.contains_key(g) == om.contains_key(g), sm.contains_key(g) ==> sm[g] == om[g],
        imports_entry(sm, g) == imports_entry(om, g),
{
    let a = sm.remove(f); let b = om.remove(f);
    assert(a.contains_key(g) == sm.contains_key(g) && b.contains_key(g) == om.contains_key(g));
    if sm.contains_key(g) { assert(a[g] == sm[g] && b[g] == om[g]); }
}

//@tags C17
/// C17 -- a name n that SOME top-level statement of the current text binds (module_level_names, the spec PROVED for
/// collect_module_level_names in unit ast_helpers: `import a` / `import a as n` / `from m import n` / `from m import a as n`,
/// def / async def that is not a fixture, class, the Name / tuple / list targets of `=` and `: T =`) is in imports[f]
/// after the analysis.  This is the hypothesis unit undeclared_scan needs: its scan_fn / lemma_C17_a_precision take
/// `imps = imps_of(db.imports.m(), file)` (textually imports_entry) and conclude `!imps.contains(u.name)` for EVERY
/// finding u -- so no scan of a function of f run on the post-analysis imports map flags n
/// (lemma_C17_a_precision; exact scope rule: lemma_C17_a_in_scope_iff: a name of imps is in scope on every line >= 1).
pub proof fn lemma_C17_module_level_name_is_in_imports(om: Map<PV, HashSet<String>>, sm: Map<PV, HashSet<String>>, f: PV, m: Mod0, i: int, n: Seq<char>)
    requires imports_post(om, sm, f, m), is_module(m), 0 <= i < body_of(m).len(), module_level_names(body_of(m)[i]).contains(n),
    ensures imports_entry(sm, f).contains(n),
{
    lemma_imports_post_entry(om, sm, f, m);
    lemma_module_names_iff(body_of(m), n);
}
//@tags C17 C06
/// ... and ONLY those: a name is protected by imports[f] iff the CURRENT text binds it at top level (a name only an
/// older version of the file bound no longer hides an undeclared fixture)
pub proof fn lemma_C17_imports_exactly_the_current_module_level_names(om: Map<PV, HashSet<String>>, sm: Map<PV, HashSet<String>>, f: PV, m: Mod0, n: Seq<char>)
    requires imports_post(om, sm, f, m), is_module(m),
    ensures imports_entry(sm, f).contains(n) <==> exists|i: int| 0 <= i < body_of(m).len() && module_level_names(#[trigger] body_of(m)[i]).contains(n),
{
    lemma_imports_post_entry(om, sm, f, m);
    lemma_module_names_iff(body_of(m), n);
}
/// aliases_from covers every alias of the list
pub proof fn lemma_aliases_from_has(s: Seq<Alias>, k: int, j: int)
    requires 0 <= k <= j < s.len(),
    ensures aliases_from(s, k).contains(alias_bound(s[j])),
    decreases s.len() - k
{
    if k < j { lemma_aliases_from_has(s, k + 1, j); }
}
//@tags C17
/// the import forms, spelled out: the name an import alias binds (`as` name, else the imported name) is a module-level name
pub proof fn lemma_C17_imported_name_is_module_level(s: Stmt0, j: int)
    ensures
        match s {
            Stmt::Import(x) => 0 <= j < x.names@.len() ==> module_level_names(s).contains(alias_bound(x.names@[j])),
            Stmt::ImportFrom(x) => 0 <= j < x.names@.len() ==> module_level_names(s).contains(alias_bound(x.names@[j])),
            Stmt::ClassDef(c) => module_level_names(s).contains(idv(&c.name)),
            Stmt::FunctionDef(d) => !has_fixture_decorator(d.decorator_list@) ==> module_level_names(s).contains(idv(&d.name)),
            Stmt::AsyncFunctionDef(d) => !has_fixture_decorator(d.decorator_list@) ==> module_level_names(s).contains(idv(&d.name)),
            _ => true,
        },
{
    match s {
        Stmt::Import(x) => { if 0 <= j < x.names@.len() { lemma_aliases_from_has(x.names@, 0, j); } }
        Stmt::ImportFrom(x) => { if 0 <= j < x.names@.len() { lemma_aliases_from_has(x.names@, 0, j); } }
        _ => {}
    }
}

// ---- histories (shape of prelude/history_spec.rs: step / run / last_valid over events (canonical file, text)) --------------
/// ONE analysis (analyze_file AND analyze_file_fresh: the imports part does not depend on cleanup_previous) on the
/// imports view
pub open spec fn imports_step(iv: Map<PV, Set<Seq<char>>>, f: PV, t: Seq<char>) -> Map<PV, Set<Seq<char>>> {
    if !parse_ok(t) { iv } else { imports_after(iv, f, ast_of(t)) }
}
pub open spec fn imports_run(iv0: Map<PV, Set<Seq<char>>>, es: Seq<(PV, Seq<char>)>) -> Map<PV, Set<Seq<char>>>
    decreases es.len()
{
    if es.len() == 0 { iv0 } else { imports_step(imports_run(iv0, es.drop_last()), es.last().0, es.last().1) }
}
/// textually `last_valid` of prelude/history_spec.rs
pub open spec fn imports_last_valid(es: Seq<(PV, Seq<char>)>, f: PV) -> Option<Seq<char>>
    decreases es.len()
{
    if es.len() == 0 { None }
    else if es.last().0 == f && parse_ok(es.last().1) { Some(es.last().1) }
    else { imports_last_valid(es.drop_last(), f) }
}
/// the module-level names of a text (None: nothing)
pub open spec fn tmodnames(ot: Option<Seq<char>>) -> Set<Seq<char>> {
    match ot {
        Some(t) => if is_module(ast_of(t)) { module_names(body_of(ast_of(t))) } else { Set::<Seq<char>>::empty() },
        None => Set::<Seq<char>>::empty(),
    }
}
//@tags C06
/// ONE STEP, for unit history: the hypothesis is, clause for clause, the imports part of analyze_file's (and
/// analyze_file_fresh's) @sig in units/analyze.rs (old(self).imports.m() -> om, final(self).imports.m() -> sm,
/// f = canon(pbv(&file_path)), t = content@; `final(self).imports == old(self).imports` weakened to the maps);
/// the conclusion is the definition of imports_step
pub proof fn lemma_imports_step_is_analyze_post(om: Map<PV, HashSet<String>>, sm: Map<PV, HashSet<String>>, f: PV, t: Seq<char>)
    requires
        !parse_ok(t) ==> sm == om,
        parse_ok(t) ==> imports_post(om, sm, f, ast_of(t)),
    ensures imports_view(sm) == imports_step(imports_view(om), f, t),
{}
/// one step, projected: the analysed file's names are those of the text when it parsed (unchanged otherwise), every
/// other file's names are unchanged
pub proof fn lemma_imports_step_proj(iv: Map<PV, Set<Seq<char>>>, f: PV, t: Seq<char>, g: PV)
    ensures imps_at(imports_step(iv, f, t), g) == (if g == f && parse_ok(t) { tmodnames(Some(t)) } else { imps_at(iv, g) }),
{}
//@tags C06
/// ALL HISTORIES: after any sequence of analyses the names held for file g are the module-level names of g's LATEST
/// SYNTACTICALLY VALID content (those of the start state if no event of g parsed) -- no other event matters
pub proof fn theorem_C06_imports_after_any_history(iv0: Map<PV, Set<Seq<char>>>, es: Seq<(PV, Seq<char>)>, g: PV)
    ensures imps_at(imports_run(iv0, es), g) == (match imports_last_valid(es, g) { Some(t) => tmodnames(Some(t)), None => imps_at(iv0, g) }),
    decreases es.len()
{
    if es.len() > 0 {
        theorem_C06_imports_after_any_history(iv0, es.drop_last(), g);
        lemma_imports_step_proj(imports_run(iv0, es.drop_last()), es.last().0, es.last().1, g);
    }
}

// ---- vacuity guards: each of these must FAIL ----------------------------------------------------------------------------------
/// imports ACCUMULATE: a name the old entry of f held is still there after a successful analysis (union over versions)
pub proof fn canary_imports_accumulate(om: Map<PV, HashSet<String>>, sm: Map<PV, HashSet<String>>, f: PV, m: Mod0, n: Seq<char>)
    requires imports_post(om, sm, f, m), is_module(m), imports_entry(om, f).contains(n),
    ensures imports_entry(sm, f).contains(n),
{
    lemma_imports_post_entry(om, sm, f, m);
}
/// the analysis of f changes the stored names of ANOTHER file g
pub proof fn canary_imports_other_file_changes(om: Map<PV, HashSet<String>>, sm: Map<PV, HashSet<String>>, f: PV, m: Mod0, g: PV)
    requires imports_post(om, sm, f, m), g != f, om.contains_key(g),
    ensures !sm.contains_key(g) || sm[g] != om[g],
{
    lemma_imports_post_frame(om, sm, f, m, g);
}
/// a parse failure resets the names of the file
pub proof fn canary_imports_parse_failure_resets(iv: Map<PV, Set<Seq<char>>>, f: PV, t: Seq<char>)
    requires !parse_ok(t), iv.contains_key(f),
    ensures !imports_step(iv, f, t).contains_key(f),
{}
/// imports_post is contradictory
pub proof fn canary_imports_post_contradictory(om: Map<PV, HashSet<String>>, sm: Map<PV, HashSet<String>>, f: PV, m: Mod0)
    requires imports_post(om, sm, f, m), is_module(m), om.contains_key(f),
    ensures false,
{}
