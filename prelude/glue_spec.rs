// ---------------------------------------------------------------------------------------------
// Unit glue_small: operational specifications of FixtureScope::{parse, as_str} (src/fixtures/types.rs) and
// make_fixture_detail (src/providers/completion.rs) + the L2 lemmas (C16: the scope shown / parsed round-trips; C18: the
// completion item's detail text).
/// FixtureScope::as_str: the display name
pub open spec fn scope_name(s: FixtureScope) -> Seq<char> {
    match s {
        FixtureScope::Function => "function"@, FixtureScope::Class => "class"@, FixtureScope::Module => "module"@,
        FixtureScope::Package => "package"@, FixtureScope::Session => "session"@,
    }
}
/// FixtureScope::parse: lower-case the text, then compare with the five names (first match in source order)
pub open spec fn parse_scope_v(s: Seq<char>) -> Option<FixtureScope> {
    let l = lower_v(s);
    if l == "function"@ { Some(FixtureScope::Function) }
    else if l == "class"@ { Some(FixtureScope::Class) }
    else if l == "module"@ { Some(FixtureScope::Module) }
    else if l == "package"@ { Some(FixtureScope::Package) }
    else if l == "session"@ { Some(FixtureScope::Session) }
    else { None }
}
/// make_fixture_detail: `(scope)` unless the scope is the default, then `[third-party]`, else `[plugin]`; joined by one space
pub open spec fn paren(s: Seq<char>) -> Seq<char> { "("@ + s + ")"@ }
pub open spec fn detail_parts(scope: FixtureScope, third_party: bool, plugin: bool) -> Seq<Seq<char>> {
    (if scope != FixtureScope::Function { seq![paren(scope_name(scope))] } else { Seq::<Seq<char>>::empty() })
    + (if third_party { seq!["[third-party]"@] } else if plugin { seq!["[plugin]"@] } else { Seq::<Seq<char>>::empty() })
}
pub open spec fn sp() -> Seq<char> { " "@ }
pub open spec fn op_detail(scope: FixtureScope, third_party: bool, plugin: bool) -> Seq<char> {
    join_v(detail_parts(scope, third_party, plugin), sp())
}

// ---- L2 -----------------------------------------------------------------------------------------------------------------------
/// the five names are pairwise different texts (PROVED from the literals)
pub proof fn lemma_scope_names_distinct()
    ensures forall|a: FixtureScope, b: FixtureScope| a != b ==> #[trigger] scope_name(a) != #[trigger] scope_name(b),
{
    reveal_strlit("function"); reveal_strlit("class"); reveal_strlit("module"); reveal_strlit("package"); reveal_strlit("session");
    assert("function"@.len() == 8 && "class"@.len() == 5 && "module"@.len() == 6 && "package"@.len() == 7 && "session"@.len() == 7);
    assert("package"@[0] == 'p' && "session"@[0] == 's');
}
/// what `to_lowercase` must do for the round trip: leave the (already lowercase, ASCII) name unchanged.  True of
/// `str::to_lowercase`; an explicit hypothesis here because lower_v is uninterpreted
pub open spec fn lower_fixes(t: Seq<char>) -> bool { lower_v(t) == t }
/// C16 (the scope a diagnostic / detail text SHOWS is the scope the analyzer PARSED): parse(as_str(s)) == Some(s) for all
/// five scopes
//@tags C16
pub proof fn lemma_C16_parse_as_str_round_trip(s: FixtureScope)
    requires lower_fixes(scope_name(s)),
    ensures parse_scope_v(scope_name(s)) == Some(s),
{
    lemma_scope_names_distinct();
    let f = FixtureScope::Function; let c = FixtureScope::Class; let m = FixtureScope::Module; let p = FixtureScope::Package; let e = FixtureScope::Session;
    assert(scope_name(f) == "function"@ && scope_name(c) == "class"@ && scope_name(m) == "module"@ && scope_name(p) == "package"@ && scope_name(e) == "session"@);
    if s != f { assert(scope_name(s) != scope_name(f)); }
    if s != c { assert(scope_name(s) != scope_name(c)); }
    if s != m { assert(scope_name(s) != scope_name(m)); }
    if s != p { assert(scope_name(s) != scope_name(p)); }
}
/// C16: parse accepts exactly the texts whose lower-casing is one of the five names, and as_str of the result IS that
/// lower-cased text
//@tags C16
pub proof fn lemma_C16_parse_accepts_exactly_the_five_names(t: Seq<char>)
    ensures match parse_scope_v(t) { Some(s) => scope_name(s) == lower_v(t), None => forall|s: FixtureScope| #[trigger] scope_name(s) != lower_v(t) },
{
    if parse_scope_v(t) is None {
        assert forall|s: FixtureScope| #[trigger] scope_name(s) != lower_v(t) by {
            match s { FixtureScope::Function => {}, FixtureScope::Class => {}, FixtureScope::Module => {}, FixtureScope::Package => {}, FixtureScope::Session => {} }
        }
    }
}
/// C16: as_str is injective (two scopes with the same display name are the same scope)
//@tags C16
pub proof fn lemma_C16_as_str_injective(a: FixtureScope, b: FixtureScope)
    requires scope_name(a) == scope_name(b),
    ensures a == b,
{
    lemma_scope_names_distinct();
}
/// C18 (the detail text of a completion item), case by case
//@tags C18
pub proof fn lemma_C18_detail_cases(scope: FixtureScope, third_party: bool, plugin: bool)
    ensures ({
        let d = op_detail(scope, third_party, plugin);
        let tag = if third_party { Some("[third-party]"@) } else if plugin { Some("[plugin]"@) } else { None::<Seq<char>> };
        match (scope == FixtureScope::Function, tag) {
            (true, None) => d == Seq::<char>::empty(),
            (true, Some(t)) => d == t,
            (false, None) => d == paren(scope_name(scope)),
            (false, Some(t)) => d == paren(scope_name(scope)) + sp() + t,
        }
    }),
{
    let ps = detail_parts(scope, third_party, plugin);
    if ps.len() == 2 {
        assert(ps.drop_last() =~= seq![ps[0]]);
        assert(join_v(ps.drop_last(), sp()) == ps[0]);
    }
}
/// C18: third-party wins over plugin (a fixture that is both shows `[third-party]` only)
//@tags C18
pub proof fn lemma_C18_third_party_overrides_plugin(scope: FixtureScope)
    ensures op_detail(scope, true, true) == op_detail(scope, true, false),
{ }
