// ---------------------------------------------------------------------------------------------
// C14 / C01 (extraction part), L2: consequences of the operational specs of prelude/imports_extract_spec.rs that
// the property text talks about.  All PROVED (no axiom is used except through prelude/str_dotted.rs' defined
// functions; `is_stdlib_name` stays uninterpreted, so "the empty name is not a stdlib module" is a hypothesis).

//@tags C14 C01
/// the stdlib filter looks at the path AFTER the leading dots were prepended: for a relative import (level > 0)
/// that first component is the empty string -- whatever the module is called (`.http`, `..types`, `.logging`)
pub proof fn lemma_C14_relative_filter_ignores_module_name(x: rustpython_parser::ast::StmtImportFrom, l: rustpython_parser::ast::Int)
    requires x.level == Some(l), int_v(l) > 0,
    ensures first_component(import_module_path(x)) == Seq::<char>::empty(),
{
    let base = match x.module { Some(m) => idv(&m), None => Seq::<char>::empty() };
    lemma_dotted_first_component_empty(int_v(l) as nat, base);
}
//@tags C14 C01
/// hence a relative import is never dropped by the stdlib list (the empty name not being a stdlib module): it
/// yields a record iff it is a star import or imports at least one name, and the record's path starts with a dot
pub proof fn lemma_C14_relative_import_never_stdlib_filtered(x: rustpython_parser::ast::StmtImportFrom, l: rustpython_parser::ast::Int)
    requires x.level == Some(l), int_v(l) > 0, !is_stdlib_name(Seq::<char>::empty()),
    ensures
        import_core_of(rustpython_parser::ast::Stmt::ImportFrom(x)) is Some <==> (has_star(x.names@) || x.names@.len() > 0),
        import_core_of(rustpython_parser::ast::Stmt::ImportFrom(x)) is Some ==> ({
            let m = import_core_of(rustpython_parser::ast::Stmt::ImportFrom(x))->0.module;
            m == import_module_path(x) && m.len() > 0 && m[0] == '.'
        }),
{
    lemma_C14_relative_filter_ignores_module_name(x, l);
    lemma_dot_lit();
    let base = match x.module { Some(m) => idv(&m), None => Seq::<char>::empty() };
    let n = int_v(l) as nat;
    assert(repeat_v("."@, n) == "."@ + repeat_v("."@, (n - 1) as nat));
    assert(import_module_path(x)[0] == '.');
}
//@tags C14 C01
/// an absolute import (no level, or level 0) is dropped iff the first component of the module text is a stdlib name
pub proof fn lemma_C14_absolute_import_filter(x: rustpython_parser::ast::StmtImportFrom)
    requires x.level is None || int_v(x.level->0) == 0,
    ensures
        import_module_path(x) =~= (match x.module { Some(m) => idv(&m), None => Seq::<char>::empty() }),
        is_stdlib_name(first_component(import_module_path(x))) ==> import_core_of(rustpython_parser::ast::Stmt::ImportFrom(x)) is None,
{
    let base = match x.module { Some(m) => idv(&m), None => Seq::<char>::empty() };
    lemma_dotted_zero(base);
}
//@tags C14 C01
/// star imports record no names; explicit imports record, in order, what each alias binds (asname, else name)
pub proof fn lemma_C14_star_and_names(x: rustpython_parser::ast::StmtImportFrom)
    requires import_core_of(rustpython_parser::ast::Stmt::ImportFrom(x)) is Some,
    ensures ({
        let c = import_core_of(rustpython_parser::ast::Stmt::ImportFrom(x))->0;
        &&& c.star == has_star(x.names@)
        &&& c.star ==> c.names.len() == 0
        &&& !c.star ==> c.names.len() == x.names@.len() && c.names.len() > 0
                && forall|k: int| 0 <= k < c.names.len() ==> #[trigger] c.names[k] == imported_as(x.names@[k])
    }),
{ }
//@tags C14 C01
/// a statement that is not `from ... import ...` contributes nothing -- in particular `import x` / `import x as y`
pub proof fn lemma_C14_only_from_imports_contribute(s: rustpython_parser::ast::Stmt, file: PV, li: Seq<usize>)
    requires !(s is ImportFrom),
    ensures import_core_of(s) is None, import_rec_of(s, file, li) is None,
{ }
//@tags C14 C01
pub proof fn lemma_C14_plain_import_contributes_nothing(x: rustpython_parser::ast::StmtImport, file: PV, li: Seq<usize>)
    ensures import_rec_of(rustpython_parser::ast::Stmt::Import(x), file, li) is None,
{ }
//@tags C14 C01
/// result order is statement order: the records of `a ++ b` are those of a followed by those of b
pub proof fn lemma_C14_imports_in_statement_order(a: Seq<rustpython_parser::ast::Stmt>, b: Seq<rustpython_parser::ast::Stmt>, file: PV, li: Seq<usize>)
    ensures spec_fixture_imports(a + b, file, li) =~= spec_fixture_imports(a, file, li) + spec_fixture_imports(b, file, li),
    decreases b.len(),
{
    if b.len() == 0 {
        assert(a + b =~= a);
    } else {
        lemma_C14_imports_in_statement_order(a, b.drop_last(), file, li);
        assert((a + b).drop_last() =~= a + b.drop_last());
        assert((a + b).last() == b.last());
    }
}
//@tags C14 C01
/// every record carries the importing file and the line of its own statement; nothing is recorded for a module
/// without `from` imports
pub proof fn lemma_C14_no_from_imports_no_records(stmts: Seq<rustpython_parser::ast::Stmt>, file: PV, li: Seq<usize>)
    requires forall|k: int| 0 <= k < stmts.len() ==> !(#[trigger] stmts[k] is ImportFrom),
    ensures spec_fixture_imports(stmts, file, li).len() == 0,
    decreases stmts.len(),
{
    if stmts.len() > 0 {
        assert forall|k: int| 0 <= k < stmts.drop_last().len() implies !(#[trigger] stmts.drop_last()[k] is ImportFrom) by {
            assert(stmts.drop_last()[k] == stmts[k]);
        }
        lemma_C14_no_from_imports_no_records(stmts.drop_last(), file, li);
        assert(stmts.last() == stmts[stmts.len() - 1]);
    }
}
//@tags C14 C01
/// the (module, star, names) parts depend neither on the importing file nor on the line index: `imports_core`
/// has the signature of imports_spec.rs `imports_of` (which ignores its `file` argument)
pub proof fn lemma_imports_core(stmts: Seq<rustpython_parser::ast::Stmt>, file: PV, li: Seq<usize>)
    ensures spec_fixture_imports(stmts, file, li).map_values(rec_core_fn()) =~= imports_core(stmts),
    decreases stmts.len(),
{
    if stmts.len() > 0 {
        lemma_imports_core(stmts.drop_last(), file, li);
        let r = spec_fixture_imports(stmts.drop_last(), file, li);
        match import_rec_of(stmts.last(), file, li) {
            Some(v) => { assert(r.push(v).map_values(rec_core_fn()) =~= r.map_values(rec_core_fn()).push(v.imp)); }
            None => {}
        }
    }
}

// ---- pytest_plugins -------------------------------------------------------------------------------------------
//@tags C14 C01
/// LAST assignment wins: if statement k assigns `pytest_plugins = v` and no later top-level statement assigns it,
/// the plugin list is exactly what v denotes -- earlier assignments contribute nothing
pub proof fn lemma_C14_last_plugins_assignment_wins(stmts: Seq<rustpython_parser::ast::Stmt>, k: int, v: rustpython_parser::ast::Expr)
    requires 0 <= k < stmts.len(), plugins_value(stmts[k]) == Some(v),
        forall|j: int| k < j < stmts.len() ==> plugins_value(#[trigger] stmts[j]) is None,
    ensures spec_pytest_plugins(stmts) == plugins_of_value(v),
    decreases stmts.len(),
{
    if k < stmts.len() - 1 {
        assert(stmts.last() == stmts[stmts.len() - 1]);
        assert(stmts.drop_last()[k] == stmts[k]);
        assert forall|j: int| k < j < stmts.drop_last().len() implies plugins_value(#[trigger] stmts.drop_last()[j]) is None by {
            assert(stmts.drop_last()[j] == stmts[j]);
        }
        lemma_C14_last_plugins_assignment_wins(stmts.drop_last(), k, v);
    }
}
//@tags C14 C01
/// no assignment to `pytest_plugins` at top level: no plugins
pub proof fn lemma_C14_no_plugins_assignment(stmts: Seq<rustpython_parser::ast::Stmt>)
    requires forall|j: int| 0 <= j < stmts.len() ==> plugins_value(#[trigger] stmts[j]) is None,
    ensures spec_pytest_plugins(stmts).len() == 0,
    decreases stmts.len(),
{
    if stmts.len() > 0 {
        assert(stmts.last() == stmts[stmts.len() - 1]);
        assert forall|j: int| 0 <= j < stmts.drop_last().len() implies plugins_value(#[trigger] stmts.drop_last()[j]) is None by {
            assert(stmts.drop_last()[j] == stmts[j]);
        }
        lemma_C14_no_plugins_assignment(stmts.drop_last());
    }
}
//@tags C14 C01
/// a later assignment of a dynamic value (not a string / list / tuple) CLEARS the list; a bare annotation
/// `pytest_plugins: list[str]` (no value) does not count as an assignment
pub proof fn lemma_C14_dynamic_value_clears(stmts: Seq<rustpython_parser::ast::Stmt>, v: rustpython_parser::ast::Expr)
    requires stmts.len() > 0, plugins_value(stmts.last()) == Some(v),
        !(v is Constant) && !(v is List) && !(v is Tuple),
    ensures spec_pytest_plugins(stmts).len() == 0,
{ }

// ---- canaries (must FAIL) -------------------------------------------------------------------------------------
/// "the stdlib filter looks at the bare module name": `from .http import *` would be dropped
pub proof fn canary_stdlib_filter_on_bare_module_name(x: rustpython_parser::ast::StmtImportFrom, l: rustpython_parser::ast::Int, m: rustpython_parser::ast::Identifier)
    requires x.level == Some(l), int_v(l) > 0, x.module == Some(m), is_stdlib_name(first_component(idv(&m))),
    ensures import_core_of(rustpython_parser::ast::Stmt::ImportFrom(x)) is None,
{
    lemma_C14_relative_filter_ignores_module_name(x, l);
}
/// "the FIRST pytest_plugins assignment wins"
pub proof fn canary_first_plugins_assignment_wins(stmts: Seq<rustpython_parser::ast::Stmt>, v: rustpython_parser::ast::Expr)
    requires stmts.len() == 2, plugins_value(stmts[0]) == Some(v), plugins_value(stmts[1]) is Some,
    ensures spec_pytest_plugins(stmts) == plugins_of_value(v),
{
    assert(stmts.last() == stmts[1]);
    assert(stmts.drop_last().last() == stmts[0]);
}
/// "a star import also records the alias names"
pub proof fn canary_star_import_records_names(x: rustpython_parser::ast::StmtImportFrom)
    requires import_core_of(rustpython_parser::ast::Stmt::ImportFrom(x)) is Some, has_star(x.names@),
    ensures import_core_of(rustpython_parser::ast::Stmt::ImportFrom(x))->0.names == x.names@.map_values(imported_as_fn()),
{ }
/// vacuity guard for the assumed string facts (prelude/str_dotted.rs) and the AST accessors
pub proof fn canary_false_from_import_assumptions(s: Seq<char>, c: char)
    ensures false,
{
    broadcast use axiom_split_first;
    lemma_dot_lit();
    let p = split_v(s, c);
    let q = split_v(dotted(1, s), '.');
    assert(q[0] == prefix_before(dotted(1, s), '.'));
    lemma_dotted_first_component_empty(1, s);
}
