// ---------------------------------------------------------------------------------------------
// Unit history: the vocabulary of prelude/analyze_l2.rs that the history lemmas use -- in_file, named, all_in_file,
// uses_in_file, w1 and three small lemmas -- as VERBATIM COPIES (text-identical definitions; units are verified as separate
// crates, so "the same definition" is textual in any case).  The file analyze_l2.rs itself is NOT included here: its
// lemma_push_defs_bucket, re-verified in this unit's larger context, intermittently ran into the resource limit
// (3 of 10 runs, 9-13 minutes each); it is verified where it belongs (units analyze, handlers_main).

pub open spec fn in_file(f: PV) -> spec_fn(DefV) -> bool { |d: DefV| d.file == f }
pub open spec fn named(n: Seq<char>) -> spec_fn(DefV) -> bool { |d: DefV| d.name == n }
pub open spec fn all_in_file(ds: Seq<DefV>, f: PV) -> bool { forall|i: int| 0 <= i < ds.len() ==> (#[trigger] ds[i]).file == f }
pub open spec fn uses_in_file(us: Seq<UseV>, f: PV) -> bool { forall|i: int| 0 <= i < us.len() ==> (#[trigger] us[i]).file == f }
/// W1: the reverse index file_definitions covers every definition
pub open spec fn w1(defs: Map<Seq<char>, Seq<DefV>>, fdefs: Map<PV, Set<Seq<char>>>) -> bool {
    forall|n: Seq<char>, i: int| defs.contains_key(n) && 0 <= i < defs[n].len() ==>
        fdefs.contains_key((#[trigger] defs[n][i]).file) && fdefs[defs[n][i].file].contains(n)
}

pub proof fn lemma_filter_push<A>(s: Seq<A>, x: A, p: spec_fn(A) -> bool)
    ensures s.push(x).filter(p) == (if p(x) { s.filter(p).push(x) } else { s.filter(p) })
{
    reveal(Seq::filter);
    assert(s.push(x).drop_last() =~= s);
}
pub proof fn lemma_filter_idem<A>(b: Seq<A>, p: spec_fn(A) -> bool)
    ensures b.filter(p).filter(p) == b.filter(p)
    decreases b.len()
{
    reveal(Seq::filter);
    if b.len() > 0 {
        lemma_filter_idem(b.drop_last(), p);
        if p(b.last()) { lemma_filter_push(b.drop_last().filter(p), b.last(), p); }
    }
}
/// usages: the bucket of another file is untouched; the bucket of f is exactly the recorded usages
pub proof fn lemma_push_uses_bucket(uses: Map<PV, Seq<UseV>>, us: Seq<UseV>, f: PV, g: PV)
    requires uses_in_file(us, f)
    ensures
        g != f ==> bucket(push_uses(uses, us), g) == bucket(uses, g) && (push_uses(uses, us).contains_key(g) == uses.contains_key(g)),
        bucket(push_uses(uses, us), f) == bucket(uses, f) + us,
    decreases us.len()
{
    if us.len() == 0 { assert(bucket(uses, f) + us =~= bucket(uses, f)); }
    else {
        let t = us.drop_last();
        assert(uses_in_file(t, f)) by { assert forall|i: int| 0 <= i < t.len() implies (#[trigger] t[i]).file == f by { assert(t[i] == us[i]); } }
        lemma_push_uses_bucket(uses, t, f, g);
        assert(us.last().file == f);
        assert((bucket(uses, f) + t).push(us.last()) =~= bucket(uses, f) + us);
    }
}
