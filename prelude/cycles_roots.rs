// ---- DFS roots of compute_fixture_cycles (after the repair of F-16c): `dep_graph.keys().collect()` followed by
// `roots.sort()`.  Assumed (same status as K1 of prelude/cycles_std.rs): sorting a Vec<&String> leaves, as sequence
// of contents, `sorted_names` of the MULTISET of the contents (`&String: Ord` compares the contents).
pub open spec fn strs_r(s: Seq<&String>) -> Seq<Seq<char>> { Seq::new(s.len(), |i: int| s[i]@) }
pub trait VpRefStringVecExt {
    fn vp_sort(&mut self);
}
impl<'a> VpRefStringVecExt for Vec<&'a String> {
    #[verifier::external_body]
    fn vp_sort(&mut self)
        ensures strs_r(final(self)@) == sorted_names(strs_r(old(self)@).to_multiset()), final(self)@.len() == old(self)@.len(),
    { self.sort() }
}
/// the names a hash map enumerates, in whatever order: duplicate free, exactly the key set
pub open spec fn enumerates(e: Seq<Seq<char>>, dom: Set<Seq<char>>) -> bool {
    e.no_duplicates() && (forall|x: Seq<char>| e.contains(x) <==> dom.contains(x))
}
/// an element of a duplicate-free sequence occurs once in its multiset, any other value not at all
pub proof fn lemma_nodup_count(s: Seq<Seq<char>>)
    requires s.no_duplicates(),
    ensures forall|x: Seq<char>| s.to_multiset().count(x) == (if s.contains(x) { 1nat } else { 0nat }),
    decreases s.len(),
{
    broadcast use vstd::seq_lib::group_to_multiset_ensures;
    if s.len() == 0 {
        assert forall|x: Seq<char>| s.to_multiset().count(x) == 0 by { assert(!s.contains(x)); }
    } else {
        let t = s.drop_last();
        let l = s.last();
        assert(t.no_duplicates());
        lemma_nodup_count(t);
        assert(s =~= t.push(l));
        assert(s.to_multiset() =~= t.to_multiset().insert(l));
        assert(!t.contains(l)) by {
            if t.contains(l) { let i = choose|i: int| 0 <= i < t.len() && t[i] == l; assert(s[i] == s[s.len() - 1]); }
        }
        assert forall|x: Seq<char>| s.to_multiset().count(x) == (if s.contains(x) { 1nat } else { 0nat }) by {
            if x == l { assert(s[s.len() - 1] == l); assert(s.contains(x)); }
            else if t.contains(x) { let i = choose|i: int| 0 <= i < t.len() && t[i] == x; assert(s[i] == x); assert(s.contains(x)); }
            else { if s.contains(x) { let i = choose|i: int| 0 <= i < s.len() && s[i] == x; assert(i < t.len()); assert(t[i] == x); assert(false); } }
        }
    }
}
/// two enumerations of one key set are the same multiset
pub proof fn lemma_enumerations_same_multiset(e1: Seq<Seq<char>>, e2: Seq<Seq<char>>, dom: Set<Seq<char>>)
    requires enumerates(e1, dom), enumerates(e2, dom),
    ensures e1.to_multiset() == e2.to_multiset(),
{
    lemma_nodup_count(e1); lemma_nodup_count(e2);
    assert forall|x: Seq<char>| e1.to_multiset().count(x) == e2.to_multiset().count(x) by {
        assert(e1.contains(x) == dom.contains(x)); assert(e2.contains(x) == dom.contains(x));
    }
    assert(e1.to_multiset() =~= e2.to_multiset());
}
/// what the DFS starts from: the key set of the adjacency table in name order
pub open spec fn roots_of(dom: Set<Seq<char>>, e: Seq<Seq<char>>) -> Seq<Seq<char>> { sorted_names(e.to_multiset()) }
