// ---------------------------------------------------------------------------------------------
// derive(PartialOrd) on FixtureScope (assumption A5, discharged exhaustively by the Kani harness
// scope_order_complete over all 25 pairs of the real enum)
impl vstd::std_specs::cmp::PartialOrdSpecImpl for FixtureScope {
    open spec fn obeys_partial_cmp_spec() -> bool { true }
    open spec fn partial_cmp_spec(&self, other: &FixtureScope) -> Option<core::cmp::Ordering> {
        if rank(*self) < rank(*other) { Some(core::cmp::Ordering::Less) }
        else if rank(*self) == rank(*other) { Some(core::cmp::Ordering::Equal) }
        else { Some(core::cmp::Ordering::Greater) }
    }
}
