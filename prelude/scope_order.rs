// ---------------------------------------------------------------------------------------------
// `#[derive(PartialOrd)]` on FixtureScope (trusted base A5): the derived comparison orders the variants
// by declaration order = `rank`.  This is the meaning Verus gives `a < b`, `a <= b`, ... on the real enum
// (vstd's spec trait, implemented here because the type is local to the generated crate).  Discharged
// separately by the exhaustive Kani harness over all 25 pairs of the real enum.
impl vstd::std_specs::cmp::PartialOrdSpecImpl for FixtureScope {
    open spec fn obeys_partial_cmp_spec() -> bool { true }
    open spec fn partial_cmp_spec(&self, other: &FixtureScope) -> Option<core::cmp::Ordering> {
        if rank(*self) < rank(*other) { Some(core::cmp::Ordering::Less) }
        else if rank(*self) == rank(*other) { Some(core::cmp::Ordering::Equal) }
        else { Some(core::cmp::Ordering::Greater) }
    }
}
