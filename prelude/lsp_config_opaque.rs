// ---------------------------------------------------------------------------------------------
// Stand-in for src/config/mod.rs `Config` in handler units that never read the configuration (the Backend struct of
// prelude/lsp_backend.rs has a `config` field): opaque.
#[verifier::external_body]
pub struct Config { _p: () }
