// ---------------------------------------------------------------------------------------------
// The server state as the NOTIFICATION handlers of src/main.rs (didOpen / didChange / didClose) see it: the variant of
// prelude/lsp_backend.rs for handlers that WRITE.  Same conventions as everywhere in /verif for writes (T3/T6): the
// real code writes through `&self` (DashMap interior mutability behind Arc); here the Arc wrappers are stripped and
// the writing functions take `&mut self`, so that their effect is stated with old()/final().
//        fixture_db : Arc<FixtureDatabase>          -> FixtureDatabase   (Arc stripped; the unit's //@dbstruct_arc struct)
//        uri_cache  : Arc<DashMap<PathBuf, Uri>>    -> DashMap<PathBuf, Uri>  (prelude shim; didOpen inserts, didClose removes)
//        client     : tower_lsp_server::Client      -> opaque `Client`
//        workspace_root, original_workspace_root, scan_task, config   DROPPED (no notification handler touches them)
// Spliced at the top level of a unit, AFTER the FixtureDatabase struct and build/lspspec_main.rs.
// v3 (composition with unit uri_glue): uri_to_path / path_to_uri are `//@stub uri_glue ..` (the contracts PROVED there
// on the real bodies of src/providers/mod.rs); uri_path(u) := op_uri_to_path(u), path_uri(c, p) := op_path_to_uri(c.m(), p)
// (prelude/uri_spec.rs); the cache invariant cache_inv and the URI lemmas come from prelude/uri_l2.rs.
//@include prelude/fs_canonical_decl.rs
//@include prelude/memokeys_canon_spec.rs
//@include prelude/uri_abs_decl.rs
//@include prelude/uri_spec.rs
//@include prelude/uri_l2.rs
pub mod jsonrpc {
    use super::*;
    #[verifier::external_body]
    pub struct Error { _p: () }
    pub type Result<T> = core::result::Result<T, Error>;
}
/// tower_lsp_server::Client: opaque.  inlay_hint_refresh (a request to the editor) returns an unconstrained Result.
#[verifier::external_body]
pub struct Client { _p: () }
impl Client {
    #[verifier::external_body]
    pub fn inlay_hint_refresh(&self) -> (r: jsonrpc::Result<()>)
    { unimplemented!() }
}
pub struct Backend {
    pub client: Client,
    pub fixture_db: FixtureDatabase,
    pub uri_cache: UriCache,
}
/// the URI cache with the Arc stripped: the prelude DashMap shim, sequential view `.m()`: UriMap = Map<PV, Uri>
pub type UriCache = DashMap<PathBuf, Uri>;
/// the path a (file:) URI denotes, canonicalised, as Backend::uri_to_path computes it: DEFINED as the operational
/// specification proved for the real body in unit uri_glue
pub open spec fn uri_path(u: Uri) -> Option<PV> { op_uri_to_path(u) }
/// the URI the server answers with for a path, as Backend::path_to_uri computes it: DEFINED as the operational
/// specification proved for the real body in unit uri_glue, on the view of the cache
pub open spec fn path_uri(c: UriCache, p: PV) -> Option<Uri> { op_path_to_uri(c.m(), p) }
pub open spec fn opt_pbv(o: Option<PathBuf>) -> Option<PV> { match o { Some(p) => Some(pbv(&p)), None => None } }
pub assume_specification[ <Uri as Clone>::clone ](u: &Uri) -> (r: Uri)
    ensures r == *u;
// Backend::uri_to_path / Backend::path_to_uri: NOT defined here; the including unit carries IN ITS OWN TEMPLATE (./check
// computes the support-unit closure from the `//@stub` lines of the unit templates, not of the preludes)
//     impl Backend {
//     //@stub uri_glue uri_to_path
//     //@stub uri_glue path_to_uri
//     }
impl Backend {
    /// src/providers/diagnostics.rs publish_diagnostics_for_file: under contract in unit handlers_diag (what it hands
    /// to the client is expected_diags of the state it runs on).  Here it is only CALLED, through the T5b helper
    /// vp_publish_on whose precondition says on WHICH state: never seen by Verus.
    #[verifier::external]
    pub fn publish_diagnostics_for_file(&self, _uri: &Uri, _file_path: &std::path::Path) {}
}
