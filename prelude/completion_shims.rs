// ---------------------------------------------------------------------------------------------
// T5 wrappers / assumed std specifications needed by unit completion_ctx (trusted base A3).  Deliberately a file of
// its own (unit visit has an equivalent `vp_chain` in prelude/visit_shims.rs; to be merged).
/// `a.chain(b)` for slice iterators (`Iterator::chain` is a provided method and `Chain` has no Verus model): renamed
/// to `.cc_chain(`; the external body IS the call to the real method, driven to the end.
/// ASSUMED: the chained iterator yields a's remaining elements, then b's remaining elements, and nothing else.
pub trait CcChain<'a, T: 'a>: Sized {
    #[verifier::prophetic]
    spec fn cc_rem(self) -> Seq<&'a T>;
    fn cc_chain(self, o: core::slice::Iter<'a, T>) -> (r: std::vec::IntoIter<&'a T>)
        ensures r.obeys_prophetic_iter_laws(), r.decrease() is Some, r.remaining() == self.cc_rem() + o.remaining();
}
impl<'a, T: 'a> CcChain<'a, T> for core::slice::Iter<'a, T> {
    #[verifier::prophetic]
    open spec fn cc_rem(self) -> Seq<&'a T> { self.remaining() }
    #[verifier::external_body]
    fn cc_chain(self, o: core::slice::Iter<'a, T>) -> (r: std::vec::IntoIter<&'a T>)
    { self.chain(o).collect::<Vec<_>>().into_iter() }
}
impl<'a, T: 'a> CcChain<'a, T> for std::vec::IntoIter<&'a T> {
    #[verifier::prophetic]
    open spec fn cc_rem(self) -> Seq<&'a T> { self.remaining() }
    #[verifier::external_body]
    fn cc_chain(self, o: core::slice::Iter<'a, T>) -> (r: std::vec::IntoIter<&'a T>)
    { self.chain(o).collect::<Vec<_>>().into_iter() }
}

/// `slice.iter().rev().find_map(f)`: not used by /repo today; specified so that the variant of get_func_context in
/// which the LAST decorator's scope wins is DECIDED (refuted) instead of undecided.  Same assumed contract as
/// `VpSliceIterExt::vp_find_map` (prelude/iter_slice.rs), over the elements the reversed iterator still yields
/// (vstd: `it.rev().remaining() == it.remaining().reverse()`): f's result on the FIRST of them it maps to `Some`.
pub trait CcRevSliceIterExt<'a, T: 'a>: Sized + Iterator<Item = &'a T> {
    fn vp_find_map<B, F: FnMut(&'a T) -> Option<B>>(self, f: F) -> (r: Option<B>)
        requires forall|x: &'a T| #[trigger] call_requires(f, (x,));
}
impl<'a, T: 'a> CcRevSliceIterExt<'a, T> for core::iter::Rev<core::slice::Iter<'a, T>> {
    #[verifier::external_body]
    fn vp_find_map<B, F: FnMut(&'a T) -> Option<B>>(self, f: F) -> (r: Option<B>)
        ensures ({
            let s = self.remaining();
            match r {
                Some(b) => ({
                    let i = vp_hit(s, (), f, r);
                    0 <= i < s.len() && call_ensures(f, (s[i],), Some(b))
                    && (forall|j: int| 0 <= j < i ==> call_ensures(f, (#[trigger] s[j],), None::<B>))
                }),
                None => forall|j: int| 0 <= j < s.len() ==> call_ensures(f, (#[trigger] s[j],), None::<B>),
            }
        }),
    { let mut it = self; it.find_map(f) }
}

/// `slice.iter().any(f)` for an f that is only callable on the ELEMENTS (a closure that recurses into the element:
/// its precondition is `decreases_to!(parent => element)`; vstd's `any` asks for `call_requires` on every value of
/// the type).  Renamed to `.cc_any(`; the external body IS the call to the real method.
/// ASSUMED: true iff f returned true on some element; false iff f returned false on every element.
pub uninterp spec fn cc_any_hit<T, F>(s: Seq<T>, f: F) -> int;
pub trait CcSliceIterAny<'a, T: 'a>: Sized + Iterator<Item = &'a T> {
    fn cc_any<F: FnMut(&'a T) -> bool>(self, f: F) -> (r: bool)
        requires forall|j: int| 0 <= j < self.remaining().len() ==> call_requires(f, (#[trigger] self.remaining()[j],));
}
impl<'a, T: 'a> CcSliceIterAny<'a, T> for core::slice::Iter<'a, T> {
    #[verifier::external_body]
    fn cc_any<F: FnMut(&'a T) -> bool>(self, f: F) -> (r: bool)
        ensures ({
            let s = self.remaining();
            if r { let i = cc_any_hit(s, f); 0 <= i < s.len() && call_ensures(f, (s[i],), true) }
            else { forall|j: int| 0 <= j < s.len() ==> call_ensures(f, (#[trigger] s[j],), false) }
        }),
    { let mut it = self; it.any(f) }
}
