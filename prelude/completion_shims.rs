// ---------------------------------------------------------------------------------------------
// T5 wrappers / assumed std specifications needed by unit completion_ctx (trusted base A3).  Deliberately a file of
// its own (unit visit has an equivalent `vp_chain` in prelude/visit_shims.rs; to be merged).
/// `a.chain(b)` for slice iterators (`Iterator::chain` is a provided method and `Chain` has no Verus model): renamed
/// to `.cc_chain(`; the external body IS the call to the real method, driven to the end.
/// ASSUMED: the chained iterator yields a's remaining elements, then b's remaining elements, and nothing else.
pub trait CcChain<'a, T: 'a>: Sized {
    #[verifier::prophetic]
    spec fn cc_rem(self) -> Seq<&'a T>;
    fn cc_chain(self, o: core::slice::Iter<'a, T>) -> (r: std::vec::IntoIter<&'a T>)
        ensures r.obeys_prophetic_iter_laws(), r.decrease() is Some, r.remaining() == self.cc_rem() + o.remaining();
}
impl<'a, T: 'a> CcChain<'a, T> for core::slice::Iter<'a, T> {
    #[verifier::prophetic]
    open spec fn cc_rem(self) -> Seq<&'a T> { self.remaining() }
    #[verifier::external_body]
    fn cc_chain(self, o: core::slice::Iter<'a, T>) -> (r: std::vec::IntoIter<&'a T>)
    { self.chain(o).collect::<Vec<_>>().into_iter() }
}
impl<'a, T: 'a> CcChain<'a, T> for std::vec::IntoIter<&'a T> {
    #[verifier::prophetic]
    open spec fn cc_rem(self) -> Seq<&'a T> { self.remaining() }
    #[verifier::external_body]
    fn cc_chain(self, o: core::slice::Iter<'a, T>) -> (r: std::vec::IntoIter<&'a T>)
    { self.chain(o).collect::<Vec<_>>().into_iter() }
}
