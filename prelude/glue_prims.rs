// ---------------------------------------------------------------------------------------------
// Unit glue_small: ASSUMED contracts (trusted base A3 / A5 of the unit); each is written to be TRUE of the std function /
// the derive, nothing more.
//   G1  axiom_str_ext          a `str` value is determined by its characters: a@ == b@ ==> a == b.  Verus encodes
//                              `match s { "lit" => .. }` as `s == "lit"` on str VALUES while std compares contents; the
//                              encoding itself presupposes this extensionality            (= prelude/strstruct3_prims.rs P23)
//   G2  str::to_lowercase      r@ == lower_v(s@), lower_v uninterpreted; what it does to lowercase ASCII text is the explicit
//                              hypothesis lower_fixes(..) of the L2 lemma that needs it   (= strstruct3 P24)
//   G3  derive(PartialEq) on FixtureScope: `a == b` / `a != b` compare the variants      (vstd spec trait, like scope_order.rs)
//   G4  format!("({})", x)     "(" ++ x ++ ")"     (@wrapexpr helper in the unit: `format!` has no Verus model)
//   G5  <[String]>::join(" ")  join_v(views, " ") = the elements separated by the separator (@wrapexpr helper; = strstruct P12)
//   vstd (not assumed here): String::as_str, str::to_string, Vec::new / push.
pub uninterp spec fn lower_v(s: Seq<char>) -> Seq<char>;
pub assume_specification[ str::to_lowercase ](s: &str) -> (r: String)
    ensures r@ == lower_v(s@);
pub mod glue_ax {
    use super::*;
    pub broadcast axiom fn axiom_str_ext(a: &str, b: &str)
        ensures #[trigger] a@ == #[trigger] b@ ==> a == b;
}
pub use glue_ax::*;
impl vstd::std_specs::cmp::PartialEqSpecImpl for FixtureScope {
    open spec fn obeys_eq_spec() -> bool { true }
    open spec fn eq_spec(&self, other: &FixtureScope) -> bool { *self == *other }
}
pub open spec fn join_v(ss: Seq<Seq<char>>, sep: Seq<char>) -> Seq<char>
    decreases ss.len()
{
    if ss.len() == 0 { Seq::empty() } else if ss.len() == 1 { ss[0] } else { join_v(ss.drop_last(), sep) + sep + ss.last() }
}
