// ---------------------------------------------------------------------------------------------
// Unit cli_tree: PROVED lemmas used by the loop invariants of print_fixtures_tree (no assumption in this file).
// Needs clitree_list_spec.rs.

// ---- generic sequence facts --------------------------------------------------------------------------------------------
pub proof fn lemma_filter_take_step<A>(s: Seq<A>, j: int, p: spec_fn(A) -> bool)
    requires 0 <= j < s.len()
    ensures s.take(j + 1).filter(p) == (if p(s[j]) { s.take(j).filter(p).push(s[j]) } else { s.take(j).filter(p) })
{
    reveal(Seq::filter);
    assert(s.take(j + 1).drop_last() =~= s.take(j));
    assert(s.take(j + 1).last() == s[j]);
}
pub proof fn lemma_filter_sat<A>(s: Seq<A>, p: spec_fn(A) -> bool, i: int)
    requires 0 <= i < s.filter(p).len()
    ensures p(s.filter(p)[i]), s.contains(s.filter(p)[i])
    decreases s.len()
{
    reveal(Seq::filter);
    if s.len() > 0 {
        let t = s.drop_last();
        if i < t.filter(p).len() {
            lemma_filter_sat(t, p, i);
            let k = choose|k: int| 0 <= k < t.len() && t[k] == t.filter(p)[i];
            assert(s[k] == t[k]);
        } else {
            assert(s[s.len() - 1] == s.last());
        }
    }
}
/// a hash-table enumeration (pairwise different, inside, covering) is an enumeration of the set
pub proof fn lemma_is_enum<A>(ks: Seq<A>, d: Set<A>)
    requires
        forall|i: int| 0 <= i < ks.len() ==> d.contains(#[trigger] ks[i]),
        forall|i: int, j: int| 0 <= i < j < ks.len() ==> ks[i] != ks[j],
        forall|x: A| d.contains(x) ==> exists|i: int| 0 <= i < ks.len() && #[trigger] ks[i] == x,
    ensures is_enum_of(ks, d)
{
    assert forall|a: int, b: int| 0 <= a < ks.len() && 0 <= b < ks.len() && a != b implies ks[a] != ks[b] by {
        if a < b { assert(ks[a] != ks[b]); } else { assert(ks[b] != ks[a]); }
    }
}

/// the same, for the key references `HashMap::keys()` / `HashSet::iter()` hand out
pub proof fn lemma_keys_enum<'a>(rem: Seq<&'a (PathBuf, String)>, d: Set<CKey>)
    requires
        forall|i: int| 0 <= i < rem.len() ==> d.contains((#[trigger] rem[i]).kview()),
        forall|i: int, j: int| 0 <= i < j < rem.len() ==> rem[i].kview() != rem[j].kview(),
        forall|k: CKey| d.contains(k) ==> exists|i: int| 0 <= i < rem.len() && #[trigger] rem[i].kview() == k,
    ensures is_enum_of(kviews(rem), d)
{
    let ks = kviews(rem);
    assert forall|i: int| 0 <= i < ks.len() implies d.contains(#[trigger] ks[i]) by { assert(d.contains(rem[i].kview())); }
    assert forall|i: int, j: int| 0 <= i < j < ks.len() implies ks[i] != ks[j] by { assert(rem[i].kview() != rem[j].kview()); }
    assert forall|x: CKey| d.contains(x) implies exists|i: int| 0 <= i < ks.len() && #[trigger] ks[i] == x by {
        let i = choose|i: int| 0 <= i < rem.len() && #[trigger] rem[i].kview() == x;
        assert(ks[i] == x);
    }
    lemma_is_enum(ks, d);
}

// ---- phases A / C ------------------------------------------------------------------------------------------------------
pub proof fn lemma_ff_step(ff: FFV, ff2: FFV, defs: Map<Seq<char>, Seq<DefV>>, done: Set<Seq<char>>, nm: Seq<char>, j: int)
    requires ff_inv(ff, defs, done, nm, j), !done.contains(nm), 0 <= j < bucket(defs, nm).len(),
        ff2 == ff.insert(bucket(defs, nm)[j].file, sbucket(ff, bucket(defs, nm)[j].file).insert(nm)),
    ensures ff_inv(ff2, defs, done, nm, j + 1)
{
    let f0 = bucket(defs, nm)[j].file;
    assert forall|f: PV, n: Seq<char>| #[trigger] in_ff(ff2, f, n)
            <==> ((done.contains(n) && has_def_in(defs, (f, n))) || (n == nm && has_def_upto(defs, (f, nm), j + 1))) by {
        assert(in_ff(ff, f, n) <==> ((done.contains(n) && has_def_in(defs, (f, n))) || (n == nm && has_def_upto(defs, (f, nm), j))));
        if n == nm {
            if has_def_upto(defs, (f, nm), j + 1) {
                let i = choose|i: int| 0 <= i < j + 1 && i < bucket(defs, nm).len() && (#[trigger] bucket(defs, nm)[i]).file == f;
                if i < j { assert(has_def_upto(defs, (f, nm), j)); }
            }
            if has_def_upto(defs, (f, nm), j) {
                let i = choose|i: int| 0 <= i < j && i < bucket(defs, nm).len() && (#[trigger] bucket(defs, nm)[i]).file == f;
                assert(has_def_upto(defs, (f, nm), j + 1));
            }
            if f == f0 { assert(bucket(defs, nm)[j].file == f); assert(has_def_upto(defs, (f, nm), j + 1)); }
        }
    }
    assert forall|f: PV| #[trigger] ff2.contains_key(f) implies exists|n: Seq<char>| ff2[f].contains(n) by {
        if f == f0 { assert(ff2[f].contains(nm)); } else { assert(ff.contains_key(f)); let n = choose|n: Seq<char>| ff[f].contains(n); assert(ff2[f].contains(n)); }
    }
}
pub proof fn lemma_ff_end(ff: FFV, defs: Map<Seq<char>, Seq<DefV>>, done: Set<Seq<char>>, nm: Seq<char>, x: Seq<char>)
    requires ff_inv(ff, defs, done, nm, bucket(defs, nm).len() as int), !done.contains(nm),
    ensures ff_inv(ff, defs, done.insert(nm), x, 0)
{
    assert forall|f: PV, n: Seq<char>| #[trigger] in_ff(ff, f, n)
            <==> ((done.insert(nm).contains(n) && has_def_in(defs, (f, n))) || (n == x && has_def_upto(defs, (f, x), 0))) by {
        assert(in_ff(ff, f, n) <==> ((done.contains(n) && has_def_in(defs, (f, n))) || (n == nm && has_def_upto(defs, (f, nm), bucket(defs, nm).len() as int))));
        if n == nm {
            if has_def_in(defs, (f, n)) {
                let i = choose|i: int| 0 <= i < bucket(defs, nm).len() && (#[trigger] bucket(defs, nm)[i]).file == f;
                assert(has_def_upto(defs, (f, nm), bucket(defs, nm).len() as int));
            }
            if has_def_upto(defs, (f, nm), bucket(defs, nm).len() as int) {
                let i = choose|i: int| 0 <= i < bucket(defs, nm).len() && i < bucket(defs, nm).len() && (#[trigger] bucket(defs, nm)[i]).file == f;
                assert(has_def_in(defs, (f, nm)));
            }
        }
    }
}
pub proof fn lemma_ff_change(ff: FFV, defs: Map<Seq<char>, Seq<DefV>>, done: Set<Seq<char>>, x: Seq<char>, y: Seq<char>)
    requires ff_inv(ff, defs, done, x, 0)
    ensures ff_inv(ff, defs, done, y, 0)
{
    assert forall|f: PV, n: Seq<char>| #[trigger] in_ff(ff, f, n)
            <==> ((done.contains(n) && has_def_in(defs, (f, n))) || (n == y && has_def_upto(defs, (f, y), 0))) by {
        assert(in_ff(ff, f, n) <==> ((done.contains(n) && has_def_in(defs, (f, n))) || (n == x && has_def_upto(defs, (f, x), 0))));
    }
}
pub proof fn lemma_ff_final(ff: FFV, defs: Map<Seq<char>, Seq<DefV>>, done: Set<Seq<char>>, x: Seq<char>)
    requires ff_inv(ff, defs, done, x, 0), forall|n: Seq<char>| defs.contains_key(n) ==> done.contains(n),
    ensures is_ff0(ff, defs)
{
    assert forall|f: PV, n: Seq<char>| #![trigger in_ff(ff, f, n)] #![trigger has_def_in(defs, (f, n))] in_ff(ff, f, n) <==> has_def_in(defs, (f, n)) by {
        assert(in_ff(ff, f, n) <==> ((done.contains(n) && has_def_in(defs, (f, n))) || (n == x && has_def_upto(defs, (f, x), 0))));
        if has_def_in(defs, (f, n)) {
            let i = choose|i: int| 0 <= i < bucket(defs, n).len() && (#[trigger] bucket(defs, n)[i]).file == f;
            assert(defs.contains_key(n));
        }
    }
}
pub proof fn lemma_au_step(au: Set<CKey>, au2: Set<CKey>, defs: Map<Seq<char>, Seq<DefV>>, done: Set<Seq<char>>, nm: Seq<char>, j: int)
    requires au_inv(au, defs, done, nm, j), !done.contains(nm), 0 <= j < bucket(defs, nm).len(),
        au2 == (if bucket(defs, nm)[j].autouse { au.insert((bucket(defs, nm)[j].file, nm)) } else { au }),
    ensures au_inv(au2, defs, done, nm, j + 1)
{
    let d = bucket(defs, nm)[j];
    assert forall|k: CKey| #[trigger] au2.contains(k) <==> ((done.contains(k.1) && au_def_in(defs, k)) || (k.1 == nm && au_def_upto(defs, k, j + 1))) by {
        assert(au.contains(k) <==> ((done.contains(k.1) && au_def_in(defs, k)) || (k.1 == nm && au_def_upto(defs, k, j))));
        if k.1 == nm {
            if au_def_upto(defs, k, j + 1) {
                let i = choose|i: int| 0 <= i < j + 1 && i < bucket(defs, k.1).len() && (#[trigger] bucket(defs, k.1)[i]).file == k.0 && bucket(defs, k.1)[i].autouse;
                if i < j { assert(au_def_upto(defs, k, j)); }
            }
            if au_def_upto(defs, k, j) {
                let i = choose|i: int| 0 <= i < j && i < bucket(defs, k.1).len() && (#[trigger] bucket(defs, k.1)[i]).file == k.0 && bucket(defs, k.1)[i].autouse;
                assert(au_def_upto(defs, k, j + 1));
            }
            if d.autouse && k == (d.file, nm) { assert(bucket(defs, k.1)[j].file == k.0); assert(au_def_upto(defs, k, j + 1)); }
        }
    }
}
pub proof fn lemma_au_end(au: Set<CKey>, defs: Map<Seq<char>, Seq<DefV>>, done: Set<Seq<char>>, nm: Seq<char>, x: Seq<char>)
    requires au_inv(au, defs, done, nm, bucket(defs, nm).len() as int), !done.contains(nm),
    ensures au_inv(au, defs, done.insert(nm), x, 0)
{
    assert forall|k: CKey| #[trigger] au.contains(k) <==> ((done.insert(nm).contains(k.1) && au_def_in(defs, k)) || (k.1 == x && au_def_upto(defs, k, 0))) by {
        assert(au.contains(k) <==> ((done.contains(k.1) && au_def_in(defs, k)) || (k.1 == nm && au_def_upto(defs, k, bucket(defs, nm).len() as int))));
    }
}
pub proof fn lemma_au_change(au: Set<CKey>, defs: Map<Seq<char>, Seq<DefV>>, done: Set<Seq<char>>, x: Seq<char>, y: Seq<char>)
    requires au_inv(au, defs, done, x, 0)
    ensures au_inv(au, defs, done, y, 0)
{
    assert forall|k: CKey| #[trigger] au.contains(k) <==> ((done.contains(k.1) && au_def_in(defs, k)) || (k.1 == y && au_def_upto(defs, k, 0))) by {
        assert(au.contains(k) <==> ((done.contains(k.1) && au_def_in(defs, k)) || (k.1 == x && au_def_upto(defs, k, 0))));
    }
}
pub proof fn lemma_au_final(au: Set<CKey>, defs: Map<Seq<char>, Seq<DefV>>, done: Set<Seq<char>>, x: Seq<char>)
    requires au_inv(au, defs, done, x, 0), forall|n: Seq<char>| defs.contains_key(n) ==> done.contains(n),
    ensures is_au0(au, defs)
{
    assert forall|k: CKey| #[trigger] au.contains(k) <==> au_def_in(defs, k) by {
        assert(au.contains(k) <==> ((done.contains(k.1) && au_def_in(defs, k)) || (k.1 == x && au_def_upto(defs, k, 0))));
        if au_def_in(defs, k) {
            let i = choose|i: int| 0 <= i < bucket(defs, k.1).len() && i < bucket(defs, k.1).len() && (#[trigger] bucket(defs, k.1)[i]).file == k.0 && bucket(defs, k.1)[i].autouse;
            assert(defs.contains_key(k.1));
        }
    }
}

// ---- phase F -----------------------------------------------------------------------------------------------------------
/// moves_of looks at the first n orders only
pub proof fn lemma_moves_of_push(rv: Seq<(PV, PV)>, kss: Seq<Seq<CKey>>, x: Seq<CKey>, n: int)
    requires n <= kss.len()
    ensures moves_of(rv, kss.push(x), n) == moves_of(rv, kss, n)
    decreases n
{
    if n > 0 { lemma_moves_of_push(rv, kss, x, n - 1); assert(kss.push(x)[n - 1] == kss[n - 1]); }
}

// ---- phase H -----------------------------------------------------------------------------------------------------------
/// every child list of tree_upto(ps, root, n) holds elements of ps[..n] whose parent is the key, in the order of ps
pub open spec fn tree_ok(t: TreeV, ps: Seq<PV>, n: int) -> bool {
    &&& forall|q: PV, j: int| #![trigger t[q][j]] t.contains_key(q) && 0 <= j < t[q].len() ==>
            t[q][j].len() > 0 && t[q][j].drop_last() == q && (exists|k: int| 0 <= k < n && #[trigger] ps[k] == t[q][j])
    &&& forall|q: PV, a: int, b: int| #![trigger t[q][a], t[q][b]] t.contains_key(q) && 0 <= a < b < t[q].len() ==> path_ord(t[q][a], t[q][b]) is Less
}
pub proof fn lemma_tree_upto_ok(ps: Seq<PV>, root: PV, n: int)
    requires 0 <= n <= ps.len(), forall|i: int, j: int| 0 <= i < j < ps.len() ==> path_ord(#[trigger] ps[i], #[trigger] ps[j]) is Less,
    ensures tree_ok(tree_upto(ps, root, n), ps, n)
    decreases n
{
    if n > 0 {
        lemma_tree_upto_ok(ps, root, n - 1);
        let t0 = tree_upto(ps, root, n - 1);
        let t = tree_upto(ps, root, n);
        let c = ps[n - 1];
        if goes(c, root) {
            let q0 = c.drop_last();
            assert forall|q: PV, j: int| #![trigger t[q][j]] t.contains_key(q) && 0 <= j < t[q].len() implies
                    t[q][j].len() > 0 && t[q][j].drop_last() == q && (exists|k: int| 0 <= k < n && #[trigger] ps[k] == t[q][j]) by {
                if q == q0 && j == t[q].len() - 1 { assert(ps[n - 1] == t[q][j]); }
                else {
                    assert(t0.contains_key(q) && t0[q][j] == t[q][j]);
                    let k = choose|k: int| 0 <= k < n - 1 && #[trigger] ps[k] == t0[q][j];
                    assert(ps[k] == t[q][j]);
                }
            }
            assert forall|q: PV, a: int, b: int| #![trigger t[q][a], t[q][b]] t.contains_key(q) && 0 <= a < b < t[q].len() implies path_ord(t[q][a], t[q][b]) is Less by {
                if q == q0 && b == t[q].len() - 1 {
                    assert(t0.contains_key(q) && t0[q][a] == t[q][a]);
                    let k = choose|k: int| 0 <= k < n - 1 && #[trigger] ps[k] == t0[q][a];
                    assert(path_ord(ps[k], ps[n - 1]) is Less);
                } else {
                    assert(t0.contains_key(q) && t0[q][a] == t[q][a] && t0[q][b] == t[q][b]);
                }
            }
        } else {
            assert forall|q: PV, j: int| #![trigger t[q][j]] t.contains_key(q) && 0 <= j < t[q].len() implies
                    t[q][j].len() > 0 && t[q][j].drop_last() == q && (exists|k: int| 0 <= k < n && #[trigger] ps[k] == t[q][j]) by {
                let k = choose|k: int| 0 <= k < n - 1 && #[trigger] ps[k] == t0[q][j];
                assert(ps[k] == t[q][j]);
            }
        }
    }
}
pub proof fn lemma_tree_ok_wf(t: TreeV, ps: Seq<PV>, n: int)
    requires tree_ok(t, ps, n)
    ensures tree_wf(t)
{
    assert forall|p: PV, j: int| t.contains_key(p) && 0 <= j < t[p].len() implies (#[trigger] t[p][j]).len() == p.len() + 1 by {
        assert(t[p][j].drop_last() == p);
    }
}
pub open spec fn asc_le(s: Seq<PV>) -> bool { forall|i: int, j: int| 0 <= i < j < s.len() ==> !(path_ord(#[trigger] s[i], #[trigger] s[j]) is Greater) }
pub open spec fn asc_lt(s: Seq<PV>) -> bool { forall|i: int, j: int| 0 <= i < j < s.len() ==> path_ord(#[trigger] s[i], #[trigger] s[j]) is Less }
/// a strictly ascending sequence is left unchanged by sorting: any ordered permutation of it is the sequence itself
pub open spec fn path_le() -> spec_fn(PV, PV) -> bool { |a: PV, b: PV| !(path_ord(a, b) is Greater) }
pub proof fn lemma_path_le_total()
    ensures vstd::relations::total_ordering(path_le())
{
    axiom_path_ord_total();
    let le = path_le(); let po = path_ord_fn();
    assert forall|a: PV| #[trigger] le(a, a) by { assert(po(a, a) is Equal); }
    assert forall|a: PV, b: PV| #[trigger] le(a, b) || #[trigger] le(b, a) by {
        assert((po(a, b) is Less) <==> (po(b, a) is Greater));
        assert((po(b, a) is Less) <==> (po(a, b) is Greater));
    }
    assert forall|a: PV, b: PV| #[trigger] le(a, b) && #[trigger] le(b, a) implies a == b by {
        assert((po(a, b) is Less) <==> (po(b, a) is Greater));
        assert((po(b, a) is Less) <==> (po(a, b) is Greater));
        assert((po(a, b) is Equal) <==> a == b);
    }
    assert forall|a: PV, b: PV, c: PV| #[trigger] le(a, b) && #[trigger] le(b, c) implies le(a, c) by {
        assert(!(po(a, b) is Greater) && !(po(b, c) is Greater));
        assert(!(po(a, c) is Greater));
    }
}
pub proof fn lemma_sorted_perm_same(a: Seq<PV>, b: Seq<PV>)
    requires a.to_multiset() == b.to_multiset(),
        forall|i: int, j: int| 0 <= i < j < a.len() ==> !(path_ord(#[trigger] a[i], #[trigger] a[j]) is Greater),
        forall|i: int, j: int| 0 <= i < j < b.len() ==> !(path_ord(#[trigger] b[i], #[trigger] b[j]) is Greater),
    ensures a == b
{
    lemma_path_le_total();
    assert(vstd::relations::sorted_by(a, path_le())) by {
        assert forall|i: int, j: int| 0 <= i < j < a.len() implies #[trigger] path_le()(a[i], a[j]) by { assert(!(path_ord(a[i], a[j]) is Greater)); }
    }
    assert(vstd::relations::sorted_by(b, path_le())) by {
        assert forall|i: int, j: int| 0 <= i < j < b.len() implies #[trigger] path_le()(b[i], b[j]) by { assert(!(path_ord(b[i], b[j]) is Greater)); }
    }
    vstd::seq_lib::lemma_sorted_unique(a, b, path_le());
}
/// the filter of an ascending sequence is ascending
pub proof fn lemma_filter_ascending(s: Seq<PV>, p: spec_fn(PV) -> bool)
    requires forall|i: int, j: int| 0 <= i < j < s.len() ==> path_ord(#[trigger] s[i], #[trigger] s[j]) is Less,
    ensures forall|i: int, j: int| 0 <= i < j < s.filter(p).len() ==> path_ord(#[trigger] s.filter(p)[i], #[trigger] s.filter(p)[j]) is Less,
    decreases s.len()
{
    reveal(Seq::filter);
    if s.len() > 0 {
        let t = s.drop_last();
        assert forall|i: int, j: int| 0 <= i < j < t.len() implies path_ord(#[trigger] t[i], #[trigger] t[j]) is Less by { assert(t[i] == s[i] && t[j] == s[j]); }
        lemma_filter_ascending(t, p);
        let f = s.filter(p);
        assert forall|i: int, j: int| 0 <= i < j < f.len() implies path_ord(#[trigger] f[i], #[trigger] f[j]) is Less by {
            if j < t.filter(p).len() { } else {
                lemma_filter_sat(t, p, i);
                let k = choose|k: int| 0 <= k < t.len() && t[k] == t.filter(p)[i];
                assert(path_ord(s[k], s[s.len() - 1]) is Less);
            }
        }
    }
}

// ---- the postcondition of print_fixtures_tree from the values the run computed ------------------------------------------
pub proof fn lemma_list_assemble(o0: Seq<Ev>, o_new: Seq<Ev>, li0: ListIn, defs: Map<Seq<char>, Seq<DefV>>, uses: Map<PV, Seq<UseV>>,
        provf: spec_fn(Seq<char>) -> spec_fn(PV) -> bool, kss: Seq<Seq<CKey>>, akss: Seq<Seq<CKey>>)
    requires
        is_ff0(li0.ff0, defs), counts_post(li0.cm0, defs, uses, provf), is_au0(li0.au0, defs),
        valid_orders(kss, li0.cm0.dom(), op_rv(li0).len() as int), valid_orders(akss, li0.au0, op_rv(li0).len() as int),
        o_new == o0 + op_list_out(li0, op_cm(li0, kss), op_au(li0, akss)),
    ensures
        forall|li: ListIn| list_inputs(li, defs, uses, provf, li0.insts, li0.ws, li0.root, li0.skip, li0.only) ==> #[trigger] list_post(o0, o_new, li)
{
    assert forall|li: ListIn| list_inputs(li, defs, uses, provf, li0.insts, li0.ws, li0.root, li0.skip, li0.only) implies #[trigger] list_post(o0, o_new, li) by {
        lemma_ff0_unique(li.ff0, li0.ff0, defs);
        lemma_au0_unique(li.au0, li0.au0, defs);
        lemma_C20_c_counts_function(li.cm0, li0.cm0, defs, uses, provf);
        assert(li.ff0 == li0.ff0 && li.cm0 == li0.cm0 && li.au0 == li0.au0);
        assert(li == li0);
        assert(o_new == o0 + op_list_out(li, op_cm(li, kss), op_au(li, akss)));
    }
}
