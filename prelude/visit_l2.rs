// ---------------------------------------------------------------------------------------------
// L2 for C03 / C06 / C15 over the operational specification of the visitors (prelude/visit_spec.rs): pure lemmas.

// ---- C06 (axiom A7' of prelude/analyze_l2.rs, now PROVED): everything recorded for a statement of file f is
// filed under f -- the hypotheses all_in_file / uses_in_file of lemma_C06_a_* hold for visit_defs / visit_uses
pub proof fn lemma_uses_concat_file(a: Seq<UseV>, b: Seq<UseV>, f: PV)
    requires forall|i: int| 0 <= i < a.len() ==> (#[trigger] a[i]).file == f, forall|i: int| 0 <= i < b.len() ==> (#[trigger] b[i]).file == f,
    ensures forall|i: int| 0 <= i < (a + b).len() ==> (#[trigger] (a + b)[i]).file == f,
{
    assert forall|i: int| 0 <= i < (a + b).len() implies (#[trigger] (a + b)[i]).file == f by {
        if i < a.len() { assert((a + b)[i] == a[i]); } else { assert((a + b)[i] == b[i - a.len()]); }
    }
}
pub proof fn lemma_defs_concat_file(a: Seq<DefV>, b: Seq<DefV>, f: PV)
    requires forall|i: int| 0 <= i < a.len() ==> (#[trigger] a[i]).file == f, forall|i: int| 0 <= i < b.len() ==> (#[trigger] b[i]).file == f,
    ensures forall|i: int| 0 <= i < (a + b).len() ==> (#[trigger] (a + b)[i]).file == f,
{
    assert forall|i: int| 0 <= i < (a + b).len() implies (#[trigger] (a + b)[i]).file == f by {
        if i < a.len() { assert((a + b)[i] == a[i]); } else { assert((a + b)[i] == b[i - a.len()]); }
    }
}
pub proof fn lemma_lit_uses_in_file(ps: Seq<Lit>, f: PV, li: Seq<usize>, sat: bool)
    ensures forall|i: int| 0 <= i < lit_uses(ps, f, li, sat).len() ==> (#[trigger] lit_uses(ps, f, li, sat)[i]).file == f,
{}
pub proof fn lemma_targets_defs_in_file(ts: Seq<Expr>, n: int, range: TextRange, f: PV, li: Seq<usize>)
    ensures forall|i: int| 0 <= i < targets_defs(ts, n, range, f, li).len() ==> (#[trigger] targets_defs(ts, n, range, f, li)[i]).file == f,
    decreases n
{
    if 0 < n <= ts.len() { lemma_targets_defs_in_file(ts, n - 1, range, f, li); }
}
pub proof fn lemma_decos_uses_in_file(ds: Seq<Expr>, n: int, which: int, f: PV, li: Seq<usize>)
    ensures forall|i: int| 0 <= i < decos_uses(ds, n, which, f, li).len() ==> (#[trigger] decos_uses(ds, n, which, f, li)[i]).file == f,
    decreases n
{
    if 0 < n <= ds.len() {
        lemma_decos_uses_in_file(ds, n - 1, which, f, li);
        lemma_lit_uses_in_file(deco_lits(ds[n - 1], which), f, li, false);
        lemma_uses_concat_file(decos_uses(ds, n - 1, which, f, li), lit_uses(deco_lits(ds[n - 1], which), f, li, false), f);
    }
}
pub proof fn lemma_param_uses_in_file(ps: Seq<AArg>, n: int, fixture: bool, f: PV, li: Seq<usize>)
    ensures forall|i: int| 0 <= i < param_uses(ps, n, fixture, f, li).len() ==> (#[trigger] param_uses(ps, n, fixture, f, li)[i]).file == f,
    decreases n
{
    if 0 < n <= ps.len() {
        lemma_param_uses_in_file(ps, n - 1, fixture, f, li);
        let a = param_uses(ps, n - 1, fixture, f, li);
        let x = param_use(ps[n - 1], f, li);
        assert forall|i: int| 0 <= i < a.push(x).len() implies (#[trigger] a.push(x)[i]).file == f by { if i < a.len() { assert(a.push(x)[i] == a[i]); } }
    }
}
pub proof fn lemma_func_uses_in_file(v: FnV, f: PV, li: Seq<usize>)
    ensures forall|i: int| 0 <= i < func_uses(v, f, li).len() ==> (#[trigger] func_uses(v, f, li)[i]).file == f,
{
    let ps = all_params(v.args);
    lemma_decos_uses_in_file(v.decos, v.decos.len() as int, 0, f, li);
    lemma_decos_uses_in_file(v.decos, v.decos.len() as int, 1, f, li);
    lemma_param_uses_in_file(ps, ps.len() as int, true, f, li);
    lemma_param_uses_in_file(ps, ps.len() as int, false, f, li);
    let a = decos_uses(v.decos, v.decos.len() as int, 0, f, li);
    let b = decos_uses(v.decos, v.decos.len() as int, 1, f, li);
    let c = if first_fix(v.decos, 0) is Some { param_uses(ps, ps.len() as int, true, f, li) } else { Seq::empty() };
    let d = if is_test_name(v.name) { param_uses(ps, ps.len() as int, false, f, li) } else { Seq::empty() };
    lemma_uses_concat_file(a, b, f);
    lemma_uses_concat_file(a + b, c, f);
    lemma_uses_concat_file(a + b + c, d, f);
}
//@tags C03 C06
/// C06 / A7' (definitions): every definition visit_stmt records for a statement of file f has file == f
pub proof fn lemma_C06_visit_defs_in_file(s: Stmt, f: PV, src: Seq<char>, li: Seq<usize>)
    ensures forall|i: int| 0 <= i < visit_defs(s, f, src, li).len() ==> (#[trigger] visit_defs(s, f, src, li)[i]).file == f,
    decreases s, 0int
{
    match s {
        Stmt::Assign(a) => { lemma_targets_defs_in_file(a.targets@, a.targets@.len() as int, a.range, f, li); }
        Stmt::ClassDef(c) => { lemma_body_defs_in_file(c.body@, c.body@.len() as int, f, src, li); }
        _ => {}
    }
}
pub proof fn lemma_body_defs_in_file(b: Seq<Stmt>, n: int, f: PV, src: Seq<char>, li: Seq<usize>)
    ensures forall|i: int| 0 <= i < body_defs(b, n, f, src, li).len() ==> (#[trigger] body_defs(b, n, f, src, li)[i]).file == f,
    decreases b, n
{
    if 0 < n <= b.len() {
        lemma_body_defs_in_file(b, n - 1, f, src, li);
        lemma_C06_visit_defs_in_file(b[n - 1], f, src, li);
        lemma_defs_concat_file(body_defs(b, n - 1, f, src, li), visit_defs(b[n - 1], f, src, li), f);
    }
}
//@tags C03 C06
/// C06 / A7' (usages)
pub proof fn lemma_C06_visit_uses_in_file(s: Stmt, f: PV, src: Seq<char>, li: Seq<usize>)
    ensures forall|i: int| 0 <= i < visit_uses(s, f, src, li).len() ==> (#[trigger] visit_uses(s, f, src, li)[i]).file == f,
    decreases s, 0int
{
    match s {
        Stmt::Assign(a) => { lemma_lit_uses_in_file(spec_usefixtures_from_expr(&*a.value), f, li, true); }
        Stmt::AnnAssign(a) => { match a.value { Some(v) => { lemma_lit_uses_in_file(spec_usefixtures_from_expr(&*v), f, li, true); } None => {} } }
        Stmt::ClassDef(c) => {
            lemma_decos_uses_in_file(c.decorator_list@, c.decorator_list@.len() as int, 0, f, li);
            lemma_body_uses_in_file(c.body@, c.body@.len() as int, f, src, li);
            lemma_uses_concat_file(decos_uses(c.decorator_list@, c.decorator_list@.len() as int, 0, f, li), body_uses(c.body@, c.body@.len() as int, f, src, li), f);
        }
        Stmt::FunctionDef(_) => { lemma_func_uses_in_file(fn_view(s)->0, f, li); }
        Stmt::AsyncFunctionDef(_) => { lemma_func_uses_in_file(fn_view(s)->0, f, li); }
        _ => {}
    }
}
pub proof fn lemma_body_uses_in_file(b: Seq<Stmt>, n: int, f: PV, src: Seq<char>, li: Seq<usize>)
    ensures forall|i: int| 0 <= i < body_uses(b, n, f, src, li).len() ==> (#[trigger] body_uses(b, n, f, src, li)[i]).file == f,
    decreases b, n
{
    if 0 < n <= b.len() {
        lemma_body_uses_in_file(b, n - 1, f, src, li);
        lemma_C06_visit_uses_in_file(b[n - 1], f, src, li);
        lemma_uses_concat_file(body_uses(b, n - 1, f, src, li), visit_uses(b[n - 1], f, src, li), f);
    }
}

// ---- C03: nothing else in the file produces an entry ---------------------------------------------------------
pub open spec fn no_marks(ds: Seq<Expr>) -> bool {
    forall|j: int| 0 <= j < ds.len() ==> spec_usefixtures(&#[trigger] ds[j]).len() == 0 && spec_parametrize_indirect(&ds[j]).len() == 0
}
pub proof fn lemma_decos_uses_no_marks(ds: Seq<Expr>, n: int, which: int, f: PV, li: Seq<usize>)
    requires no_marks(ds),
    ensures decos_uses(ds, n, which, f, li).len() == 0,
    decreases n
{
    if 0 < n <= ds.len() { lemma_decos_uses_no_marks(ds, n - 1, which, f, li); let d = ds[n - 1]; }
}
//@tags C03
/// a plain helper function -- no fixture decorator, no usefixtures / parametrize-indirect mark, name not test* --
/// records nothing, whatever its parameters are called
pub proof fn lemma_C03_plain_function_records_nothing(s: Stmt, f: PV, src: Seq<char>, li: Seq<usize>)
    requires fn_view(s) is Some, first_fix(fn_view(s)->0.decos, 0) is None, no_marks(fn_view(s)->0.decos), !is_test_name(fn_view(s)->0.name),
    ensures visit_defs(s, f, src, li).len() == 0, visit_uses(s, f, src, li).len() == 0,
{
    let v = fn_view(s)->0;
    lemma_decos_uses_no_marks(v.decos, v.decos.len() as int, 0, f, li);
    lemma_decos_uses_no_marks(v.decos, v.decos.len() as int, 1, f, li);
}
pub proof fn lemma_body_silent(b: Seq<Stmt>, n: int, f: PV, src: Seq<char>, li: Seq<usize>)
    requires forall|i: int| 0 <= i < b.len() ==> visit_defs(#[trigger] b[i], f, src, li).len() == 0 && visit_uses(b[i], f, src, li).len() == 0,
    ensures body_defs(b, n, f, src, li).len() == 0, body_uses(b, n, f, src, li).len() == 0,
    decreases n
{
    if 0 < n <= b.len() { lemma_body_silent(b, n - 1, f, src, li); let x = b[n - 1]; }
}
//@tags C03
/// a plain class -- no usefixtures mark, every statement of its body silent (e.g. plain helper methods, attribute
/// assignments other than pytestmark, nested plain classes) -- records nothing
pub proof fn lemma_C03_plain_class_records_nothing(s: Stmt, f: PV, src: Seq<char>, li: Seq<usize>)
    requires s matches Stmt::ClassDef(c) && no_marks(c.decorator_list@)
        && forall|i: int| 0 <= i < c.body@.len() ==> visit_defs(#[trigger] c.body@[i], f, src, li).len() == 0 && visit_uses(c.body@[i], f, src, li).len() == 0,
    ensures visit_defs(s, f, src, li).len() == 0, visit_uses(s, f, src, li).len() == 0,
{
    match s {
        Stmt::ClassDef(c) => {
            lemma_decos_uses_no_marks(c.decorator_list@, c.decorator_list@.len() as int, 0, f, li);
            lemma_body_silent(c.body@, c.body@.len() as int, f, src, li);
        }
        _ => {}
    }
}
//@tags C03
/// nested code: only assignments, annotated assignments, classes and functions AT THE TOP LEVEL OF THE MODULE OR OF A
/// CLASS BODY are looked at -- `if` / `try` / `with` / `for` blocks, expression statements, imports ... record
/// nothing, and neither does anything nested in them or in a function body (a fixture defined inside
/// `if TYPE_CHECKING:` or inside another function is not indexed); an assignment that is neither a fixture call nor
/// a pytestmark records nothing
pub proof fn lemma_C03_other_statements_record_nothing(s: Stmt, f: PV, src: Seq<char>, li: Seq<usize>)
    ensures
        !(s is Assign) && !(s is AnnAssign) && !(s is ClassDef) && !(s is FunctionDef) && !(s is AsyncFunctionDef)
            ==> visit_defs(s, f, src, li).len() == 0 && visit_uses(s, f, src, li).len() == 0,
        (s matches Stmt::Assign(a) && !is_assign_fixture(a) && !has_pytestmark_target(a.targets@))
            ==> visit_defs(s, f, src, li).len() == 0 && visit_uses(s, f, src, li).len() == 0,
        s is AnnAssign ==> visit_defs(s, f, src, li).len() == 0,
        (s matches Stmt::AnnAssign(a) && (!is_pytestmark_name(*a.target) || a.value is None)) ==> visit_uses(s, f, src, li).len() == 0,
{}

// ---- C03: field wiring ------------------------------------------------------------------------------------------
pub open spec fn pname_fn() -> spec_fn(AArg) -> Seq<char> { |a: AArg| pname(a) }
/// a parameter that IS a fixture request of a fixture: no default value, not called self / request
pub open spec fn request_fn() -> spec_fn(AArg) -> bool { |a: AArg| a.default is None && pname(a) != "self"@ && pname(a) != "request"@ }
pub proof fn lemma_deps_of_is_filter(ps: Seq<AArg>, n: int)
    requires 0 <= n <= ps.len(),
    ensures deps_of(ps, n) == ps.take(n).filter(request_fn()).map_values(pname_fn()),
    decreases n
{
    reveal(Seq::filter);
    if n > 0 {
        lemma_deps_of_is_filter(ps, n - 1);
        let t = ps.take(n);
        assert(t.drop_last() =~= ps.take(n - 1));
        assert(t.last() == ps[n - 1]);
        let sub = ps.take(n - 1).filter(request_fn());
        if is_dep(ps[n - 1]) {
            assert(sub.push(ps[n - 1]).map_values(pname_fn()) =~= sub.map_values(pname_fn()).push(pname(ps[n - 1])));
        }
        assert(deps_of(ps, n) =~= t.filter(request_fn()).map_values(pname_fn()));
    } else {
        assert(ps.take(0).filter(request_fn()) =~= Seq::<AArg>::empty());
        assert(deps_of(ps, n) =~= ps.take(0).filter(request_fn()).map_values(pname_fn()));
    }
}
//@tags C03
/// the dependency list of a fixture is the names of its parameters WITHOUT A DEFAULT VALUE -- positional-only, then
/// positional, then keyword-only -- minus `self` and `request`, in declaration order (duplicates cannot occur in valid
/// Python); a parameter with a default value is an ordinary argument, never a dependency (F-03e)
pub proof fn lemma_C03_dependencies_are_params_in_order(v: FnV, d: Expr, f: PV, src: Seq<char>, li: Seq<usize>)
    ensures fixture_def(v, d, f, src, li).dependencies
        == (v.args.posonlyargs@ + v.args.args@ + v.args.kwonlyargs@).filter(request_fn()).map_values(pname_fn()),
{
    let ps = all_params(v.args);
    lemma_deps_of_is_filter(ps, ps.len() as int);
    assert(ps.take(ps.len() as int) =~= ps);
}
/// every dependency comes from a parameter that is a request (no default, not self / request)
pub proof fn lemma_deps_from_requests(ps: Seq<AArg>, n: int, i: int)
    requires 0 <= i < deps_of(ps, n).len(),
    ensures exists|j: int| 0 <= j < n && j < ps.len() && is_dep(#[trigger] ps[j]) && deps_of(ps, n)[i] == pname(ps[j]),
    decreases n
{
    if 0 < n <= ps.len() {
        let a = deps_of(ps, n - 1);
        if i < a.len() {
            lemma_deps_from_requests(ps, n - 1, i);
            let j = choose|j: int| 0 <= j < n - 1 && j < ps.len() && is_dep(#[trigger] ps[j]) && a[i] == pname(ps[j]);
            assert(is_dep(ps[j]) && deps_of(ps, n)[i] == pname(ps[j]));
        } else {
            assert(is_dep(ps[n - 1]) && deps_of(ps, n)[i] == pname(ps[n - 1]));
        }
    }
}
/// every parameter usage comes from a parameter that is a request (fixture: is_dep, test: is_test_req)
pub proof fn lemma_param_uses_from_requests(ps: Seq<AArg>, n: int, fixture: bool, f: PV, li: Seq<usize>, i: int)
    requires 0 <= i < param_uses(ps, n, fixture, f, li).len(),
    ensures exists|j: int| 0 <= j < n && j < ps.len() && !has_default(#[trigger] ps[j]) && (if fixture { is_dep(ps[j]) } else { is_test_req(ps[j]) })
        && param_uses(ps, n, fixture, f, li)[i] == param_use(ps[j], f, li),
    decreases n
{
    if 0 < n <= ps.len() {
        let a = param_uses(ps, n - 1, fixture, f, li);
        if i < a.len() {
            lemma_param_uses_from_requests(ps, n - 1, fixture, f, li, i);
            let j = choose|j: int| 0 <= j < n - 1 && j < ps.len() && !has_default(#[trigger] ps[j]) && (if fixture { is_dep(ps[j]) } else { is_test_req(ps[j]) })
                && a[i] == param_use(ps[j], f, li);
            assert(!has_default(ps[j]) && param_uses(ps, n, fixture, f, li)[i] == param_use(ps[j], f, li));
        } else {
            assert(!has_default(ps[n - 1]) && param_uses(ps, n, fixture, f, li)[i] == param_use(ps[n - 1], f, li));
        }
    }
}
/// the name / the usage stems from some parameter WITHOUT a default value
pub open spec fn from_undefaulted_name(ps: Seq<AArg>, x: Seq<char>) -> bool { exists|j: int| 0 <= j < ps.len() && !has_default(#[trigger] ps[j]) && x == pname(ps[j]) }
pub open spec fn from_undefaulted_use(ps: Seq<AArg>, u: UseV, f: PV, li: Seq<usize>) -> bool { exists|j: int| 0 <= j < ps.len() && !has_default(#[trigger] ps[j]) && u == param_use(ps[j], f, li) }
//@tags C03
/// F-03e: a parameter WITH a default value (`def fx(db, limit=10)`, `def test_x(client, *, retries=3)`) is an ordinary
/// argument, not a fixture request: at its position k it adds NO dependency and NO usage -- neither in a fixture nor in a
/// test function --; every dependency and every recorded parameter usage stems from a parameter WITHOUT a default; yet the
/// parameter IS among the names the undeclared-fixture scan treats as declared (it is a local name of the body), for a
/// fixture and for a test function alike
pub proof fn lemma_C03_defaulted_parameter_is_not_a_request(v: FnV, d: Expr, k: int, f: PV, src: Seq<char>, li: Seq<usize>)
    requires 0 <= k < all_params(v.args).len(), has_default(all_params(v.args)[k]),
    ensures
        deps_of(all_params(v.args), k + 1) == deps_of(all_params(v.args), k),
        param_uses(all_params(v.args), k + 1, true, f, li) == param_uses(all_params(v.args), k, true, f, li),
        param_uses(all_params(v.args), k + 1, false, f, li) == param_uses(all_params(v.args), k, false, f, li),
        forall|i: int| 0 <= i < fixture_def(v, d, f, src, li).dependencies.len() ==>
            from_undefaulted_name(all_params(v.args), #[trigger] fixture_def(v, d, f, src, li).dependencies[i]),
        forall|fixture: bool, i: int| 0 <= i < param_uses(all_params(v.args), all_params(v.args).len() as int, fixture, f, li).len() ==>
            from_undefaulted_use(all_params(v.args), #[trigger] param_uses(all_params(v.args), all_params(v.args).len() as int, fixture, f, li)[i], f, li),
        declared_fixture(v.name, v.args).contains(pname(all_params(v.args)[k])),
        declared_test(v.args).contains(pname(all_params(v.args)[k])),
{
    let ps = all_params(v.args);
    let n = ps.len() as int;
    let deps = fixture_def(v, d, f, src, li).dependencies;
    assert forall|i: int| 0 <= i < deps.len() implies from_undefaulted_name(ps, #[trigger] deps[i]) by {
        lemma_deps_from_requests(ps, n, i);
        let j = choose|j: int| 0 <= j < n && j < ps.len() && is_dep(#[trigger] ps[j]) && deps_of(ps, n)[i] == pname(ps[j]);
        assert(!has_default(ps[j]) && deps[i] == pname(ps[j]));
    }
    assert forall|fixture: bool, i: int| 0 <= i < param_uses(ps, n, fixture, f, li).len() implies
        from_undefaulted_use(ps, #[trigger] param_uses(ps, n, fixture, f, li)[i], f, li) by {
        lemma_param_uses_from_requests(ps, n, fixture, f, li, i);
        let j = choose|j: int| 0 <= j < n && j < ps.len() && !has_default(#[trigger] ps[j]) && (if fixture { is_dep(ps[j]) } else { is_test_req(ps[j]) })
            && param_uses(ps, n, fixture, f, li)[i] == param_use(ps[j], f, li);
        assert(!has_default(ps[j]) && param_uses(ps, n, fixture, f, li)[i] == param_use(ps[j], f, li));
    }
    let base1 = Set::<Seq<char>>::empty().insert("self"@).insert("request"@).insert(v.name);
    let base2 = Set::<Seq<char>>::empty().insert("self"@).insert("request"@);
    lemma_declared_of_contains(ps, n, base1, pname(ps[k]));
    lemma_declared_of_contains(ps, n, base2, pname(ps[k]));
    assert(declared_fixture(v.name, v.args).contains(pname(ps[k])));
    assert(declared_test(v.args).contains(pname(ps[k])));
    assert(!is_dep(ps[k]) && !is_test_req(ps[k]));
    assert(deps_of(ps, k + 1) == deps_of(ps, k));
    assert(param_uses(ps, k + 1, true, f, li) == param_uses(ps, k, true, f, li));
    assert(param_uses(ps, k + 1, false, f, li) == param_uses(ps, k, false, f, li));
}
pub proof fn lemma_declared_of_contains(ps: Seq<AArg>, n: int, base: Set<Seq<char>>, x: Seq<char>)
    requires 0 <= n <= ps.len(),
    ensures declared_of(ps, n, base).contains(x) == (base.contains(x) || exists|i: int| 0 <= i < n && pname(#[trigger] ps[i]) == x),
    decreases n
{
    if n > 0 {
        lemma_declared_of_contains(ps, n - 1, base, x);
        if pname(ps[n - 1]) == x { let i = n - 1; assert(pname(ps[i]) == x); }
    }
}
//@tags C03
/// a fixture renamed with `name=` is recorded under that name (first usable `name=`: unit ast_helpers) and ONLY under
/// that name; its own function name is nevertheless among the names the undeclared-fixture scan treats as declared
/// (so a recursive reference to the function name inside the body is not flagged), as are self, request and every
/// parameter -- WITH or without a default value --; scope defaults to function scope; the definition is filed under the analysed file, at the line of the
/// function's range start, with the name position found by find_function_name_position for the FUNCTION name
pub proof fn lemma_C03_fixture_fields(v: FnV, d: Expr, f: PV, src: Seq<char>, li: Seq<usize>, n: Seq<char>)
    ensures
        spec_kw(&d, kw_str_fn("name"@)) == Some(n) ==> fixture_def(v, d, f, src, li).name == n,
        spec_kw(&d, kw_str_fn("name"@)) is None ==> fixture_def(v, d, f, src, li).name == v.name,
        spec_kw(&d, kw_scope_fn()) is None ==> fixture_def(v, d, f, src, li).scope == FixtureScope::Function,
        fixture_def(v, d, f, src, li).file == f,
        fixture_def(v, d, f, src, li).line == vline(li, r_start(v.range)),
        fixture_def(v, d, f, src, li).end_line == vline(li, r_end(v.range)),
        (fixture_def(v, d, f, src, li).start_char, fixture_def(v, d, f, src, li).end_char) == name_pos(src, vline(li, r_start(v.range)), v.name),
        fixture_def(v, d, f, src, li).autouse == spec_autouse(&d),
        fixture_def(v, d, f, src, li).yield_line == fy_from(v.body, 0, li),
        fixture_def(v, d, f, src, li).docstring == spec_docstring(v.body),
        fixture_def(v, d, f, src, li).return_type == spec_return_type(v.returns, v.body, src),
        declared_fixture(v.name, v.args).contains(v.name),
        declared_fixture(v.name, v.args).contains("self"@) && declared_fixture(v.name, v.args).contains("request"@),
        forall|i: int| 0 <= i < all_params(v.args).len() ==> declared_fixture(v.name, v.args).contains(pname(#[trigger] all_params(v.args)[i])),
{
    let ps = all_params(v.args);
    let base = Set::<Seq<char>>::empty().insert("self"@).insert("request"@).insert(v.name);
    lemma_declared_of_contains(ps, ps.len() as int, base, v.name);
    lemma_declared_of_contains(ps, ps.len() as int, base, "self"@);
    lemma_declared_of_contains(ps, ps.len() as int, base, "request"@);
    assert forall|i: int| 0 <= i < ps.len() implies declared_fixture(v.name, v.args).contains(pname(#[trigger] ps[i])) by {
        lemma_declared_of_contains(ps, ps.len() as int, base, pname(ps[i]));
    }
}
//@tags C03
/// exactly one definition per fixture function (the FIRST fixture decorator decides the fields), none for any other
/// function; a fixture-decorated function named test* records its parameters twice (once as fixture dependencies
/// without self / request / defaulted parameters, once as test parameters without self / defaulted parameters): that is
/// what the code does
pub proof fn lemma_C03_function_records(v: FnV, f: PV, src: Seq<char>, li: Seq<usize>)
    ensures
        func_defs(v, f, src, li).len() == (if first_fix(v.decos, 0) is Some { 1int } else { 0int }),
        first_fix(v.decos, 0) matches Some(k) ==> 0 <= k < v.decos.len() && spec_is_fixture_decorator(&v.decos[k])
            && func_defs(v, f, src, li)[0] == fixture_def(v, v.decos[k], f, src, li),
        (first_fix(v.decos, 0) is Some && is_test_name(v.name) && no_marks(v.decos)) ==> func_uses(v, f, li)
            =~= param_uses(all_params(v.args), all_params(v.args).len() as int, true, f, li)
              + param_uses(all_params(v.args), all_params(v.args).len() as int, false, f, li),
{
    lemma_first_fix_sound(v.decos, 0);
    if no_marks(v.decos) {
        lemma_decos_uses_no_marks(v.decos, v.decos.len() as int, 0, f, li);
        lemma_decos_uses_no_marks(v.decos, v.decos.len() as int, 1, f, li);
    }
}
pub proof fn lemma_first_fix_sound(ds: Seq<Expr>, k0: int)
    requires 0 <= k0,
    ensures first_fix(ds, k0) matches Some(k) ==> k0 <= k < ds.len() && spec_is_fixture_decorator(&ds[k]),
    decreases ds.len() - k0
{
    if k0 < ds.len() && !spec_is_fixture_decorator(&ds[k0]) { lemma_first_fix_sound(ds, k0 + 1); }
}

// ---- C15: span arithmetic ------------------------------------------------------------------------------------
/// under a well-formed line index a column never exceeds its offset
pub proof fn lemma_vcol_bounds(li: Seq<usize>, off: usize)
    requires is_line_index(ints(li)), li.len() <= usize::MAX,   // a slice
    ensures 0 <= op_col(ints(li), off as int) <= off, vcol(li, off) == op_col(ints(li), off as int),
        1 <= op_line(ints(li), off as int) <= li.len(), vline(li, off) == op_line(ints(li), off as int),
{
    lemma_line_sound(ints(li), off as int);
    let r = op_line(ints(li), off as int);
    assert(ints(li)[r - 1] == li[r - 1]);
}
//@tags C15 C03
/// usage span of a parameter = [col(start of the parameter), col(start) + byte length of the NAME) on the line of the
/// parameter's start -- not the AST range, which would include an annotation
pub proof fn lemma_C15_param_span(a: AArg, f: PV, li: Seq<usize>)
    requires is_line_index(ints(li)), li.len() <= usize::MAX, blen(pname(a)) <= isize::MAX,   // li is a slice, the name a Rust String
    ensures ({
        let u = param_use(a, f, li);
        &&& u.name == pname(a) && u.file == f
        &&& u.line == op_line(ints(li), r_start(a.def.range) as int)
        &&& u.start_char == op_col(ints(li), r_start(a.def.range) as int)
        &&& u.end_char == u.start_char + blen(pname(a))
    }),
{
    broadcast use {axiom_tsv_u32};
    lemma_vcol_bounds(li, r_start(a.def.range));
}
//@tags C15 C03
/// usages of string literals (usefixtures / parametrize-indirect decorators) = [col(start) + 1, col(end) - 1): the
/// text between the quotes of a one-character-quoted literal
pub proof fn lemma_C15_literal_span(p: Lit, f: PV, li: Seq<usize>)
    requires is_line_index(ints(li)), li.len() <= usize::MAX, vcol(li, r_end(p.1)) >= 1,
    ensures ({
        let u = lit_use(p, f, li);
        &&& u.name == p.0 && u.file == f
        &&& u.line == op_line(ints(li), r_start(p.1) as int)
        &&& u.start_char == op_col(ints(li), r_start(p.1) as int) + 1
        &&& u.end_char == op_col(ints(li), r_end(p.1) as int) - 1
        &&& lit_use_sat(p, f, li) == u
    }),
{
    broadcast use {axiom_tsv_u32};
    lemma_vcol_bounds(li, r_start(p.1));
    lemma_vcol_bounds(li, r_end(p.1));
}
/// every usefixtures usage a statement records has that span (class / function decorators)
pub proof fn lemma_decos_uses_span(ds: Seq<Expr>, n: int, which: int, f: PV, li: Seq<usize>, i: int)
    requires 0 <= i < decos_uses(ds, n, which, f, li).len(),
    ensures exists|j: int, k: int| 0 <= j < n && j < ds.len() && 0 <= k < deco_lits(ds[j], which).len()
        && decos_uses(ds, n, which, f, li)[i] == lit_use(#[trigger] deco_lits(ds[j], which)[k], f, li),
    decreases n
{
    if 0 < n <= ds.len() {
        let a = decos_uses(ds, n - 1, which, f, li);
        if i < a.len() {
            lemma_decos_uses_span(ds, n - 1, which, f, li, i);
            let (j, k) = choose|j: int, k: int| 0 <= j < n - 1 && j < ds.len() && 0 <= k < deco_lits(ds[j], which).len()
                && a[i] == lit_use(#[trigger] deco_lits(ds[j], which)[k], f, li);
            assert(decos_uses(ds, n, which, f, li)[i] == lit_use(deco_lits(ds[j], which)[k], f, li));
        } else {
            let k = i - a.len();
            assert(decos_uses(ds, n, which, f, li)[i] == lit_use(deco_lits(ds[n - 1], which)[k], f, li));
        }
    }
}
//@tags C15 C03
/// C15 for the usefixtures strings of a class / function: usage i is the i-th literal's [start + 1, end - 1)
pub proof fn lemma_C15_usefixtures_usages_span(ds: Seq<Expr>, f: PV, li: Seq<usize>, i: int)
    requires is_line_index(ints(li)), li.len() <= usize::MAX, decos_ok(ds, 0, li), 0 <= i < decos_uses(ds, ds.len() as int, 0, f, li).len(),
    ensures exists|j: int, k: int| 0 <= j < ds.len() && 0 <= k < spec_usefixtures(&ds[j]).len() && ({
        let p = #[trigger] deco_lits(ds[j], 0)[k];
        let u = decos_uses(ds, ds.len() as int, 0, f, li)[i];
        &&& p == spec_usefixtures(&ds[j])[k]
        &&& u.name == p.0 && u.file == f
        &&& u.start_char == op_col(ints(li), r_start(p.1) as int) + 1
        &&& u.end_char == op_col(ints(li), r_end(p.1) as int) - 1
    }),
{
    lemma_decos_uses_span(ds, ds.len() as int, 0, f, li, i);
    let (j, k) = choose|j: int, k: int| 0 <= j < ds.len() && j < ds.len() && 0 <= k < deco_lits(ds[j], 0).len()
        && decos_uses(ds, ds.len() as int, 0, f, li)[i] == lit_use(#[trigger] deco_lits(ds[j], 0)[k], f, li);
    let p = deco_lits(ds[j], 0)[k];
    assert(lits_ok(deco_lits(ds[j], 0), li));
    lemma_C15_literal_span(p, f, li);
}

// ---- vacuity guards: each of these must FAIL ---------------------------------------------------------------
/// `request` is a dependency
proof fn canary_request_is_a_dependency(ps: Seq<AArg>)
    requires ps.len() == 1, pname(ps[0]) == "request"@,
    ensures deps_of(ps, 1).len() == 1,
{}
/// F-03e: a parameter with a default value is recorded as a usage of a test function
proof fn canary_defaulted_parameter_is_a_usage(ps: Seq<AArg>, f: PV, li: Seq<usize>)
    requires ps.len() == 1, pname(ps[0]) != "self"@, pname(ps[0]) != "request"@, has_default(ps[0]),
    ensures param_uses(ps, 1, false, f, li).len() == 1,
{}
/// a helper function records nothing even if it is called test*
proof fn canary_test_function_records_nothing(s: Stmt, f: PV, src: Seq<char>, li: Seq<usize>)
    requires fn_view(s) is Some, first_fix(fn_view(s)->0.decos, 0) is None, no_marks(fn_view(s)->0.decos),
    ensures visit_uses(s, f, src, li).len() == 0,
{
    let v = fn_view(s)->0;
    lemma_decos_uses_no_marks(v.decos, v.decos.len() as int, 0, f, li);
    lemma_decos_uses_no_marks(v.decos, v.decos.len() as int, 1, f, li);
}
/// the usefixtures span starts AT the opening quote
proof fn canary_literal_span_includes_quote(p: Lit, f: PV, li: Seq<usize>)
    requires is_line_index(ints(li)), li.len() <= usize::MAX, vcol(li, r_end(p.1)) >= 1,
    ensures lit_use(p, f, li).start_char == op_col(ints(li), r_start(p.1) as int),
{
    lemma_C15_literal_span(p, f, li);
}
/// the assumed specifications in scope are not contradictory
proof fn canary_visit_false_from_assumptions(s: Stmt, li: Seq<usize>, t: rustpython_parser::text_size::TextSize, x: &str)
    requires is_line_index(ints(li)), visit_pre(s, li),
    ensures false,
{
    broadcast use {axiom_tsv_u32, axiom_str_blen};
    assert(tsv(t) <= u32::MAX);
    assert(x.spec_bytes().len() == blen(x@));
}
