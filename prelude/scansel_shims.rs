// ---------------------------------------------------------------------------------------------
// Unit scan_select: shims and assumed specifications (trusted base A3 / A4) for what
// FixtureDatabase::scan_workspace_with_excludes touches outside the repo: walkdir, std::path::strip_prefix /
// canonicalize / to_string_lossy, glob::Pattern::matches, std::fs::read_to_string, AtomicUsize, Mutex::lock.
// Every item below that is `external_body`, `assume_specification` or `axiom` is an ASSUMPTION; each is listed with
// its statement in the unit's report (W1..W5, P5..P8, G1, F1, A1, L1, R1, R2, C5 canon).

// ---- walkdir 2 (W*) -----------------------------------------------------------------------------------------------
/// walkdir::DirEntry, opaque; what the scanner reads from it, as uninterpreted views
#[verifier::external_body] pub struct DirEntry { _p: core::marker::PhantomData<()> }
/// walkdir::Error, opaque
#[verifier::external_body] pub struct WalkError { _p: core::marker::PhantomData<()> }
pub type WalkItem = Result<DirEntry, WalkError>;
/// `entry.path()`
pub uninterp spec fn entry_path(e: DirEntry) -> PV;
/// `entry.file_type().is_file()`
pub uninterp spec fn entry_is_file(e: DirEntry) -> bool;
/// `entry.file_name().to_str()`: None when the name is not UTF-8
pub uninterp spec fn entry_name(e: DirEntry) -> Option<Seq<char>>;
/// `entry.depth()`: 0 for the root of the walk
pub uninterp spec fn entry_depth(e: DirEntry) -> nat;
/// the entries the walk yields for the directories on the way from the root of the walk (inclusive, first) down to
/// the parent of e (last); empty for the root entry
pub uninterp spec fn entry_ancestors(e: DirEntry) -> Seq<DirEntry>;
/// the same for an error item (the directory whose reading failed and the directories above it)
pub uninterp spec fn err_ancestors(x: WalkError) -> Seq<DirEntry>;
/// the items `WalkDir::new(root).into_iter()` yields when nothing is pruned, in walk order (A4: the real file system)
pub uninterp spec fn walk(root: PV) -> Seq<WalkItem>;

pub struct FileType { pub file: bool }
impl FileType {
    pub fn is_file(&self) -> (r: bool) ensures r == self.file { self.file }
}
impl DirEntry {
    /// W2
    #[verifier::external_body]
    pub fn depth(&self) -> (r: usize) ensures r == entry_depth(*self) { unimplemented!() }
    /// W3
    #[verifier::external_body]
    pub fn file_type(&self) -> (r: FileType) ensures r.file == entry_is_file(*self) { unimplemented!() }
    /// W4
    #[verifier::external_body]
    pub fn path(&self) -> (r: &Path) ensures pv(r) == entry_path(*self) { unimplemented!() }
}
// only reached from external_body helpers (`entry.file_name().to_str()`, OsStr cannot be given a type specification)
#[verifier::external]
impl DirEntry { pub fn file_name(&self) -> &std::ffi::OsStr { unimplemented!() } }
#[verifier::external]
impl WalkError { pub fn io_error(&self) -> Option<&std::io::Error> { unimplemented!() } }

/// the predicate closure computes `keep`
pub open spec fn pred_models<P: FnMut(&DirEntry) -> bool>(p: P, keep: spec_fn(DirEntry) -> bool) -> bool {
    forall|e: &DirEntry, b: bool| #[trigger] call_ensures(p, (e,), b) ==> b == keep(*e)
}
/// walkdir's documented pruning (`IntoIter::filter_entry`): an entry is yielded iff the predicate holds on it and on
/// every directory entry above it (a rejected directory is neither yielded nor descended into); errors are passed
/// through unless they arise below a rejected directory
pub open spec fn item_kept(keep: spec_fn(DirEntry) -> bool) -> spec_fn(WalkItem) -> bool {
    |it: WalkItem| match it {
        Ok(e) => keep(e) && (forall|j: int| 0 <= j < entry_ancestors(e).len() ==> keep(#[trigger] entry_ancestors(e)[j])),
        Err(x) => forall|j: int| 0 <= j < err_ancestors(x).len() ==> keep(#[trigger] err_ancestors(x)[j]),
    }
}
pub open spec fn pruned(items: Seq<WalkItem>, keep: spec_fn(DirEntry) -> bool) -> Seq<WalkItem> { items.filter(item_kept(keep)) }

#[verifier::external_body] pub struct WalkDir { _p: core::marker::PhantomData<()> }
#[verifier::external_body] pub struct WalkIntoIter { _p: core::marker::PhantomData<()> }
impl WalkDir {
    pub uninterp spec fn root(&self) -> PV;
    /// W1 (`WalkDir::new<P: AsRef<Path>>`, used with a `&Path`)
    #[verifier::external_body]
    pub fn new(root: &Path) -> (w: WalkDir) ensures w.root() == pv(root) { unimplemented!() }
    #[verifier::external_body]
    pub fn into_iter(self) -> (r: WalkIntoIter) ensures r.root() == self.root() { unimplemented!() }
}
impl WalkIntoIter {
    pub uninterp spec fn root(&self) -> PV;
    /// W5: the filtered walk, driven to its end (which is what the `for` loop over it does): the items of
    /// walk(root) that survive the pruning, in walk order.  The predicate is only ever called on entries.
    #[verifier::external_body]
    pub fn filter_entry<P: FnMut(&DirEntry) -> bool>(self, predicate: P) -> (r: std::vec::IntoIter<WalkItem>)
        requires forall|e: &DirEntry| #[trigger] call_requires(predicate, (e,)),
        ensures r.obeys_prophetic_iter_laws(), r.decrease() is Some,
            forall|keep: spec_fn(DirEntry) -> bool| pred_models(predicate, keep)
                ==> r.remaining() == #[trigger] pruned(walk(self.root()), keep),
    { unimplemented!() }
}

// ---- std::path (P*) -----------------------------------------------------------------------------------------------
#[verifier::external_type_specification] #[verifier::external_body] pub struct ExStripPrefixError(std::path::StripPrefixError);
/// P5 `path.strip_prefix(base)`: Ok(the components after base's) iff base's components are a prefix (std compares
/// whole components)
#[verifier::allow(undeclared_external_trait)]
pub assume_specification<'a, P: AsRef<Path>>[ Path::strip_prefix::<P> ](p: &'a Path, base: P) -> (r: Result<&'a Path, std::path::StripPrefixError>)
    ensures match r {
        Ok(s) => pv_is_prefix(as_path_view(base), pv(p)) && pv(s) == pv(p).skip(as_path_view(base).len() as int),
        Err(_) => !pv_is_prefix(as_path_view(base), pv(p)) };

/// P6 `Path::canonicalize` (A4): the canonical form when the path resolves, else an error
pub uninterp spec fn fs_canonical(p: PV) -> Option<PV>;
#[verifier::external_type_specification] #[verifier::external_body] pub struct ExIoError(std::io::Error);
pub assume_specification[ Path::canonicalize ](p: &Path) -> (r: Result<PathBuf, std::io::Error>)
    ensures match r { Ok(c) => fs_canonical(pv(p)) == Some(pbv(&c)), Err(_) => fs_canonical(pv(p)) is None };

/// P7 `Path::to_string_lossy`: the text of the path; seen through `cow_pv`, the path it was made from
pub uninterp spec fn cow_pv(c: std::borrow::Cow<'_, str>) -> PV;
pub assume_specification<'a>[ Path::to_string_lossy ](p: &'a Path) -> (r: std::borrow::Cow<'a, str>)
    ensures cow_pv(r) == pv(p);

/// the `file_name()` of a path, as `&str`: the last component when it is a normal, UTF-8 component
pub uninterp spec fn comp_is_normal(c: Seq<char>) -> bool;
pub open spec fn file_name_v(p: PV) -> Option<Seq<char>> {
    if p.len() > 0 && comp_is_normal(p.last()) { Some(p.last()) } else { None }
}

// ---- glob (G1) ----------------------------------------------------------------------------------------------------
/// does the pattern with this source text match this (relative) path — `Pattern::matches(&path.to_string_lossy())`
pub uninterp spec fn glob_matches(pattern: Seq<char>, rel: PV) -> bool;
pub open spec fn any_glob_match(pats: Seq<Seq<char>>, rel: PV) -> bool {
    exists|i: int| 0 <= i < pats.len() && glob_matches(#[trigger] pats[i], rel)
}
// only reached from the external_body helper vp_matches_any
#[verifier::external]
impl Pattern { pub fn matches(&self, s: &str) -> bool { unimplemented!() } }

// ---- std::fs (F1) -------------------------------------------------------------------------------------------------
/// content of a file on disk; None if it cannot be read or is not UTF-8 (a constant during the scan, A4)
pub uninterp spec fn fs_read(p: PV) -> Option<Seq<char>>;
#[verifier::allow(undeclared_external_trait)]
pub assume_specification<P: AsRef<Path>>[ std::fs::read_to_string::<P> ](p: P) -> (r: Result<String, std::io::Error>)
    ensures (match r { Ok(s) => Some(s@), Err(_) => None::<Seq<char>> }) == fs_read(as_path_view(p));
pub mod scansel_ax {
    use super::*;
    /// (P4') a `&PathBuf` argument passed as `AsRef<Path>` denotes its own components
    pub broadcast axiom fn axiom_pathbuf_ref_as_path<'a>(p: &'a PathBuf)
        ensures #[trigger] as_path_view::<&'a PathBuf>(p) == pbv(p);
}
pub use scansel_ax::*;

// ---- AtomicUsize (A1) ---------------------------------------------------------------------------------------------
/// std::sync::atomic::AtomicUsize as the scan uses it: two event counters that only feed log messages.  `fetch_add`
/// wraps around on overflow (std: "This operation wraps around on overflow"), so there is no panic to exclude and
/// nothing is stated about the values.
#[verifier::external_body] pub struct AtomicUsize { _p: core::marker::PhantomData<()> }
impl AtomicUsize {
    #[verifier::external_body]
    pub fn new(v: usize) -> (r: Self) { unimplemented!() }
    #[verifier::external_body]
    pub fn fetch_add(&self, n: usize, o: std::sync::atomic::Ordering) -> (r: usize) { unimplemented!() }
    #[verifier::external_body]
    pub fn load(&self, o: std::sync::atomic::Ordering) -> (r: usize) { unimplemented!() }
}

// ---- Mutex::lock (L1) ---------------------------------------------------------------------------------------------
/// sequential stand-in for std::sync::Mutex::lock on a Mutex-wrapped field that is WRITTEN (T6 strips `Mutex<..>`
/// from the field type, T3 makes the receiver `&mut self`): lock() hands out the protected value, never poisoned.
/// No thread model (DESIGN §2).
#[derive(Debug)]
pub struct PoisonNever { _p: () }
pub trait VpLockMut: Sized {
    fn lock(&mut self) -> (r: Result<&mut Self, PoisonNever>)
        ensures r is Ok, *(r->Ok_0) == *old(self), *final(self) == *final(r->Ok_0);
}
impl VpLockMut for Option<PathBuf> {
    #[verifier::external_body]
    fn lock(&mut self) -> (r: Result<&mut Self, PoisonNever>) { Ok(self) }
}

// ---- core::result (R1, R2): vstd specifies Result::{unwrap, is_ok, ok, ...} but not these two ----------------------
/// R1 `r.unwrap_or(d)`
pub assume_specification<T, E>[ Result::<T, E>::unwrap_or ](r: Result<T, E>, d: T) -> (o: T)
    where E: core::marker::Destruct, T: core::marker::Destruct
    ensures o == (match r { Ok(t) => t, Err(_) => d });
/// R2 `r.unwrap_or_else(f)`: f is called (once) only on an error
pub assume_specification<T, E, F>[ Result::<T, E>::unwrap_or_else ](r: Result<T, E>, f: F) -> (o: T)
    where F: FnOnce(E) -> T + core::marker::Destruct
    requires r is Err ==> call_requires(f, (r->Err_0,)),
    ensures match r { Ok(t) => o == t, Err(e) => call_ensures(f, (e,), o) };

// P8 `Path::is_file` (follows links): a static file-system fact of the path
pub uninterp spec fn fs_is_file(p: PV) -> bool;
pub assume_specification[ Path::is_file ](p: &Path) -> (r: bool)
    ensures r == fs_is_file(pv(p));

// ---- canonical paths as the database sees them (C5) ------------------------------------------------------------------
/// what FixtureDatabase::get_canonical_path returns for a path (canonical_path_cache, else Path::canonicalize, else the
/// path itself): an abstract FUNCTION of the path.  Unit memo_keys proves the real body returns canon_now(path) under
/// its cache invariant (one file-system state); here only "the same path always gets the same answer" is used — the
/// scan's pre-check and analyze_file_fresh's file_cache key are both this function of the collected path.
pub uninterp spec fn canon(p: PV) -> PV;
pub open spec fn canon_fn() -> spec_fn(PV) -> PV { |p: PV| canon(p) }
/// MAX_FILE_CACHE_SIZE of src/fixtures/mod.rs: evict_cache_if_needed drops entries only above this size
pub open spec fn max_file_cache() -> nat { 2000 }
