// ---------------------------------------------------------------------------------------------
// Unit scan_venv2: shims / assumed specifications (trusted base A3 / A4) for the DATABASE-writing half of the plugin
// discovery (scan_single_plugin_file … scan_venv_fixtures), in addition to scanvenv_fs.rs / scansel_shims.rs.
//   D1  vp_read_dir(p)           stand-in for `std::fs::read_dir(p)` (T9 @replace in the unit): Err iff the directory
//                                cannot be read (fs_dir(p) is None), else its entries fs_dir(p)->0 (uninterpreted,
//                                STATIC, finite, in the order the OS yields them)
//   D2  VpReadDir::flatten / Result<VpReadDir,_>::into_iter().flatten()   the entries, in order, driven to the end;
//                                per-entry errors of the real ReadDir iterator are not modelled (every entry is Ok)
//   D3  FsEntry::path / file_name   the entry's path (directory + own name) and own name
//   D4  walkdir: WalkDir::max_depth, IntoIter::filter_map(|e| e.ok())   the Ok entries walk_ok(root, d) of the
//                                depth-limited walk (uninterpreted), each of depth <= d (axiom_walk_depth)
//   D5  serde_json               VpJson stand-in (T9): json_parse / jget / jbool uninterpreted
//   D6  std::env::var            env_var(name) (uninterpreted, static)
//   D7  OsStr expressions        (`file_name().unwrap_or_default().to_string_lossy()`, `extension()…to_str()`,
//                                `file_name()…to_str()`): @wrapexpr helpers in the unit over lossy_name_v / path_ext_v /
//                                file_name_v (uninterpreted views of the LAST component)
//   D8  Mutex::lock              VpLock (read, `&self`) / VpLockMut (write, `&mut self`): never poisoned, no thread model
//   D9  axiom_file_name_parent   a path with a normal last component has a parent (std: `Path::parent`)

// ---- D1..D3 read_dir -----------------------------------------------------------------------------------------------------
/// std::fs::DirEntry, opaque; its own name (lossy text) and the directory it was read from are its view
#[verifier::external_body] pub struct FsEntry { _p: core::marker::PhantomData<()> }
/// the entries of directory p; None when p cannot be read as a directory (A4: static)
pub uninterp spec fn fs_dir(p: PV) -> Option<Seq<FsEntry>>;
pub uninterp spec fn fse_path(e: FsEntry) -> PV;
/// the lossy text of the entry's own name (`entry.file_name().to_string_lossy()` == the lossy last component of path())
pub uninterp spec fn fse_name(e: FsEntry) -> Seq<char>;
#[verifier::external_body] pub struct VpOsString { _p: core::marker::PhantomData<()> }
impl FsEntry {
    #[verifier::external_body]
    pub fn path(&self) -> (r: PathBuf) ensures pbv(&r) == fse_path(*self) { unimplemented!() }
    #[verifier::external_body]
    pub fn file_name(&self) -> (r: VpOsString) ensures r.lossy() == fse_name(*self) { unimplemented!() }
}
/// view of `to_string_lossy()`'s result
pub uninterp spec fn cow_sv(c: std::borrow::Cow<'_, str>) -> Seq<char>;
impl VpOsString {
    pub uninterp spec fn lossy(&self) -> Seq<char>;
    #[verifier::external_body]
    pub fn to_string_lossy(&self) -> (r: std::borrow::Cow<'_, str>) ensures cow_sv(r) == self.lossy() { unimplemented!() }
}
#[verifier::external_body] pub struct VpReadDir { _p: core::marker::PhantomData<()> }
impl VpReadDir {
    pub uninterp spec fn entries(&self) -> Seq<FsEntry>;
    /// D2 `entries.flatten()`
    #[verifier::external_body]
    pub fn flatten(self) -> (r: std::vec::IntoIter<FsEntry>)
        ensures r.obeys_prophetic_iter_laws(), r.decrease() is Some, r.remaining() == self.entries()
    { unimplemented!() }
}
/// D1
#[verifier::external_body]
pub fn vp_read_dir<P: AsRef<Path>>(p: P) -> (r: Result<VpReadDir, std::io::Error>)
    ensures match r { Ok(d) => fs_dir(as_path_view(p)) == Some(d.entries()), Err(_) => fs_dir(as_path_view(p)) is None }
{ unimplemented!() }
/// `read_dir(p).into_iter().flatten()` as scan_pytest_plugins spells it: items are `io::Result<DirEntry>`
#[verifier::external_body] pub struct VpReadDirRes { _p: core::marker::PhantomData<()> }
pub open spec fn ok_entries(s: Seq<FsEntry>) -> Seq<Result<FsEntry, std::io::Error>> { s.map_values(|e: FsEntry| Ok::<FsEntry, std::io::Error>(e)) }
pub open spec fn dir_entries(p: PV) -> Seq<FsEntry> { match fs_dir(p) { Some(s) => s, None => Seq::empty() } }
pub trait VpReadDirResult: Sized { fn vp_into_iter_flatten(self) -> (r: std::vec::IntoIter<Result<FsEntry, std::io::Error>>); }
impl VpReadDirResult for Result<VpReadDir, std::io::Error> {
    #[verifier::external_body]
    fn vp_into_iter_flatten(self) -> (r: std::vec::IntoIter<Result<FsEntry, std::io::Error>>)
        ensures r.obeys_prophetic_iter_laws(), r.decrease() is Some,
            r.remaining() == ok_entries(match self { Ok(d) => d.entries(), Err(_) => Seq::<FsEntry>::empty() })
    { unimplemented!() }
}

// ---- D4 walkdir (continues scansel_shims.rs W*) -----------------------------------------------------------------------------
/// the Ok entries `WalkDir::new(root).max_depth(d).into_iter()` yields, in walk order (A4)
pub uninterp spec fn walk_ok(root: PV, d: nat) -> Seq<DirEntry>;
pub open spec fn ok_of(x: WalkItem) -> Option<DirEntry> { match x { Ok(e) => Some(e), Err(_) => None } }
pub open spec fn ok_models<F: FnMut(WalkItem) -> Option<DirEntry>>(f: F) -> bool {
    forall|x: WalkItem, o: Option<DirEntry>| #[trigger] call_ensures(f, (x,), o) ==> o == ok_of(x)
}
#[verifier::external_body] pub struct WalkDirD { _p: core::marker::PhantomData<()> }
#[verifier::external_body] pub struct WalkIntoIterD { _p: core::marker::PhantomData<()> }
impl WalkDir {
    #[verifier::external_body]
    pub fn max_depth(self, d: usize) -> (w: WalkDirD) ensures w.root() == self.root(), w.depth() == d as nat { unimplemented!() }
}
impl WalkDirD {
    pub uninterp spec fn root(&self) -> PV;
    pub uninterp spec fn depth(&self) -> nat;
    #[verifier::external_body]
    pub fn into_iter(self) -> (r: WalkIntoIterD) ensures r.root() == self.root(), r.depth() == self.depth() { unimplemented!() }
}
impl WalkIntoIterD {
    pub uninterp spec fn root(&self) -> PV;
    pub uninterp spec fn depth(&self) -> nat;
    /// `.filter_map(f)` with f = `|e| e.ok()`, driven to its end: the Ok entries of the depth-limited walk
    #[verifier::external_body]
    pub fn filter_map<F: FnMut(WalkItem) -> Option<DirEntry>>(self, f: F) -> (r: std::vec::IntoIter<DirEntry>)
        requires forall|x: WalkItem| #[trigger] call_requires(f, (x,)),
        ensures r.obeys_prophetic_iter_laws(), r.decrease() is Some,
            ok_models(f) ==> r.remaining() == walk_ok(self.root(), self.depth()),
    { unimplemented!() }
}

// ---- D5 serde_json ----------------------------------------------------------------------------------------------------------
#[verifier::external_body] pub struct VpJson { _p: core::marker::PhantomData<()> }
#[verifier::external_body] pub struct VpJsonError { _p: core::marker::PhantomData<()> }
pub uninterp spec fn json_parse(text: Seq<char>) -> Option<VpJson>;
pub uninterp spec fn jget(j: VpJson, key: Seq<char>) -> Option<VpJson>;
pub uninterp spec fn jbool(j: VpJson) -> Option<bool>;
pub open spec fn ojv(o: Option<&VpJson>) -> Option<VpJson> { match o { Some(j) => Some(*j), None => None } }
#[verifier::external_body]
pub fn vp_json_from_str(s: &str) -> (r: Result<VpJson, VpJsonError>)
    ensures (match r { Ok(j) => Some(j), Err(_) => None::<VpJson> }) == json_parse(s@)
{ unimplemented!() }
impl VpJson {
    #[verifier::external_body]
    pub fn get(&self, key: &str) -> (r: Option<&VpJson>) ensures ojv(r) == jget(*self, key@) { unimplemented!() }
    #[verifier::external_body]
    pub fn as_bool(&self) -> (r: Option<bool>) ensures r == jbool(*self) { unimplemented!() }
}

// ---- D6 environment ---------------------------------------------------------------------------------------------------------
pub uninterp spec fn env_var(name: Seq<char>) -> Option<Seq<char>>;
#[verifier::external_body] pub struct VpVarError { _p: core::marker::PhantomData<()> }
#[verifier::external_body]
pub fn vp_env_var(name: &str) -> (r: Result<String, VpVarError>)
    ensures (match r { Ok(s) => Some(s@), Err(_) => None::<Seq<char>> }) == env_var(name@)
{ unimplemented!() }
pub assume_specification[ <PathBuf as From<String>>::from ](s: String) -> (r: PathBuf)
    ensures pbv(&r) == str_pv(s@);

// ---- D7 views of the last component ------------------------------------------------------------------------------------------
/// `path.file_name().unwrap_or_default().to_string_lossy()`: the lossy text of the last component ("" if none)
pub uninterp spec fn lossy_name_v(p: PV) -> Seq<char>;
/// `path.extension().and_then(|s| s.to_str())`
pub uninterp spec fn path_ext_v(p: PV) -> Option<Seq<char>>;

pub mod scanvenv_db_ax {
    use super::*;
    /// D3: a directory entry's path is the directory plus one component, and the lossy text of that component is the
    /// entry's (lossy) file name
    pub broadcast axiom fn axiom_entry_name(e: FsEntry)
        ensures #[trigger] lossy_name_v(fse_path(e)) == fse_name(e);
    /// D4: depth limit of the walk
    pub broadcast axiom fn axiom_walk_depth(root: PV, d: nat, i: int)
        requires 0 <= i < walk_ok(root, d).len()
        ensures entry_depth(#[trigger] walk_ok(root, d)[i]) <= d;
    /// D9
    pub broadcast axiom fn axiom_file_name_parent(p: PV)
        requires #[trigger] file_name_v(p) is Some
        ensures pv_has_parent(p);
}
pub use scanvenv_db_ax::*;
