// ---------------------------------------------------------------------------------------------
// Operational specifications of callHierarchy/outgoingCalls and textDocument/inlayHint.  Needs handlers_spec.rs,
// avail_spec.rs (op_resolve_ff, avail_pick, avail_post), lsp_backend.rs.

// ---- callHierarchy/outgoingCalls ---------------------------------------------------------------------------
/// recorded usage u is "the parameter `name` on (1-based) line `line`": same line, same name
pub open spec fn param_use(line: usize, name: Seq<char>) -> spec_fn(UseV) -> bool { |u: UseV| u.line == line && u.name == name }
pub open spec fn use_range_fn() -> spec_fn(UseV) -> Range { |u: UseV| use_range(u) }
/// what Backend::find_parameter_ranges computes (since the repair of F-15c: from the INDEX, no text search): the
/// name spans (use_range: (line-1, start_char)-(line-1, end_char)) of the recorded usages of the file that sit on
/// `line` and carry `name`, in list order; None: the file has no usages entry, or no such usage
pub open spec fn param_ranges(uses: Map<PV, Seq<UseV>>, file: PV, line: usize, name: Seq<char>) -> Option<Seq<Range>> {
    if !uses.contains_key(file) { None } else {
        let rs = uses[file].filter(param_use(line, name)).map_values(use_range_fn());
        if rs.len() == 0 { None } else { Some(rs) }
    }
}
pub ghost struct OutCallV { pub to: ItemV, pub from_ranges: Seq<Range> }
pub open spec fn out_call_v(c: CallHierarchyOutgoingCall) -> OutCallV { OutCallV { to: item_v(c.to), from_ranges: c.from_ranges@ } }
pub open spec fn out_calls_v(s: Seq<CallHierarchyOutgoingCall>) -> Seq<OutCallV> { s.map_values(|c: CallHierarchyOutgoingCall| out_call_v(c)) }
/// the definition a dependency name `dep` of fixture d (in file p) is taken to mean.  RESOLVER (since the repair of
/// F-05d): a SELF-NAMED dependency (`def foo(foo)`) goes through find_closest_definition_excluding = op_resolve with
/// the filter "not d" (what go-to-definition does for that parameter); every OTHER dependency through
/// resolve_fixture_for_file (op_resolve_ff) -- NOT find_fixture_definition / op_resolve (F-05b remains for those)
pub open spec fn dep_target(v: NavV, p: PV, d: DefV, dep: Seq<char>) -> Option<DefV> {
    if dep == d.name { op_resolve(bucket(v.defs, dep), p, (v.provf)(dep), fs_excl(Some(d))) }
    else { op_resolve_ff(bucket(v.defs, dep), p, canon_pv(p)) }
}
/// the outgoing call for dependency `dep` of definition d (in file p) resolved to dd: the item is built like the
/// prepared item (def_item); from_ranges = the recorded spans of the parameter on d's definition line, else (fallback:
/// no usage of that name recorded on that line) dd's OWN name span
pub open spec fn out_call_for(v: NavV, p: PV, d: DefV, dep: Seq<char>, dd: DefV, u: Uri) -> OutCallV {
    OutCallV { to: def_item(u, dd),
               from_ranges: match param_ranges(v.uses, p, d.line, dep) { Some(rs) => rs, None => seq![def_name_range(dd)] } }
}
pub open spec fn out_calls(v: NavV, p: PV, d: DefV, deps: Seq<Seq<char>>) -> Seq<OutCallV>
    decreases deps.len()
{
    if deps.len() == 0 { Seq::empty() } else {
        let rest = out_calls(v, p, d, deps.drop_last());
        let dep = deps.last();
        match dep_target(v, p, d, dep) {
            None => rest,                                   // unresolvable dependency: no call
            Some(dd) => match path_uri(v.uc, dd.file) {
                None => rest,                               // no URI: dropped
                Some(u) => rest.push(out_call_for(v, p, d, dep, dd, u)),
            },
        }
    }
}
pub open spec fn op_handle_outgoing(v: NavV, name: Seq<char>, uri: Uri, sel_line: u32) -> Option<Seq<OutCallV>> {
    match item_def(v, name, uri, sel_line) {
        None => None,
        Some(d) => Some(out_calls(v, uri_path(uri)->0, d, d.dependencies)),
    }
}
/// no-truncation hypothesis for the lines of the resolved dependencies (and of d itself)
pub open spec fn deps_fit(v: NavV, p: PV, d: DefV, deps: Seq<Seq<char>>) -> bool {
    forall|i: int| 0 <= i < deps.len() ==> def_fits(dep_target(v, p, d, #[trigger] deps[i]))
}
pub open spec fn out_fits(v: NavV, name: Seq<char>, uri: Uri, sel_line: u32) -> bool {
    item_def(v, name, uri, sel_line) is Some ==> line_fits((item_def(v, name, uri, sel_line)->0).line)
        && deps_fit(v, uri_path(uri)->0, item_def(v, name, uri, sel_line)->0, (item_def(v, name, uri, sel_line)->0).dependencies)
}
pub open spec fn opt_out_calls_view(r: jsonrpc::Result<Option<Vec<CallHierarchyOutgoingCall>>>) -> Option<Seq<OutCallV>> {
    match r { Ok(Some(v)) => Some(out_calls_v(v@)), _ => None }
}

// ---- textDocument/inlayHint --------------------------------------------------------------------------------
/// what an InlayHint says
pub ghost struct HintV {
    pub position: Position, pub label: Option<Seq<char>>, pub kind: Option<InlayHintKind>, pub text_edits_none: bool,
    pub tooltip: Option<Seq<char>>, pub padding_left: Option<bool>, pub padding_right: Option<bool>, pub data_none: bool,
}
pub open spec fn hint_v(h: InlayHint) -> HintV {
    HintV { position: h.position,
            label: match h.label { InlayHintLabel::String(s) => Some(s@), _ => None },
            kind: h.kind, text_edits_none: h.text_edits is None,
            tooltip: match h.tooltip { Some(InlayHintTooltip::String(s)) => Some(s@), _ => None },
            padding_left: h.padding_left, padding_right: h.padding_right, data_none: h.data is None }
}
pub open spec fn hints_v(s: Seq<InlayHint>) -> Seq<HintV> { s.map_values(|h: InlayHint| hint_v(h)) }
/// uninterpreted: the lines of the cached text (`str::lines().collect()`, empty without a cached text), the
/// string_utils::parameter_has_annotation test (ASSUMED callee), the two format! texts, `InlayHintKind::TYPE`
pub uninterp spec fn text_lines(t: Option<Seq<char>>) -> Seq<Seq<char>>;
pub uninterp spec fn has_annotation(lines: Seq<Seq<char>>, line: usize, end_char: usize) -> bool;
pub uninterp spec fn fmt_hint_label(rt: Seq<char>) -> Seq<char>;
pub uninterp spec fn fmt_hint_tooltip(name: Seq<char>, rt: Seq<char>) -> Seq<char>;
pub uninterp spec fn ihk_type() -> InlayHintKind;
/// the return type the handler's name -> return-type map holds for name n: built from the per-file view `av`
/// (get_available_fixtures) by inserting (name, return type) of every entry that has one, in list order: a LATER
/// entry of the same name wins
pub open spec fn rt_lookup(av: Seq<DefV>, n: Seq<char>) -> Option<Seq<char>>
    decreases av.len()
{
    if av.len() == 0 { None }
    else if av.last().name == n && av.last().return_type is Some { av.last().return_type }
    else { rt_lookup(av.drop_last(), n) }
}
pub open spec fn no_rt(av: Seq<DefV>) -> bool { forall|n: Seq<char>| rt_lookup(av, n) is None }
/// the anchor of a hint: END of the usage's name span, on its line
pub open spec fn hint_for(x: UseV, rt: Seq<char>) -> HintV {
    HintV { position: Position { line: lsp_line(x.line), character: x.end_char as u32 }, label: Some(fmt_hint_label(rt)),
            kind: Some(ihk_type()), text_edits_none: true, tooltip: Some(fmt_hint_tooltip(x.name, rt)),
            padding_left: Some(false), padding_right: Some(false), data_none: true }
}
pub open spec fn hint_wanted(x: UseV, av: Seq<DefV>, lines: Seq<Seq<char>>, sl: usize, el: usize) -> bool {
    sl <= x.line <= el && rt_lookup(av, x.name) is Some && !has_annotation(lines, x.line, x.end_char)
}
pub open spec fn hints_of(us: Seq<UseV>, av: Seq<DefV>, lines: Seq<Seq<char>>, sl: usize, el: usize) -> Seq<HintV>
    decreases us.len()
{
    if us.len() == 0 { Seq::empty() } else {
        let rest = hints_of(us.drop_last(), av, lines, sl, el);
        let x = us.last();
        if hint_wanted(x, av, lines, sl, el) { rest.push(hint_for(x, rt_lookup(av, x.name)->0)) } else { rest }
    }
}
pub open spec fn cached_text(cache: Map<PV, String>, p: PV) -> Option<Seq<char>> { if cache.contains_key(p) { Some(cache[p]@) } else { None } }
/// the hints for file p given the per-file view av (RESOLVER of inlay hints = get_available_fixtures = avail_pick)
pub open spec fn inlay_hints(v: NavV, av: Seq<DefV>, p: PV, range: Range) -> Seq<HintV> {
    if no_rt(av) { Seq::empty() }
    else { hints_of(v.uses[p], av, text_lines(cached_text(v.cache, p)), (range.start.line + 1) as usize, (range.end.line + 1) as usize) }
}
pub open spec fn opt_hints_view(r: jsonrpc::Result<Option<Vec<InlayHint>>>) -> Option<Seq<HintV>> {
    match r { Ok(Some(v)) => Some(hints_v(v@)), _ => None }
}
pub open spec fn inlay_post(v: NavV, a: AvV, uri: Uri, range: Range, r: jsonrpc::Result<Option<Vec<InlayHint>>>) -> bool {
    match uri_path(uri) {
        None => r == Ok::<Option<Vec<InlayHint>>, jsonrpc::Error>(None),
        Some(p) => if !v.uses.contains_key(p) { r == Ok::<Option<Vec<InlayHint>>, jsonrpc::Error>(None) } else {
            exists|av: Seq<DefV>| #[trigger] avail_post(av, a, canon_pv(p))
                && (uses_fit(v.uses[p]) ==> opt_hints_view(r) == Some(inlay_hints(v, av, p, range)))
        },
    }
}
