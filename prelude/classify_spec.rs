// ---------------------------------------------------------------------------------------------
// Vocabulary of the contracts PROVED in unit classify (`//@stub classify is_in_site_packages` /
// `is_editable_install_third_party` copy the texts `r == op_in_site_packages(opt_pbv(self.workspace_root), ..)` and
// `r == op_editable_third_party(roots(self.editable_install_roots@), opt_pbv(self.workspace_root), ..)`).
// VERBATIM the definitions written in the BODY of units/classify.rs (roots, op_editable_third_party, sp_name,
// has_sp_component, op_in_site_packages); `opt_pbv` is in prelude/opt_pbv.rs.  Pure specification, no assumption.
// Include after `//@item src/fixtures/mod.rs struct EditableInstall`; needs PV / pbv (prelude/path.rs) and pv_is_prefix
// (prelude/path_ext.rs).   (Owner of unit classify: including this file there would make the sharing textual.)
/// abstract view of an editable install: only the source root matters for the classification
pub open spec fn roots(s: Seq<EditableInstall>) -> Seq<PV> { s.map_values(|e: EditableInstall| pbv(&e.source_root)) }
/// the decision taken for the FIRST install (list order) whose source root is a prefix of the file: third-party
/// unless the workspace and that source root are nested either way; no such install: not third-party
pub open spec fn op_editable_third_party(rs: Seq<PV>, ws: Option<PV>, file: PV) -> bool
    decreases rs.len()
{
    if rs.len() == 0 { false }
    else if pv_is_prefix(rs[0], file) {
        match ws { Some(w) => !(pv_is_prefix(w, rs[0]) || pv_is_prefix(rs[0], w)), None => true }
    } else { op_editable_third_party(rs.drop_first(), ws, file) }
}
/// "lives in a site-packages directory": a whole path component named site-packages, looked for only BELOW the
/// workspace root for files inside the workspace (so that where the workspace lives does not matter), in the whole
/// path otherwise / when no workspace root is known
pub open spec fn sp_name() -> Seq<char> { "site-packages"@ }
pub open spec fn has_sp_component(p: PV) -> bool { exists|i: int| 0 <= i < p.len() && #[trigger] p[i] == sp_name() }
pub open spec fn op_in_site_packages(ws: Option<PV>, file: PV) -> bool {
    match ws {
        Some(w) => if pv_is_prefix(w, file) { has_sp_component(file.skip(w.len() as int)) } else { has_sp_component(file) },
        None => has_sp_component(file),
    }
}
