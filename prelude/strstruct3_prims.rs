// ---------------------------------------------------------------------------------------------
// Unit strings_struct3: further ASSUMED primitives of the two remaining text-fallback helpers of src/fixtures/resolver.rs
// (trusted base; continues prelude/strstruct_prims.rs P0..P15 and prelude/strstruct_prims2.rs P16..P19).  Every
// `assume_specification`, `axiom` and `external_body` helper named here is an ASSUMED statement about a std function,
// written to be TRUE of the real function (documented behaviour), nothing more.
//   P20 str::rfind(pat)       pat a `&str` or a `char`: byte offset boff(s, k) of the LAST char index k at which the pattern
//                             occurs (rfind_k, a defined function), None iff it occurs nowhere
//   P21 `&&str` as a Pattern  searches like the `&str` it points to (core: `impl Pattern for &&str` delegates): axiom_pat_refstr
//   P22 str slicing followed by a search / iteration, taken VERBATIM from the source by @wrapexpr_opt (the helpers are
//                             generated in the unit; their contracts are P13 composed with P4 / P20 / vstd's `str::chars`):
//         `s[a..].chars()`        REQUIRES a <= len, a a char boundary;  yields the characters from the one that starts at byte a
//         `s[a..].find(c)`        REQUIRES the same;  find_b of that suffix (offset RELATIVE to a)
//         `s[a..].rfind(c)`       REQUIRES the same;  rfind_b of that suffix (offset RELATIVE to a)
//         `&s[a..b]`              REQUIRES a <= b <= len, both char boundaries;  the characters in between
//       (the real index expressions panic exactly when these preconditions fail: they are proof obligations of the
//        callers - property C11 - not assumptions.  lemma_bnd_is_vstd_boundary PROVES that the char-level precondition
//        is_bnd implies vstd's own byte-level one, `is_char_boundary(s.spec_bytes(), a)`.)
//   P23 axiom_str_ext         a `str` value is determined by its characters: a@ == b@ ==> a == b.  Needed because Verus encodes
//                             `match s { "lit" => .. }` as `s == "lit"` on str VALUES while std compares contents; the encoding
//                             itself presupposes this extensionality
//   P24 str::to_lowercase     r@ == lower_v(s@)   (lower_v uninterpreted; what it does to ASCII lowercase text is the explicit
//                             hypothesis lower_laws() of the L2 lemmas that need it, not an axiom)
//   P25 for x in &[a, b]      vstd (array reference iteration); no assumption added

// ---- P20 rfind ----------------------------------------------------------------------------------------------------------
/// last character index <= k at which the pattern occurs
pub open spec fn rfind_to(s: Seq<char>, p: PatV, k: int) -> Option<int>
    decreases k + 1
{
    if k < 0 { None } else if occurs_at(s, p, k) { Some(k) } else { rfind_to(s, p, k - 1) }
}
pub open spec fn rfind_k(s: Seq<char>, p: PatV) -> Option<int> { rfind_to(s, p, s.len() as int) }
/// what `str::rfind` returns: the BYTE offset of that character
pub open spec fn rfind_b(s: Seq<char>, p: PatV) -> Option<usize> {
    match rfind_k(s, p) { Some(k) => Some(boff(s, k) as usize), None => None }
}
#[verifier::allow(undeclared_external_trait)]
pub assume_specification<P: core::str::pattern::Pattern>[ str::rfind::<P> ](s: &str, p: P) -> (r: Option<usize>)
    where for<'a> P::Searcher<'a>: core::str::pattern::ReverseSearcher<'a>
    requires !(pat_v(p) is Other),
    ensures r == rfind_b(s@, pat_v(p));

/// PROVED: what rfind_to means
pub proof fn lemma_rfind_to(s: Seq<char>, p: PatV, k: int)
    requires k <= s.len(),
    ensures match rfind_to(s, p, k) {
        Some(i) => 0 <= i <= k && occurs_at(s, p, i) && (forall|j: int| i < j <= k ==> !occurs_at(s, p, j)),
        None => forall|j: int| 0 <= j <= k ==> !occurs_at(s, p, j),
    },
    decreases k + 1,
{
    if k >= 0 && !occurs_at(s, p, k) { lemma_rfind_to(s, p, k - 1); }
}
/// PROVED: a hit of `rfind` lies inside the string, nothing occurs after it
pub proof fn lemma_rfind_k(s: Seq<char>, p: PatV)
    ensures match rfind_k(s, p) {
        Some(i) => 0 <= i && i + pat_len(p) <= s.len() && occurs_at(s, p, i) && (forall|j: int| i < j <= s.len() ==> !occurs_at(s, p, j))
            && boff(s, i) <= boff(s, i + pat_len(p)) <= blen(s),
        None => forall|j: int| 0 <= j <= s.len() ==> !occurs_at(s, p, j),
    },
{
    lemma_rfind_to(s, p, s.len() as int);
    if let Some(i) = rfind_k(s, p) {
        lemma_blen_split(s, i + pat_len(p));
        if pat_len(p) > 0 { lemma_boff_mono(s, i, i + pat_len(p)); }
    }
}

// ---- P21 / P23 / P24 ----------------------------------------------------------------------------------------------------
pub uninterp spec fn lower_v(s: Seq<char>) -> Seq<char>;
pub assume_specification[ str::to_lowercase ](s: &str) -> (r: String)
    ensures r@ == lower_v(s@);
pub mod strstruct3_ax {
    use super::*;
    /// P21
    pub broadcast axiom fn axiom_pat_refstr<'a, 'b>(p: &'a &'b str)
        ensures #[trigger] pat_v::<&'a &'b str>(p) == PatV::Str((*p)@);
    /// P23
    pub broadcast axiom fn axiom_str_ext(a: &str, b: &str)
        ensures #[trigger] a@ == #[trigger] b@ ==> a == b;
}
pub use strstruct3_ax::*;

// ---- PROVED: the char-level boundary notion is vstd's byte-level one (vstd::utf8 model; no assumption) -----------------------
pub proof fn lemma_first_scalar_concat(b1: Seq<u8>, b2: Seq<u8>)
    requires b1.len() > 0, vstd::utf8::valid_first_scalar(b1),
    ensures vstd::utf8::valid_first_scalar(b1 + b2),
        vstd::utf8::length_of_first_scalar(b1 + b2) == vstd::utf8::length_of_first_scalar(b1),
        0 < vstd::utf8::length_of_first_scalar(b1) <= b1.len(),
        vstd::utf8::pop_first_scalar(b1 + b2) =~= vstd::utf8::pop_first_scalar(b1) + b2,
{
    let c = b1 + b2;
    assert(c[0] == b1[0]);
    if b1.len() >= 2 { assert(c[1] == b1[1]); }
    if b1.len() >= 3 { assert(c[2] == b1[2]); }
    if b1.len() >= 4 { assert(c[3] == b1[3]); }
}
pub proof fn lemma_concat_boundary(b1: Seq<u8>, b2: Seq<u8>)
    requires vstd::utf8::valid_utf8(b1), vstd::utf8::valid_utf8(b2),
    ensures vstd::utf8::valid_utf8(b1 + b2), vstd::utf8::is_char_boundary(b1 + b2, b1.len() as int),
    decreases b1.len(),
{
    vstd::utf8::valid_utf8_concat(b1, b2);
    if b1.len() > 0 {
        lemma_first_scalar_concat(b1, b2);
        lemma_concat_boundary(vstd::utf8::pop_first_scalar(b1), b2);
    }
}
/// a char boundary in the sense of is_bnd (the precondition of the P13 / P22 slicing helpers) is a char boundary in the
/// sense of vstd's contract for `str` range indexing, and lies inside the string
pub proof fn lemma_bnd_is_vstd_boundary(s: &str, n: int)
    requires is_bnd(s@, n),
    ensures 0 <= n <= s.spec_bytes().len(), vstd::utf8::is_char_boundary(s.spec_bytes(), n),
{
    let k = cidx(s@, n);
    let a = s@.take(k); let b = s@.skip(k);
    assert(s@ =~= a + b);
    vstd::utf8::encode_utf8_concat(a, b);
    vstd::utf8::encode_utf8_valid_utf8(a); vstd::utf8::encode_utf8_valid_utf8(b);
    lemma_concat_boundary(vstd::utf8::encode_utf8(a), vstd::utf8::encode_utf8(b));
    lemma_fits(s);
}
