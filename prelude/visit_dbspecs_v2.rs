// ---------------------------------------------------------------------------------------------
// "the database moved from o to s by recording the definitions ds and the usages us (in that order, through
// record_fixture_definition / record_fixture_usage) and touching nothing else" -- the relation every visitor
// establishes.  Needs the FixtureDatabase of the unit (fields definitions, file_definitions, usages,
// usage_by_fixture, definitions_version, file_cache, undeclared_fixtures, imports), prelude/index_dbspecs.rs,
// prelude/analyze_spec.rs (push_defs ...), prelude/visit_spec.rs (bumpn).
// v2 (units visit_v2 / analyze_v2): rec_rel additionally carries `vframe` (prelude/visit_env.rs): NO other field of
// the all-fields database struct changes.  Needs prelude/index_dbspecs_all.rs (rest() over all non-index fields) and
// prelude/visit_env.rs.  A reader that includes the old prelude/visit_dbspecs.rs reads a WEAKER rec_rel (sound).
pub open spec fn undecl_frame(m0: Map<PV, Vec<UndeclaredFixture>>, m1: Map<PV, Vec<UndeclaredFixture>>, f: PV) -> bool {
    m1.remove(f) == m0.remove(f)
}
#[verifier::opaque]
pub open spec fn rec_rel(o: FixtureDatabase, s: FixtureDatabase, ds: Seq<DefV>, us: Seq<UseV>, f: PV) -> bool {
    &&& s.defs() == push_defs(o.defs(), ds)
    &&& s.fdefs() == add_fdefs(o.fdefs(), ds)
    &&& s.uses() == push_uses(o.uses(), us)
    &&& s.byfix() == push_byfix(o.byfix(), us)
    &&& s.version() == bumpn(o.version(), ds.len() as int)
    &&& s.file_cache == o.file_cache
    &&& s.imports == o.imports
    &&& undecl_frame(o.undeclared_fixtures.m(), s.undeclared_fixtures.m(), f)
    &&& vframe(o, s)
}
pub proof fn lemma_rec_refl(o: FixtureDatabase, f: PV)
    ensures rec_rel(o, o, Seq::empty(), Seq::empty(), f)
{
    reveal(rec_rel);
}
pub proof fn lemma_rec_trans(o: FixtureDatabase, a: FixtureDatabase, b: FixtureDatabase, d1: Seq<DefV>, u1: Seq<UseV>, d2: Seq<DefV>, u2: Seq<UseV>, f: PV)
    requires rec_rel(o, a, d1, u1, f), rec_rel(a, b, d2, u2, f),
    ensures rec_rel(o, b, d1 + d2, u1 + u2, f),
{
    reveal(rec_rel);
    lemma_push_defs_concat(o.defs(), d1, d2);
    lemma_add_fdefs_concat(o.fdefs(), d1, d2);
    lemma_push_uses_concat(o.uses(), u1, u2);
    lemma_push_byfix_concat(o.byfix(), u1, u2);
    lemma_bumpn_add(o.version(), d1.len() as int, d2.len() as int);
    let m0 = o.undeclared_fixtures.m(); let m1 = a.undeclared_fixtures.m(); let m2 = b.undeclared_fixtures.m();
    assert(m2.remove(f) == m0.remove(f));
}
/// one record_fixture_usage call (its proved postcondition is the hypothesis)
pub proof fn lemma_rec_use(o: FixtureDatabase, a: FixtureDatabase, b: FixtureDatabase, ds: Seq<DefV>, us: Seq<UseV>, x: UseV, f: PV)
    requires rec_rel(o, a, ds, us, f),
        b.uses() == a.uses().insert(x.file, bucket(a.uses(), x.file).push(x)),
        b.byfix() == a.byfix().insert(x.name, bucket(a.byfix(), x.name).push((x.file, x))),
        b.definitions == a.definitions, b.file_definitions == a.file_definitions,
        b.definitions_version == a.definitions_version, b.rest() == a.rest(),
    ensures rec_rel(o, b, ds, us.push(x), f),
{
    reveal(rec_rel);
    let t = us.push(x);
    assert(t.drop_last() =~= us);
    assert(t.last() == x);
}
/// one record_fixture_definition call
pub proof fn lemma_rec_def(o: FixtureDatabase, a: FixtureDatabase, b: FixtureDatabase, ds: Seq<DefV>, us: Seq<UseV>, x: DefV, f: PV)
    requires rec_rel(o, a, ds, us, f),
        b.defs() == a.defs().insert(x.name, bucket(a.defs(), x.name).push(x)),
        b.fdefs() == a.fdefs().insert(x.file, sbucket(a.fdefs(), x.file).insert(x.name)),
        b.version() == bump1(a.version()),
        b.usages == a.usages, b.usage_by_fixture == a.usage_by_fixture, b.rest() == a.rest(),
    ensures rec_rel(o, b, ds.push(x), us, f),
{
    reveal(rec_rel);
    let t = ds.push(x);
    assert(t.drop_last() =~= ds);
    assert(t.last() == x);
}
/// a callee that may only touch undeclared_fixtures[f]
pub proof fn lemma_rec_undecl(o: FixtureDatabase, a: FixtureDatabase, b: FixtureDatabase, ds: Seq<DefV>, us: Seq<UseV>, f: PV)
    requires rec_rel(o, a, ds, us, f),
        b.definitions == a.definitions, b.file_definitions == a.file_definitions, b.usages == a.usages,
        b.usage_by_fixture == a.usage_by_fixture, b.definitions_version == a.definitions_version,
        b.file_cache == a.file_cache, b.imports == a.imports,
        undecl_frame(a.undeclared_fixtures.m(), b.undeclared_fixtures.m(), f),
        vframe(a, b),
    ensures rec_rel(o, b, ds, us, f),
{
    reveal(rec_rel);
    assert(b.undeclared_fixtures.m().remove(f) == o.undeclared_fixtures.m().remove(f));
}
/// rec_rel spelled out (for callers that want the conjuncts: unit analyze)
pub proof fn lemma_rec_open(o: FixtureDatabase, s: FixtureDatabase, ds: Seq<DefV>, us: Seq<UseV>, f: PV)
    requires rec_rel(o, s, ds, us, f),
    ensures
        s.defs() == push_defs(o.defs(), ds), s.fdefs() == add_fdefs(o.fdefs(), ds),
        s.uses() == push_uses(o.uses(), us), s.byfix() == push_byfix(o.byfix(), us),
        s.version() == bumpn(o.version(), ds.len() as int),
        s.file_cache == o.file_cache, s.imports == o.imports,
        undecl_frame(o.undeclared_fixtures.m(), s.undeclared_fixtures.m(), f),
        vframe(o, s),
        // ... hence the environment hypothesis survives
        o.env_ok() ==> s.env_ok(),
{
    reveal(rec_rel);
}
