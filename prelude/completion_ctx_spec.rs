// ---------------------------------------------------------------------------------------------
// Operational specification of the AST path of FixtureDatabase::get_completion_context (src/fixtures/resolver.rs):
// WHICH completion context a cursor line gets, as functions of the real rustpython AST.  Written from property C18
// ("fixture names are offered when, and only when, the cursor is inside the signature or body of a test or fixture
// function or inside a usefixtures / indirect-parametrize argument list ... minus names already declared as
// parameters ... inside a fixture - minus fixtures of narrower scope").
// Needs: build/astspec.rs, prelude/ast_spec.rs (decorator forms, spec_kw / kw_scope_fn, has_fixture_decorator,
// opt_or, first_some), prelude/line_spec.rs + bytes.rs (op_line / ints), prelude/types.rs (FixtureScope).
pub type CArguments = rustpython_parser::ast::Arguments;
pub type CArg = rustpython_parser::ast::ArgWithDefault;

#[verifier::external_type_specification] pub struct ExCompletionContext(CompletionContext);

// ---- abstract inputs -----------------------------------------------------------------------------------------
/// `func_name.as_str().starts_with("test")` (string code: the text of the name decides, nothing else) -- pytest's default
/// `python_functions` prefix, no underscore required (F-03f repaired): the name begins with the four characters t e s t.
/// Opaque: the proofs about the real bodies use it as an uninterpreted predicate; only lemmas about concrete names reveal it.
#[verifier::opaque]
pub open spec fn is_test_name(name: Seq<char>) -> bool { name.len() >= 4 && name.subrange(0, 4) == "test"@ }
/// find_signature_end_line (resolver.rs ~1183): the 1-based line on which the signature ends = op_sig_end
/// (prelude/sigend_spec.rs), PROVED for the real body in unit sig_end and imported here by `//@stub sig_end`
pub open spec fn sig_end_line(func_start_line: usize, args: CArguments, returns: Option<Box<Expr>>, body: Seq<Stmt>,
                              content: Seq<char>, li: Seq<usize>) -> int { op_sig_end(func_start_line, args, returns, body, content, li) }
/// 1-based line of a byte offset: what get_line_from_offset is PROVED to return (unit line_index)
pub open spec fn lno(li: Seq<usize>, off: usize) -> int { op_line(ints(li), off as int) }

// ---- parameters ----------------------------------------------------------------------------------------------
/// ALL parameters that can carry a fixture request, in source-category order: positional-only (before `/`), regular,
/// keyword-only (after `*`).  `*args` / `**kwargs` are not ArgWithDefault and never name a fixture.
pub open spec fn all_params(a: CArguments) -> Seq<CArg> { a.posonlyargs@ + a.args@ + a.kwonlyargs@ }
pub open spec fn pname(a: CArg) -> Seq<char> { idv(&a.def.arg) }
pub open spec fn pname_fn() -> spec_fn(CArg) -> Seq<char> { |a: CArg| pname(a) }
/// the names "already declared as parameters"
pub open spec fn declared_names(a: CArguments) -> Seq<Seq<char>> { all_params(a).map_values(pname_fn()) }

// ---- the scope of the fixture being edited -------------------------------------------------------------------
/// the `scope=` a decorator carries (None: not a called fixture decorator / no usable `scope=` literal)
pub open spec fn deco_scope_fn() -> spec_fn(Expr) -> Option<FixtureScope> { |d: Expr| spec_kw(&d, kw_scope_fn()) }
/// FIRST decorator (source order) that carries a scope; a fixture without one has pytest's default, function scope
pub open spec fn fixture_scope_of(decos: Seq<Expr>) -> FixtureScope {
    match first_some(decos, deco_scope_fn(), 0) { Some(s) => s, None => FixtureScope::Function }
}

/// what `decorator_list.iter().find_map(extract_fixture_scope).unwrap_or(Function)` establishes (object level: the
/// slice iterator yields references); lifted to fixture_scope_of by lemma_scope_post
pub open spec fn scope_post(s: Seq<&Expr>, scope: FixtureScope) -> bool {
    ||| exists|i: int| 0 <= i < s.len() && spec_kw(#[trigger] s[i], kw_scope_fn()) == Some(scope)
            && (forall|j: int| 0 <= j < i ==> spec_kw(#[trigger] s[j], kw_scope_fn()) is None)
    ||| scope == FixtureScope::Function && (forall|j: int| 0 <= j < s.len() ==> spec_kw(#[trigger] s[j], kw_scope_fn()) is None)
}
pub proof fn lemma_scope_post(ds: Seq<Expr>, scope: FixtureScope)
    requires scope_post(ds.as_ref(), scope),
    ensures scope == fixture_scope_of(ds),
{
    let s = ds.as_ref();
    let g = deco_scope_fn();
    if exists|i: int| 0 <= i < s.len() && spec_kw(#[trigger] s[i], kw_scope_fn()) == Some(scope)
            && (forall|j: int| 0 <= j < i ==> spec_kw(#[trigger] s[j], kw_scope_fn()) is None) {
        let i = choose|i: int| 0 <= i < s.len() && spec_kw(#[trigger] s[i], kw_scope_fn()) == Some(scope)
            && (forall|j: int| 0 <= j < i ==> spec_kw(#[trigger] s[j], kw_scope_fn()) is None);
        assert forall|j: int| 0 <= j < i implies g(#[trigger] ds[j]) is None by { let y = s[j]; }
        lemma_first_some_from(ds, g, i, 0);
        assert(*s[i] == ds[i]);
    } else {
        assert forall|j: int| 0 <= j < ds.len() implies g(#[trigger] ds[j]) is None by { let y = s[j]; }
        lemma_first_some_from(ds, g, ds.len() as int, 0);
    }
}

// ---- views of the result -------------------------------------------------------------------------------------
pub struct FnCtxV {
    pub in_signature: bool,          // FunctionSignature (true) / FunctionBody (false)
    pub name: Seq<char>, pub line: int, pub is_fixture: bool,
    pub declared: Seq<Seq<char>>, pub scope: Option<FixtureScope>,
}
pub enum CtxV { Func(FnCtxV), Usefixtures, Parametrize }
pub open spec fn ccv(c: CompletionContext) -> CtxV {
    match c {
        CompletionContext::FunctionSignature { function_name, function_line, is_fixture, declared_params, fixture_scope } =>
            CtxV::Func(FnCtxV { in_signature: true, name: function_name@, line: function_line as int, is_fixture,
                                declared: str_views(declared_params@), scope: fixture_scope }),
        CompletionContext::FunctionBody { function_name, function_line, is_fixture, declared_params, fixture_scope } =>
            CtxV::Func(FnCtxV { in_signature: false, name: function_name@, line: function_line as int, is_fixture,
                                declared: str_views(declared_params@), scope: fixture_scope }),
        CompletionContext::UsefixturesDecorator => CtxV::Usefixtures,
        CompletionContext::ParametrizeIndirect => CtxV::Parametrize,
    }
}
pub open spec fn opt_ccv(o: Option<CompletionContext>) -> Option<CtxV> {
    match o { Some(c) => Some(ccv(c)), None => None }
}

// ---- one function definition ---------------------------------------------------------------------------------
/// get_func_context: the context ONE (sync or async) function definition gives the cursor line.
///   None   the line is outside [line(range.start), line(range.end)] of the definition's AST range (whatever the
///          parser makes that range cover -- with or without the decorator lines: not modelled), or the function is
///          neither `test*` nor fixture-decorated
///   Some   signature iff line <= sig_end_line, else body; name; line of the `def`; is_fixture; declared = names of
///          ALL parameters; scope = Some(scope of the fixture) inside a fixture, None inside a test
pub open spec fn spec_func_ctx(name: Identifier, decos: Seq<Expr>, args: CArguments, returns: Option<Box<Expr>>,
        body: Seq<Stmt>, range: TextRange, content: Seq<char>, tl: usize, li: Seq<usize>) -> Option<CtxV> {
    let s = lno(li, tsv(tr_start(range)));
    let e = lno(li, tsv(tr_end(range)));
    let is_fix = has_fixture_decorator(decos);
    if tl < s || tl > e { None }
    else if !is_test_name(idv(&name)) && !is_fix { None }
    else {
        Some(CtxV::Func(FnCtxV {
            in_signature: tl <= sig_end_line(s as usize, args, returns, body, content, li),
            name: idv(&name), line: s, is_fixture: is_fix,
            declared: declared_names(args),
            scope: if is_fix { Some(fixture_scope_of(decos)) } else { None },
        }))
    }
}

// ---- a statement list ----------------------------------------------------------------------------------------
/// get_function_completion_context: the FIRST statement (source order) that gives a context; function definitions
/// by spec_func_ctx, class definitions by their body (methods, nested classes); nothing else is looked into
/// (functions nested in functions, `if TYPE_CHECKING:` blocks ... give no context of their own)
pub open spec fn fc_stmt(s: Stmt, content: Seq<char>, tl: usize, li: Seq<usize>) -> Option<CtxV>
    decreases s, 0int
{
    match s {
        Stmt::FunctionDef(f) => spec_func_ctx(f.name, f.decorator_list@, *f.args, f.returns, f.body@, f.range, content, tl, li),
        Stmt::AsyncFunctionDef(f) => spec_func_ctx(f.name, f.decorator_list@, *f.args, f.returns, f.body@, f.range, content, tl, li),
        Stmt::ClassDef(c) => fc_from(c.body@, 0, content, tl, li),
        _ => None,
    }
}
pub open spec fn fc_from(b: Seq<Stmt>, k: int, content: Seq<char>, tl: usize, li: Seq<usize>) -> Option<CtxV>
    decreases b, b.len() - k
{
    if k < 0 || k >= b.len() { None } else { opt_or(fc_stmt(b[k], content, tl, li), fc_from(b, k + 1, content, tl, li)) }
}
pub open spec fn spec_first_ctx(stmts: Seq<Stmt>, content: Seq<char>, tl: usize, li: Seq<usize>) -> Option<CtxV> {
    fc_from(stmts, 0, content, tl, li)
}

// ---- decorators and pytestmark assignments (check_decorator_context) -----------------------------------------
/// `expr.range()` / `stmt.range()` (trait Ranged: the node's own `range` field, through a generated 27- / 28-arm
/// match): left abstract, a function of the node
pub uninterp spec fn expr_range(e: Expr) -> TextRange;
pub uninterp spec fn stmt_range(s: Stmt) -> TextRange;
pub assume_specification[ <Expr as rustpython_parser::ast::Ranged>::range ](e: &Expr) -> (r: TextRange)
    ensures r == expr_range(*e);
pub assume_specification[ <Stmt as rustpython_parser::ast::Ranged>::range ](s: &Stmt) -> (r: TextRange)
    ensures r == stmt_range(*s);
/// the cursor line lies within the lines a source range touches
pub open spec fn in_lines(rg: TextRange, tl: usize, li: Seq<usize>) -> bool {
    lno(li, tsv(tr_start(rg))) <= tl <= lno(li, tsv(tr_end(rg)))
}
/// one decorator: the cursor line is on it and it is a usefixtures mark (-> Usefixtures) or, failing that, a
/// parametrize mark (-> Parametrize).  NOTE (as the code is written): ANY parametrize mark counts, with or without
/// `indirect=`, and the whole decorator counts, not only its argument list.
pub open spec fn deco_ctx(d: Expr, tl: usize, li: Seq<usize>) -> Option<CtxV> {
    if !in_lines(expr_range(d), tl, li) { None }
    else if spec_is_mark(&d, "usefixtures"@) { Some(CtxV::Usefixtures) }
    else if spec_is_mark(&d, "parametrize"@) { Some(CtxV::Parametrize) }
    else { None }
}
pub open spec fn decos_ctx(ds: Seq<Expr>, k: int, tl: usize, li: Seq<usize>) -> Option<CtxV>
    decreases ds.len() - k
{
    if k < 0 || k >= ds.len() { None } else { opt_or(deco_ctx(ds[k], tl, li), decos_ctx(ds, k + 1, tl, li)) }
}
/// the decorators check_decorator_context looks at: those of functions and classes
pub open spec fn stmt_decos(s: Stmt) -> Option<Seq<Expr>> {
    match s {
        Stmt::FunctionDef(f) => Some(f.decorator_list@),
        Stmt::AsyncFunctionDef(f) => Some(f.decorator_list@),
        Stmt::ClassDef(c) => Some(c.decorator_list@),
        _ => None,
    }
}
pub open spec fn is_pytestmark_name(e: Expr) -> bool {
    match e { Expr::Name(n) => idv(&n.id) == "pytestmark"@, _ => false }
}
/// the value of `pytestmark = ...` (some target is the bare name) / `pytestmark: T = ...` (None without a value)
pub open spec fn spec_pytestmark_value(s: Stmt) -> Option<Expr> {
    match s {
        Stmt::Assign(a) => if exists|i: int| 0 <= i < a.targets@.len() && is_pytestmark_name(#[trigger] a.targets@[i]) { Some(*a.value) } else { None },
        Stmt::AnnAssign(a) => if is_pytestmark_name(*a.target) { match a.value { Some(v) => Some(*v), None => None } } else { None },
        _ => None,
    }
}
/// cursor_inside_usefixtures_call: the cursor line is on some `pytest.mark.usefixtures(...)` CALL inside the value
/// (the value itself, or an element of a list / tuple, any nesting)
pub open spec fn inside_uf(e: Expr, tl: usize, li: Seq<usize>) -> bool
    decreases e, 0int
{
    match e {
        Expr::Call(c) => spec_is_mark(&*c.func, "usefixtures"@) && in_lines(expr_range(e), tl, li),
        Expr::List(l) => inside_uf_any(l.elts@, 0, tl, li),
        Expr::Tuple(t) => inside_uf_any(t.elts@, 0, tl, li),
        _ => false,
    }
}
pub open spec fn inside_uf_any(es: Seq<Expr>, k: int, tl: usize, li: Seq<usize>) -> bool
    decreases es, es.len() - k
{
    if k < 0 || k >= es.len() { false } else { inside_uf(es[k], tl, li) || inside_uf_any(es, k + 1, tl, li) }
}
/// what the exec function establishes about its result (object level: its body is one `match` expression, and the
/// list / tuple arms are `iter().any(recursive closure)`); lifted to inside_uf by lemma_inside_post
pub open spec fn inside_post(e: Expr, tl: usize, li: Seq<usize>, r: bool) -> bool
    decreases e
{
    match e {
        Expr::Call(c) => r == (spec_is_mark(&*c.func, "usefixtures"@) && in_lines(expr_range(e), tl, li)),
        // (the two quantified arms are written out -- not a helper function -- so that ONE unfolding of inside_post
        // exposes them to the solver; `es.as_ref()[i]` is what the slice iterator yields: the trigger)
        Expr::List(l) => if r { exists|i: int| 0 <= i < l.elts@.len() && #[trigger] l.elts@.as_ref()[i] == &l.elts@[i] && inside_post(*l.elts@.as_ref()[i], tl, li, true) }
            else { forall|j: int| 0 <= j < l.elts@.len() ==> (#[trigger] l.elts@.as_ref()[j] == &l.elts@[j] ==> inside_post(*l.elts@.as_ref()[j], tl, li, false)) },
        Expr::Tuple(t) => if r { exists|i: int| 0 <= i < t.elts@.len() && #[trigger] t.elts@.as_ref()[i] == &t.elts@[i] && inside_post(*t.elts@.as_ref()[i], tl, li, true) }
            else { forall|j: int| 0 <= j < t.elts@.len() ==> (#[trigger] t.elts@.as_ref()[j] == &t.elts@[j] ==> inside_post(*t.elts@.as_ref()[j], tl, li, false)) },
        _ => !r,
    }
}
pub proof fn lemma_inside_uf_any(es: Seq<Expr>, k: int, tl: usize, li: Seq<usize>)
    requires 0 <= k,
    ensures inside_uf_any(es, k, tl, li) == (exists|i: int| k <= i < es.len() && inside_uf(#[trigger] es[i], tl, li)),
    decreases es.len() - k
{
    if k < es.len() {
        lemma_inside_uf_any(es, k + 1, tl, li);
        if inside_uf(es[k], tl, li) { assert(k <= k < es.len() && inside_uf(es[k], tl, li)); }
    }
}
pub proof fn lemma_inside_post(e: Expr, tl: usize, li: Seq<usize>, r: bool)
    requires inside_post(e, tl, li, r),
    ensures r == inside_uf(e, tl, li),
    decreases e
{
    match e {
        Expr::List(l) => {
            let es = l.elts@;
            lemma_inside_uf_any(es, 0, tl, li);
            if r {
                let i = choose|i: int| 0 <= i < es.len() && #[trigger] es.as_ref()[i] == &es[i] && inside_post(*es.as_ref()[i], tl, li, true);
                lemma_inside_post(es[i], tl, li, true);
            } else {
                assert forall|j: int| 0 <= j < es.len() implies !inside_uf(#[trigger] es[j], tl, li) by {
                    let y = es.as_ref()[j];
                    lemma_inside_post(es[j], tl, li, false);
                }
            }
        }
        Expr::Tuple(t) => {
            let es = t.elts@;
            lemma_inside_uf_any(es, 0, tl, li);
            if r {
                let i = choose|i: int| 0 <= i < es.len() && #[trigger] es.as_ref()[i] == &es[i] && inside_post(*es.as_ref()[i], tl, li, true);
                lemma_inside_post(es[i], tl, li, true);
            } else {
                assert forall|j: int| 0 <= j < es.len() implies !inside_uf(#[trigger] es[j], tl, li) by {
                    let y = es.as_ref()[j];
                    lemma_inside_post(es[j], tl, li, false);
                }
            }
        }
        _ => {}
    }
}

/// one statement: its decorators first, then a pytestmark assignment, then (classes) the body
pub open spec fn dc_stmt(s: Stmt, tl: usize, li: Seq<usize>) -> Option<CtxV>
    decreases s, 0int
{
    let by_deco = match stmt_decos(s) { Some(ds) => decos_ctx(ds, 0, tl, li), None => None };
    let by_mark = match spec_pytestmark_value(s) {
        Some(v) => if in_lines(stmt_range(s), tl, li) && inside_uf(v, tl, li) { Some(CtxV::Usefixtures) } else { None },
        None => None,
    };
    let by_class = match s { Stmt::ClassDef(c) => dc_from(c.body@, 0, tl, li), _ => None };
    opt_or(by_deco, opt_or(by_mark, by_class))
}
pub open spec fn dc_from(b: Seq<Stmt>, k: int, tl: usize, li: Seq<usize>) -> Option<CtxV>
    decreases b, b.len() - k
{
    if k < 0 || k >= b.len() { None } else { opt_or(dc_stmt(b[k], tl, li), dc_from(b, k + 1, tl, li)) }
}
pub open spec fn spec_deco_ctx(stmts: Seq<Stmt>, tl: usize, li: Seq<usize>) -> Option<CtxV> { dc_from(stmts, 0, tl, li) }

// ---- the whole query -------------------------------------------------------------------------------------------
pub type CMod = rustpython_parser::ast::Mod;
/// the parser as a function of the text (get_parsed_ast memoises it by content hash)
pub uninterp spec fn parse_ok(src: Seq<char>) -> bool;
pub uninterp spec fn ast_of(src: Seq<char>) -> CMod;
/// the line index of a text (get_line_index memoises build_line_index: unit line_index)
pub uninterp spec fn src_line_index(src: Seq<char>) -> Seq<usize>;
/// get_completion_context_from_text (resolver.rs 628-986: the fallback scanner for text that does not parse):
/// left abstract, a function of (text, 1-based line)
pub uninterp spec fn text_ctx(src: Seq<char>, tl: usize) -> Option<CtxV>;
/// get_completion_context: no text -> None; the text parses to a module -> decorator context, else function context,
/// else the text fallback; it does not parse (or not to a module) -> the text fallback alone
pub open spec fn spec_completion_ctx(content: Option<Seq<char>>, line: u32) -> Option<CtxV> {
    match content {
        None => None,
        Some(c) => {
            let tl = (line as usize + 1) as usize;
            let li = src_line_index(c);
            let ast_ctx = if parse_ok(c) {
                match ast_of(c) {
                    rustpython_parser::ast::Mod::Module(m) => opt_or(spec_deco_ctx(m.body@, tl, li), spec_first_ctx(m.body@, c, tl, li)),
                    _ => None,
                }
            } else { None };
            opt_or(ast_ctx, text_ctx(c, tl))
        }
    }
}

// ---- is_inside_function / find_enclosing_function (`#[allow(dead_code)]`: used by the test-suite only) ---------
/// (name, is_fixture, declared parameters)
pub type EnclV = (Seq<char>, bool, Seq<Seq<char>>);
pub open spec fn encl_v(t: (String, bool, Vec<String>)) -> EnclV { (t.0@, t.1, str_views(t.2@)) }
pub open spec fn opt_encl_v(o: Option<(String, bool, Vec<String>)>) -> Option<EnclV> {
    match o { Some(t) => Some(encl_v(t)), None => None }
}
/// AS THE CODE IS WRITTEN (stated, not hidden): unlike get_func_context this helper lists the REGULAR parameters
/// only (`args.args`: no positional-only, no keyword-only ones) and does NOT look into class bodies (methods).
pub open spec fn regular_names(a: CArguments) -> Seq<Seq<char>> { a.args@.map_values(pname_fn()) }
pub open spec fn encl_of(name: Identifier, decos: Seq<Expr>, args: CArguments, range: TextRange, tl: usize, li: Seq<usize>) -> Option<EnclV> {
    if in_lines(range, tl, li) && (is_test_name(idv(&name)) || has_fixture_decorator(decos)) {
        Some((idv(&name), has_fixture_decorator(decos), regular_names(args)))
    } else { None }
}
pub open spec fn encl_stmt(s: Stmt, tl: usize, li: Seq<usize>) -> Option<EnclV> {
    match s {
        Stmt::FunctionDef(f) => encl_of(f.name, f.decorator_list@, *f.args, f.range, tl, li),
        Stmt::AsyncFunctionDef(f) => encl_of(f.name, f.decorator_list@, *f.args, f.range, tl, li),
        _ => None,
    }
}
pub open spec fn encl_from(b: Seq<Stmt>, k: int, tl: usize, li: Seq<usize>) -> Option<EnclV>
    decreases b.len() - k
{
    if k < 0 || k >= b.len() { None } else { opt_or(encl_stmt(b[k], tl, li), encl_from(b, k + 1, tl, li)) }
}
pub open spec fn spec_enclosing(stmts: Seq<Stmt>, content: Seq<char>, tl: usize) -> Option<EnclV> {
    encl_from(stmts, 0, tl, src_line_index(content))
}
pub open spec fn spec_is_inside(content: Option<Seq<char>>, line: u32) -> Option<EnclV> {
    match content {
        None => None,
        Some(c) => if parse_ok(c) {
            match ast_of(c) {
                rustpython_parser::ast::Mod::Module(m) => spec_enclosing(m.body@, c, (line as usize + 1) as usize),
                _ => None,
            }
        } else { None },
    }
}
