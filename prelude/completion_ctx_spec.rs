// ---------------------------------------------------------------------------------------------
// Operational specification of the AST path of FixtureDatabase::get_completion_context (src/fixtures/resolver.rs):
// WHICH completion context a cursor line gets, as functions of the real rustpython AST.  Written from property C18
// ("fixture names are offered when, and only when, the cursor is inside the signature or body of a test or fixture
// function or inside a usefixtures / indirect-parametrize argument list ... minus names already declared as
// parameters ... inside a fixture - minus fixtures of narrower scope").
// Needs: build/astspec.rs, prelude/ast_spec.rs (decorator forms, spec_kw / kw_scope_fn, has_fixture_decorator,
// opt_or, first_some), prelude/line_spec.rs + bytes.rs (op_line / ints), prelude/types.rs (FixtureScope).
pub type CArguments = rustpython_parser::ast::Arguments;
pub type CArg = rustpython_parser::ast::ArgWithDefault;

#[verifier::external_type_specification] pub struct ExCompletionContext(CompletionContext);

// ---- abstract inputs -----------------------------------------------------------------------------------------
/// `func_name.as_str().starts_with("test_")` (string code: the text of the name decides, nothing else)
pub uninterp spec fn is_test_name(name: Seq<char>) -> bool;
/// find_signature_end_line (resolver.rs ~1177: AST ranges of the arguments / return annotation / first body statement,
/// then a text scan for a line ending in ':'): the 1-based line on which the signature ends, left abstract
pub uninterp spec fn sig_end_line(func_start_line: usize, args: CArguments, returns: Option<Box<Expr>>, body: Seq<Stmt>,
                                  content: Seq<char>, li: Seq<usize>) -> usize;
/// 1-based line of a byte offset: what get_line_from_offset is PROVED to return (unit line_index)
pub open spec fn lno(li: Seq<usize>, off: usize) -> int { op_line(ints(li), off as int) }

// ---- parameters ----------------------------------------------------------------------------------------------
/// ALL parameters that can carry a fixture request, in source-category order: positional-only (before `/`), regular,
/// keyword-only (after `*`).  `*args` / `**kwargs` are not ArgWithDefault and never name a fixture.
pub open spec fn all_params(a: CArguments) -> Seq<CArg> { a.posonlyargs@ + a.args@ + a.kwonlyargs@ }
pub open spec fn pname(a: CArg) -> Seq<char> { idv(&a.def.arg) }
pub open spec fn pname_fn() -> spec_fn(CArg) -> Seq<char> { |a: CArg| pname(a) }
/// the names "already declared as parameters"
pub open spec fn declared_names(a: CArguments) -> Seq<Seq<char>> { all_params(a).map_values(pname_fn()) }

// ---- the scope of the fixture being edited -------------------------------------------------------------------
/// the `scope=` a decorator carries (None: not a called fixture decorator / no usable `scope=` literal)
pub open spec fn deco_scope_fn() -> spec_fn(Expr) -> Option<FixtureScope> { |d: Expr| spec_kw(&d, kw_scope_fn()) }
/// FIRST decorator (source order) that carries a scope; a fixture without one has pytest's default, function scope
pub open spec fn fixture_scope_of(decos: Seq<Expr>) -> FixtureScope {
    match first_some(decos, deco_scope_fn(), 0) { Some(s) => s, None => FixtureScope::Function }
}

/// what `decorator_list.iter().find_map(extract_fixture_scope).unwrap_or(Function)` establishes (object level: the
/// slice iterator yields references); lifted to fixture_scope_of by lemma_scope_post
pub open spec fn scope_post(s: Seq<&Expr>, scope: FixtureScope) -> bool {
    ||| exists|i: int| 0 <= i < s.len() && spec_kw(#[trigger] s[i], kw_scope_fn()) == Some(scope)
            && (forall|j: int| 0 <= j < i ==> spec_kw(#[trigger] s[j], kw_scope_fn()) is None)
    ||| scope == FixtureScope::Function && (forall|j: int| 0 <= j < s.len() ==> spec_kw(#[trigger] s[j], kw_scope_fn()) is None)
}
pub proof fn lemma_scope_post(ds: Seq<Expr>, scope: FixtureScope)
    requires scope_post(ds.as_ref(), scope),
    ensures scope == fixture_scope_of(ds),
{
    let s = ds.as_ref();
    let g = deco_scope_fn();
    if exists|i: int| 0 <= i < s.len() && spec_kw(#[trigger] s[i], kw_scope_fn()) == Some(scope)
            && (forall|j: int| 0 <= j < i ==> spec_kw(#[trigger] s[j], kw_scope_fn()) is None) {
        let i = choose|i: int| 0 <= i < s.len() && spec_kw(#[trigger] s[i], kw_scope_fn()) == Some(scope)
            && (forall|j: int| 0 <= j < i ==> spec_kw(#[trigger] s[j], kw_scope_fn()) is None);
        assert forall|j: int| 0 <= j < i implies g(#[trigger] ds[j]) is None by { let y = s[j]; }
        lemma_first_some_from(ds, g, i, 0);
        assert(*s[i] == ds[i]);
    } else {
        assert forall|j: int| 0 <= j < ds.len() implies g(#[trigger] ds[j]) is None by { let y = s[j]; }
        lemma_first_some_from(ds, g, ds.len() as int, 0);
    }
}

// ---- views of the result -------------------------------------------------------------------------------------
pub struct FnCtxV {
    pub in_signature: bool,          // FunctionSignature (true) / FunctionBody (false)
    pub name: Seq<char>, pub line: int, pub is_fixture: bool,
    pub declared: Seq<Seq<char>>, pub scope: Option<FixtureScope>,
}
pub enum CtxV { Func(FnCtxV), Usefixtures, Parametrize }
pub open spec fn ccv(c: CompletionContext) -> CtxV {
    match c {
        CompletionContext::FunctionSignature { function_name, function_line, is_fixture, declared_params, fixture_scope } =>
            CtxV::Func(FnCtxV { in_signature: true, name: function_name@, line: function_line as int, is_fixture,
                                declared: str_views(declared_params@), scope: fixture_scope }),
        CompletionContext::FunctionBody { function_name, function_line, is_fixture, declared_params, fixture_scope } =>
            CtxV::Func(FnCtxV { in_signature: false, name: function_name@, line: function_line as int, is_fixture,
                                declared: str_views(declared_params@), scope: fixture_scope }),
        CompletionContext::UsefixturesDecorator => CtxV::Usefixtures,
        CompletionContext::ParametrizeIndirect => CtxV::Parametrize,
    }
}
pub open spec fn opt_ccv(o: Option<CompletionContext>) -> Option<CtxV> {
    match o { Some(c) => Some(ccv(c)), None => None }
}

// ---- one function definition ---------------------------------------------------------------------------------
/// get_func_context: the context ONE (sync or async) function definition gives the cursor line.
///   None   the line is outside [line(range.start), line(range.end)]  (the range of a decorated function starts at
///          the `def` keyword in this parser version; decorators are handled by check_decorator_context), or the
///          function is neither `test_*` nor fixture-decorated
///   Some   signature iff line <= sig_end_line, else body; name; line of the `def`; is_fixture; declared = names of
///          ALL parameters; scope = Some(scope of the fixture) inside a fixture, None inside a test
pub open spec fn spec_func_ctx(name: Identifier, decos: Seq<Expr>, args: CArguments, returns: Option<Box<Expr>>,
        body: Seq<Stmt>, range: TextRange, content: Seq<char>, tl: usize, li: Seq<usize>) -> Option<CtxV> {
    let s = lno(li, tsv(tr_start(range)));
    let e = lno(li, tsv(tr_end(range)));
    let is_fix = has_fixture_decorator(decos);
    if tl < s || tl > e { None }
    else if !is_test_name(idv(&name)) && !is_fix { None }
    else {
        Some(CtxV::Func(FnCtxV {
            in_signature: tl <= sig_end_line(s as usize, args, returns, body, content, li),
            name: idv(&name), line: s, is_fixture: is_fix,
            declared: declared_names(args),
            scope: if is_fix { Some(fixture_scope_of(decos)) } else { None },
        }))
    }
}

// ---- a statement list ----------------------------------------------------------------------------------------
/// get_function_completion_context: the FIRST statement (source order) that gives a context; function definitions
/// by spec_func_ctx, class definitions by their body (methods, nested classes); nothing else is looked into
/// (functions nested in functions, `if TYPE_CHECKING:` blocks ... give no context of their own)
pub open spec fn fc_stmt(s: Stmt, content: Seq<char>, tl: usize, li: Seq<usize>) -> Option<CtxV>
    decreases s, 0int
{
    match s {
        Stmt::FunctionDef(f) => spec_func_ctx(f.name, f.decorator_list@, *f.args, f.returns, f.body@, f.range, content, tl, li),
        Stmt::AsyncFunctionDef(f) => spec_func_ctx(f.name, f.decorator_list@, *f.args, f.returns, f.body@, f.range, content, tl, li),
        Stmt::ClassDef(c) => fc_from(c.body@, 0, content, tl, li),
        _ => None,
    }
}
pub open spec fn fc_from(b: Seq<Stmt>, k: int, content: Seq<char>, tl: usize, li: Seq<usize>) -> Option<CtxV>
    decreases b, b.len() - k
{
    if k < 0 || k >= b.len() { None } else { opt_or(fc_stmt(b[k], content, tl, li), fc_from(b, k + 1, content, tl, li)) }
}
pub open spec fn spec_first_ctx(stmts: Seq<Stmt>, content: Seq<char>, tl: usize, li: Seq<usize>) -> Option<CtxV> {
    fc_from(stmts, 0, content, tl, li)
}
