// ---------------------------------------------------------------------------------------------
// abstract views of the index maps (needs fields definitions, file_definitions, usages, usage_by_fixture,
// definitions_version)
impl FixtureDatabase {
    pub open spec fn defs(&self) -> Map<Seq<char>, Seq<DefV>> { defs_view(self.definitions.m()) }
    pub open spec fn fdefs(&self) -> Map<PV, Set<Seq<char>>> { fdefs_view(self.file_definitions.m()) }
    pub open spec fn uses(&self) -> Map<PV, Seq<UseV>> { usages_view(self.usages.m()) }
    pub open spec fn byfix(&self) -> Map<Seq<char>, Seq<(PV, UseV)>> { byfix_view(self.usage_by_fixture.m()) }
    pub open spec fn version(&self) -> u64 { self.definitions_version.v }
    /// the fields no index-maintenance function touches
    pub open spec fn rest(&self) -> (DashMap<PathBuf, Arc<String>>, DashMap<PathBuf, Vec<UndeclaredFixture>>, DashMap<PathBuf, HashSet<String>>) {
        (self.file_cache, self.undeclared_fixtures, self.imports)
    }

}
