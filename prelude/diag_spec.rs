// ---------------------------------------------------------------------------------------------
// Operational specification of src/providers/diagnostics.rs publish_diagnostics_for_file (property C19).
// Needs lsp_backend.rs (mk_range, lsp_line, line_fits), position_spec.rs (UndeclV), cycles_std.rs (CycV),
// mismatch_spec.rs, build/lspspec.rs.

// ---- the configuration as the handler reads it (vocabulary of unit config: cfg_view / op_is_disabled; COPIED from
// units/config.rs, where they are written in the unit body -- the stub takes the contract TEXT from there)
pub struct CfgV { pub exclude: Seq<Seq<char>>, pub disabled: Seq<Seq<char>>, pub fixture_paths: Seq<Seq<char>>, pub skip_plugins: Seq<Seq<char>> }
pub open spec fn cfg_view(c: &Config) -> CfgV {
    CfgV { exclude: pat_views(c.exclude@), disabled: str_views(c.disabled_diagnostics@),
           fixture_paths: str_views(c.fixture_paths@), skip_plugins: str_views(c.skip_plugins@) }
}
pub open spec fn op_is_disabled(c: CfgV, code: Seq<char>) -> bool { c.disabled.contains(code) }

// ---- what a Diagnostic says (strings through their views) --------------------------------------------------------
pub ghost struct DiagV {
    pub range: Range, pub severity: Option<DiagnosticSeverity>, pub code: Option<Seq<char>>, pub code_is_string: bool,
    pub code_description_none: bool, pub source: Option<Seq<char>>, pub message: Seq<char>,
    pub related_none: bool, pub tags_none: bool, pub data_none: bool,
}
pub open spec fn diag_v(d: Diagnostic) -> DiagV {
    DiagV { range: d.range, severity: d.severity,
            code: match d.code { Some(NumberOrString::String(s)) => Some(s@), _ => None },
            code_is_string: match d.code { Some(NumberOrString::String(s)) => true, _ => false },
            code_description_none: d.code_description is None, source: opt_sv(d.source), message: d.message@,
            related_none: d.related_information is None, tags_none: d.tags is None, data_none: d.data is None }
}
pub open spec fn diags_v(s: Seq<Diagnostic>) -> Seq<DiagV> { s.map_values(|d: Diagnostic| diag_v(d)) }

/// uninterpreted: `DiagnosticSeverity::WARNING` / `::ERROR` (private i32 newtype) and the three message formats
pub uninterp spec fn sev_warning() -> DiagnosticSeverity;
pub uninterp spec fn sev_error() -> DiagnosticSeverity;
pub uninterp spec fn msg_undeclared(name: Seq<char>) -> Seq<char>;
pub uninterp spec fn msg_cycle(joined: Seq<char>) -> Seq<char>;
pub uninterp spec fn msg_mismatch(fscope: FixtureScope, fname: Seq<char>, dscope: FixtureScope, dname: Seq<char>) -> Seq<char>;
pub open spec fn code_undeclared() -> Seq<char> { "undeclared-fixture"@ }
pub open spec fn code_cycle() -> Seq<char> { "circular-dependency"@ }
pub open spec fn code_mismatch() -> Seq<char> { "scope-mismatch"@ }

/// the range every diagnostic gets: protocol line = internal line - 1, columns start_char..end_char (`as u32`)
pub open spec fn span_range(line: usize, sc: usize, ec: usize) -> Range { mk_range(lsp_line(line), sc as u32, lsp_line(line), ec as u32) }
pub open spec fn mk_diag(r: Range, sev: DiagnosticSeverity, code: Seq<char>, msg: Seq<char>) -> DiagV {
    DiagV { range: r, severity: Some(sev), code: Some(code), code_is_string: true, code_description_none: true,
            source: Some("pytest-lsp"@), message: msg, related_none: true, tags_none: true, data_none: true }
}
/// undeclared finding -> warning on the usage's span
pub open spec fn undecl_diag(u: UndeclV) -> DiagV {
    mk_diag(span_range(u.line, u.start_char, u.end_char), sev_warning(), code_undeclared(), msg_undeclared(u.name))
}
/// cycle -> error on the NAME span of the fixture the cycle is attached to
pub open spec fn cycle_diag(c: CycV) -> DiagV {
    mk_diag(span_range(c.fixture.line, c.fixture.start_char, c.fixture.end_char), sev_error(), code_cycle(),
            msg_cycle(joined_names(c.path, " → "@)))
}
/// scope mismatch (F depends on narrower D) -> warning on F's name span
pub open spec fn mismatch_diag(m: (DefV, DefV)) -> DiagV {
    mk_diag(span_range(m.0.line, m.0.start_char, m.0.end_char), sev_warning(), code_mismatch(),
            msg_mismatch(m.0.scope, m.0.name, m.1.scope, m.1.name))
}
pub open spec fn undecl_diag_fn() -> spec_fn(UndeclV) -> DiagV { |u: UndeclV| undecl_diag(u) }
pub open spec fn cycle_diag_fn() -> spec_fn(CycV) -> DiagV { |c: CycV| cycle_diag(c) }
pub open spec fn mismatch_diag_fn() -> spec_fn((DefV, DefV)) -> DiagV { |m: (DefV, DefV)| mismatch_diag(m) }
pub open spec fn mis_v(m: &ScopeMismatch) -> (DefV, DefV) { (dv(&m.fixture), dv(&m.dependency)) }
pub open spec fn miss_v(s: Seq<ScopeMismatch>) -> Seq<(DefV, DefV)> { s.map_values(|m: ScopeMismatch| mis_v(&m)) }

/// one kind's contribution: nothing when its code is disabled
pub open spec fn gated<A>(c: CfgV, code: Seq<char>, xs: Seq<A>, f: spec_fn(A) -> DiagV) -> Seq<DiagV> {
    if op_is_disabled(c, code) { Seq::empty() } else { xs.map_values(f) }
}
/// THE list handed to the client: undeclared ++ cycles ++ scope mismatches, each gated by its own code
pub open spec fn expected_diags(c: CfgV, us: Seq<UndeclV>, cs: Seq<CycV>, ms: Seq<(DefV, DefV)>) -> Seq<DiagV> {
    gated(c, code_undeclared(), us, undecl_diag_fn()) + gated(c, code_cycle(), cs, cycle_diag_fn()) + gated(c, code_mismatch(), ms, mismatch_diag_fn())
}
/// no-truncation hypothesis for the lines of the findings (explicit; see lsp_backend.rs line_fits)
pub open spec fn findings_fit(us: Seq<UndeclV>, cs: Seq<CycV>, ms: Seq<(DefV, DefV)>) -> bool {
    &&& forall|i: int| 0 <= i < us.len() ==> line_fits((#[trigger] us[i]).line)
    &&& forall|i: int| 0 <= i < cs.len() ==> line_fits((#[trigger] cs[i]).fixture.line)
    &&& forall|i: int| 0 <= i < ms.len() ==> line_fits((#[trigger] ms[i]).0.line)
}
/// the scope-mismatch list is what detect_scope_mismatches_in_file may return (contract PROVED in unit scope_mismatch:
/// sound and complete; the ORDER is that of a hash set iteration and is not determined)
pub open spec fn mismatches_ok(defs: Map<Seq<char>, Seq<DefV>>, fdefs: Map<PV, Set<Seq<char>>>, provf: spec_fn(Seq<char>) -> spec_fn(PV) -> bool,
                               file: PV, ms: Seq<ScopeMismatch>) -> bool {
    &&& forall|k: int| 0 <= k < ms.len() ==> #[trigger] is_mismatch(defs, fdefs, provf, file, dv(&ms[k].fixture), dv(&ms[k].dependency))
    &&& forall|f: DefV, d: DefV| #[trigger] is_mismatch(defs, fdefs, provf, file, f, d) ==> reported(ms, f, d)
}
/// what the published list depends on
pub ghost struct DiagCtx {
    pub cfg: CfgV,
    pub undecl: Seq<UndeclV>,                 // the file's recorded undeclared usages (unit position: bucket of the map)
    pub cycles: Seq<CycV>,                    // the cached cycles attached to fixtures of the file (units memo / cycles)
    pub defs: Map<Seq<char>, Seq<DefV>>, pub fdefs: Map<PV, Set<Seq<char>>>, pub provf: spec_fn(Seq<char>) -> spec_fn(PV) -> bool,
    pub file: PV,
}
/// PRECONDITION of the publish call (= the L1 obligation of publish_diagnostics_for_file): for SOME admissible
/// scope-mismatch list ms (the empty list when that code is disabled: the finder is not called), the diagnostics are
/// expected_diags
pub open spec fn publish_pre(x: DiagCtx, ds: Seq<DiagV>) -> bool {
    exists|ms: Seq<ScopeMismatch>| #[trigger] publish_pre_ms(x, ds, ms)
}
pub open spec fn publish_pre_ms(x: DiagCtx, ds: Seq<DiagV>, ms: Seq<ScopeMismatch>) -> bool {
    (if op_is_disabled(x.cfg, code_mismatch()) { ms.len() == 0 } else { mismatches_ok(x.defs, x.fdefs, x.provf, x.file, ms) })
    && (findings_fit(x.undecl, x.cycles, miss_v(ms)) ==> ds == expected_diags(x.cfg, x.undecl, x.cycles, miss_v(ms)))
}
