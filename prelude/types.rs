// ---------------------------------------------------------------------------------------------
// the real types of src/fixtures/types.rs made visible to Verus (T7) + their abstract views
#[verifier::external_type_specification] pub struct ExFixtureScope(FixtureScope);
#[verifier::external_type_specification] pub struct ExFixtureDefinition(FixtureDefinition);
#[verifier::external_type_specification] pub struct ExFixtureUsage(FixtureUsage);

pub open spec fn rank(s: FixtureScope) -> int {
    match s { FixtureScope::Function => 0, FixtureScope::Class => 1, FixtureScope::Module => 2,
              FixtureScope::Package => 3, FixtureScope::Session => 4 }
}

pub open spec fn opt_sv(o: Option<String>) -> Option<Seq<char>> {
    match o { Some(s) => Some(s@), None => None }
}
pub open spec fn strs_v(v: Seq<String>) -> Seq<Seq<char>> { v.map_values(|s: String| s@) }

pub struct DefV {
    pub name: Seq<char>, pub file: PV, pub line: usize, pub end_line: usize,
    pub start_char: usize, pub end_char: usize,
    pub docstring: Option<Seq<char>>, pub return_type: Option<Seq<char>>,
    pub is_third_party: bool, pub is_plugin: bool, pub dependencies: Seq<Seq<char>>,
    pub scope: FixtureScope, pub yield_line: Option<usize>, pub autouse: bool,
}
pub open spec fn dv(d: &FixtureDefinition) -> DefV {
    DefV { name: d.name@, file: pbv(&d.file_path), line: d.line, end_line: d.end_line,
           start_char: d.start_char, end_char: d.end_char, docstring: opt_sv(d.docstring),
           return_type: opt_sv(d.return_type), is_third_party: d.is_third_party, is_plugin: d.is_plugin,
           dependencies: strs_v(d.dependencies@), scope: d.scope, yield_line: d.yield_line,
           autouse: d.autouse }
}
pub open spec fn dvs(s: Seq<FixtureDefinition>) -> Seq<DefV> { s.map_values(|d: FixtureDefinition| dv(&d)) }

pub struct UseV { pub name: Seq<char>, pub file: PV, pub line: usize, pub start_char: usize, pub end_char: usize }
pub open spec fn uv(u: &FixtureUsage) -> UseV {
    UseV { name: u.name@, file: pbv(&u.file_path), line: u.line, start_char: u.start_char, end_char: u.end_char }
}
pub open spec fn uvs(s: Seq<FixtureUsage>) -> Seq<UseV> { s.map_values(|u: FixtureUsage| uv(&u)) }

// A5: derives
pub assume_specification[ <FixtureDefinition as Clone>::clone ](a: &FixtureDefinition) -> (r: FixtureDefinition)
    ensures dv(&r) == dv(a);
pub assume_specification[ <FixtureDefinition as PartialEq>::eq ](a: &FixtureDefinition, b: &FixtureDefinition) -> (r: bool)
    ensures r == (dv(a) == dv(b));
pub assume_specification[ <FixtureUsage as Clone>::clone ](a: &FixtureUsage) -> (r: FixtureUsage)
    ensures uv(&r) == uv(a);
