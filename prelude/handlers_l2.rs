// ---------------------------------------------------------------------------------------------
// L2 for the navigation handlers (C04 / C05 / C15), over the operational specs of prelude/handlers_spec.rs.
// Needs refs_l2.rs (lemma_filter_mem, lemma_C04_d_goto_resolves_usage) and resolve_l2.rs (lemma_C02_a_never_self).
// v3 (composition with unit uri_glue through prelude/lsp_backend_v3.rs): uri_path / path_uri are the operational specs
// PROVED for Backend::uri_to_path / path_to_uri, so the former URI hypotheses ("URI round trip", uri_injective_on) are
// DERIVED here from the lemmas of prelude/uri_l2.rs; what remains as hypotheses, explicitly:
//     cache_inv(uc.m())     the uri_cache invariant (empty cache: lemma_cache_inv_initially; kept by didOpen / didChange /
//                           didClose: unit handlers_main, lemma_*_keeps_cache_inv)
//     is_canon(file)        the index paths the lemma speaks about are canonical (absolute, resolve to themselves)

// ---- generic sequence facts ---------------------------------------------------------------------------------
pub proof fn lemma_map_contains<A, B>(s: Seq<A>, f: spec_fn(A) -> B, y: B)
    ensures s.map_values(f).contains(y) <==> exists|a: A| s.contains(a) && f(a) == y
{
    let m = s.map_values(f);
    if m.contains(y) {
        let i = choose|i: int| 0 <= i < m.len() && m[i] == y;
        assert(s.contains(s[i]) && f(s[i]) == y);
    }
    if exists|a: A| s.contains(a) && f(a) == y {
        let a = choose|a: A| s.contains(a) && f(a) == y;
        let i = choose|i: int| 0 <= i < s.len() && s[i] == a;
        assert(m[i] == y);
    }
}
pub proof fn lemma_filter_no_dup<A>(s: Seq<A>, p: spec_fn(A) -> bool)
    requires s.no_duplicates()
    ensures s.filter(p).no_duplicates()
    decreases s.len()
{
    reveal(Seq::filter);
    if s.len() > 0 {
        let t = s.drop_last();
        assert(t.no_duplicates()) by { assert forall|i: int, j: int| 0 <= i < j < t.len() implies t[i] != t[j] by { assert(t[i] == s[i] && t[j] == s[j]); } }
        lemma_filter_no_dup(t, p);
        if p(s.last()) {
            let f = t.filter(p);
            assert forall|i: int| 0 <= i < f.len() implies f[i] != s.last() by {
                lemma_filter_mem(t, p, f[i]);
                assert(f.contains(f[i]));
                let k = choose|k: int| 0 <= k < t.len() && t[k] == f[i];
                assert(s[k] == f[i]);
            }
        }
    }
}

// ---- ref_locs / in_calls as filter + map -----------------------------------------------------------------------
pub open spec fn listed_fn(uc: UriCache, od: Option<DefV>) -> spec_fn(UseV) -> bool { |x: UseV| listed(uc, od, x) }
pub open spec fn loc_fn(uc: UriCache) -> spec_fn(UseV) -> Location { |x: UseV| use_location(path_uri(uc, x.file)->0, x) }
/// the locations the handler lists are the locations of the `listed` usages, in order
pub proof fn lemma_ref_locs_filter_map(uc: UriCache, us: Seq<UseV>, od: Option<DefV>)
    ensures ref_locs(uc, us, od) =~= us.filter(listed_fn(uc, od)).map_values(loc_fn(uc))
    decreases us.len()
{
    reveal(Seq::filter);
    if us.len() > 0 {
        lemma_ref_locs_filter_map(uc, us.drop_last(), od);
        let sub = us.drop_last().filter(listed_fn(uc, od));
        if listed(uc, od, us.last()) {
            assert(sub.push(us.last()).map_values(loc_fn(uc)) =~= sub.map_values(loc_fn(uc)).push(loc_fn(uc)(us.last())));
        }
    }
}
/// D's recorded references that the find-references handler turns into locations
pub open spec fn refs_kept(v: NavV, d: DefV) -> Seq<UseV> {
    op_refs(v.defs, v.byfix, v.provf, d).filter(listed_fn(v.uc, Some(d)))
}
/// index entry e is filed under D's name, resolves to D, and survives the handler's two filters
pub open spec fn entry_kept(v: NavV, d: DefV, e: (PV, UseV)) -> bool {
    bucket(v.byfix, d.name).contains(e) && resolve_usage(v.defs, v.provf, e.0, e.1) == Some(d) && listed(v.uc, Some(d), e.1)
}

//@tags C04
/// C04 (handler level) — the answer of textDocument/references for definition D is location(D) followed by the
/// locations of exactly the usages x for which SOME index entry (f, x) filed under D's name resolves to D,
/// MINUS (fact about the real code) the usages on D's own (file, line) [same_spot] and the usages whose path has
/// no URI.  In particular every listed usage resolves to D.
pub proof fn lemma_C04_references_lists_exactly_resolving(v: NavV, d: DefV, u: Uri, x: UseV)
    ensures
        locs_of_sel(v.uc, Some(d), op_refs(v.defs, v.byfix, v.provf, d)) ==
            (match path_uri(v.uc, d.file) { None => None::<Seq<Location>>,
                                            Some(du) => Some(seq![def_location(du, d)] + refs_kept(v, d).map_values(loc_fn(v.uc))) }),
        refs_kept(v, d).contains(x) <==> exists|e: (PV, UseV)| #[trigger] entry_kept(v, d, e) && e.1 == x,
{
    let us = op_refs(v.defs, v.byfix, v.provf, d);
    lemma_ref_locs_filter_map(v.uc, us, Some(d));
    let b = bucket(v.byfix, d.name);
    let p = refers_to(v.defs, v.provf, d);
    lemma_filter_mem(us, listed_fn(v.uc, Some(d)), x);
    lemma_map_contains(b.filter(p), pair_snd(), x);
    if refs_kept(v, d).contains(x) {
        let e = choose|e: (PV, UseV)| b.filter(p).contains(e) && pair_snd()(e) == x;
        lemma_filter_mem(b, p, e);
        assert(entry_kept(v, d, e) && e.1 == x);
    }
    if exists|e: (PV, UseV)| #[trigger] entry_kept(v, d, e) && e.1 == x {
        let e = choose|e: (PV, UseV)| #[trigger] entry_kept(v, d, e) && e.1 == x;
        lemma_filter_mem(b, p, e);
        assert(b.filter(p).contains(e) && pair_snd()(e) == x);
    }
}

//@tags C04
/// C04 — "U is listed among the references of D iff go-to-definition on U lands on D", at handler level: for a
/// recorded usage U = uses[file][i] that is also filed in the reverse index under D's name, with the text under the
/// cursor being U's name and no earlier usage of the file covering the position (hypotheses of lemma_C04_d), the
/// entry survives into the handler's answer iff the go-to-definition handler's target at U's position is D — and
/// U is not on D's own line and U's path has a URI (the two filters; see lemma_C04_same_line_filter_drops_nothing).
pub proof fn lemma_C04_listed_iff_goto_lands(v: NavV, d: DefV, uri: Uri, file: PV, line: u32, ch: u32, t: Seq<char>, lc: Seq<char>, i: int)
    requires
        uri_path(uri) == Some(file),
        file_content(v.cache, file) == Some(t), line_of(t, line as int) == Some(lc),
        0 <= i < bucket(v.uses, file).len(),
        word_at(lc, ch as int) == Some(bucket(v.uses, file)[i].name),
        bucket(v.uses, file)[i].line == line as int + 1,
        bucket(v.uses, file)[i].start_char <= ch < bucket(v.uses, file)[i].end_char,
        forall|j: int| 0 <= j < i ==> !hit(line as int + 1, bucket(v.uses, file)[i].name, ch as int)(#[trigger] bucket(v.uses, file)[j]),
        bucket(v.byfix, d.name).contains((file, bucket(v.uses, file)[i])),      // mirror invariant of the two indexes (unit index_maint)
    ensures
        entry_kept(v, d, (file, bucket(v.uses, file)[i]))
            <==> (goto_target(v, uri, line, ch) == Some(d) && listed(v.uc, Some(d), bucket(v.uses, file)[i])),
{
    lemma_C04_d_goto_resolves_usage(v.cache, v.defs, v.uses, v.provf, file, line, ch, t, lc, i);
}

//@tags C04
/// C04 — a usage that resolves to nothing (or to another definition) is in no answer for D
pub proof fn lemma_C04_unresolved_not_listed(v: NavV, d: DefV, e: (PV, UseV))
    requires resolve_usage(v.defs, v.provf, e.0, e.1) != Some(d)
    ensures !entry_kept(v, d, e)
{}

//@tags C04
/// which usages does the same-line filter drop?  NONE, for a well-formed index: a usage on D's own (file, line)
/// that carries D's name is the self-named parameter, which resolution sends PAST D (fs_excl) — it never
/// resolves to D, so it is not in op_refs(D) in the first place.  Hypotheses: W4 (unique_at_line), D is registered,
/// the reverse-index entry is filed under the usage's own file (mirror invariant) and name.
pub proof fn lemma_C04_same_line_filter_drops_nothing(v: NavV, d: DefV, e: (PV, UseV))
    requires unique_at_line(v.defs), at_line(v.defs, d.file, d.line, d), e.0 == e.1.file, e.1.name == d.name,
        resolve_usage(v.defs, v.provf, e.0, e.1) == Some(d),
    ensures !same_spot(Some(d), e.1)
{
    if same_spot(Some(d), e.1) {
        lemma_pick(v.defs, e.0, e.1.line, d);
        lemma_C02_a_never_self(bucket(v.defs, e.1.name), e.0, (v.provf)(e.1.name), d);
    }
}

// ---- C15: shapes of the ranges ---------------------------------------------------------------------------------
//@tags C15
/// navigation targets (definition / implementation / references head / code lens) are EMPTY ranges at column 0
/// of protocol line D.line - 1 (for 1 <= D.line <= 2^32: explicit no-truncation hypothesis)
pub proof fn lemma_C15_def_location_is_definition_line(u: Uri, d: DefV)
    requires 1 <= d.line, line_fits(d.line)
    ensures ({
        let l = def_location(u, d);
        &&& l.uri == u && l.range.start == l.range.end && range_wf(l.range)
        &&& l.range.start.line as int == d.line - 1 && l.range.start.character == 0
    })
{}

//@tags C15
/// a listed usage's range is on protocol line U.line - 1 and spans columns U.start_char .. U.end_char UNCHANGED
/// (under the explicit no-truncation hypotheses); it is well-formed iff U.start_char <= U.end_char (the span
/// well-formedness `wf_spans` that unit visit establishes for recorded usages)
pub proof fn lemma_C15_use_range_exact(x: UseV)
    requires 1 <= x.line, line_fits(x.line), col_fits(x.start_char), col_fits(x.end_char)
    ensures ({
        let r = use_range(x);
        &&& r.start.line as int == x.line - 1 && r.end.line == r.start.line
        &&& r.start.character as int == x.start_char && r.end.character as int == x.end_char
        &&& range_wf(r) <==> x.start_char <= x.end_char
    })
{}
pub open spec fn wf_spans(us: Seq<UseV>) -> bool { forall|i: int| 0 <= i < us.len() ==> (#[trigger] us[i]).start_char <= us[i].end_char }
pub open spec fn cols_fit(us: Seq<UseV>) -> bool { forall|i: int| 0 <= i < us.len() ==> col_fits((#[trigger] us[i]).start_char) && col_fits(us[i].end_char) }
pub open spec fn lines_pos(us: Seq<UseV>) -> bool { forall|i: int| 0 <= i < us.len() ==> 1 <= (#[trigger] us[i]).line }
//@tags C15
/// every range of the references answer is well-formed, given wf_spans and no truncation
pub proof fn lemma_C15_ref_locs_well_formed(uc: UriCache, us: Seq<UseV>, od: Option<DefV>)
    requires wf_spans(us), cols_fit(us), uses_fit(us), lines_pos(us)
    ensures forall|k: int| 0 <= k < ref_locs(uc, us, od).len() ==> range_wf((#[trigger] ref_locs(uc, us, od)[k]).range)
    decreases us.len()
{
    if us.len() > 0 {
        let t = us.drop_last();
        assert forall|i: int| 0 <= i < t.len() implies t[i] == us[i] by {}
        assert(wf_spans(t) && cols_fit(t) && uses_fit(t) && lines_pos(t)) by {
            assert forall|i: int| 0 <= i < t.len() implies (#[trigger] t[i]).start_char <= t[i].end_char && col_fits(t[i].start_char) && col_fits(t[i].end_char) && line_fits(t[i].line) && 1 <= t[i].line by { assert(t[i] == us[i]); }
        }
        lemma_C15_ref_locs_well_formed(uc, t, od);
        let x = us.last();
        assert(x == us[us.len() - 1]);
        lemma_C15_use_range_exact(x);
        let rest = ref_locs(uc, t, od);
        let all = ref_locs(uc, us, od);
        assert forall|k: int| 0 <= k < all.len() implies range_wf((#[trigger] all[k]).range) by {
            if k < rest.len() { assert(all[k] == rest[k]); }
        }
    }
}

//@tags C15 C04
/// "result lists contain no duplicate entries", references: IF the listed usages are pairwise different, carry one
/// name (they are filed under D's name), the URI mapping is injective on their files and on D's file, and nothing
/// is truncated (lines in 1..=2^32, columns < 2^32), THEN no location occurs twice -- the head location(D) included
/// (that is what the same-line filter is for).  Every hypothesis is explicit; none is hidden.
/// v3: "the URI mapping is injective" is no longer a hypothesis.  The CORE lemma below needs injectivity only among the
/// paths that HAVE a URI (uri_injective_on_some of prelude/uri_l2.rs; the listed usages and D all have one); the
/// headline lemma lemma_C15_references_no_duplicates DERIVES that from cache_inv + canonicity of the index paths.
pub open spec fn uri_injective_on(uc: UriCache, fs: Set<PV>) -> bool {
    forall|a: PV, b: PV| fs.contains(a) && fs.contains(b) && path_uri(uc, a) == path_uri(uc, b) ==> a == b
}
pub open spec fn same_name(us: Seq<UseV>, n: Seq<char>) -> bool { forall|i: int| 0 <= i < us.len() ==> (#[trigger] us[i]).name == n }
/// every path of the set is canonical (absolute, and the file system resolves it to itself or not at all)
pub open spec fn all_canon(fs: Set<PV>) -> bool { forall|p: PV| fs.contains(p) ==> is_canon(p) }
/// the files of the usages are canonical paths
pub open spec fn files_canon(us: Seq<UseV>) -> bool { forall|i: int| 0 <= i < us.len() ==> is_canon((#[trigger] us[i]).file) }
//@tags C04
/// the former HYPOTHESIS uri_injective_on(uc, fs), in its exact shape, is a CONSEQUENCE of the cache invariant when every
/// path of fs is canonical and has a URI (lemma_C04_uri_injective_on_exact of unit uri_glue; the exact shape also equates
/// two paths WITHOUT a URI, hence "has a URI")
pub proof fn lemma_C04_uri_injective_on_derived(uc: UriCache, fs: Set<PV>)
    requires cache_inv(uc.m()), all_canon(fs), forall|p: PV| fs.contains(p) ==> path_uri(uc, p) is Some
    ensures uri_injective_on(uc, fs)
{
    lemma_C04_uri_injective_on_exact(uc.m(), fs);
    assert forall|a: PV, b: PV| fs.contains(a) && fs.contains(b) && path_uri(uc, a) == path_uri(uc, b) implies a == b by {
        assert(op_path_to_uri(uc.m(), a) == op_path_to_uri(uc.m(), b));
    }
}
/// CORE (pure sequence reasoning; the injectivity it needs is the weak one, among paths with a URI)
pub proof fn lemma_references_no_duplicates_core(uc: UriCache, us: Seq<UseV>, d: DefV, du: Uri, fs: Set<PV>)
    requires us.no_duplicates(), same_name(us, d.name), cols_fit(us), uses_fit(us), lines_pos(us), 1 <= d.line, line_fits(d.line),
        uri_injective_on_some(uc.m(), fs), fs.contains(d.file), forall|i: int| 0 <= i < us.len() ==> fs.contains((#[trigger] us[i]).file),
        path_uri(uc, d.file) == Some(du),
    ensures (seq![def_location(du, d)] + ref_locs(uc, us, Some(d))).no_duplicates()
{
    let od = Some(d);
    let kept = us.filter(listed_fn(uc, od));
    let locs = kept.map_values(loc_fn(uc));
    lemma_ref_locs_filter_map(uc, us, od);
    lemma_filter_no_dup(us, listed_fn(uc, od));
    assert forall|k: int| 0 <= k < kept.len() implies us.contains(#[trigger] kept[k]) && listed(uc, od, kept[k]) by {
        lemma_filter_mem(us, listed_fn(uc, od), kept[k]);
        assert(kept.contains(kept[k]));
    }
    let all = seq![def_location(du, d)] + locs;
    assert forall|i: int, j: int| 0 <= i < j < all.len() implies all[i] != all[j] by {
        let y = kept[j - 1];
        let jy = choose|m: int| 0 <= m < us.len() && us[m] == y;
        lemma_C15_use_range_exact(y);
        assert(fs.contains(y.file) && op_path_to_uri(uc.m(), y.file) is Some);
        if i == 0 {
            // head: (D.line - 1, 0)-(D.line - 1, 0) under D's URI; y is not on D's (file, line)
            if all[0] == all[j] {
                assert(path_uri(uc, y.file) == Some(du));
                assert(op_path_to_uri(uc.m(), y.file) == op_path_to_uri(uc.m(), d.file));
                assert(y.file == d.file);
                assert(y.line == d.line);
            }
        } else {
            let x = kept[i - 1];
            let ix = choose|m: int| 0 <= m < us.len() && us[m] == x;
            lemma_C15_use_range_exact(x);
            assert(fs.contains(x.file) && op_path_to_uri(uc.m(), x.file) is Some);
            if all[i] == all[j] {
                assert(path_uri(uc, x.file) == path_uri(uc, y.file));
                assert(op_path_to_uri(uc.m(), x.file) == op_path_to_uri(uc.m(), y.file));
                assert(x.file == y.file && x.line == y.line && x.start_char == y.start_char && x.end_char == y.end_char);
                assert(x.name == y.name);
                assert(x == y);
                assert(kept[i - 1] == kept[j - 1]);
            }
        }
    }
}
//@tags C15 C04
/// HEADLINE (v3): no location occurs twice in the references answer for D -- under the cache invariant and canonicity of
/// D's file and of the usages' files (the weaker, explicit replacements of the former hypothesis `uri_injective_on`),
/// plus the unchanged ones: pairwise different usages under one name, nothing truncated.  Injectivity of path -> URI on
/// these paths is DERIVED: lemma_C04_uri_injective_on_canonical_set (unit uri_glue; cache_inv + U1).
pub proof fn lemma_C15_references_no_duplicates(uc: UriCache, us: Seq<UseV>, d: DefV, du: Uri)
    requires us.no_duplicates(), same_name(us, d.name), cols_fit(us), uses_fit(us), lines_pos(us), 1 <= d.line, line_fits(d.line),
        cache_inv(uc.m()), is_canon(d.file), files_canon(us),
        path_uri(uc, d.file) == Some(du),
    ensures (seq![def_location(du, d)] + ref_locs(uc, us, Some(d))).no_duplicates()
{
    let fs = us.map_values(use_file()).to_set().insert(d.file);
    assert forall|p: PV| fs.contains(p) implies is_canon(p) by {
        if p != d.file {
            let s = us.map_values(use_file());
            assert(s.contains(p));
            let i = choose|i: int| 0 <= i < s.len() && s[i] == p;
            assert(us[i].file == p);
        }
    }
    assert forall|i: int| 0 <= i < us.len() implies fs.contains((#[trigger] us[i]).file) by {
        assert(us.map_values(use_file())[i] == us[i].file);
    }
    lemma_C04_uri_injective_on_canonical_set(uc.m(), fs);
    lemma_references_no_duplicates_core(uc, us, d, du, fs);
}
pub open spec fn use_file() -> spec_fn(UseV) -> PV { |x: UseV| x.file }
//@tags C15
/// C15 "locations identify the right document" (v3, DERIVED from lemma_C15_uri_round_trip of unit uri_glue): the URI of
/// the go-to-definition answer is one the server itself reads back as the file of the definition it selected
pub proof fn lemma_C15_goto_answer_denotes_definition_file(v: NavV, uri: Uri, line: u32, ch: u32, d: DefV, l: Location)
    requires cache_inv(v.uc.m()), goto_target(v, uri, line, ch) == Some(d), is_canon(d.file),
        op_handle_goto(v, uri, line, ch) == Some(GotoDefinitionResponse::Scalar(l)),
    ensures uri_path(l.uri) == Some(d.file)
{
    lemma_C15_uri_round_trip(v.uc.m(), d.file, l.uri);
}
//@tags C15 C04
/// ... and so is the URI of every listed usage: it is read back as the usage's file
pub proof fn lemma_C15_listed_usage_uri_denotes_its_file(uc: UriCache, od: Option<DefV>, x: UseV)
    requires cache_inv(uc.m()), is_canon(x.file), listed(uc, od, x)
    ensures uri_path(loc_fn(uc)(x).uri) == Some(x.file)
{
    lemma_C15_uri_round_trip(uc.m(), x.file, path_uri(uc, x.file)->0);
}

// ---- C04: code lens count and incoming calls = that same set ----------------------------------------------------
//@tags C04
/// the number a code lens shows for definition D is |op_refs(D)| — the size of the list find_references_for_definition
/// returns, i.e. the set find-references works from (the handler then drops location-less / same-line entries:
/// the list shown has AT MOST that many usage locations, exactly that many when every usage is `listed`)
pub proof fn lemma_C04_lens_count_is_refs_size(v: NavV, uri: Uri, d: DefV)
    requires lens_for(v, uri, d) is Some
    ensures
        (lens_for(v, uri, d)->0).cmd == Some((lens_title(op_refs(v.defs, v.byfix, v.provf, d).len()), "pytest-lsp.findReferences"@,
                                             lens_args(uri, lsp_line(d.line), d.start_char))),
        ref_locs(v.uc, op_refs(v.defs, v.byfix, v.provf, d), Some(d)).len() <= op_refs(v.defs, v.byfix, v.provf, d).len(),
        (forall|i: int| 0 <= i < op_refs(v.defs, v.byfix, v.provf, d).len() ==> listed(v.uc, Some(d), #[trigger] op_refs(v.defs, v.byfix, v.provf, d)[i]))
            ==> ref_locs(v.uc, op_refs(v.defs, v.byfix, v.provf, d), Some(d)).len() == op_refs(v.defs, v.byfix, v.provf, d).len(),
{
    let us = op_refs(v.defs, v.byfix, v.provf, d);
    lemma_ref_locs_filter_map(v.uc, us, Some(d));
    lemma_filter_len_le(us, listed_fn(v.uc, Some(d)));
    if forall|i: int| 0 <= i < us.len() ==> listed(v.uc, Some(d), #[trigger] us[i]) {
        lemma_filter_all(us, listed_fn(v.uc, Some(d)));
    }
}
pub proof fn lemma_lenses_of_defs_has(v: NavV, uri: Uri, p: PV, ds: Seq<DefV>, i: int)
    requires 0 <= i < ds.len(), lens_wanted(p, ds[i]), lens_for(v, uri, ds[i]) is Some
    ensures lenses_of_defs(v, uri, p, ds).contains(lens_for(v, uri, ds[i])->0)
    decreases ds.len()
{
    let all = lenses_of_defs(v, uri, p, ds);
    if i == ds.len() - 1 {
        assert(all[all.len() - 1] == lens_for(v, uri, ds[i])->0);
    } else {
        let t = ds.drop_last();
        assert(t[i] == ds[i]);
        lemma_lenses_of_defs_has(v, uri, p, t, i);
        let sub = lenses_of_defs(v, uri, p, t);
        let k = choose|k: int| 0 <= k < sub.len() && sub[k] == lens_for(v, uri, ds[i])->0;
        assert(all[k] == sub[k]);
    }
}
//@tags C04
/// every definition of the requested file (not third party, arguments serialisable) gets its lens, whatever the
/// hash order of the names
pub proof fn lemma_C04_every_definition_has_its_lens(v: NavV, uri: Uri, p: PV, ks: Seq<Seq<char>>, n: Seq<char>, i: int)
    requires ks.contains(n), v.defs.contains_key(n), 0 <= i < v.defs[n].len(),
        lens_wanted(p, v.defs[n][i]), lens_for(v, uri, v.defs[n][i]) is Some
    ensures lenses_of_keys(v, uri, p, ks).contains(lens_for(v, uri, v.defs[n][i])->0)
    decreases ks.len()
{
    let all = lenses_of_keys(v, uri, p, ks);
    let want = lens_for(v, uri, v.defs[n][i])->0;
    let head = lenses_of_keys(v, uri, p, ks.drop_last());
    let tail = lenses_of_defs(v, uri, p, bucket(v.defs, ks.last()));
    if ks.last() == n {
        lemma_lenses_of_defs_has(v, uri, p, v.defs[n], i);
        let k = choose|k: int| 0 <= k < tail.len() && tail[k] == want;
        assert(all[head.len() + k] == want);
    } else {
        let j = choose|j: int| 0 <= j < ks.len() && ks[j] == n;
        assert(ks.drop_last()[j] == n);
        lemma_C04_every_definition_has_its_lens(v, uri, p, ks.drop_last(), n, i);
        let k = choose|k: int| 0 <= k < head.len() && head[k] == want;
        assert(all[k] == want);
    }
}

pub open spec fn call_loc() -> spec_fn(InCallV) -> Location { |c: InCallV| Location { uri: c.from.uri, range: c.from.range } }
//@tags C04 C15
/// the incoming calls of the call hierarchy for definition D are, one for one and in order, the usage locations
/// find-references lists for D (same set op_refs(D), same two filters, same ranges); each call's selection range
/// and single from-range equal its range
pub proof fn lemma_C04_incoming_calls_are_the_references(v: NavV, us: Seq<UseV>, od: Option<DefV>)
    ensures
        in_calls(v, us, od).map_values(call_loc()) =~= ref_locs(v.uc, us, od),
        forall|k: int| 0 <= k < in_calls(v, us, od).len() ==> (#[trigger] in_calls(v, us, od)[k]).from.selection_range == in_calls(v, us, od)[k].from.range
            && in_calls(v, us, od)[k].from_ranges == seq![in_calls(v, us, od)[k].from.range],
    decreases us.len()
{
    if us.len() > 0 {
        lemma_C04_incoming_calls_are_the_references(v, us.drop_last(), od);
        let sub = in_calls(v, us.drop_last(), od);
        let x = us.last();
        if listed(v.uc, od, x) {
            let c = in_call_for(v, path_uri(v.uc, x.file)->0, x);
            assert(sub.push(c).map_values(call_loc()) =~= sub.map_values(call_loc()).push(call_loc()(c)));
        }
    }
}

// ---- C05: which definition does each handler describe ------------------------------------------------------------
//@tags C05
/// a usage that `hit`s (line, name, span) also `covers` (line, span): if some usage hits, some usage covers
pub proof fn lemma_first_use_weaken(us: Seq<UseV>, p: spec_fn(UseV) -> bool, q: spec_fn(UseV) -> bool)
    requires first_use(us, p) is Some, forall|u: UseV| #[trigger] p(u) ==> q(u)
    ensures first_use(us, q) is Some
    decreases us.len()
{
    if us.len() > 0 && !q(us[0]) { assert(!p(us[0])); lemma_first_use_weaken(us.drop_first(), p, q); }
}
/// wherever go-to-definition has a target, find_fixture_at_position (unit position: op_name_at) names a fixture:
/// the usage go-to-definition resolved covers the cursor.  (DISCHARGES the former hypothesis `name_at is Some`.)
pub proof fn lemma_goto_target_has_name(v: NavV, uri: Uri, line: u32, ch: u32)
    requires goto_target(v, uri, line, ch) is Some
    ensures refs_name(v, uri, line, ch) is Some
{
    let p = uri_path(uri)->0;
    let t = file_content(v.cache, p)->0;
    let lc = line_of(t, line as int)->0;
    let w = word_at(lc, ch as int)->0;
    lemma_first_use_weaken(bucket(v.uses, p), hit(line as int + 1, w, ch as int), covers(line as int + 1, ch as int));
}
/// hover describes the definition go-to-definition navigates to (same resolver: find_fixture_definition); wherever
/// go-to-definition has a target, go-to-implementation and call-hierarchy preparation select that same definition
/// (find_fixture_or_definition_at_position falls back to "name of a definition under the cursor" only when
/// go-to-definition has no target); and find-references works for it too: it lists location(D) and the references
/// of D (op_refs), never the by-name fallback
pub proof fn lemma_C05_handlers_select_the_goto_definition(v: NavV, root: Option<PV>, uri: Uri, line: u32, ch: u32, d: DefV,
        h: jsonrpc::Result<Option<Hover>>, fl: Seq<UseV>)
    requires goto_target(v, uri, line, ch) == Some(d),
    ensures
        goto_or_def_target(v, uri, line, ch) == Some(d),
        hover_post(v, root, uri, line, ch, h) ==> (match h { Ok(Some(hv)) => hover_is(hv, doc_text(d, root)), _ => false }),
        refs_def(v, uri, line, ch) == Some(d),
        refs_sel(v, uri, line, ch, fl) == Some((Some(d), op_refs(v.defs, v.byfix, v.provf, d))),
        op_handle_goto(v, uri, line, ch) is Some <==> op_handle_impl(v, uri, line, ch) is Some,
        op_handle_goto(v, uri, line, ch) is Some <==> op_handle_prepare(v, uri, line, ch) is Some,
        path_uri(v.uc, d.file) is Some ==> (op_handle_prepare(v, uri, line, ch)->0)[0].name == d.name
            && (op_handle_prepare(v, uri, line, ch)->0)[0].uri == path_uri(v.uc, d.file)->0,
{
    lemma_goto_target_has_name(v, uri, line, ch);
}
//@tags C04
/// the by-name fallback (no definition determined: the usage under the cursor resolves to nothing and no definition
/// of that name sits on the line): the answer lists NO definition and, for SOME enumeration ks of the indexed files,
/// the locations of all recorded usages carrying the name (minus those without URI) — a usage that resolves to
/// nothing is listed under no definition; by lemma_C04_by_name_* (unit position) the list is a permutation-invariant
/// multiset: each usage as often as it is recorded
pub proof fn lemma_C04_references_by_name_fallback(v: NavV, uri: Uri, line: u32, ch: u32, r: jsonrpc::Result<Option<Vec<Location>>>)
    requires references_post(v, uri, line, ch, r), refs_name(v, uri, line, ch) is Some, refs_def(v, uri, line, ch) is None,
    ensures exists|ks: Seq<PV>| enumerates(ks, v.uses)
        && (uses_fit(#[trigger] refs_by_name(v.uses, ks, refs_name(v, uri, line, ch)->0)) ==>
            opt_vec_view(r) == locs_of_sel(v.uc, None, refs_by_name(v.uses, ks, refs_name(v, uri, line, ch)->0)))
{
    let fl = choose|fl: Seq<UseV>| #[trigger] references_post_fl(v, uri, line, ch, r, fl);
    let n = refs_name(v, uri, line, ch)->0;
    let ks = choose|ks: Seq<PV>| enumerates(ks, v.uses) && fl == #[trigger] refs_by_name(v.uses, ks, n);
    assert(enumerates(ks, v.uses) && fl == refs_by_name(v.uses, ks, n));
}

/// every definition is filed under its own name (index well-formedness, A7)
pub open spec fn wf_names_nav(defs: Map<Seq<char>, Seq<DefV>>) -> bool {
    forall|n: Seq<char>, i: int| defs.contains_key(n) && 0 <= i < defs[n].len() ==> (#[trigger] defs[n][i]).name == n
}
//@tags C05 C04
/// C05 / C04 (positive since the repair of F-05c) — call-hierarchy incoming (and outgoing) calls work for THE definition D
/// that preparation selected: the prepared item carries D's name, D's URI and a selection range on D's line, and the
/// re-identification takes the definition of that name in that file ON that line.  No "first of its name in its file"
/// hypothesis any more.  What is needed, explicitly: D is registered under its name;
/// W4 (unique_at_line: no OTHER definition at D's (file, line)); 1 <= D.line <= 2^32 (the line survives line-1 / +1).
/// v3: "the URI round-trips to D's file" (uri_path(u) == Some(d.file)) is no longer a hypothesis: it is DERIVED
/// (lemma_C15_uri_round_trip, unit uri_glue) from the cache invariant and the canonicity of D's file.
pub proof fn lemma_C05_incoming_identifies_prepared_definition(v: NavV, d: DefV, i: int, u: Uri)
    requires
        path_uri(v.uc, d.file) == Some(u), cache_inv(v.uc.m()), is_canon(d.file),     // => URI round trip (derived)
        0 <= i < bucket(v.defs, d.name).len(), bucket(v.defs, d.name)[i] == d,         // D is registered under its name
        unique_at_line(v.defs), 1 <= d.line, line_fits(d.line),
    ensures
        item_def(v, def_item(u, d).name, def_item(u, d).uri, def_item(u, d).selection_range.start.line) == Some(d),
        op_handle_incoming(v, d.name, u, lsp_line(d.line)) == Some(in_calls(v, op_refs(v.defs, v.byfix, v.provf, d), Some(d))),
{
    lemma_C15_uri_round_trip(v.uc.m(), d.file, u);
    assert(uri_path(u) == Some(d.file));
    let ds = bucket(v.defs, d.name);
    let pl = p_def_line(d.file, lsp_line(d.line) as int + 1);
    assert(pl(ds[i]));
    lemma_first_match_some(ds, pl, i);
    let e = first_match(ds, pl)->0;
    lemma_first_match_in(ds, pl);
    let k = choose|k: int| 0 <= k < ds.len() && ds[k] == e;
    assert(at_line(v.defs, d.file, d.line, ds[k])) by { assert(v.defs.contains_key(d.name) && v.defs[d.name][k] == ds[k]); }
    assert(at_line(v.defs, d.file, d.line, ds[i])) by { assert(v.defs.contains_key(d.name) && v.defs[d.name][i] == ds[i]); }
}
pub proof fn lemma_first_match_some(ds: Seq<DefV>, p: spec_fn(DefV) -> bool, i: int)
    requires 0 <= i < ds.len(), p(ds[i])
    ensures first_match(ds, p) is Some
    decreases ds.len()
{
    if !p(ds[0]) { assert(ds.drop_first()[i - 1] == ds[i]); lemma_first_match_some(ds.drop_first(), p, i - 1); }
}
//@tags C05
/// the case of the former finding F-05c, now positive: a file that defines a fixture name twice (d1 before d2, on
/// different lines): the item prepared for the LATER definition d2 is re-identified as d2, not as the first in the file
pub proof fn lemma_C05_redefinition_in_file_is_identified_by_line(v: NavV, d1: DefV, d2: DefV, u: Uri)
    requires
        bucket(v.defs, d2.name) == seq![d1, d2], d1.file == d2.file, d1.name == d2.name, d1.line != d2.line,
        1 <= d2.line, line_fits(d2.line),
        path_uri(v.uc, d2.file) == Some(u), cache_inv(v.uc.m()), is_canon(d2.file),   // => URI round trip (derived)
    ensures
        item_def(v, def_item(u, d2).name, def_item(u, d2).uri, def_item(u, d2).selection_range.start.line) == Some(d2),
{
    lemma_C15_uri_round_trip(v.uc.m(), d2.file, u);
    assert(uri_path(u) == Some(d2.file));
    let ds = seq![d1, d2];
    assert(ds[0] == d1 && ds[1] == d2);
    lemma_first_idx(ds, p_def_line(d2.file, lsp_line(d2.line) as int + 1), 1);
}
//@tags C05
/// what is STILL not identification: an item whose selection-range line matches no definition of that name in the
/// file (a stale item: the file was edited between prepare and the calls request) FALLS BACK to the first definition
/// of the name in the file — the calls of some other definition than the one the item was prepared for
pub proof fn lemma_C05_stale_item_falls_back_to_first_in_file(v: NavV, name: Seq<char>, u: Uri, sel_line: u32)
    requires uri_path(u) is Some,
        forall|j: int| 0 <= j < bucket(v.defs, name).len() ==> !p_def_line(uri_path(u)->0, sel_line as int + 1)(#[trigger] bucket(v.defs, name)[j]),
    ensures item_def(v, name, u, sel_line) == first_match(bucket(v.defs, name), p_same(uri_path(u)->0, fs_true()))
{
    lemma_first_none(bucket(v.defs, name), p_def_line(uri_path(u)->0, sel_line as int + 1));
}

//@tags C15
/// C15 "a symbol's selection range inside its full range", call-hierarchy items (after fix of F-15d): the item's
/// range is (line, 0)-(line, end_char) and its selection range the name span (line, start_char)-(line, end_char),
/// so the selection range lies inside the range whenever the span is well-formed.
pub proof fn lemma_C15_prepare_selection_range_inside_range(u: Uri, d: DefV)
    requires 1 <= d.line, line_fits(d.line), col_fits(d.start_char), col_fits(d.end_char), d.start_char <= d.end_char
    ensures range_inside(def_item(u, d).selection_range, def_item(u, d).range)
{}
//@tags C15
/// ... the selection range itself is the name span, unchanged, and well-formed iff start_char <= end_char
pub proof fn lemma_C15_prepare_selection_range_is_name_span(u: Uri, d: DefV)
    requires 1 <= d.line, line_fits(d.line), col_fits(d.start_char), col_fits(d.end_char)
    ensures ({
        let r = def_item(u, d).selection_range;
        &&& r.start.line as int == d.line - 1 && r.end.line == r.start.line
        &&& r.start.character as int == d.start_char && r.end.character as int == d.end_char
        &&& range_wf(r) <==> d.start_char <= d.end_char
    })
{}

// ---- controls for the v3 canaries: the SAME statements and proof shapes as canary_*_without_cache_inv / _without_canonicity
// with BOTH hypotheses in place verify -- so those canaries fail because of the missing hypothesis, not for lack of proof text
//@tags C04 C15
pub proof fn lemma_control_references_no_duplicates_two_usages(uc: UriCache, x: UseV, y: UseV, d: DefV, du: Uri)
    requires x != y, same_name(seq![x, y], d.name), cols_fit(seq![x, y]), uses_fit(seq![x, y]), lines_pos(seq![x, y]), 1 <= d.line, line_fits(d.line),
        cache_inv(uc.m()), is_canon(d.file), is_canon(x.file), is_canon(y.file),
        path_uri(uc, d.file) == Some(du),
    ensures (seq![def_location(du, d)] + ref_locs(uc, seq![x, y], Some(d))).no_duplicates()
{
    let us = seq![x, y];
    assert(us[0] == x && us[1] == y);
    let fs = Set::<PV>::empty().insert(d.file).insert(x.file).insert(y.file);
    lemma_C04_uri_injective_on_canonical_set(uc.m(), fs);
    if uri_injective_on_some(uc.m(), fs) { lemma_references_no_duplicates_core(uc, us, d, du, fs); }
}
//@tags C05
pub proof fn lemma_control_incoming_single_definition(v: NavV, d: DefV, u: Uri)
    requires path_uri(v.uc, d.file) == Some(u), cache_inv(v.uc.m()), is_canon(d.file), bucket(v.defs, d.name) == seq![d], 1 <= d.line, line_fits(d.line),
    ensures item_def(v, d.name, u, lsp_line(d.line)) == Some(d)
{
    lemma_C15_uri_round_trip(v.uc.m(), d.file, u);
}

// ---- vacuity guards: each of these must FAIL -------------------------------------------------------------------
/// go-to-definition answers every request with a location
proof fn canary_goto_always_answers(v: NavV, uri: Uri, line: u32, ch: u32)
    ensures op_handle_goto(v, uri, line, ch) is Some
{}
/// find-references lists every usage carrying the name (it lists those that RESOLVE to the definition)
proof fn canary_references_lists_all_usages_of_the_name(v: NavV, d: DefV, u: Uri, fl: Seq<UseV>)
    requires path_uri(v.uc, d.file) == Some(u), refs_by_name_post(v.uses, d.name, fl)
    ensures locs_of_sel(v.uc, Some(d), op_refs(v.defs, v.byfix, v.provf, d))
        == Some(seq![def_location(u, d)] + ref_locs(v.uc, fl, Some(d)))
{}
/// the by-name fallback is a function of the view (it is not: the order between files is the hash order)
proof fn canary_by_name_fallback_is_deterministic(v: NavV, uri: Uri, line: u32, ch: u32, r1: jsonrpc::Result<Option<Vec<Location>>>, r2: jsonrpc::Result<Option<Vec<Location>>>)
    requires references_post(v, uri, line, ch, r1), references_post(v, uri, line, ch, r2), r1 is Ok, r2 is Ok,
        refs_name(v, uri, line, ch) is Some, refs_def(v, uri, line, ch) is None,
    ensures opt_vec_view(r1) == opt_vec_view(r2)
{}
/// ... and never drops a usage that resolves to D (it drops location-less ones)
proof fn canary_references_drops_nothing(v: NavV, d: DefV)
    ensures ref_locs(v.uc, op_refs(v.defs, v.byfix, v.provf, d), Some(d)).len() == op_refs(v.defs, v.byfix, v.provf, d).len()
{
    lemma_ref_locs_filter_map(v.uc, op_refs(v.defs, v.byfix, v.provf, d), Some(d));
}
/// ranges are well-formed without the span hypothesis
proof fn canary_use_range_always_well_formed(x: UseV)
    requires 1 <= x.line, line_fits(x.line), col_fits(x.start_char), col_fits(x.end_char)
    ensures range_wf(use_range(x))
{}
/// ... and without the no-truncation hypothesis the columns are still the recorded ones
proof fn canary_use_range_exact_without_fits(x: UseV)
    requires 1 <= x.line, line_fits(x.line)
    ensures use_range(x).start.character as int == x.start_char
{}
/// no duplicates without URI injectivity
proof fn canary_references_no_duplicates_unconditionally(uc: UriCache, us: Seq<UseV>, d: DefV, du: Uri)
    requires us.no_duplicates(), same_name(us, d.name), cols_fit(us), uses_fit(us), lines_pos(us), 1 <= d.line, line_fits(d.line),
        path_uri(uc, d.file) == Some(du),
    ensures (seq![def_location(du, d)] + ref_locs(uc, us, Some(d))).no_duplicates()
{
    lemma_ref_locs_filter_map(uc, us, Some(d));
}
/// (v3) no duplicates WITHOUT the cache invariant (canonical index paths only): a cache that holds somebody else's URI
/// for a usage's file makes two files share a URI.  The proof text is the honest attempt: U1 for every uncached path
proof fn canary_references_no_duplicates_without_cache_inv(uc: UriCache, x: UseV, y: UseV, d: DefV, du: Uri)
    requires x != y, same_name(seq![x, y], d.name), cols_fit(seq![x, y]), uses_fit(seq![x, y]), lines_pos(seq![x, y]), 1 <= d.line, line_fits(d.line),
        is_canon(d.file), is_canon(x.file), is_canon(y.file),
        path_uri(uc, d.file) == Some(du),
    ensures (seq![def_location(du, d)] + ref_locs(uc, seq![x, y], Some(d))).no_duplicates()
{
    let us = seq![x, y];
    assert(us[0] == x && us[1] == y);
    let fs = Set::<PV>::empty().insert(d.file).insert(x.file).insert(y.file);
    if !uc.m().contains_key(d.file) { axiom_U1_uri_round_trip(d.file, du); }
    if !uc.m().contains_key(x.file) && uri_of_path(x.file) is Some { axiom_U1_uri_round_trip(x.file, uri_of_path(x.file)->0); }
    if !uc.m().contains_key(y.file) && uri_of_path(y.file) is Some { axiom_U1_uri_round_trip(y.file, uri_of_path(y.file)->0); }
    if uri_injective_on_some(uc.m(), fs) { lemma_references_no_duplicates_core(uc, us, d, du, fs); }
}
/// (v3) no duplicates WITHOUT canonicity of the usages' files (absolute paths, invariant in force): a cached canonical
/// path and an uncached alias of it can get the same URI (lemma_C04_FACT_noncanonical_path_can_share_a_uri)
proof fn canary_references_no_duplicates_without_canonicity(uc: UriCache, x: UseV, y: UseV, d: DefV, du: Uri)
    requires x != y, same_name(seq![x, y], d.name), cols_fit(seq![x, y]), uses_fit(seq![x, y]), lines_pos(seq![x, y]), 1 <= d.line, line_fits(d.line),
        cache_inv(uc.m()), is_canon(d.file), pv_is_abs(x.file), pv_is_abs(y.file),
        path_uri(uc, d.file) == Some(du),
    ensures (seq![def_location(du, d)] + ref_locs(uc, seq![x, y], Some(d))).no_duplicates()
{
    let us = seq![x, y];
    assert(us[0] == x && us[1] == y);
    let fs = Set::<PV>::empty().insert(d.file).insert(x.file).insert(y.file);
    lemma_C15_uri_round_trip(uc.m(), d.file, du);
    if !uc.m().contains_key(x.file) && uri_of_path(x.file) is Some { axiom_U1_uri_round_trip(x.file, uri_of_path(x.file)->0); }
    if !uc.m().contains_key(y.file) && uri_of_path(y.file) is Some { axiom_U1_uri_round_trip(y.file, uri_of_path(y.file)->0); }
    if uri_injective_on_some(uc.m(), fs) { lemma_references_no_duplicates_core(uc, us, d, du, fs); }
}
/// (v3) the exact old shape uri_injective_on (it also equates two paths WITHOUT a URI) from invariant + canonicity alone
proof fn canary_uri_injective_on_without_every_path_has_a_uri(uc: UriCache, fs: Set<PV>)
    requires cache_inv(uc.m()), all_canon(fs)
    ensures uri_injective_on(uc, fs)
{
    lemma_C04_uri_injective_on_canonical_set(uc.m(), fs);
}
/// the code lens counts the usages carrying the name
proof fn canary_lens_counts_usages_by_name(v: NavV, uri: Uri, d: DefV, fl: Seq<UseV>)
    requires lens_for(v, uri, d) is Some, refs_by_name_post(v.uses, d.name, fl)
    ensures ((lens_for(v, uri, d)->0).cmd->0).0 == lens_title(fl.len())
{}
/// go-to-implementation points at the definition line even for generator fixtures
proof fn canary_impl_is_definition_line(v: NavV, uri: Uri, line: u32, ch: u32)
    ensures op_handle_impl(v, uri, line, ch) == op_handle_goto(v, uri, line, ch)
{}
/// hover has something to say wherever implementation / call hierarchy do (it does not: not on a definition's name)
proof fn canary_hover_wherever_implementation(v: NavV, uri: Uri, line: u32, ch: u32)
    requires goto_or_def_target(v, uri, line, ch) is Some
    ensures goto_target(v, uri, line, ch) is Some
{}
/// the item's range is still the empty range at column 0 (FALSE since the fix of F-15d: it extends to the name's end)
proof fn canary_prepare_range_is_point(u: Uri, d: DefV)
    requires 1 <= d.line, line_fits(d.line), col_fits(d.start_char), col_fits(d.end_char), d.end_char > 0
    ensures def_item(u, d).range == point_range(lsp_line(d.line), 0)
{}
/// incoming calls work for the prepared definition without W4 (FALSE: an earlier registration on the same (file, line) wins)
proof fn canary_incoming_identifies_prepared_definition(v: NavV, d: DefV, i: int, u: Uri)
    requires
        path_uri(v.uc, d.file) == Some(u), cache_inv(v.uc.m()), is_canon(d.file),
        0 <= i < bucket(v.defs, d.name).len(), bucket(v.defs, d.name)[i] == d, 1 <= d.line, line_fits(d.line),
    ensures item_def(v, d.name, u, lsp_line(d.line)) == Some(d)
{
    lemma_C15_uri_round_trip(v.uc.m(), d.file, u);
}
/// ... and without the URI round trip
proof fn canary_incoming_without_uri_round_trip(v: NavV, d: DefV, u: Uri)
    requires path_uri(v.uc, d.file) == Some(u), bucket(v.defs, d.name) == seq![d], 1 <= d.line, line_fits(d.line),
    ensures item_def(v, d.name, u, lsp_line(d.line)) == Some(d)
{}
/// (v3) ... with canonicity but WITHOUT the cache invariant (the cache may hold for D's file a URI of another file);
/// honest attempt: U1 covers the uncached case only
proof fn canary_incoming_without_cache_inv(v: NavV, d: DefV, u: Uri)
    requires path_uri(v.uc, d.file) == Some(u), is_canon(d.file), bucket(v.defs, d.name) == seq![d], 1 <= d.line, line_fits(d.line),
    ensures item_def(v, d.name, u, lsp_line(d.line)) == Some(d)
{
    if !v.uc.m().contains_key(d.file) { axiom_U1_uri_round_trip(d.file, u); }
}
/// (v3) ... with the cache invariant but WITHOUT canonicity of D's file (absolute only): the built URI of an alias is read
/// back as the canonical path (lemma_C15_FACT_round_trip_of_noncanonical_path_lands_on_canonical), not as D's file
proof fn canary_incoming_without_canonicity(v: NavV, d: DefV, u: Uri)
    requires path_uri(v.uc, d.file) == Some(u), cache_inv(v.uc.m()), pv_is_abs(d.file), bucket(v.defs, d.name) == seq![d], 1 <= d.line, line_fits(d.line),
    ensures item_def(v, d.name, u, lsp_line(d.line)) == Some(d)
{
    if !v.uc.m().contains_key(d.file) { axiom_U1_uri_round_trip(d.file, u); }
}
/// (v3) the go-to-definition answer denotes the definition's file without the cache invariant / without canonicity
proof fn canary_goto_answer_denotes_file_without_cache_inv(v: NavV, uri: Uri, line: u32, ch: u32, d: DefV, l: Location)
    requires goto_target(v, uri, line, ch) == Some(d), is_canon(d.file),
        op_handle_goto(v, uri, line, ch) == Some(GotoDefinitionResponse::Scalar(l)),
    ensures uri_path(l.uri) == Some(d.file)
{
    if !v.uc.m().contains_key(d.file) { axiom_U1_uri_round_trip(d.file, l.uri); }
}
proof fn canary_goto_answer_denotes_file_without_canonicity(v: NavV, uri: Uri, line: u32, ch: u32, d: DefV, l: Location)
    requires cache_inv(v.uc.m()), goto_target(v, uri, line, ch) == Some(d), pv_is_abs(d.file),
        op_handle_goto(v, uri, line, ch) == Some(GotoDefinitionResponse::Scalar(l)),
    ensures uri_path(l.uri) == Some(d.file)
{
    if !v.uc.m().contains_key(d.file) { axiom_U1_uri_round_trip(d.file, l.uri); }
}
/// the pre-fix behaviour: the item's line is not consulted (the first definition of the name in the file is taken)
proof fn canary_item_def_ignores_line(v: NavV, name: Seq<char>, u: Uri, sel_line: u32)
    requires uri_path(u) is Some
    ensures item_def(v, name, u, sel_line) == first_match(bucket(v.defs, name), p_same(uri_path(u)->0, fs_true()))
{}
/// a stale item (no definition on its line) identifies nothing (FALSE: it falls back to the first in the file)
proof fn canary_stale_item_identifies_nothing(v: NavV, name: Seq<char>, u: Uri, sel_line: u32)
    requires uri_path(u) is Some,
        forall|j: int| 0 <= j < bucket(v.defs, name).len() ==> !p_def_line(uri_path(u)->0, sel_line as int + 1)(#[trigger] bucket(v.defs, name)[j]),
    ensures item_def(v, name, u, sel_line) is None
{
    lemma_first_none(bucket(v.defs, name), p_def_line(uri_path(u)->0, sel_line as int + 1));
}
/// the item's line is compared as a protocol line (no +1)
proof fn canary_item_line_is_lsp_line(v: NavV, d: DefV, u: Uri)
    requires uri_path(u) == Some(d.file), bucket(v.defs, d.name) == seq![d], 2 <= d.line, line_fits(d.line)
    ensures first_match(bucket(v.defs, d.name), p_def_line(d.file, lsp_line(d.line) as int)) == Some(d)
{}
/// the hypotheses of the FINDING lemmas are satisfiable (these must FAIL)
proof fn canary_hyp_incoming_first_in_file(v: NavV, d1: DefV, d2: DefV, u: Uri)
    requires
        bucket(v.defs, d2.name) == seq![d1, d2], d1.file == d2.file, d1.name == d2.name, d1.line != d2.line,
        1 <= d2.line, line_fits(d2.line),
        path_uri(v.uc, d2.file) == Some(u), cache_inv(v.uc.m()), is_canon(d2.file),
    ensures false
{
    lemma_C15_uri_round_trip(v.uc.m(), d2.file, u);
}
/// (v3) the hypotheses of the headline no-duplicates lemma are satisfiable (must FAIL)
proof fn canary_hyp_references_no_duplicates(uc: UriCache, us: Seq<UseV>, d: DefV, du: Uri)
    requires us.no_duplicates(), same_name(us, d.name), cols_fit(us), uses_fit(us), lines_pos(us), 1 <= d.line, line_fits(d.line),
        cache_inv(uc.m()), is_canon(d.file), files_canon(us), us.len() >= 2, listed(uc, Some(d), us[0]), listed(uc, Some(d), us[1]),
        path_uri(uc, d.file) == Some(du),
    ensures false
{
    lemma_C15_uri_round_trip(uc.m(), d.file, du);
    lemma_C15_uri_round_trip(uc.m(), us[0].file, path_uri(uc, us[0].file)->0);
    lemma_C15_uri_round_trip(uc.m(), us[1].file, path_uri(uc, us[1].file)->0);
}
proof fn canary_hyp_same_line_filter(v: NavV, d: DefV, e: (PV, UseV))
    requires unique_at_line(v.defs), at_line(v.defs, d.file, d.line, d), e.0 == e.1.file, e.1.name == d.name,
        resolve_usage(v.defs, v.provf, e.0, e.1) == Some(d),
    ensures false
{}
