#![feature(allocator_api)]
#![feature(pattern)]
#![allow(unused_imports, unused_variables, dead_code, unused_mut, unused_parens, unused_braces, non_snake_case, unused_assignments)]
use vstd::prelude::*;
use vstd::std_specs::iter::{IteratorSpec, filter_iter, filter_fun};
use std::path::{Path, PathBuf};

// T7: the real data types, not a copy
#[path = "/repo/src/fixtures/types.rs"]
pub mod types;
use types::*;
