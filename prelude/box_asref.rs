// ---------------------------------------------------------------------------------------------
// `Box::as_ref` (`<Box<T> as AsRef<T>>::as_ref`): a reference to the boxed value (assumed specification, trusted
// base A3; alloc implements it as `&**self`).
pub assume_specification<T: ?Sized, A: core::alloc::Allocator>[ <Box<T, A> as core::convert::AsRef<T>>::as_ref ](b: &Box<T, A>) -> (r: &T)
    ensures r == &**b;
