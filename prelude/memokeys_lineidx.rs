// ---------------------------------------------------------------------------------------------
// Unit memo_keys: `src_line_index` -- the line index of a TEXT -- DEFINED here (it is uninterpreted in the units that
// only consume it: prelude/completion_ctx_spec.rs, prelude/visit_spec.rs) from the contract PROVED for the real
// build_line_index in unit line_index (`ints(r@) == op_line_index(str_bytes(content))`).  No assumption in this file.
// Needs prelude/bytes.rs (str_bytes, ints, NL), prelude/memchr.rs (positions).
// MECHANICAL COPY of units/line_index.rs: succ_fn, op_line_index.
pub open spec fn succ_fn() -> spec_fn(int) -> int { |p: int| p + 1 }
/// 0, then one past every b'\n', ascending
pub open spec fn op_line_index(bytes: Seq<u8>) -> Seq<int> {
    seq![0int] + positions(NL(), bytes).map_values(succ_fn())
}
/// vstd's UTF-8 encoding of a text (vstd::string: `s.spec_bytes() == encode_utf8(s@)` for every &str)
pub open spec fn text_bytes(t: Seq<char>) -> Seq<u8> { vstd::utf8::encode_utf8(t) }
pub open spec fn to_usize_fn() -> spec_fn(int) -> usize { |i: int| i as usize }
/// the line index of a text: the byte offsets (in the UTF-8 encoding) at which its lines start
pub open spec fn src_line_index(t: Seq<char>) -> Seq<usize> { op_line_index(text_bytes(t)).map_values(to_usize_fn()) }

/// PROVED bridge: what build_line_index is proved to return (unit line_index) IS src_line_index of the text's view
pub proof fn lemma_built_is_src_line_index(content: &str, r: Seq<usize>)
    requires ints(r) == op_line_index(str_bytes(content)),
    ensures r == src_line_index(content@),
{
    let idx = op_line_index(str_bytes(content));
    assert(str_bytes(content) == text_bytes(content@));
    assert(r.len() == ints(r).len());
    assert forall|k: int| 0 <= k < r.len() implies r[k] == #[trigger] src_line_index(content@)[k] by {
        assert(ints(r)[k] == r[k] as int);
    }
    assert(r =~= src_line_index(content@));
}
