// ---------------------------------------------------------------------------------------------
// Unit strings_struct2: further ASSUMED primitives of the text fallback (trusted base, continues prelude/strstruct_prims.rs)
//   P16 str::split(char)      the pieces of s between the occurrences of c, in order: split_v(s, c) (uninterpreted), yielded
//                             by a finite iterator (@rename split vp_split_c)
//   P17 chars().take_while(word char).collect::<String>()   the longest prefix of word characters (@wrapexpr helpers)
//   P18 str::chars()          vstd
//   P19 String::push(c)       r@ == old@.push(c)   (vstd, if specified; else assumed here)
pub uninterp spec fn split_v(s: Seq<char>, c: char) -> Seq<Seq<char>>;
pub trait VpSplitC {
    fn vp_split_c(&self, c: char) -> (r: std::vec::IntoIter<&str>);
}
impl VpSplitC for str {
    #[verifier::external_body]
    fn vp_split_c(&self, c: char) -> (r: std::vec::IntoIter<&str>)
        ensures r.obeys_prophetic_iter_laws(), r.decrease() is Some, sv(r.remaining()) == split_v(self@, c),
    { self.split(c).collect::<Vec<&str>>().into_iter() }
}
