// ---------------------------------------------------------------------------------------------
// String operations of src/fixtures/imports.rs (extract_fixture_imports / is_standard_library_module) on
// `Seq<char>` views.  Verus cannot look inside `str` / `String` (bytes, UTF-8), so every std operation gets an
// ASSUMED specification (trusted base A3) that states its result as a DEFINED function of the views; what the
// contracts of the unit then pin down is the ORDER and the CONDITIONS under which the operations are applied.
//
// Assumed here (each is the documented behaviour of the std function, panics / capacity overflow aside):
//   S1  str::repeat(s, n)        r@ == repeat_v(s@, n)            (n copies of s, concatenated)
//   S2  String + &str            r@ == a@ + b@                    (concatenation; stated on a @wrapexpr helper in the unit)
//   S3  str::split(c)            the iterator is non-empty and its FIRST piece is the text before the first
//                                occurrence of c (all of the text if c does not occur)  -- axiom_split_first, on
//                                the uninterpreted `split_v` of prelude/iter_slice.rs (vp_split)
//   (Option::unwrap_or_default and String::default are specified by vstd: None => the empty string)
//   S5  "."@ is the one-character sequence ['.']                  -- PROVED (reveal_strlit), not assumed
//   S6  rustpython `Int::to_usize` is a function `int_v` of the (opaque) Int

/// n copies of s
pub open spec fn repeat_v(s: Seq<char>, n: nat) -> Seq<char>
    decreases n
{
    if n == 0 { Seq::empty() } else { s + repeat_v(s, (n - 1) as nat) }
}
/// S1
pub assume_specification[ str::repeat ](s: &str, n: usize) -> (r: String)
    ensures r@ == repeat_v(s@, n as nat);
// S2: `String + &str` makes this Verus crash ("codegen_select_candidate failed"), with or without an
// assume_specification for `<String as Add<&str>>::add`; the unit moves the expression `dots + &module`,
// verbatim, into an external_body helper (@wrapexpr) whose contract is  r@ == dots@ + module@.

/// the text before the first occurrence of c (all of s if there is none)
pub open spec fn prefix_before(s: Seq<char>, c: char) -> Seq<char>
    decreases s.len()
{
    if s.len() == 0 { Seq::empty() }
    else if s[0] == c { Seq::empty() }
    else { seq![s[0]] + prefix_before(s.subrange(1, s.len() as int), c) }
}
pub mod str_dotted_ax {
    use super::*;
    /// S3
    pub broadcast axiom fn axiom_split_first(s: Seq<char>, c: char)
        ensures (#[trigger] split_v(s, c)).len() >= 1, split_v(s, c)[0] == prefix_before(s, c);
}
pub use str_dotted_ax::*;

/// S6: the number an `Int` holds (rustpython_ast `Int(u32)`; `to_usize` is `self.0 as usize`)
pub uninterp spec fn int_v(i: rustpython_parser::ast::Int) -> usize;
pub assume_specification[ rustpython_parser::ast::Int::to_usize ](i: &rustpython_parser::ast::Int) -> (r: usize)
    ensures r == int_v(*i);

// ---- the two derived notions the import contracts use ---------------------------------------------------------
/// relative-import prefixing: `level` dots in front of the module text (`".".repeat(level) + &module`)
pub open spec fn dotted(level: nat, module: Seq<char>) -> Seq<char> { repeat_v("."@, level) + module }
/// first component of a dotted path (`module.split('.').next().unwrap_or(module)`): the text before the first '.'
pub open spec fn first_component(m: Seq<char>) -> Seq<char> { prefix_before(m, '.') }

/// S5
pub proof fn lemma_dot_lit()
    ensures "."@ =~= seq!['.'],
{
    reveal_strlit(".");
}
/// a path that got at least one leading dot has the EMPTY first component, whatever the module is called
pub proof fn lemma_dotted_first_component_empty(level: nat, module: Seq<char>)
    requires level > 0,
    ensures first_component(dotted(level, module)) == Seq::<char>::empty(),
{
    lemma_dot_lit();
    let d = dotted(level, module);
    assert(repeat_v("."@, level) == "."@ + repeat_v("."@, (level - 1) as nat));
    assert(d[0] == '.');
}
/// no leading dot added (absolute import, `level` absent or 0): the path is the module text itself
pub proof fn lemma_dotted_zero(module: Seq<char>)
    ensures dotted(0, module) =~= module,
{ }
