// ---------------------------------------------------------------------------------------------
// Option / slice-iterator higher-order methods used by the AST helpers: assumed specifications (trusted
// base A3).  Every contract is stated in terms of `call_ensures` of the closure: what the closure is proved
// to return is what the adapter is assumed to do with it.
/// `Option::is_some_and(f)`: `None => false`, `Some(x) => f(x)`
pub assume_specification<T, F: FnOnce(T) -> bool>[ Option::<T>::is_some_and ](o: Option<T>, f: F) -> (r: bool)
    requires o is Some ==> call_requires(f, (o->0,)),
    ensures match o { Some(x) => call_ensures(f, (x,), r), None => !r };

// ---- T5 wrappers on `slice.iter().filter(p)` (= VpFilter of prelude/hof.rs: the iterator paired with the
// filter closure).  The external body IS the call to the real std methods.
/// position of the element that decided the result: a skolem function (of everything the position depends on:
/// the elements, both closures, the result) instead of an existential
pub uninterp spec fn vp_hit<T, P, F, R>(s: Seq<T>, p: P, f: F, r: R) -> int;
impl<'a, T, P: FnMut(&&'a T) -> bool> VpFilter<'a, T, P> {
    /// `slice.iter().filter(p).any(f)`: true iff some element is accepted by p and then by f
    /// (elements are visited in order, p first; nothing else is observable for pure closures)
    #[verifier::external_body]
    pub fn vp_any<F: FnMut(&'a T) -> bool>(self, f: F) -> (r: bool)
        requires forall|x: &&'a T| #[trigger] call_requires(self.p, (x,)), forall|x: &'a T| #[trigger] call_requires(f, (x,)),
        ensures ({
            let s = self.it.remaining();
            let p = self.p;
            if r {
                let i = vp_hit(s, p, f, r);
                0 <= i < s.len() && call_ensures(p, (&s[i],), true) && call_ensures(f, (s[i],), true)
            } else {
                forall|j: int| 0 <= j < s.len() ==> call_ensures(p, (&#[trigger] s[j],), false) || call_ensures(f, (s[j],), false)
            }
        }),
    { self.it.filter(self.p).any(f) }

    /// `slice.iter().filter(p).find_map(f)`: f's result on the FIRST element that p accepts and f maps to
    /// `Some`; `None` iff there is no such element
    #[verifier::external_body]
    pub fn vp_find_map<B, F: FnMut(&'a T) -> Option<B>>(self, f: F) -> (r: Option<B>)
        requires forall|x: &&'a T| #[trigger] call_requires(self.p, (x,)), forall|x: &'a T| #[trigger] call_requires(f, (x,)),
        ensures ({
            let s = self.it.remaining();
            let p = self.p;
            match r {
                Some(b) => ({
                    let i = vp_hit(s, p, f, r);
                    0 <= i < s.len() && call_ensures(p, (&s[i],), true) && call_ensures(f, (s[i],), Some(b))
                    && (forall|j: int| 0 <= j < i ==> call_ensures(p, (&#[trigger] s[j],), false) || call_ensures(f, (s[j],), None::<B>))
                }),
                None => forall|j: int| 0 <= j < s.len() ==> call_ensures(p, (&#[trigger] s[j],), false) || call_ensures(f, (s[j],), None::<B>),
            }
        }),
    { self.it.filter(self.p).find_map(f) }
}

/// the first `Some` that g produces on s[k..], as a function
pub open spec fn first_some<T, V>(s: Seq<T>, g: spec_fn(T) -> Option<V>, k: int) -> Option<V>
    decreases s.len() - k
{
    if k < 0 || k >= s.len() { None } else { match g(s[k]) { Some(v) => Some(v), None => first_some(s, g, k + 1) } }
}
/// ... and as the relation the wrappers' contracts establish, over the references a slice iterator yields
/// (object-level postcondition of one-expression functions; lifted by lemma_find_map_post)
pub open spec fn find_map_post<T, V>(s: Seq<&T>, g: spec_fn(T) -> Option<V>, r: Option<V>) -> bool {
    match r {
        Some(v) => exists|i: int| 0 <= i < s.len() && g(*#[trigger] s[i]) == Some(v) && (forall|j: int| 0 <= j < i ==> g(*#[trigger] s[j]) is None),
        None => forall|j: int| 0 <= j < s.len() ==> g(*#[trigger] s[j]) is None,
    }
}
pub open spec fn any_post<T>(s: Seq<&T>, g: spec_fn(T) -> bool, r: bool) -> bool {
    if r { exists|i: int| 0 <= i < s.len() && g(*#[trigger] s[i]) } else { forall|j: int| 0 <= j < s.len() ==> !g(*#[trigger] s[j]) }
}
pub proof fn lemma_first_some_from<T, V>(s: Seq<T>, g: spec_fn(T) -> Option<V>, i: int, k: int)
    requires 0 <= k <= i <= s.len(), forall|j: int| k <= j < i ==> g(#[trigger] s[j]) is None,
    ensures first_some(s, g, k) == (if i < s.len() { first_some(s, g, i) } else { None }),
    decreases i - k
{
    if k < i { lemma_first_some_from(s, g, i, k + 1); }
}
pub proof fn lemma_find_map_post<T, V>(v: Seq<T>, g: spec_fn(T) -> Option<V>, r: Option<V>)
    requires find_map_post(v.as_ref(), g, r),
    ensures r == first_some(v, g, 0),
{
    let s = v.as_ref();
    match r {
        Some(x) => {
            let i = choose|i: int| 0 <= i < s.len() && g(*#[trigger] s[i]) == Some(x) && (forall|j: int| 0 <= j < i ==> g(*#[trigger] s[j]) is None);
            assert forall|j: int| 0 <= j < i implies g(#[trigger] v[j]) is None by { let y = s[j]; }
            lemma_first_some_from(v, g, i, 0);
            assert(*s[i] == v[i]);
        }
        None => {
            assert forall|j: int| 0 <= j < v.len() implies g(#[trigger] v[j]) is None by { let y = s[j]; }
            lemma_first_some_from(v, g, v.len() as int, 0);
        }
    }
}
pub proof fn lemma_any_post<T>(v: Seq<T>, g: spec_fn(T) -> bool, r: bool)
    requires any_post(v.as_ref(), g, r),
    ensures r == (exists|i: int| 0 <= i < v.len() && g(#[trigger] v[i])),
{
    let s = v.as_ref();
    if r {
        let i = choose|i: int| 0 <= i < s.len() && g(*#[trigger] s[i]);
        assert(*s[i] == v[i]);
    } else {
        assert forall|j: int| 0 <= j < v.len() implies !g(#[trigger] v[j]) by { let y = s[j]; }
    }
}

// ---- `to_string()` (ToString through Display): vstd gives the blanket impl the postcondition
// `to_string_from_display_ensures(t, res)` and pins it down for `str` only.  String's Display writes the string.
pub mod to_string_ax {
    use super::*;
    pub broadcast axiom fn axiom_string_to_string(t: &String, res: String)
        ensures #[trigger] vstd::string::to_string_from_display_ensures::<String>(t, res) <==> (t@ == res@);
}
pub use to_string_ax::*;

// ---- T5 wrappers on `slice.iter()` itself ------------------------------------------------------------------
/// concatenation of the vectors' contents, in order
pub open spec fn flat<B>(o: Seq<Vec<B>>) -> Seq<B> { flat_from(o, 0) }
pub open spec fn flat_from<B>(o: Seq<Vec<B>>, k: int) -> Seq<B>
    decreases o.len() - k
{
    if k < 0 || k >= o.len() { Seq::empty() } else { o[k]@ + flat_from(o, k + 1) }
}
pub trait VpSliceIterExt<'a, T: 'a>: Sized + Iterator<Item = &'a T> {
    fn vp_filter_map<B, F: FnMut(&'a T) -> Option<B>>(self, f: F) -> (r: std::vec::IntoIter<B>)
        requires forall|x: &'a T| #[trigger] call_requires(f, (x,));
    fn vp_flat_map<B, F: FnMut(&'a T) -> Vec<B>>(self, f: F) -> (r: std::vec::IntoIter<B>)
        requires forall|j: int| 0 <= j < self.remaining().len() ==> call_requires(f, (#[trigger] self.remaining()[j],));
    fn vp_find_map<B, F: FnMut(&'a T) -> Option<B>>(self, f: F) -> (r: Option<B>)
        requires forall|x: &'a T| #[trigger] call_requires(f, (x,));
}
impl<'a, T: 'a> VpSliceIterExt<'a, T> for core::slice::Iter<'a, T> {
    /// `slice.iter().filter_map(f)` driven to the end (the `.collect()` that follows in the source): f is called
    /// once on every element, in order; the results that are `Some` are yielded, in order (vp_fm_post/somes:
    /// prelude/iter_ext.rs)
    #[verifier::external_body]
    fn vp_filter_map<B, F: FnMut(&'a T) -> Option<B>>(self, f: F) -> (r: std::vec::IntoIter<B>)
        ensures
            r.obeys_prophetic_iter_laws(), r.decrease() is Some,
            vp_fm_post(self.remaining(), f, r.remaining()),
    { self.filter_map(f).collect::<Vec<B>>().into_iter() }

    /// `slice.iter().flat_map(f)` for an f that returns vectors, driven to the end: f is called once on every
    /// element, in order; the vectors' elements are yielded in order
    #[verifier::external_body]
    fn vp_flat_map<B, F: FnMut(&'a T) -> Vec<B>>(self, f: F) -> (r: std::vec::IntoIter<B>)
        ensures
            r.obeys_prophetic_iter_laws(), r.decrease() is Some,
            exists|o: Seq<Vec<B>>| #![trigger flat(o)] o.len() == self.remaining().len()
                && (forall|j: int| 0 <= j < o.len() ==> call_ensures(f, (self.remaining()[j],), #[trigger] o[j]))
                && r.remaining() == flat(o),
    { self.flat_map(f).collect::<Vec<B>>().into_iter() }

    /// `slice.iter().find_map(f)`: f's result on the FIRST element it maps to `Some`
    #[verifier::external_body]
    fn vp_find_map<B, F: FnMut(&'a T) -> Option<B>>(self, f: F) -> (r: Option<B>)
        ensures ({
            let s = self.remaining();
            match r {
                Some(b) => ({
                    let i = vp_hit(s, (), f, r);
                    0 <= i < s.len() && call_ensures(f, (s[i],), Some(b))
                    && (forall|j: int| 0 <= j < i ==> call_ensures(f, (#[trigger] s[j],), None::<B>))
                }),
                None => forall|j: int| 0 <= j < s.len() ==> call_ensures(f, (#[trigger] s[j],), None::<B>),
            }
        }),
    { let mut it = self; it.find_map(f) }
}

/// the `Some` results of g on s, in order, as a function
pub open spec fn filter_map_spec<T, V>(s: Seq<T>, g: spec_fn(T) -> Option<V>) -> Seq<V>
    decreases s.len()
{
    if s.len() == 0 { Seq::empty() } else {
        match g(s.last()) { Some(v) => filter_map_spec(s.drop_last(), g).push(v), None => filter_map_spec(s.drop_last(), g) }
    }
}
pub open spec fn opt_map<B, V>(o: Option<B>, vb: spec_fn(B) -> V) -> Option<V> {
    match o { Some(b) => Some(vb(b)), None => None }
}
/// ... and as the relation vp_filter_map + collect establish (r seen through the element view vb)
pub open spec fn filter_map_post<T, B, V>(s: Seq<&T>, g: spec_fn(T) -> Option<V>, vb: spec_fn(B) -> V, r: Seq<B>) -> bool {
    exists|o: Seq<Option<B>>| #![trigger somes(o)]
        o.len() == s.len() && (forall|j: int| 0 <= j < s.len() ==> opt_map(#[trigger] o[j], vb) == g(*s[j])) && r == somes(o)
}
pub proof fn lemma_somes_filter_map<T, B, V>(v: Seq<T>, o: Seq<Option<B>>, g: spec_fn(T) -> Option<V>, vb: spec_fn(B) -> V)
    requires o.len() == v.len(), forall|j: int| 0 <= j < v.len() ==> opt_map(#[trigger] o[j], vb) == g(v[j]),
    ensures somes(o).map_values(vb) =~= filter_map_spec(v, g),
    decreases v.len(),
{
    if v.len() > 0 {
        let v1 = v.drop_last(); let o1 = o.drop_last();
        assert forall|j: int| 0 <= j < v1.len() implies opt_map(#[trigger] o1[j], vb) == g(v1[j]) by {
            assert(o1[j] == o[j]); assert(v1[j] == v[j]);
        }
        lemma_somes_filter_map(v1, o1, g, vb);
        let j = v.len() - 1;
        assert(o.last() == o[j]);
        assert(opt_map(o[j], vb) == g(v[j]));
    }
}
pub proof fn lemma_filter_map_post<T, B, V>(v: Seq<T>, g: spec_fn(T) -> Option<V>, vb: spec_fn(B) -> V, r: Seq<B>)
    requires filter_map_post(v.as_ref(), g, vb, r),
    ensures r.map_values(vb) =~= filter_map_spec(v, g),
{
    let s = v.as_ref();
    let o = choose|o: Seq<Option<B>>| #![trigger somes(o)]
        o.len() == s.len() && (forall|j: int| 0 <= j < s.len() ==> opt_map(#[trigger] o[j], vb) == g(*s[j])) && r == somes(o);
    assert forall|j: int| 0 <= j < v.len() implies opt_map(#[trigger] o[j], vb) == g(v[j]) by { assert(*s[j] == v[j]); }
    lemma_somes_filter_map(v, o, g, vb);
}

// ---- `str::split(char)` / `str::trim` (string contents are opaque to Verus: results are uninterpreted functions
// of the text; the real string code is Kani-bounded) ---------------------------------------------------------
pub uninterp spec fn split_v(s: Seq<char>, c: char) -> Seq<Seq<char>>;
pub uninterp spec fn trim_v(s: Seq<char>) -> Seq<char>;
pub assume_specification<'a>[ str::trim ](s: &'a str) -> (r: &'a str)
    ensures r@ == trim_v(s@);
pub trait VpStrExt {
    /// `str::split(c)` for a char pattern, as an iterator over the pieces in order
    fn vp_split<'a>(&'a self, c: char) -> (r: std::vec::IntoIter<&'a str>);
}
impl VpStrExt for str {
    #[verifier::external_body]
    fn vp_split<'a>(&'a self, c: char) -> (r: std::vec::IntoIter<&'a str>)
        ensures r.obeys_prophetic_iter_laws(), r.decrease() is Some,
            r.remaining().len() == split_v(self@, c).len(),
            forall|i: int| 0 <= i < r.remaining().len() ==> (#[trigger] r.remaining()[i])@ == split_v(self@, c)[i],
    { self.split(c).collect::<Vec<&'a str>>().into_iter() }
}

// ---- `slice.iter().filter(p).rev().find_map(f)`: not used by /repo today; specified so that the variant of the
// keyword extractors in which the LAST matching keyword wins is DECIDED (refuted) instead of undecided
pub struct VpFilterRev<'a, T, P> { pub it: core::slice::Iter<'a, T>, pub p: P }
impl<'a, T, P: FnMut(&&'a T) -> bool> VpFilter<'a, T, P> {
    pub fn rev(self) -> (r: VpFilterRev<'a, T, P>)
        ensures r.it == self.it, r.p == self.p
    { VpFilterRev { it: self.it, p: self.p } }
}
impl<'a, T, P: FnMut(&&'a T) -> bool> VpFilterRev<'a, T, P> {
    /// f's result on the LAST element that p accepts and f maps to `Some`
    #[verifier::external_body]
    pub fn vp_find_map<B, F: FnMut(&'a T) -> Option<B>>(self, f: F) -> (r: Option<B>)
        requires forall|x: &&'a T| #[trigger] call_requires(self.p, (x,)), forall|x: &'a T| #[trigger] call_requires(f, (x,)),
        ensures ({
            let s = self.it.remaining();
            let p = self.p;
            match r {
                Some(b) => ({
                    let i = vp_hit(s, p, f, r);
                    0 <= i < s.len() && call_ensures(p, (&s[i],), true) && call_ensures(f, (s[i],), Some(b))
                    && (forall|j: int| i < j < s.len() ==> call_ensures(p, (&#[trigger] s[j],), false) || call_ensures(f, (s[j],), None::<B>))
                }),
                None => forall|j: int| 0 <= j < s.len() ==> call_ensures(p, (&#[trigger] s[j],), false) || call_ensures(f, (s[j],), None::<B>),
            }
        }),
    { self.it.filter(self.p).rev().find_map(f) }
}
