// ---------------------------------------------------------------------------------------------
// Option / slice-iterator higher-order methods used by the AST helpers: assumed specifications (trusted
// base A3).  Every contract is stated in terms of `call_ensures` of the closure: what the closure is proved
// to return is what the adapter is assumed to do with it.
/// `Option::is_some_and(f)`: `None => false`, `Some(x) => f(x)`
pub assume_specification<T, F: FnOnce(T) -> bool>[ Option::<T>::is_some_and ](o: Option<T>, f: F) -> (r: bool)
    requires o is Some ==> call_requires(f, (o->0,)),
    ensures match o { Some(x) => call_ensures(f, (x,), r), None => !r };
