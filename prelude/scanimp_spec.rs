// ---------------------------------------------------------------------------------------------
// Unit scan_imports (C14 discovery / plugin-status part, C12 termination): specification vocabulary for
// FixtureDatabase::scan_imported_fixture_modules (src/fixtures/scanner.rs).  Builds on the abstract import graph of
// prelude/imports_spec.rs (imports_of / plugins_of / resolve / canon / content_of / body_at / edge ...).

/// abstract file system (A4): the text `std::fs::read_to_string` returns for a path (a constant during the scan)
pub uninterp spec fn fs_read(p: PV) -> Option<Seq<char>>;
/// the file-name test of the scanner: last component is "conftest.py", or "test_*.py", or "*_test.py"
/// (evaluated on `OsStr::to_str`; left abstract: a function of the path)
pub uninterp spec fn is_conftest_or_test_name(p: PV) -> bool;
/// FINITE-UNIVERSE ASSUMPTION (same role as `known_files` in unit imports_closure): a finite set of paths that
/// contains every file_cache key present when the scan starts (precondition of the function under contract) and
/// every canonicalised result of module resolution during the scan (assumed contract of resolve_module_to_file).
/// `Set` is finite in this Verus, so the mere existence of this set is the assumption.
pub uninterp spec fn scan_universe() -> Set<PV>;
/// MAX_FILE_CACHE_SIZE of src/fixtures/mod.rs
pub open spec fn max_file_cache() -> nat { 2000 }

pub mod scanimp_ax {
    use super::*;
    /// `content_of` (what get_file_content returns) is the cached text, else the file on disk.  This is the contract
    /// PROVED for get_file_content in unit memo; imports_spec.rs leaves the function uninterpreted.
    pub broadcast axiom fn axiom_content_of(cache: Map<PV, Arc<String>>, p: PV)
        ensures #[trigger] content_of(cache, p) == (if cache.contains_key(p) { Some((*cache[p])@) } else { fs_read(p) });
}
pub use scanimp_ax::*;

/// the import graph of imports_spec.rs only reads `cache` of its Env
pub open spec fn env_of(cache: Map<PV, Arc<String>>) -> Env {
    Env { cache: cache, fdefs: Map::<PV, Set<Name>>::empty(), defkeys: Set::<Name>::empty() }
}
/// i-th import of f (star or explicit) resolves to h
pub open spec fn imp_any_at(env: Env, f: PV, i: int, h: PV) -> bool {
    0 <= i < imps(env, f).len() && imp_target(env, f, i) == Some(h)
}
/// import edge f -> h followed by the DISCOVERY: any resolvable `from M import ...` (star or explicit) or
/// pytest_plugins entry of f
#[verifier::opaque]
pub open spec fn any_edge(env: Env, f: PV, h: PV) -> bool {
    (exists|i: int| #[trigger] imp_any_at(env, f, i, h)) || (exists|j: int| #[trigger] plug_at(env, f, j, h))
}
pub proof fn lemma_any_edge_imp(env: Env, f: PV, i: int, h: PV)
    requires imp_any_at(env, f, i, h) ensures any_edge(env, f, h)
{ reveal(any_edge); }
pub proof fn lemma_any_edge_plug(env: Env, f: PV, j: int, h: PV)
    requires plug_at(env, f, j, h) ensures any_edge(env, f, h)
{ reveal(any_edge); }
/// a star / pytest_plugins edge is in particular a discovery edge
pub proof fn lemma_edge_is_any_edge(env: Env, f: PV, h: PV)
    requires edge(env, f, h) ensures any_edge(env, f, h)
{
    reveal(edge); reveal(any_edge);
    if exists|i: int| #[trigger] star_at(env, f, i, h) {
        let i = choose|i: int| #[trigger] star_at(env, f, i, h);
        assert(imp_any_at(env, f, i, h));
    }
}

// ---- the start set
pub open spec fn seq_has_prefix_of(roots: Seq<PV>, p: PV) -> bool {
    exists|i: int| 0 <= i < roots.len() && pv_is_prefix(#[trigger] roots[i], p)
}
pub open spec fn pbvs(s: Seq<PathBuf>) -> Seq<PV> { s.map_values(|p: PathBuf| pbv(&p)) }
/// the files the worklist starts from: keys of file_cache that are named like a conftest / test file, or live under a
/// site-packages path or an editable-install source root, or are marked as plugin files (pytest11 entry points)
pub open spec fn is_initial(sp: Seq<PV>, er: Seq<PV>, plugins: Set<PV>, k: PV) -> bool {
    is_conftest_or_test_name(k) || seq_has_prefix_of(sp, k) || seq_has_prefix_of(er, k) || plugins.contains(k)
}

// ---- termination measure: universe paths not yet processed (prelude/imports_spec.rs `todo`)
pub proof fn lemma_todo_le(u: Set<PV>, a: Set<PV>)
    ensures todo(u, a) <= u.len()
{ vstd::set_lib::lemma_len_subset(u.difference(a), u); }

// ---------------------------------------------------------------------------------------------
// History of one run of the scan (ghost): what the function did, in terms of the states it saw.
/// state seen when a file was taken from the worklist and marked processed
pub struct Snap { pub cache: Map<PV, Arc<String>>, pub plugins: Set<PV> }
/// one insertion into plugin_fixture_files: `by` = the file being processed, `cached` = the marked module was a
/// file_cache key at that moment (=> queued for re-analysis)
pub struct Mark { pub by: PV, pub cached: bool }
/// where a queued module came from: `by` was being examined while file_cache was `cache` and had an import
/// (star, explicit, pytest_plugins) resolving to it
pub struct Src { pub by: PV, pub cache: Map<PV, Arc<String>> }
/// one call of analyze_file_fresh (cleanup == false) / analyze_file (cleanup == true): canonical path, text handed
/// over, and the file_cache / plugin set the analysis started from
pub struct AStep { pub f: PV, pub text: Seq<char>, pub cleanup: bool, pub cache: Map<PV, Arc<String>>, pub plugins: Set<PV> }
pub struct Hist {
    pub snap: Map<PV, Snap>,      // domain: the examined ("processed") files; value: the state of the LAST examination
    pub why: Map<PV, Mark>,       // domain: the modules newly marked as plugin files
    pub src: Map<PV, Src>,        // queued module -> an examined file one of whose imports resolved to it
    pub tr: Seq<AStep>,           // the analyses, in execution order
    pub nfresh: int,              // tr[0..nfresh): analyses of discovered modules; tr[nfresh..): re-analyses of marked modules
}

// ---- file_cache evolution: analyze_file* = insert under the canonical path, then evict_cache_if_needed
/// c1 is c0 with `text` stored under k, possibly minus evicted entries; no eviction while the cache holds at most
/// MAX_FILE_CACHE_SIZE entries
pub open spec fn cache_next(c0: Map<PV, Arc<String>>, k: PV, text: Seq<char>, c1: Map<PV, Arc<String>>) -> bool {
    &&& c1.dom().subset_of(c0.dom().insert(k))
    &&& forall|q: PV| #[trigger] c1.contains_key(q) ==> (if q == k { (*c1[q])@ == text } else { c0.contains_key(q) && c1[q] == c0[q] })
    &&& c0.dom().insert(k).len() <= max_file_cache() ==> c1.dom() == c0.dom().insert(k)
}
/// the caches seen by consecutive analyses are linked by cache_next; `now` is the cache after the last one
pub open spec fn chain_ok(c0: Map<PV, Arc<String>>, tr: Seq<AStep>, now: Map<PV, Arc<String>>) -> bool
    decreases tr.len()
{
    if tr.len() == 0 { now == c0 } else {
        cache_next(tr.last().cache, tr.last().f, tr.last().text, now) && chain_ok(c0, tr.drop_last(), tr.last().cache)
    }
}
pub proof fn lemma_chain_push(c0: Map<PV, Arc<String>>, tr: Seq<AStep>, now: Map<PV, Arc<String>>, s: AStep, after: Map<PV, Arc<String>>)
    requires chain_ok(c0, tr, now), s.cache == now, cache_next(now, s.f, s.text, after)
    ensures chain_ok(c0, tr.push(s), after)
{
    assert(tr.push(s).drop_last() =~= tr);
}

// ---- one-step plugin propagation and discovery of a processed file
/// an import target is accounted for: it is queued for examination (or already examined).  Since the repair of
/// F-14c (commit 415c9c5) being a file_cache key is no longer an excuse: cached targets are queued too.
pub open spec fn known(q: Set<PV>, cache: Map<PV, Arc<String>>, h: PV) -> bool { q.contains(h) }
/// (P) if f was a plugin file when it was examined, every star-import / pytest_plugins target of f is a plugin file;
/// (D) every import target of f (star, explicit, pytest_plugins) is queued / examined
#[verifier::opaque]
pub open spec fn file_done(s: Snap, f: PV, plugins: Set<PV>, q: Set<PV>) -> bool {
    &&& s.plugins.contains(f) ==> forall|h: PV| #[trigger] edge(env_of(s.cache), f, h) ==> plugins.contains(h)
    &&& forall|h: PV| #[trigger] any_edge(env_of(s.cache), f, h) ==> known(q, s.cache, h)
}
#[verifier::opaque]
pub open spec fn done_ok(snap: Map<PV, Snap>, plugins: Set<PV>, q: Set<PV>, cur: Option<PV>) -> bool {
    forall|f: PV| #[trigger] snap.contains_key(f) ==> cur == Some(f) || file_done(snap[f], f, plugins, q)
}
pub proof fn lemma_file_done_mono(s: Snap, f: PV, pl: Set<PV>, q: Set<PV>, pl2: Set<PV>, q2: Set<PV>)
    requires file_done(s, f, pl, q), pl.subset_of(pl2), q.subset_of(q2) ensures file_done(s, f, pl2, q2)
{ reveal(file_done); }
pub proof fn lemma_done_mono(snap: Map<PV, Snap>, pl: Set<PV>, q: Set<PV>, cur: Option<PV>, pl2: Set<PV>, q2: Set<PV>)
    requires done_ok(snap, pl, q, cur), pl.subset_of(pl2), q.subset_of(q2) ensures done_ok(snap, pl2, q2, cur)
{
    reveal(done_ok);
    assert forall|f: PV| #[trigger] snap.contains_key(f) implies cur == Some(f) || file_done(snap[f], f, pl2, q2) by {
        if cur != Some(f) { lemma_file_done_mono(snap[f], f, pl, q, pl2, q2); }
    }
}
/// a new file is taken from the worklist
pub proof fn lemma_done_begin(snap: Map<PV, Snap>, pl: Set<PV>, q: Set<PV>, c: PV, s: Snap)
    requires done_ok(snap, pl, q, None) ensures done_ok(snap.insert(c, s), pl, q, Some(c))
{ reveal(done_ok); }
/// ... and is finished
pub proof fn lemma_done_end(snap: Map<PV, Snap>, pl: Set<PV>, q: Set<PV>, c: PV)
    requires done_ok(snap, pl, q, Some(c)), snap.contains_key(c), file_done(snap[c], c, pl, q) ensures done_ok(snap, pl, q, None)
{ reveal(done_ok); }
/// a file without a module body (unreadable, unparsable, not Mod::Module) has no edges
pub proof fn lemma_file_done_no_body(s: Snap, f: PV, pl: Set<PV>, q: Set<PV>)
    requires body_at(env_of(s.cache), f) is None ensures file_done(s, f, pl, q)
{ reveal(file_done); reveal(edge); reveal(any_edge); }

// ---- progress through the import list / pytest_plugins list of the file being processed
#[verifier::opaque]
pub open spec fn cur_imps_done(env: Env, c: PV, isp: bool, upto: int, pl: Set<PV>, q: Set<PV>) -> bool {
    &&& isp ==> forall|i: int, h: PV| 0 <= i < upto && #[trigger] star_at(env, c, i, h) ==> pl.contains(h)
    &&& forall|i: int, h: PV| 0 <= i < upto && #[trigger] imp_any_at(env, c, i, h) ==> known(q, env.cache, h)
}
#[verifier::opaque]
pub open spec fn cur_plugs_done(env: Env, c: PV, isp: bool, upto: int, pl: Set<PV>, q: Set<PV>) -> bool {
    forall|j: int, h: PV| 0 <= j < upto && #[trigger] plug_at(env, c, j, h) ==> (isp ==> pl.contains(h)) && known(q, env.cache, h)
}
pub proof fn lemma_cur_imps_zero(env: Env, c: PV, isp: bool, pl: Set<PV>, q: Set<PV>) ensures cur_imps_done(env, c, isp, 0, pl, q)
{ reveal(cur_imps_done); }
pub proof fn lemma_cur_plugs_zero(env: Env, c: PV, isp: bool, pl: Set<PV>, q: Set<PV>) ensures cur_plugs_done(env, c, isp, 0, pl, q)
{ reveal(cur_plugs_done); }
pub proof fn lemma_cur_imps_mono(env: Env, c: PV, isp: bool, upto: int, pl: Set<PV>, q: Set<PV>, pl2: Set<PV>, q2: Set<PV>)
    requires cur_imps_done(env, c, isp, upto, pl, q), pl.subset_of(pl2), q.subset_of(q2) ensures cur_imps_done(env, c, isp, upto, pl2, q2)
{ reveal(cur_imps_done); }
pub proof fn lemma_cur_plugs_mono(env: Env, c: PV, isp: bool, upto: int, pl: Set<PV>, q: Set<PV>, pl2: Set<PV>, q2: Set<PV>)
    requires cur_plugs_done(env, c, isp, upto, pl, q), pl.subset_of(pl2), q.subset_of(q2) ensures cur_plugs_done(env, c, isp, upto, pl2, q2)
{ reveal(cur_plugs_done); }
pub proof fn lemma_cur_imps_unresolved(env: Env, c: PV, isp: bool, i: int, pl: Set<PV>, q: Set<PV>)
    requires cur_imps_done(env, c, isp, i, pl, q), imp_target(env, c, i) is None ensures cur_imps_done(env, c, isp, i + 1, pl, q)
{ reveal(cur_imps_done); }
pub proof fn lemma_cur_imps_step(env: Env, c: PV, isp: bool, i: int, h: PV, pl: Set<PV>, q: Set<PV>)
    requires cur_imps_done(env, c, isp, i, pl, q), imp_target(env, c, i) == Some(h), known(q, env.cache, h),
        isp && imps(env, c)[i].star ==> pl.contains(h)
    ensures cur_imps_done(env, c, isp, i + 1, pl, q)
{ reveal(cur_imps_done); }
pub proof fn lemma_cur_plugs_unresolved(env: Env, c: PV, isp: bool, j: int, pl: Set<PV>, q: Set<PV>)
    requires cur_plugs_done(env, c, isp, j, pl, q), plug_target(env, c, j) is None ensures cur_plugs_done(env, c, isp, j + 1, pl, q)
{ reveal(cur_plugs_done); }
pub proof fn lemma_cur_plugs_step(env: Env, c: PV, isp: bool, j: int, h: PV, pl: Set<PV>, q: Set<PV>)
    requires cur_plugs_done(env, c, isp, j, pl, q), plug_target(env, c, j) == Some(h), known(q, env.cache, h), isp ==> pl.contains(h)
    ensures cur_plugs_done(env, c, isp, j + 1, pl, q)
{ reveal(cur_plugs_done); }
/// both lists completely walked: the file is done
pub proof fn lemma_file_done_from_lists(s: Snap, c: PV, pl: Set<PV>, q: Set<PV>)
    requires
        cur_imps_done(env_of(s.cache), c, s.plugins.contains(c), imps(env_of(s.cache), c).len() as int, pl, q),
        cur_plugs_done(env_of(s.cache), c, s.plugins.contains(c), plugs(env_of(s.cache), c).len() as int, pl, q),
    ensures file_done(s, c, pl, q)
{
    let env = env_of(s.cache);
    reveal(cur_imps_done); reveal(cur_plugs_done); reveal(file_done); reveal(edge); reveal(any_edge);
    if s.plugins.contains(c) {
        assert forall|h: PV| #[trigger] edge(env, c, h) implies pl.contains(h) by {
            if exists|i: int| #[trigger] star_at(env, c, i, h) { let i = choose|i: int| #[trigger] star_at(env, c, i, h); }
            else { let j = choose|j: int| #[trigger] plug_at(env, c, j, h); }
        }
    }
    assert forall|h: PV| #[trigger] any_edge(env, c, h) implies known(q, s.cache, h) by {
        if exists|i: int| #[trigger] imp_any_at(env, c, i, h) { let i = choose|i: int| #[trigger] imp_any_at(env, c, i, h); }
        else { let j = choose|j: int| #[trigger] plug_at(env, c, j, h); }
    }
}

// ---- the snapshots
#[verifier::opaque]
pub open spec fn snap_ok(snap: Map<PV, Snap>, p0: Set<PV>, pl: Set<PV>) -> bool {
    forall|f: PV| #[trigger] snap.contains_key(f) ==> p0.subset_of(snap[f].plugins) && snap[f].plugins.subset_of(pl)
}
pub proof fn lemma_snap_ok_mono(snap: Map<PV, Snap>, p0: Set<PV>, pl: Set<PV>, pl2: Set<PV>)
    requires snap_ok(snap, p0, pl), pl.subset_of(pl2) ensures snap_ok(snap, p0, pl2)
{ reveal(snap_ok); }
pub proof fn lemma_snap_ok_add(snap: Map<PV, Snap>, p0: Set<PV>, pl: Set<PV>, c: PV, s: Snap)
    requires snap_ok(snap, p0, pl), p0.subset_of(pl), s.plugins == pl ensures snap_ok(snap.insert(c, s), p0, pl)
{ reveal(snap_ok); }

// ---- the marks
/// h was marked while the plugin file m.by was being examined, through a star import / pytest_plugins entry of it
pub open spec fn mark_ok(snap: Map<PV, Snap>, m: Mark, h: PV) -> bool {
    snap.contains_key(m.by) && snap[m.by].plugins.contains(m.by) && edge(env_of(snap[m.by].cache), m.by, h)
    && m.cached == snap[m.by].cache.contains_key(h) && canon(h) == h && scan_universe().contains(h)
}
/// pset = the files currently marked processed.  A marker is a plugin file, so it is never un-processed and examined
/// again: its snapshot (which mark_ok reads) is final.
#[verifier::opaque]
pub open spec fn why_ok(snap: Map<PV, Snap>, why: Map<PV, Mark>, p0: Set<PV>, pl: Set<PV>, pset: Set<PV>) -> bool {
    &&& pl == p0.union(why.dom())
    &&& p0.disjoint(why.dom())
    &&& forall|h: PV| #[trigger] why.contains_key(h) ==> mark_ok(snap, why[h], h) && pset.contains(why[h].by) && pl.contains(why[h].by)
}
/// a file is taken from the worklist (first time, or again after it was un-processed)
pub proof fn lemma_why_ok_snap(snap: Map<PV, Snap>, why: Map<PV, Mark>, p0: Set<PV>, pl: Set<PV>, pset: Set<PV>, c: PV, s: Snap)
    requires why_ok(snap, why, p0, pl, pset), !pset.contains(c) ensures why_ok(snap.insert(c, s), why, p0, pl, pset.insert(c))
{
    reveal(why_ok);
    assert forall|h: PV| #[trigger] why.contains_key(h) implies mark_ok(snap.insert(c, s), why[h], h) by {
        assert(mark_ok(snap, why[h], h));
    }
}
/// h is marked by m.by and (if it was marked processed) un-processed
pub proof fn lemma_why_ok_mark(snap: Map<PV, Snap>, why: Map<PV, Mark>, p0: Set<PV>, pl: Set<PV>, pset: Set<PV>, h: PV, m: Mark)
    requires why_ok(snap, why, p0, pl, pset), !pl.contains(h), mark_ok(snap, m, h), pset.contains(m.by), pl.contains(m.by)
    ensures why_ok(snap, why.insert(h, m), p0, pl.insert(h), pset.remove(h)), !why.contains_key(h)
{
    reveal(why_ok);
    assert(pl.insert(h) =~= p0.union(why.insert(h, m).dom()));
}
pub proof fn lemma_why_pl(snap: Map<PV, Snap>, why: Map<PV, Mark>, p0: Set<PV>, pl: Set<PV>, pset: Set<PV>)
    requires why_ok(snap, why, p0, pl, pset) ensures p0.subset_of(pl)
{ reveal(why_ok); }
/// every file currently marked processed that is a plugin file was examined as a plugin file (this is what the
/// `processed_files.remove` of commit 402a101 buys)
#[verifier::opaque]
pub open spec fn asp_ok(snap: Map<PV, Snap>, pset: Set<PV>, pl: Set<PV>) -> bool {
    forall|f: PV| #[trigger] pset.contains(f) ==> snap.contains_key(f) && (pl.contains(f) ==> snap[f].plugins.contains(f))
}
pub proof fn lemma_asp_add(snap: Map<PV, Snap>, pset: Set<PV>, pl: Set<PV>, c: PV, s: Snap)
    requires asp_ok(snap, pset, pl), s.plugins == pl, !pset.contains(c) ensures asp_ok(snap.insert(c, s), pset.insert(c), pl)
{ reveal(asp_ok); }
pub proof fn lemma_asp_mark(snap: Map<PV, Snap>, pset: Set<PV>, pl: Set<PV>, h: PV)
    requires asp_ok(snap, pset, pl) ensures asp_ok(snap, pset.remove(h), pl.insert(h))
{ reveal(asp_ok); }
/// the modules queued for re-analysis: marked while they were file_cache keys
pub open spec fn rean_set(why: Map<PV, Mark>) -> Set<PV> { why.dom().filter(|h: PV| why[h].cached) }
pub proof fn lemma_rean_mark(why: Map<PV, Mark>, h: PV, m: Mark)
    requires !why.contains_key(h)
    ensures rean_set(why.insert(h, m)) == (if m.cached { rean_set(why).insert(h) } else { rean_set(why) })
{
    let w2 = why.insert(h, m);
    if m.cached { assert(rean_set(w2) =~= rean_set(why).insert(h)); } else { assert(rean_set(w2) =~= rean_set(why)); }
}

// ---- the analyses
/// an analysis of a discovered module: it exists, is readable, was not a file_cache key when its turn came
/// (analyze_file_fresh, or analyze_file when the index already has entries for it: see post_R in the unit)
pub open spec fn disc_step_ok(s: AStep) -> bool {
    !s.cache.contains_key(s.f) && fs_exists(s.f) && fs_read(s.f) == Some(s.text) && canon(s.f) == s.f
}
pub open spec fn has_disc(tr: Seq<AStep>, n: int, m: PV) -> bool { exists|i: int| 0 <= i < n && i < tr.len() && (#[trigger] tr[i]).f == m }
/// a queued file is accounted for: it was a file_cache key at the start, or it was analysed, or it could not be read
pub open spec fn handled(c0: Map<PV, Arc<String>>, tr: Seq<AStep>, n: int, m: PV) -> bool {
    c0.contains_key(m) || has_disc(tr, n, m) || !fs_exists(m) || fs_read(m) is None
}
#[verifier::opaque]
pub open spec fn handled_ok(c0: Map<PV, Arc<String>>, tr: Seq<AStep>, q: Set<PV>, nm: Set<PV>) -> bool {
    forall|m: PV| #[trigger] q.contains(m) ==> nm.contains(m) || handled(c0, tr, tr.len() as int, m)
}
#[verifier::opaque]
pub open spec fn disc_ok(tr: Seq<AStep>, q: Set<PV>, p0: Set<PV>, pl: Set<PV>) -> bool {
    forall|i: int| 0 <= i < tr.len() ==> disc_step_ok(#[trigger] tr[i]) && q.contains(tr[i].f) && p0.subset_of(tr[i].plugins) && tr[i].plugins.subset_of(pl)
}
pub proof fn lemma_disc_ok_mono(tr: Seq<AStep>, q: Set<PV>, p0: Set<PV>, pl: Set<PV>, q2: Set<PV>, pl2: Set<PV>)
    requires disc_ok(tr, q, p0, pl), q.subset_of(q2), pl.subset_of(pl2) ensures disc_ok(tr, q2, p0, pl2)
{ reveal(disc_ok); }
pub proof fn lemma_disc_ok_push(tr: Seq<AStep>, q: Set<PV>, p0: Set<PV>, pl: Set<PV>, s: AStep)
    requires disc_ok(tr, q, p0, pl), disc_step_ok(s), q.contains(s.f), p0.subset_of(s.plugins), s.plugins.subset_of(pl)
    ensures disc_ok(tr.push(s), q, p0, pl)
{ reveal(disc_ok); }
pub proof fn lemma_handled_mono(c0: Map<PV, Arc<String>>, tr: Seq<AStep>, m: PV, s: AStep)
    requires handled(c0, tr, tr.len() as int, m) ensures handled(c0, tr.push(s), (tr.len() + 1) as int, m)
{
    if has_disc(tr, tr.len() as int, m) {
        let i = choose|i: int| 0 <= i < tr.len() && (#[trigger] tr[i]).f == m;
        assert(tr.push(s)[i].f == m);
    }
}
/// a module that is a file_cache key enters the queue: its text comes from the start cache or an analysis of the run
pub proof fn lemma_handled_enqueue_cached(c0: Map<PV, Arc<String>>, tr: Seq<AStep>, q: Set<PV>, nm: Set<PV>, c: Map<PV, Arc<String>>, h: PV)
    requires handled_ok(c0, tr, q, nm), cache_src(c0, tr, c), c.contains_key(h) ensures handled_ok(c0, tr, q.insert(h), nm)
{ reveal(handled_ok); reveal(cache_src); }
/// a new module enters the queue (it is in new_modules until the analysis loop has looked at it)
pub proof fn lemma_handled_enqueue(c0: Map<PV, Arc<String>>, tr: Seq<AStep>, q: Set<PV>, nm: Set<PV>, h: PV)
    requires handled_ok(c0, tr, q, nm) ensures handled_ok(c0, tr, q.insert(h), nm.insert(h))
{ reveal(handled_ok); }
/// the analysis loop has looked at m (analysed it: `s` pushed; or found it missing / unreadable)
pub proof fn lemma_handled_dequeue(c0: Map<PV, Arc<String>>, tr_b: Seq<AStep>, tr: Seq<AStep>, q: Set<PV>, left: Set<PV>, m: PV)
    requires handled_ok(c0, tr_b, q, left), tr == tr_b || tr == tr_b.push(tr.last()), handled(c0, tr, tr.len() as int, m)
    ensures handled_ok(c0, tr, q, left.remove(m))
{
    reveal(handled_ok);
    assert forall|x: PV| #[trigger] q.contains(x) implies left.remove(m).contains(x) || handled(c0, tr, tr.len() as int, x) by {
        if x != m && !left.contains(x) && tr != tr_b {
            assert(tr =~= tr_b.push(tr.last()));
            lemma_handled_mono(c0, tr_b, x, tr.last());
        }
    }
}

// ---- where cached texts come from: the cache at the start, or an analysis of the run
#[verifier::opaque]
pub open spec fn cache_src(c0: Map<PV, Arc<String>>, tr: Seq<AStep>, c: Map<PV, Arc<String>>) -> bool {
    forall|x: PV| #[trigger] c.contains_key(x) ==> c0.contains_key(x) || has_disc(tr, tr.len() as int, x)
}
pub proof fn lemma_cache_src_mono(c0: Map<PV, Arc<String>>, tr: Seq<AStep>, c: Map<PV, Arc<String>>, s: AStep)
    requires cache_src(c0, tr, c) ensures cache_src(c0, tr.push(s), c)
{
    reveal(cache_src);
    assert forall|x: PV| #[trigger] c.contains_key(x) implies c0.contains_key(x) || has_disc(tr.push(s), tr.push(s).len() as int, x) by {
        if has_disc(tr, tr.len() as int, x) {
            let i = choose|i: int| 0 <= i < tr.len() && (#[trigger] tr[i]).f == x;
            assert(tr.push(s)[i].f == x);
        }
    }
}
pub proof fn lemma_cache_src_push(c0: Map<PV, Arc<String>>, tr: Seq<AStep>, c: Map<PV, Arc<String>>, s: AStep, c2: Map<PV, Arc<String>>)
    requires cache_src(c0, tr, c), cache_next(c, s.f, s.text, c2) ensures cache_src(c0, tr.push(s), c2)
{
    lemma_cache_src_mono(c0, tr, c, s);
    reveal(cache_src);
    let t2 = tr.push(s);
    assert forall|x: PV| #[trigger] c2.contains_key(x) implies c0.contains_key(x) || has_disc(t2, t2.len() as int, x) by {
        if x == s.f { assert(t2[tr.len() as int].f == x); } else { assert(c.contains_key(x)); }
    }
}
#[verifier::opaque]
pub open spec fn snapc_ok(snap: Map<PV, Snap>, c0: Map<PV, Arc<String>>, tr: Seq<AStep>) -> bool {
    forall|f: PV| #[trigger] snap.contains_key(f) ==> cache_src(c0, tr, snap[f].cache)
}
pub proof fn lemma_snapc_add(snap: Map<PV, Snap>, c0: Map<PV, Arc<String>>, tr: Seq<AStep>, c: PV, s: Snap)
    requires snapc_ok(snap, c0, tr), cache_src(c0, tr, s.cache) ensures snapc_ok(snap.insert(c, s), c0, tr)
{ reveal(snapc_ok); }
pub proof fn lemma_snapc_push(snap: Map<PV, Snap>, c0: Map<PV, Arc<String>>, tr: Seq<AStep>, s: AStep)
    requires snapc_ok(snap, c0, tr) ensures snapc_ok(snap, c0, tr.push(s))
{
    reveal(snapc_ok);
    assert forall|f: PV| #[trigger] snap.contains_key(f) implies cache_src(c0, tr.push(s), snap[f].cache) by { lemma_cache_src_mono(c0, tr, snap[f].cache, s); }
}

// ---- termination measure of the repaired scan: 2 * |U \ plugin files| + |U \ processed|  (a mark may un-process one file)
pub open spec fn scan_measure(u: Set<PV>, pl: Set<PV>, pset: Set<PV>) -> nat { 2 * todo(u, pl) + todo(u, pset) }
//@tags C12
pub proof fn lemma_todo_remove(u: Set<PV>, a: Set<PV>, c: PV)
    ensures todo(u, a.remove(c)) <= todo(u, a) + 1
{
    if u.contains(c) && a.contains(c) {
        assert(u.difference(a.remove(c)) =~= u.difference(a).insert(c));
    } else {
        assert(u.difference(a.remove(c)) =~= u.difference(a));
    }
}
//@tags C12
/// marking h (a path of the universe that was no plugin file) and un-processing it lowers the measure
pub proof fn lemma_measure_mark(u: Set<PV>, pl: Set<PV>, pset: Set<PV>, h: PV)
    requires u.contains(h), !pl.contains(h)
    ensures scan_measure(u, pl.insert(h), pset.remove(h)) < scan_measure(u, pl, pset), scan_measure(u, pl.insert(h), pset) < scan_measure(u, pl, pset)
{
    lemma_todo_insert(u, pl, h);
    lemma_todo_remove(u, pset, h);
}
