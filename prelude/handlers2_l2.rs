// ---------------------------------------------------------------------------------------------
// L2 for callHierarchy/outgoingCalls and textDocument/inlayHint (C05 / C15).  Needs handlers2_spec.rs, avail_l2.rs.

// ---- inlay hints: the map the handler builds from the per-file view is the view's pick -----------------------
pub proof fn lemma_rt_lookup_absent(av: Seq<DefV>, n: Seq<char>)
    requires forall|k: int| 0 <= k < av.len() ==> (#[trigger] av[k]).name != n
    ensures rt_lookup(av, n) is None
    decreases av.len()
{
    if av.len() > 0 {
        assert(av.last() == av[av.len() - 1]);
        assert forall|k: int| 0 <= k < av.drop_last().len() implies (#[trigger] av.drop_last()[k]).name != n by { assert(av.drop_last()[k] == av[k]); }
        lemma_rt_lookup_absent(av.drop_last(), n);
    }
}
pub proof fn lemma_rt_lookup_unique(av: Seq<DefV>, n: Seq<char>, k: int)
    requires 0 <= k < av.len(), av[k].name == n,
        forall|i: int, j: int| 0 <= i < j < av.len() ==> (#[trigger] av[i]).name != (#[trigger] av[j]).name,
    ensures rt_lookup(av, n) == av[k].return_type
    decreases av.len()
{
    let t = av.drop_last();
    assert forall|i: int| 0 <= i < t.len() implies t[i] == av[i] by {}
    if k == av.len() - 1 {
        if av.last().return_type is None {
            assert forall|i: int| 0 <= i < t.len() implies (#[trigger] t[i]).name != n by { assert(av[i].name != av[k].name); }
            lemma_rt_lookup_absent(t, n);
        }
    } else {
        assert(av[k].name != av[av.len() - 1].name);
        assert forall|i: int, j: int| 0 <= i < j < t.len() implies (#[trigger] t[i]).name != (#[trigger] t[j]).name by { assert(av[i].name != av[j].name); }
        assert(t[k] == av[k]);
        lemma_rt_lookup_unique(t, n, k);
    }
}
//@tags C05
/// the return type an inlay hint shows for name n is the return type of THE entry of the per-file view for n
/// (avail_pick: one entry per visible name, unit available) — whatever list satisfying the view's contract the
/// handler received
pub proof fn lemma_C05_inlay_type_is_view_entry(av: Seq<DefV>, a: AvV, file: PV, n: Seq<char>)
    requires avail_post(av, a, file)
    ensures rt_lookup(av, n) == (match avail_pick(a, file, n) { Some(d) => d.return_type, None => None })
{
    lemma_C05_a_one_entry_per_name(av, a, file, n);
    if exists|k: int| 0 <= k < av.len() && (#[trigger] av[k]).name == n {
        let k = choose|k: int| 0 <= k < av.len() && (#[trigger] av[k]).name == n;
        assert(avail_pick(a, file, av[k].name) == Some(av[k]));
        lemma_rt_lookup_unique(av, n, k);
    } else {
        lemma_rt_lookup_absent(av, n);
    }
}
//@tags C05
/// which usages get a hint, and what it says: usage x of the file (inside the requested lines, not annotated)
/// gets a hint iff the view has an entry D for x's name with a return type; the hint sits at the END of x's name
/// span and shows D's return type
pub proof fn lemma_C05_inlay_hint_per_usage(us: Seq<UseV>, av: Seq<DefV>, a: AvV, file: PV, lines: Seq<Seq<char>>, sl: usize, el: usize, k: int)
    requires avail_post(av, a, file), 0 <= k < us.len()
    ensures
        hint_wanted(us[k], av, lines, sl, el) <==> (sl <= us[k].line <= el && !has_annotation(lines, us[k].line, us[k].end_char)
            && avail_pick(a, file, us[k].name) is Some && (avail_pick(a, file, us[k].name)->0).return_type is Some),
        hint_wanted(us[k], av, lines, sl, el) ==>
            hints_of(us, av, lines, sl, el).contains(hint_for(us[k], (avail_pick(a, file, us[k].name)->0).return_type->0)),
    decreases us.len()
{
    lemma_C05_inlay_type_is_view_entry(av, a, file, us[k].name);
    let all = hints_of(us, av, lines, sl, el);
    if hint_wanted(us[k], av, lines, sl, el) {
        let want = hint_for(us[k], rt_lookup(av, us[k].name)->0);
        if k == us.len() - 1 {
            assert(us.last() == us[k]);
            assert(all[all.len() - 1] == want);
        } else {
            let t = us.drop_last();
            assert(t[k] == us[k]);
            lemma_C05_inlay_hint_per_usage(t, av, a, file, lines, sl, el, k);
            let sub = hints_of(t, av, lines, sl, el);
            let j = choose|j: int| 0 <= j < sub.len() && sub[j] == want;
            assert(all[j] == sub[j]);
        }
    }
}
//@tags C05
/// AGREEMENT of inlay hints with go-to-definition on the same usage x (file f, canonical), with EXPLICIT hypotheses:
///  H0 the usage is not a self-named parameter (no definition carrying x's name sits on x's line) — otherwise
///     go-to-definition skips that definition and the hint does not: see lemma_C05_FINDING_inlay_self_named below;
///  H3 the two import tests coincide;  H4 f has a parent directory (unit available).
/// (H1 "f defines the name at most once" is no longer needed: since the repair of F-05a the view takes the last
/// same-file definition of maximal line, as go-to-definition does.)
pub proof fn lemma_C05_inlay_agrees_with_goto(a: AvV, provf: spec_fn(Seq<char>) -> spec_fn(PV) -> bool, f: PV, x: UseV)
    requires
        match pick_at_line(a.defs, f, x.line) { Some(c) => c.name != x.name, None => true },
        import_tests_agree(a, provf(x.name), x.name), pv_has_parent(f) && f.len() > 0,
    ensures avail_pick(a, f, x.name) == resolve_usage(a.defs, provf, f, x)
{
    lemma_C05_b_view_agrees_with_goto(a, f, provf(x.name), x.name);
}
//@tags C05
/// FINDING (proved): the overriding fixture `def foo(foo)` in file f (its only definition of `foo`; a parent conftest
/// defines the `foo` it overrides).  Go-to-definition on the parameter skips the fixture on the parameter's own line
/// (resolution excluding D: never D, lemma_C02_a); the per-file view inlay hints use has D ITSELF as the entry for
/// `foo` (the same-file definition wins) — the hint on the parameter shows D's own return type.
pub proof fn lemma_C05_FINDING_inlay_self_named(a: AvV, provf: spec_fn(Seq<char>) -> spec_fn(PV) -> bool, f: PV, x: UseV, d: DefV, k: int)
    requires
        unique_at_line(a.defs), at_line(a.defs, f, x.line, d), d.name == x.name,           // x is a parameter of D named like D
        0 <= k < bucket(a.defs, x.name).len(), bucket(a.defs, x.name)[k] == d, at_most_one_in(bucket(a.defs, x.name), f),
    ensures avail_pick(a, f, x.name) == Some(d), resolve_usage(a.defs, provf, f, x) != Some(d),
{
    lemma_pick(a.defs, f, x.line, d);
    lemma_C02_a_never_self(bucket(a.defs, x.name), f, provf(x.name), d);
    let ds = bucket(a.defs, x.name);
    let p = p_same(f, fs_true());
    // the view's same-file entry is best_same (last of maximal line); D is the only same-file definition
    assert forall|i: int, j: int| 0 <= i < ds.len() && 0 <= j < ds.len() && p(#[trigger] ds[i]) && p(#[trigger] ds[j]) implies i == j by {}
    lemma_unique_first_is_best(ds, p);
    lemma_first_match_in(ds, p);
    assert(p(ds[k]));
    match first_match(ds, p) {
        None => { lemma_first_match_none_all(ds, p, k); }
        Some(e) => { let i = choose|i: int| 0 <= i < ds.len() && ds[i] == e; assert(i == k); }
    }
}
pub proof fn lemma_first_match_none_all(ds: Seq<DefV>, p: spec_fn(DefV) -> bool, k: int)
    requires first_match(ds, p) is None, 0 <= k < ds.len()
    ensures !p(ds[k])
    decreases ds.len()
{
    if k > 0 { assert(ds.drop_first()[k - 1] == ds[k]); lemma_first_match_none_all(ds.drop_first(), p, k - 1); }
}
//@tags C15
/// inlay-hint anchors: protocol line x.line - 1, column = END of the name span, unchanged (explicit no-truncation
/// hypotheses)
pub proof fn lemma_C15_inlay_anchor(x: UseV, rt: Seq<char>)
    requires 1 <= x.line, line_fits(x.line), col_fits(x.end_char)
    ensures hint_for(x, rt).position.line as int == x.line - 1, hint_for(x, rt).position.character as int == x.end_char
{}

// ---- outgoing calls -------------------------------------------------------------------------------------------
//@tags C05
/// outgoing calls: one call per dependency name that resolve_fixture_for_file resolves (and whose file has a URI),
/// in declaration order; the callee item is built exactly like the item prepareCallHierarchy builds for that
/// definition (def_item)
pub proof fn lemma_C05_outgoing_items_are_prepared_items(v: NavV, p: PV, d: DefV, deps: Seq<Seq<char>>, k: int)
    requires 0 <= k < out_calls(v, p, d, deps).len()
    ensures exists|i: int| 0 <= i < deps.len() && dep_target(v, p, d, deps[i]) is Some
        && path_uri(v.uc, (dep_target(v, p, d, deps[i])->0).file) is Some
        && #[trigger] out_calls(v, p, d, deps)[k].to == def_item(path_uri(v.uc, (dep_target(v, p, d, deps[i])->0).file)->0, dep_target(v, p, d, deps[i])->0)
    decreases deps.len()
{
    if deps.len() > 0 {
        let rest = out_calls(v, p, d, deps.drop_last());
        if k < rest.len() {
            lemma_C05_outgoing_items_are_prepared_items(v, p, d, deps.drop_last(), k);
            let i = choose|i: int| 0 <= i < deps.drop_last().len() && dep_target(v, p, d, deps.drop_last()[i]) is Some
                && path_uri(v.uc, (dep_target(v, p, d, deps.drop_last()[i])->0).file) is Some
                && #[trigger] rest[k].to == def_item(path_uri(v.uc, (dep_target(v, p, d, deps.drop_last()[i])->0).file)->0, dep_target(v, p, d, deps.drop_last()[i])->0);
            assert(deps.drop_last()[i] == deps[i]);
            assert(out_calls(v, p, d, deps)[k] == rest[k]);
        } else {
            let i = deps.len() - 1;
            assert(deps.last() == deps[i]);
        }
    }
}
//@tags C05
/// AGREEMENT of an outgoing call's target with go-to-definition for a dependency that is NOT the fixture's own name,
/// in the case the property covers without further hypotheses about imports: the requesting file itself defines the
/// dependency's name exactly once (unit available, lemma_C05_c).  Beyond that case F-05b remains for these
/// dependencies (resolve_fixture_for_file is not resolution): canary_outgoing_resolves_like_goto.
pub proof fn lemma_C05_outgoing_agrees_same_file(v: NavV, p: PV, d: DefV, dep: Seq<char>, k: int)
    requires dep != d.name, 0 <= k < bucket(v.defs, dep).len(), bucket(v.defs, dep)[k].file == p, at_most_one_in(bucket(v.defs, dep), p)
    ensures dep_target(v, p, d, dep) == Some(bucket(v.defs, dep)[k]),
        op_resolve(bucket(v.defs, dep), p, (v.provf)(dep), fs_true()) == Some(bucket(v.defs, dep)[k])
{
    lemma_C05_c_ff_same_file(bucket(v.defs, dep), p, canon_pv(p), (v.provf)(dep), k);
}
//@tags C05 C02
/// C05 (positive since the repair of F-05d) — the overriding fixture D = `def foo(foo)` in file p: the target of its
/// SELF-NAMED dependency in outgoingCalls IS the definition go-to-definition selects for that parameter (the usage x
/// on D's line carrying D's name): both are resolution from p with D excluded.  In particular it is never D itself
/// (no self-loop: lemma_C02_a) and it is the resolution in the index without D ("the next definition outward",
/// lemma_C02_b, unit resolver_core).  Hypotheses: W4 (unique_at_line) and D registered at the parameter's (file, line).
pub proof fn lemma_C05_outgoing_self_dependency_is_goto_target(v: NavV, p: PV, x: UseV, d: DefV)
    requires unique_at_line(v.defs), at_line(v.defs, p, x.line, d), d.name == x.name,
    ensures dep_target(v, p, d, x.name) == resolve_usage(v.defs, v.provf, p, x),
        dep_target(v, p, d, x.name) != Some(d),
{
    lemma_pick(v.defs, p, x.line, d);
    lemma_C02_a_never_self(bucket(v.defs, x.name), p, (v.provf)(x.name), d);
}
//@tags C15
/// C15 (positive since the repair of F-15c) — every from_range find_parameter_ranges reports is EXACTLY the recorded
/// span of a usage of the dependency's name on the fixture's definition line: protocol line = line - 1, columns
/// start_char..end_char unchanged (explicit no-truncation hypotheses), well-formed iff start_char <= end_char.
/// Composed with unit visit (parameters of a fixture are recorded as usages with the span of the parameter TOKEN):
/// the range is the parameter, never a substring of another identifier on the line.  Conversely every such usage
/// contributes one range, in list order (multiplicity included).
pub proof fn lemma_C15_from_ranges_are_recorded_parameter_spans(uses: Map<PV, Seq<UseV>>, file: PV, line: usize, name: Seq<char>, k: int)
    requires param_ranges(uses, file, line, name) is Some, 0 <= k < (param_ranges(uses, file, line, name)->0).len()
    ensures ({
        let rs = param_ranges(uses, file, line, name)->0;
        let kept = uses[file].filter(param_use(line, name));
        &&& uses.contains_key(file) && rs.len() == kept.len() && rs[k] == use_range(kept[k])
        &&& uses[file].contains(kept[k]) && kept[k].line == line && kept[k].name == name
        &&& (1 <= line && line_fits(line) && col_fits(kept[k].start_char) && col_fits(kept[k].end_char)) ==> ({
                &&& rs[k].start.line as int == line - 1 && rs[k].end.line == rs[k].start.line
                &&& rs[k].start.character as int == kept[k].start_char && rs[k].end.character as int == kept[k].end_char
                &&& range_wf(rs[k]) <==> kept[k].start_char <= kept[k].end_char
            })
    })
{
    let kept = uses[file].filter(param_use(line, name));
    lemma_filter_mem(uses[file], param_use(line, name), kept[k]);
    assert(kept.contains(kept[k]));
}
//@tags C15
/// when is there NO from_range of its own: the file has no usages entry, or no usage of that name is recorded ON THE
/// DEFINITION LINE (e.g. a multi-line signature: the parameter is recorded on a later line).  The call then carries
/// the FALLBACK: the name span of the CALLEE's definition — a range of another line / document, which the protocol
/// reads relative to the caller's document.  Stated as the fact it is (known finding F-15c, second half).
pub proof fn lemma_C15_outgoing_from_range_fallback(v: NavV, p: PV, d: DefV, dep: Seq<char>, dd: DefV, u: Uri)
    ensures
        param_ranges(v.uses, p, d.line, dep) is None <==>
            (!v.uses.contains_key(p) || forall|i: int| 0 <= i < v.uses[p].len() ==> !param_use(d.line, dep)(#[trigger] v.uses[p][i])),
        param_ranges(v.uses, p, d.line, dep) is None ==> out_call_for(v, p, d, dep, dd, u).from_ranges == seq![def_name_range(dd)]
            && out_call_for(v, p, d, dep, dd, u).from_ranges[0] == out_call_for(v, p, d, dep, dd, u).to.selection_range,
        param_ranges(v.uses, p, d.line, dep) is Some ==> out_call_for(v, p, d, dep, dd, u).from_ranges == param_ranges(v.uses, p, d.line, dep)->0,
{
    if v.uses.contains_key(p) {
        let s = v.uses[p];
        let pu = param_use(d.line, dep);
        if forall|i: int| 0 <= i < s.len() ==> !pu(#[trigger] s[i]) {
            if s.filter(pu).len() > 0 { lemma_filter_mem(s, pu, s.filter(pu)[0]); assert(s.filter(pu).contains(s.filter(pu)[0])); }
        } else {
            let i = choose|i: int| 0 <= i < s.len() && pu(#[trigger] s[i]);
            lemma_filter_mem(s, pu, s[i]);
            assert(s.contains(s[i]));
        }
    }
}
//@tags C15
/// multiplicity: a usage recorded TWICE gives two equal from_ranges (the parameters of a function that is both a
/// `test_*` function and fixture-decorated are recorded by both visitors — unit visit) — the list is not duplicate-free
pub proof fn lemma_C15_param_ranges_repeat_double_records(uses: Map<PV, Seq<UseV>>, file: PV, u: UseV)
    requires uses.contains_key(file), uses[file] == seq![u, u]
    ensures param_ranges(uses, file, u.line, u.name) == Some(seq![use_range(u), use_range(u)])
{
    let s = seq![u, u];
    let pu = param_use(u.line, u.name);
    reveal_with_fuel(Seq::filter, 3);
    assert(s.drop_last() =~= seq![u]);
    assert(seq![u].drop_last() =~= Seq::<UseV>::empty());
    assert(s.filter(pu) =~= seq![u, u]);
    assert(s.filter(pu).map_values(use_range_fn()) =~= seq![use_range(u), use_range(u)]);
}

// ---- vacuity guards: each of these must FAIL -------------------------------------------------------------------
/// outgoing calls resolve dependencies as go-to-definition does (FALSE: F-05b, and the self-dependency finding)
proof fn canary_outgoing_resolves_like_goto(v: NavV, p: PV, d: DefV, dep: Seq<char>)
    requires pv_has_parent(p) && p.len() > 0, dep != d.name
    ensures dep_target(v, p, d, dep) == op_resolve(bucket(v.defs, dep), p, (v.provf)(dep), fs_true())
{
    lemma_best_props(bucket(v.defs, dep), p_same(p, fs_true()));
    lemma_first_match_in(bucket(v.defs, dep), p_same(p, fs_true()));
}
/// the pre-fix behaviour (F-05d): a self-named dependency resolves through resolve_fixture_for_file (to D itself)
proof fn canary_outgoing_self_dependency_unexcluded(v: NavV, p: PV, d: DefV)
    ensures dep_target(v, p, d, d.name) == op_resolve_ff(bucket(v.defs, d.name), p, canon_pv(p))
{}
/// the exclusion applies to EVERY dependency
proof fn canary_outgoing_exclusion_for_every_dependency(v: NavV, p: PV, d: DefV, dep: Seq<char>)
    ensures dep_target(v, p, d, dep) == op_resolve(bucket(v.defs, dep), p, (v.provf)(dep), fs_excl(Some(d)))
{}
/// the self-named dependency agrees with go-to-definition without W4
proof fn canary_outgoing_self_dependency_without_w4(v: NavV, p: PV, x: UseV, d: DefV)
    requires at_line(v.defs, p, x.line, d), d.name == x.name
    ensures dep_target(v, p, d, x.name) == resolve_usage(v.defs, v.provf, p, x)
{}
/// the from_ranges come from a text search: one range per call (FALSE since F-15c was repaired: one per recorded usage)
proof fn canary_param_ranges_single_range(uses: Map<PV, Seq<UseV>>, file: PV, line: usize, name: Seq<char>)
    requires param_ranges(uses, file, line, name) is Some
    ensures (param_ranges(uses, file, line, name)->0).len() == 1
{}
/// the from_ranges are duplicate-free (FALSE: double-recorded parameters)
proof fn canary_param_ranges_no_duplicates(uses: Map<PV, Seq<UseV>>, file: PV, line: usize, name: Seq<char>)
    requires param_ranges(uses, file, line, name) is Some
    ensures (param_ranges(uses, file, line, name)->0).no_duplicates()
{}
/// a file with recorded usages always yields own from_ranges (FALSE: multi-line signatures -> fallback)
proof fn canary_param_ranges_never_fall_back(uses: Map<PV, Seq<UseV>>, file: PV, line: usize, name: Seq<char>)
    requires uses.contains_key(file), uses[file].len() > 0
    ensures param_ranges(uses, file, line, name) is Some
{}
/// usages of the name on OTHER lines count too (the line test matters)
proof fn canary_param_ranges_ignore_line(uses: Map<PV, Seq<UseV>>, file: PV, line: usize, u: UseV)
    requires uses.contains_key(file), uses[file] == seq![u], u.line != line
    ensures param_ranges(uses, file, line, u.name) is Some
{
    reveal_with_fuel(Seq::filter, 2);
}
/// every dependency yields an outgoing call
proof fn canary_outgoing_one_call_per_dependency(v: NavV, p: PV, d: DefV)
    ensures out_calls(v, p, d, d.dependencies).len() == d.dependencies.len()
{}
/// inlay hints agree with go-to-definition without H0 (FALSE: self-named parameter)
proof fn canary_inlay_agrees_with_goto_without_H0(a: AvV, provf: spec_fn(Seq<char>) -> spec_fn(PV) -> bool, f: PV, x: UseV)
    requires import_tests_agree(a, provf(x.name), x.name), pv_has_parent(f) && f.len() > 0,
    ensures avail_pick(a, f, x.name) == resolve_usage(a.defs, provf, f, x)
{
    lemma_C05_b_view_agrees_with_goto(a, f, provf(x.name), x.name);
}
/// every usage in range gets a hint
proof fn canary_inlay_hint_for_every_usage(us: Seq<UseV>, av: Seq<DefV>, lines: Seq<Seq<char>>, sl: usize, el: usize)
    ensures hints_of(us, av, lines, sl, el).len() == us.len()
{}
/// the hint shows the FIRST matching entry's type when the list has duplicates (it is the LAST: later insert wins)
proof fn canary_rt_lookup_first_wins(av: Seq<DefV>, n: Seq<char>)
    requires av.len() == 2, av[0].name == n, av[1].name == n, av[0].return_type is Some, av[1].return_type is Some
    ensures rt_lookup(av, n) == av[0].return_type
{
    assert(av.last() == av[1]);
}
/// the hypotheses of the FINDING lemmas are satisfiable (these must FAIL)
proof fn canary_hyp_inlay_self_named(a: AvV, provf: spec_fn(Seq<char>) -> spec_fn(PV) -> bool, f: PV, x: UseV, d: DefV, k: int)
    requires
        unique_at_line(a.defs), at_line(a.defs, f, x.line, d), d.name == x.name,
        0 <= k < bucket(a.defs, x.name).len(), bucket(a.defs, x.name)[k] == d, at_most_one_in(bucket(a.defs, x.name), f),
    ensures false
{}
proof fn canary_hyp_outgoing_self_dependency(v: NavV, p: PV, x: UseV, d: DefV)
    requires unique_at_line(v.defs), at_line(v.defs, p, x.line, d), d.name == x.name,
    ensures false
{}
