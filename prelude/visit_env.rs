// ---------------------------------------------------------------------------------------------
// The ENVIRONMENT HYPOTHESIS of the AST visitors (units visit_v2 / analyze_v2 / handlers_main_v2).
// prelude/visit_spec.rs states what a statement makes the index record with two uninterpreted functions of the file:
// env_third_party(file) and env_is_plugin(file).  Before, two external_body helpers ASSUMED that the real expressions
//     self.is_in_site_packages(f) || self.is_editable_install_third_party(f)     and
//     self.plugin_fixture_files.contains_key(f)
// evaluate to them.  Now the expressions are VERIFIED against the contracts proved in unit classify / the DashMap shim,
// and what is left is this explicit hypothesis about the database the visitor runs on:
//     env_ok(db):  env_third_party IS the classification unit classify computes from db.workspace_root and
//                  db.editable_install_roots, and env_is_plugin IS membership in db.plugin_fixture_files.
// It is a PRECONDITION of visit_stmt / visit_assignment_fixture / analyze_file*; that the visitors and their callees
// leave the three fields alone (so the hypothesis survives every call) is PROVED (vframe below, carried by rec_rel).
// Needs prelude/visit_spec.rs, classify_spec.rs, opt_pbv and a FixtureDatabase with fields workspace_root,
// editable_install_roots, plugin_fixture_files.  Pure specification, no assumption.
pub open spec fn env_is(ws: Option<PV>, rs: Seq<PV>, plug: Set<PV>) -> bool {
    &&& forall|file: PV| #[trigger] env_third_party(file) == (op_in_site_packages(ws, file) || op_editable_third_party(rs, ws, file))
    &&& forall|file: PV| #[trigger] env_is_plugin(file) == plug.contains(file)
}
impl FixtureDatabase {
    pub open spec fn env_ok(&self) -> bool {
        env_is(opt_pbv(self.workspace_root), roots(self.editable_install_roots@), self.plugin_fixture_files.m().dom())
    }
}
/// what the visitors (and analyze_file_internal's callees) do NOT write: every field except the five index maps and
/// undeclared_fixtures -- over the all-fields database struct (every field of src/fixtures/mod.rs except ast_cache)
pub open spec fn vframe(o: FixtureDatabase, s: FixtureDatabase) -> bool {
    &&& s.file_cache == o.file_cache
    &&& s.imports == o.imports
    &&& s.canonical_path_cache == o.canonical_path_cache
    &&& s.line_index_cache == o.line_index_cache
    &&& s.cycle_cache == o.cycle_cache
    &&& s.available_fixtures_cache == o.available_fixtures_cache
    &&& s.imported_fixtures_cache == o.imported_fixtures_cache
    &&& s.site_packages_paths == o.site_packages_paths
    &&& s.editable_install_roots == o.editable_install_roots
    &&& s.workspace_root == o.workspace_root
    &&& s.plugin_fixture_files == o.plugin_fixture_files
}
