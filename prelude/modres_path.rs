// ---------------------------------------------------------------------------------------------
// Unit module_resolve: std::path — assumed specifications (trusted base A3).  A COPY of prelude/path.rs with the
// same names (PV, pv, pbv, pv_has_parent, as_path_view, fs_exists: prelude/dashmap.rs' KeyView impls need them),
// changed in two places, both needed by module resolution (src/fixtures/imports.rs):
//   (J)  `Path::join` is stated with std's documented case split: an ABSOLUTE right operand replaces the left one
//        (prelude/path.rs states `p + s` unconditionally, which is the relative case only) — the text a
//        `pytest_plugins` string supplies is arbitrary, so the case cannot be excluded here;
//   (T)  the path a TEXT denotes (`&str`, `String`, `&&str` passed as `AsRef<Path>`) is an uninterpreted function
//        `text_pv` of the text (prelude/path.rs knows "conftest.py" only); its value is pinned down for simple
//        names only (MP8), and that assumption is used by the L2 lemmas, not by the L1 contracts.
// Assumed (each is the documented behaviour of the std function):
//   MP1  Path::parent            Some(all components but the last) iff the path has a parent (pv_has_parent: false for
//                                the empty path, a root, a prefix), and then the path is non-empty
//   MP2  Path::join (J)          pv_join(pv(p), as_path_view(s))
//   MP3  Path::to_path_buf, PathBuf::clone, <PathBuf as Deref>::deref, PathBuf::as_path: same components
//   MP4  Path::exists            fs_exists(components)      — the file system is a static predicate (A4)
//   MP5  Path::is_dir            fs_is_dir(components)      — ditto
//   MP6  as_path_view of a `&str` / `String` / `&&str` / `&PathBuf` / `&Path` argument: text_pv(text) / its components
//   MP7  text_pv of the empty text is the empty (relative) path   (`Path::new("")` has no components)
//   MP8  text_pv of a SIMPLE name (non-empty, no '/' and no '\\', not "." and not "..") is the one relative
//        component that IS the name
//   MP9  a path that has a parent is non-empty (axiom_has_parent_nonempty, as in prelude/path.rs)
#[verifier::external_type_specification] #[verifier::external_body] pub struct ExPath(Path);
#[verifier::external_type_specification] #[verifier::external_body] pub struct ExPathBuf(PathBuf);
pub type PV = Seq<Seq<char>>;
pub uninterp spec fn pv(p: &Path) -> PV;
pub uninterp spec fn pbv(p: &PathBuf) -> PV;
/// abstract: does this path have a parent (false for the empty path, a root, a prefix)
pub uninterp spec fn pv_has_parent(v: PV) -> bool;
/// abstract: is this path absolute (its first component is a root / prefix component)
pub uninterp spec fn pv_is_abs(v: PV) -> bool;
/// the path a text denotes when it is handed to `Path::join` (std parses it: separators split it into components,
/// a leading separator makes it absolute, "." components vanish, …)
pub uninterp spec fn text_pv(t: Seq<char>) -> PV;
pub uninterp spec fn as_path_view<P>(s: P) -> PV;
/// (J) `Path::join`: "if `path` is absolute, it replaces the current path"
pub open spec fn pv_join(a: PV, b: PV) -> PV { if pv_is_abs(b) { b } else { a + b } }
/// a text that is one ordinary path component
pub open spec fn simple_name(t: Seq<char>) -> bool {
    t.len() > 0 && !t.contains('/') && !t.contains('\\') && t != seq!['.'] && t != seq!['.', '.']
}
pub open spec fn conftest_name() -> Seq<char> { "conftest.py"@ }

pub mod modres_path_ax {
    use super::*;
    /// MP9
    pub broadcast axiom fn axiom_has_parent_nonempty(v: PV)
        requires #[trigger] pv_has_parent(v) ensures v.len() > 0;
    /// MP6
    pub broadcast axiom fn axiom_str_as_path(s: &str)
        ensures #[trigger] as_path_view::<&str>(s) == text_pv(s@);
    pub broadcast axiom fn axiom_string_as_path(s: String)
        ensures #[trigger] as_path_view::<String>(s) == text_pv(s@);
    pub broadcast axiom fn axiom_strref_as_path<'a, 'b>(s: &'a &'b str)
        ensures #[trigger] as_path_view::<&'a &'b str>(s) == text_pv((**s)@);
    pub broadcast axiom fn axiom_pathbuf_ref_as_path<'a>(p: &'a PathBuf)
        ensures #[trigger] as_path_view::<&'a PathBuf>(p) == pbv(p);
    pub broadcast axiom fn axiom_path_as_path<'a>(p: &'a Path)
        ensures #[trigger] as_path_view::<&'a Path>(p) == pv(p);
}
pub use modres_path_ax::*;
/// MP7 + MP8, as ONE named hypothesis of the L2 lemmas that need it (never broadcast, never used by an L1 contract)
pub open spec fn text_pv_laws() -> bool {
    &&& text_pv(Seq::<char>::empty()) == Seq::<Seq<char>>::empty() && !pv_is_abs(Seq::<Seq<char>>::empty())
    &&& forall|t: Seq<char>| simple_name(t) ==> #[trigger] text_pv(t) == seq![t] && !pv_is_abs(seq![t])
}

/// MP1
pub assume_specification<'a>[ Path::parent ](p: &'a Path) -> (r: Option<&'a Path>)
    ensures match r { Some(q) => pv_has_parent(pv(p)) && pv(p).len() > 0 && pv(q) == pv(p).drop_last(),
                      None => !pv_has_parent(pv(p)) };
/// MP2
#[verifier::allow(undeclared_external_trait)]
pub assume_specification<P: AsRef<Path>>[ Path::join::<P> ](p: &Path, s: P) -> (r: PathBuf)
    ensures pbv(&r) == pv_join(pv(p), as_path_view(s));
/// MP3
pub assume_specification[ <PathBuf as PartialEq<PathBuf>>::eq ](a: &PathBuf, b: &PathBuf) -> (r: bool)
    ensures r == (pbv(a) == pbv(b));
pub assume_specification<'a>[ <PathBuf as core::ops::Deref>::deref ](p: &'a PathBuf) -> (r: &'a Path)
    ensures pv(r) == pbv(p);
pub assume_specification[ Path::to_path_buf ](p: &Path) -> (r: PathBuf)
    ensures pbv(&r) == pv(p);
pub assume_specification[ <PathBuf as Clone>::clone ](a: &PathBuf) -> (r: PathBuf)
    ensures pbv(&r) == pbv(a);
pub assume_specification[ PathBuf::as_path ](p: &PathBuf) -> (r: &Path)
    ensures pv(r) == pbv(p);

/// abstract file system (trusted base A4): static predicates of the component sequence
pub uninterp spec fn fs_exists(p: PV) -> bool;
pub uninterp spec fn fs_is_dir(p: PV) -> bool;
/// MP4
pub assume_specification[ Path::exists ](p: &Path) -> (r: bool)
    ensures r == fs_exists(pv(p));
/// MP5
pub assume_specification[ Path::is_dir ](p: &Path) -> (r: bool)
    ensures r == fs_is_dir(pv(p));

pub open spec fn pv_is_prefix(a: PV, b: PV) -> bool { a.len() <= b.len() && b.subrange(0, a.len() as int) == a }
pub open spec fn opt_pbv(o: Option<PathBuf>) -> Option<PV> { match o { Some(p) => Some(pbv(&p)), None => None } }
pub open spec fn pbvs(s: Seq<PathBuf>) -> Seq<PV> { s.map_values(|p: PathBuf| pbv(&p)) }
