// ---------------------------------------------------------------------------------------------
// L2 for the CLI front end (C20), over prelude/cli_main_shims.rs and prelude/cli_spec.rs.

//@tags C20
/// C20 — `fixtures unused` reports EVERY element of get_unused_fixtures(), in its order, in both output formats (the
/// JSON objects and the text lines are checked against the same expected_entries): the i-th entry carries the i-th
/// fixture's name and its file's path — relative to the scanned root when the file lies below it, the path ITSELF
/// otherwise (never dropped); the exit status is 1 iff the list is non-empty
pub proof fn lemma_C20_every_unused_fixture_is_reported(unused: Seq<(PathBuf, String)>, root: PV, i: int)
    requires 0 <= i < unused.len()
    ensures
        expected_entries(unused, root).len() == unused.len(),
        expected_entries(unused, root)[i].1 == unused[i].1@,
        pv_is_prefix(root, pbv(&unused[i].0)) ==> expected_entries(unused, root)[i].0 == lossy_text(pbv(&unused[i].0).subrange(root.len() as int, pbv(&unused[i].0).len() as int)),
        !pv_is_prefix(root, pbv(&unused[i].0)) ==> expected_entries(unused, root)[i].0 == lossy_text(pbv(&unused[i].0)),
        expected_exit(unused) == 1,
        expected_exit(Seq::<(PathBuf, String)>::empty()) == 0,
{}
//@tags C20 C04
/// composed with the contract PROVED for get_unused_fixtures (unit cli_unused: unused_post): the number of reported
/// entries for (file f, name n) is the number of project, non-autouse definitions of n in f whose usage count is 0 —
/// the report is that list, nothing added, nothing lost, the exit status counts exactly what is printed
pub proof fn lemma_C20_report_is_the_unused_list(unused: Seq<(PathBuf, String)>, defs: Map<Seq<char>, Seq<DefV>>, uses: Map<PV, Seq<UseV>>,
        provf: spec_fn(Seq<char>) -> spec_fn(PV) -> bool, root: PV, key: CKey)
    requires unused_post(unused, defs, uses, provf)
    ensures occ(keys_of(unused), key) == unused_target(defs, uses, provf, key),
        expected_entries(unused, root).len() == keys_of(unused).len(),
        (expected_exit(unused) == 0) <==> (forall|k: CKey| #[trigger] unused_target(defs, uses, provf, k) == 0),
{
    if unused.len() > 0 {
        let k0 = keys_of(unused)[0];
        keys_of(unused).to_multiset_ensures();
        assert(keys_of(unused).to_multiset().count(k0) > 0) by { assert(keys_of(unused).contains(k0)); }
        assert(occ(keys_of(unused), k0) == unused_target(defs, uses, provf, k0));
    } else {
        assert forall|k: CKey| #[trigger] unused_target(defs, uses, provf, k) == 0 by {
            assert(occ(keys_of(unused), k) == unused_target(defs, uses, provf, k));
            lemma_occ_empty(k);
            assert(keys_of(unused) =~= Seq::<CKey>::empty());
        }
    }
}

// ---- vacuity guards: each of these must FAIL -------------------------------------------------------------------
/// fixtures outside the scanned root are not reported (the reviewer's regression as a statement)
proof fn canary_outside_root_not_reported(unused: Seq<(PathBuf, String)>, root: PV)
    requires unused.len() == 1, !pv_is_prefix(root, pbv(&unused[0].0))
    ensures expected_entries(unused, root).len() == 0
{}
/// the shown path is always relative to the root
proof fn canary_shown_path_always_relative(p: PV, root: PV)
    ensures shown_path(p, root).len() == p.len() - root.len()
{}
/// exit status 0 with unused fixtures
proof fn canary_exit_zero_with_unused(unused: Seq<(PathBuf, String)>)
    requires unused.len() > 0
    ensures expected_exit(unused) == 0
{}
