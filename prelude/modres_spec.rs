// ---------------------------------------------------------------------------------------------
// Unit module_resolve (C14, resolution part): the OPERATIONAL specification of src/fixtures/imports.rs
// resolve_module_to_file / resolve_relative_import / resolve_absolute_import / find_module_file.
// Unit imports_closure treats `resolve(module, from, keys of file_cache)` as an abstract function; `op_resolve` below
// is its definition (the site-packages paths and editable-install roots, constants there, are explicit arguments).
// Inputs: the module text, the importing file's components, and ONLY these facts about the world:
//   fs_exists / fs_is_dir (static file-system predicates, A4), canon (get_canonical_path, a function of the path),
//   dom = the KEY SET of file_cache, sps = site_packages_paths in list order, ers = editable source roots in list order.
// Needs prelude/modres_path.rs (PV, pv_join, text_pv, ...) and prelude/modres_str.rs (split_v, init_name, py_suffix).

/// get_canonical_path, abstractly (unit imports_closure: `canon`; memoised canonicalisation, else the path itself)
pub uninterp spec fn canon(p: PV) -> PV;
/// "the file is there": on disk, or its canonical path is a key of file_cache (open / analysed documents)
pub open spec fn hit(p: PV, dom: Set<PV>) -> bool { fs_exists(p) || dom.contains(canon(p)) }

// ---- find_module_file -----------------------------------------------------------------------------------------
/// the two candidates for the LAST component `last` below directory `cur` (tried: cand_init first, then cand_py)
pub open spec fn cand_py(cur: PV, last: Seq<char>) -> PV { pv_join(cur, text_pv(last + py_suffix())) }
pub open spec fn cand_init(cur: PV, last: Seq<char>) -> PV { pv_join(pv_join(cur, text_pv(last)), text_pv(init_name())) }
/// components i.. of the dotted path, below directory `cur`:
///   a non-last component must be a DIRECTORY (nothing else is asked of it: no __init__.py), else no result;
///   the last component: the PACKAGE `<cur>/<last>/__init__.py` first, then the module file `<cur>/<last>.py`
///   (Python's FileFinder order; /repo 6de68a0 — before that the module file was tried first, F-14f); each "is
///   there" test is disk first, then file_cache (the result is the non-canonical candidate either way)
pub open spec fn op_find_parts(parts: Seq<Seq<char>>, i: int, cur: PV, dom: Set<PV>) -> Option<PV>
    decreases parts.len() - i
{
    if i < 0 || i >= parts.len() { None }
    else if i == parts.len() - 1 {
        if hit(cand_init(cur, parts[i]), dom) { Some(cand_init(cur, parts[i])) }
        else if hit(cand_py(cur, parts[i]), dom) { Some(cand_py(cur, parts[i])) }
        else { None }
    } else {
        let nxt = pv_join(cur, text_pv(parts[i]));
        if !fs_is_dir(nxt) { None } else { op_find_parts(parts, i + 1, nxt, dom) }
    }
}
pub open spec fn op_find(m: Seq<char>, base: PV, dom: Set<PV>) -> Option<PV> { op_find_parts(split_v(m, '.'), 0, base, dom) }

// ---- resolve_relative_import ----------------------------------------------------------------------------------
/// index of the first character at or after k that is not a dot (= number of leading dots for k = 0)
pub open spec fn dots_end(m: Seq<char>, k: int) -> int
    decreases m.len() - k
{
    if 0 <= k < m.len() && m[k] == '.' { dots_end(m, k + 1) } else { k }
}
/// k times `Path::parent`; None as soon as one of them is None
pub open spec fn op_up(d: PV, k: int) -> Option<PV>
    decreases k
{
    if k <= 0 { Some(d) } else {
        match op_up(d, k - 1) {
            Some(c) => if pv_has_parent(c) && c.len() > 0 { Some(c.drop_last()) } else { None },
            None => None,
        }
    }
}
/// how many levels a path with n leading dots goes up from the importing file's directory: one less than the dots
pub open spec fn ups_of(n: int) -> int { if n <= 0 { 0 } else { n - 1 } }
/// n = leading dots; anchor = the directory ups_of(n) levels above `d` (no result if there are not that many);
/// nothing after the dots: `<anchor>/__init__.py` if it EXISTS ON DISK (file_cache is not asked), else no result;
/// otherwise the rest of the text is looked up below the anchor — and nowhere else
pub open spec fn op_relative(m: Seq<char>, d: PV, dom: Set<PV>) -> Option<PV> {
    let n = dots_end(m, 0);
    match op_up(d, ups_of(n)) {
        None => None,
        Some(c) => {
            let rem = m.skip(n);
            if rem.len() == 0 {
                let init = pv_join(c, text_pv(init_name()));
                if fs_exists(init) { Some(init) } else { None }
            } else { op_find(rem, c, dom) }
        },
    }
}

// ---- resolve_absolute_import ----------------------------------------------------------------------------------
/// the importing file's directory, then EVERY ancestor up to the one without parent (file-system root / empty path):
/// the first directory below which the dotted path is found wins.  The workspace root plays no role.
pub open spec fn op_walk_up(m: Seq<char>, cur: PV, dom: Set<PV>) -> Option<PV>
    decreases cur.len()
{
    match op_find(m, cur, dom) {
        Some(p) => Some(p),
        None => if pv_has_parent(cur) && cur.len() > 0 { op_walk_up(m, cur.drop_last(), dom) } else { None },
    }
}
/// the first root of the list (from index k) below which the dotted path is found
pub open spec fn op_first(m: Seq<char>, roots: Seq<PV>, k: int, dom: Set<PV>) -> Option<PV>
    decreases roots.len() - k
{
    if k < 0 || k >= roots.len() { None } else {
        match op_find(m, roots[k], dom) { Some(p) => Some(p), None => op_first(m, roots, k + 1, dom) }
    }
}
/// search order: (1) upward walk, (2) site-packages paths in list order, (3) editable source roots in list order
pub open spec fn op_absolute(m: Seq<char>, d: PV, dom: Set<PV>, sps: Seq<PV>, ers: Seq<PV>) -> Option<PV> {
    match op_walk_up(m, d, dom) {
        Some(p) => Some(p),
        None => match op_first(m, sps, 0, dom) { Some(p) => Some(p), None => op_first(m, ers, 0, dom) },
    }
}

// ---- resolve_module_to_file -----------------------------------------------------------------------------------
/// no result for an importing file without parent; a leading dot decides relative / absolute
pub open spec fn op_resolve(m: Seq<char>, from: PV, dom: Set<PV>, sps: Seq<PV>, ers: Seq<PV>) -> Option<PV> {
    if !(pv_has_parent(from) && from.len() > 0) { None } else {
        let d = from.drop_last();
        if starts_with_char(m, '.') { op_relative(m, d, dom) } else { op_absolute(m, d, dom, sps, ers) }
    }
}

// ---- helper lemmas for the exec proofs ------------------------------------------------------------------------
/// once a parent is missing, going further up stays without result
pub proof fn lemma_up_none_mono(d: PV, j: int, k: int)
    requires j <= k, op_up(d, j) is None,
    ensures op_up(d, k) is None,
    decreases k - j,
{
    if j < k { lemma_up_none_mono(d, j, k - 1); }
}
/// going up k levels, when possible, cuts exactly the last k components
pub proof fn lemma_up_is_take(d: PV, k: int)
    requires k >= 0,
    ensures match op_up(d, k) { Some(c) => k <= d.len() && c == d.take(d.len() - k), None => true },
    decreases k,
{
    if k == 0 { assert(d.take(d.len() as int) =~= d); } else {
        lemma_up_is_take(d, k - 1);
        match op_up(d, k - 1) {
            Some(c) => { if pv_has_parent(c) && c.len() > 0 { assert(c.drop_last() =~= d.take(d.len() - k)); } }
            None => {}
        }
    }
}
