// ---------------------------------------------------------------------------------------------
// Operational specification of FixtureDatabase::find_signature_end_line (src/fixtures/resolver.rs): the 1-based line
// get_func_context takes for "the line on which the signature ends" (`in_signature = target_line <= that line`).
// Vocabulary of unit completion_ctx (prelude/completion_ctx_spec.rs: CArguments, lno, expr_range, stmt_range; build/astspec.rs:
// tsv / tr_start / tr_end) plus two text primitives: `lines_v` (what `str::lines` yields: declared below) and `trim_v`
// (`str::trim`: prelude/iter_slice.rs).  Needs nothing else, so it can be included after completion_ctx_spec.rs anywhere
// that file is used.
//
//   op_sig_end(fsl, args, returns, body, content, li) =
//     lsl  := the line of the LATEST end among: the return annotation's range, the `def` (name + annotation, NOT the default
//             value) ranges of all positional-only / regular / keyword-only parameters, the ranges of `*args` / `**kwargs`;
//             fsl (the line handed in: the line of the function's range start) when there is none of these
//     fbl  := the line on which the first body statement starts (none for an empty body)
//     scan the 1-based lines lsl ..= min(max(fbl - 1, lsl), lsl + 10, number of lines) -- the first body line is scanned only
//             when it is the last signature line itself -- for the first line whose `trim()` ends in ':'  -> that line
//     else  fbl given -> max(fbl - 1, fsl)      else -> fsl
pub type SArg = rustpython_parser::ast::Arg;

// ---- text / iterator vocabulary (the ASSUMED contracts that speak it: prelude/sigend_prims.rs) ---------------------------
/// the lines of a text as `str::lines` yields them (split at '\n', a trailing '\r' removed, no final empty line)
pub uninterp spec fn lines_v(s: Seq<char>) -> Seq<Seq<char>>;
pub open spec fn sv(v: Seq<&str>) -> Seq<Seq<char>> { v.map_values(|x: &str| x@) }
/// what an `Option` yields when iterated
pub open spec fn opt_seq<T>(o: Option<T>) -> Seq<T> { match o { Some(x) => seq![x], None => Seq::empty() } }
/// m is a maximum of s (None: s is empty)
pub open spec fn is_max_of(s: Seq<usize>, m: Option<usize>) -> bool {
    match m {
        None => s.len() == 0,
        Some(x) => s.contains(x) && forall|k: int| 0 <= k < s.len() ==> #[trigger] s[k] <= x,
    }
}

// ---- the last signature element ----------------------------------------------------------------------------------------
/// end offset of one parameter as the code reads it: `a.def.range.end()` -- the NAME (+ annotation), not the default value
pub open spec fn awd_end(a: CArg) -> usize { tsv(tr_end(a.def.range)) }
pub open spec fn awd_end_fn() -> spec_fn(CArg) -> usize { |a: CArg| awd_end(a) }
pub open spec fn box_arg_end(o: Option<Box<SArg>>) -> Option<usize> {
    match o { Some(a) => Some(tsv(tr_end(a.range))), None => None }
}
/// the end offsets the code takes the maximum of, in the order it chains them: regular, positional-only, keyword-only
/// parameters, then `*args`, then `**kwargs`
pub open spec fn arg_ends(a: CArguments) -> Seq<usize> {
    (a.args@ + a.posonlyargs@ + a.kwonlyargs@).map_values(awd_end_fn()) + opt_seq(box_arg_end(a.vararg)) + opt_seq(box_arg_end(a.kwarg))
}
/// maximum of a non-empty sequence (left fold)
pub open spec fn smax(s: Seq<usize>) -> usize
    decreases s.len()
{
    if s.len() <= 1 { if s.len() == 1 { s[0] } else { 0 } } else { let m = smax(s.drop_last()); if s.last() >= m { s.last() } else { m } }
}
pub open spec fn seq_max_opt(s: Seq<usize>) -> Option<usize> { if s.len() == 0 { None } else { Some(smax(s)) } }
pub open spec fn ret_end(returns: Option<Box<Expr>>) -> Option<usize> {
    match returns { Some(e) => Some(tsv(tr_end(expr_range(*e)))), None => None }
}
pub open spec fn umax(a: usize, b: usize) -> usize { if a >= b { a } else { b } }
/// offset at which the last AST element of the signature ends (None: no parameter at all and no return annotation)
pub open spec fn last_sig_off(args: CArguments, returns: Option<Box<Expr>>) -> Option<usize> {
    match seq_max_opt(arg_ends(args)) {
        Some(m) => Some(match ret_end(returns) { Some(p) => umax(p, m), None => m }),
        None => ret_end(returns),
    }
}
/// its 1-based line; the function's own line when there is no such element
pub open spec fn last_sig_ln(fsl: usize, args: CArguments, returns: Option<Box<Expr>>, li: Seq<usize>) -> int {
    match last_sig_off(args, returns) { Some(o) => lno(li, o), None => fsl as int }
}
/// 1-based line on which the first body statement starts
pub open spec fn first_body_ln(body: Seq<Stmt>, li: Seq<usize>) -> Option<int> {
    if body.len() == 0 { None } else { Some(lno(li, tsv(tr_start(stmt_range(body[0]))))) }
}

// ---- the text scan -----------------------------------------------------------------------------------------------------
/// `line.trim().ends_with(':')`
pub open spec fn ends_colon(l: Seq<char>) -> bool { trim_v(l).len() > 0 && trim_v(l).last() == ':' }
pub open spec fn imin(a: int, b: int) -> int { if a <= b { a } else { b } }
pub open spec fn imax(a: int, b: int) -> int { if a >= b { a } else { b } }
pub open spec fn sat_sub1(n: int) -> int { if n <= 0 { 0 } else { n - 1 } }
/// first (0-based) line number of the scan
pub open spec fn scan_lo(lsl: int) -> int { sat_sub1(lsl) }
/// one past the last (0-based) line number of the scan: at most 10 lines beyond lsl, never beyond the text, and (since the
/// repair d88f322) never INTO the first body line: the last scanned 1-based line is max(fbl - 1, lsl) -- the line before the
/// body, or lsl itself when the body starts on (or, in a malformed AST, above) the last signature line (`def f(): pass`)
pub open spec fn scan_hi(lsl: int, fbl: Option<int>, n: int) -> int {
    imin(imin(match fbl { Some(b) => imax(sat_sub1(b), lsl), None => lsl + 10 }, lsl + 10), n)
}
/// first line number in [i, hi) whose trimmed text ends in ':'
pub open spec fn first_colon(ls: Seq<Seq<char>>, i: int, hi: int) -> Option<int>
    decreases hi - i
{
    if i < 0 || i >= hi || i >= ls.len() { None } else if ends_colon(ls[i]) { Some(i) } else { first_colon(ls, i + 1, hi) }
}
/// the result for given lines: lsl (last signature element), fbl (first body statement), the text's lines
pub open spec fn sig_end_of(fsl: int, lsl: int, fbl: Option<int>, ls: Seq<Seq<char>>) -> int {
    match first_colon(ls, scan_lo(lsl), scan_hi(lsl, fbl, ls.len() as int)) {
        Some(i) => i + 1,
        None => match fbl { Some(b) => imax(sat_sub1(b), fsl), None => fsl },
    }
}
/// OPAQUE: a caller that only passes the result on (unit completion_ctx: `tl <= sig_end_line(..)`) must not pay for its
/// unfolding (recursive first_colon / smax); `reveal(op_sig_end)` where the definition is needed
#[verifier::opaque]
pub open spec fn op_sig_end(fsl: usize, args: CArguments, returns: Option<Box<Expr>>, body: Seq<Stmt>, content: Seq<char>, li: Seq<usize>) -> int {
    sig_end_of(fsl as int, last_sig_ln(fsl, args, returns, li), first_body_ln(body, li), lines_v(content))
}

// ---- PROVED helper facts -----------------------------------------------------------------------------------------------
pub proof fn lemma_smax(s: Seq<usize>)
    requires s.len() > 0,
    ensures s.contains(smax(s)), forall|k: int| 0 <= k < s.len() ==> #[trigger] s[k] <= smax(s),
    decreases s.len(),
{
    if s.len() > 1 {
        let t = s.drop_last();
        lemma_smax(t);
        let i = choose|i: int| 0 <= i < t.len() && t[i] == smax(t);
        assert(s[i] == t[i]);
        assert(s[s.len() - 1] == s.last());
        assert forall|k: int| 0 <= k < s.len() implies #[trigger] s[k] <= smax(s) by {
            if k < t.len() { assert(t[k] == s[k]); }
        }
    } else {
        assert(s[0] == smax(s));
    }
}
/// whatever `Iterator::max` returns under its assumed contract (S7) IS seq_max_opt
pub proof fn lemma_max_is_smax(s: Seq<usize>, m: Option<usize>)
    requires is_max_of(s, m),
    ensures m == seq_max_opt(s),
{
    if s.len() > 0 {
        lemma_smax(s);
        let x = m->0;
        let i = choose|i: int| 0 <= i < s.len() && s[i] == x;
        let j = choose|j: int| 0 <= j < s.len() && s[j] == smax(s);
        assert(s[i] <= smax(s));
        assert(s[j] <= x);
    } else {
        assert(m is None);
    }
}
/// ... for every such value (called before the `if let Some(..) = ...max()` so that both branches know)
pub proof fn lemma_max_all(s: Seq<usize>)
    ensures forall|m: Option<usize>| #[trigger] is_max_of(s, m) ==> m == seq_max_opt(s),
{
    assert forall|m: Option<usize>| #[trigger] is_max_of(s, m) implies m == seq_max_opt(s) by { lemma_max_is_smax(s, m); }
}
pub open spec fn opt_int(o: Option<usize>) -> Option<int> { match o { Some(x) => Some(x as int), None => None } }
/// what first_colon means
pub proof fn lemma_first_colon(ls: Seq<Seq<char>>, i: int, hi: int)
    requires 0 <= i,
    ensures match first_colon(ls, i, hi) {
        Some(k) => i <= k < hi && k < ls.len() && ends_colon(ls[k]) && (forall|j: int| i <= j < k ==> !ends_colon(#[trigger] ls[j])),
        None => forall|j: int| i <= j < hi && j < ls.len() ==> !ends_colon(#[trigger] ls[j]),
    },
    decreases hi - i,
{
    if i < hi && i < ls.len() && !ends_colon(ls[i]) { lemma_first_colon(ls, i + 1, hi); }
}
