// ---------------------------------------------------------------------------------------------
// Unit sig_end: ASSUMED contracts of the std primitives find_signature_end_line (src/fixtures/resolver.rs) is written
// with (trusted base A3 of the unit).  Same forms as prelude/strstruct_prims.rs (P7, P9, P14), copied here because that
// file cannot be included next to prelude/iter_slice.rs (both define `trim_v` / `str::trim`; this unit takes those two
// from iter_slice.rs so that its specification reads in the vocabulary of unit completion_ctx).  Every
// `assume_specification` / `external_body` below is written to be TRUE of the std function, nothing more.
//   S1  str::trim                 r@ == trim_v(s@)                          (prelude/iter_slice.rs, trim_v uninterpreted)
//   S2  str::ends_with(pat)       pat a `char` or a `&str`: the pattern occurs at the very end      (= strstruct P7)
//   S3  content.lines().collect() the lines as `str::lines` yields them: lines_v(s) (uninterpreted) (= strstruct P9, @wrapexpr)
//   S4  slice.iter().enumerate()  the pairs (k, &s[k]) in order, finite                             (= strstruct P14, @rename)
//   S5  Option::map_or(d, f)      d for None, f(x) for Some(x)
//   S6  a.chain(b)                yields a's elements, then b's (b a slice iterator or an Option), finite (@rename se_chain);
//                                 the external bodies ARE the calls of the real `Iterator::chain`, driven to the end
//   S7  Iterator::max()           over usize items: None iff nothing is yielded, else an element >= all others
//                                 (@rename se_max; `a.max(b)` on two usize is routed to the real `Ord::max`: PROVED, vstd)
//   vstd (not assumed here): Option::{map, as_ref, unwrap_or}, slice::{first, iter}, usize::{min, max, saturating_sub},
//   Iterator::{map, skip, take} + their broadcast postconditions, Vec::len.
pub use vstd::string::StringSliceAdditionalSpecFns as SeStringSliceFns;

// ---- S2 `ends_with` -------------------------------------------------------------------------------------------------
pub enum PatV { Str(Seq<char>), Ch(char), Other }
pub uninterp spec fn pat_v<P>(p: P) -> PatV;
pub open spec fn pat_len(p: PatV) -> int { match p { PatV::Str(t) => t.len() as int, PatV::Ch(_) => 1, PatV::Other => 0 } }
/// the pattern occurs in s at character index k
pub open spec fn occurs_at(s: Seq<char>, p: PatV, k: int) -> bool {
    match p {
        PatV::Str(t) => 0 <= k && k + t.len() <= s.len() && s.subrange(k, k + t.len()) == t,
        PatV::Ch(c) => 0 <= k < s.len() && s[k] == c,
        PatV::Other => false,
    }
}
pub mod sigend_ax {
    use super::*;
    /// the two pattern kinds
    pub broadcast axiom fn axiom_pat_str(p: &str)
        ensures #[trigger] pat_v::<&str>(p) == PatV::Str(p@);
    pub broadcast axiom fn axiom_pat_char(p: char)
        ensures #[trigger] pat_v::<char>(p) == PatV::Ch(p);
}
pub use sigend_ax::*;
#[verifier::allow(undeclared_external_trait)]
pub assume_specification<P: core::str::pattern::Pattern>[ str::ends_with::<P> ](s: &str, p: P) -> (r: bool)
    where for<'a> P::Searcher<'a>: core::str::pattern::ReverseSearcher<'a>
    requires !(pat_v(p) is Other),
    ensures r == occurs_at(s@, pat_v(p), s@.len() - pat_len(pat_v(p)));

// ---- S3 lines ---------------------------------------------------------------------------------------------------------
// lines_v / sv: prelude/sigend_spec.rs (the specification vocabulary)

// ---- S4 enumerate -----------------------------------------------------------------------------------------------------
pub trait VpEnumerate<'a, T: 'a>: Sized + Iterator<Item = &'a T> {
    fn vp_enumerate(self) -> (r: std::vec::IntoIter<(usize, &'a T)>);
}
impl<'a, T: 'a> VpEnumerate<'a, T> for core::slice::Iter<'a, T> {
    /// `slice.iter().enumerate()`: the pairs (k, &s[k]) in order; finite
    #[verifier::external_body]
    fn vp_enumerate(self) -> (r: std::vec::IntoIter<(usize, &'a T)>)
        ensures r.obeys_prophetic_iter_laws(), r.decrease() is Some,
            r.remaining().len() == self.remaining().len(),
            forall|k: int| 0 <= k < r.remaining().len() ==> (#[trigger] r.remaining()[k]).0 == k && r.remaining()[k].1 == self.remaining()[k],
    { self.enumerate().collect::<Vec<(usize, &'a T)>>().into_iter() }
}

// ---- S5 Option::map_or ------------------------------------------------------------------------------------------------
pub assume_specification<T, U, F: FnOnce(T) -> U>[ Option::<T>::map_or ](o: Option<T>, d: U, f: F) -> (r: U)
    requires o is Some ==> call_requires(f, (o->0,)),
    ensures match o { Some(x) => call_ensures(f, (x,), r), None => r == d };

// ---- S6 chain ---------------------------------------------------------------------------------------------------------
// opt_seq (what an `Option` yields when iterated): prelude/sigend_spec.rs
/// `a.chain(b)` (`Iterator::chain` is a provided method and `Chain` has no Verus model): renamed to `.se_chain(`.
/// O = what is chained on: a slice iterator (parameter categories) or an Option (`*args` / `**kwargs`).
pub trait SeChain<O>: Sized {
    type Out;
    fn se_chain(self, o: O) -> Self::Out;
}
impl<'a, T: 'a> SeChain<core::slice::Iter<'a, T>> for core::slice::Iter<'a, T> {
    type Out = std::vec::IntoIter<&'a T>;
    #[verifier::external_body]
    fn se_chain(self, o: core::slice::Iter<'a, T>) -> (r: std::vec::IntoIter<&'a T>)
        ensures r.obeys_prophetic_iter_laws(), r.decrease() is Some, r.remaining() == self.remaining() + o.remaining(),
    { self.chain(o).collect::<Vec<_>>().into_iter() }
}
impl<'a, T: 'a> SeChain<core::slice::Iter<'a, T>> for std::vec::IntoIter<&'a T> {
    type Out = std::vec::IntoIter<&'a T>;
    #[verifier::external_body]
    fn se_chain(self, o: core::slice::Iter<'a, T>) -> (r: std::vec::IntoIter<&'a T>)
        ensures r.obeys_prophetic_iter_laws(), r.decrease() is Some, r.remaining() == self.remaining() + o.remaining(),
    { self.chain(o).collect::<Vec<_>>().into_iter() }
}
/// the mapped iterator is driven to its end here, so everything its source still holds is mapped: its (prophetic)
/// `remaining()` is as long as the source's; the elementwise relation to the closure is vstd's `map_postcondition`
impl<I: Iterator, F: FnMut(I::Item) -> usize> SeChain<Option<usize>> for core::iter::Map<I, F> {
    type Out = std::vec::IntoIter<usize>;
    #[verifier::external_body]
    fn se_chain(self, o: Option<usize>) -> (r: std::vec::IntoIter<usize>)
        ensures r.obeys_prophetic_iter_laws(), r.decrease() is Some, r.remaining() == self.remaining() + opt_seq(o),
            self.remaining().len() == vstd::std_specs::iter::map_iter(self).remaining().len(),
    { self.chain(o).collect::<Vec<_>>().into_iter() }
}
impl SeChain<Option<usize>> for std::vec::IntoIter<usize> {
    type Out = std::vec::IntoIter<usize>;
    #[verifier::external_body]
    fn se_chain(self, o: Option<usize>) -> (r: std::vec::IntoIter<usize>)
        ensures r.obeys_prophetic_iter_laws(), r.decrease() is Some, r.remaining() == self.remaining() + opt_seq(o),
    { self.chain(o).collect::<Vec<_>>().into_iter() }
}

// ---- S7 max -----------------------------------------------------------------------------------------------------------
// is_max_of (m is a maximum of s; None: s is empty): prelude/sigend_spec.rs
pub trait SeIterMax: Sized {
    fn se_max(self) -> (r: Option<usize>);
}
impl SeIterMax for std::vec::IntoIter<usize> {
    /// `Iterator::max()` (provided method): renamed to `.se_max(`; the external body IS the call of the real method
    #[verifier::external_body]
    fn se_max(self) -> (r: Option<usize>)
        ensures is_max_of(self.remaining(), r),
    { self.max() }
}
/// `prev.max(x)` on two usize (same token `.max(`, so the rename reaches it too): the body is the real `Ord::max`,
/// VERIFIED against vstd's specification of it (not assumed)
pub trait SeUsizeMax: Sized {
    fn se_max(self, o: usize) -> (r: usize);
}
impl SeUsizeMax for usize {
    fn se_max(self, o: usize) -> (r: usize)
        ensures r == (if self >= o { self } else { o }),
    { Ord::max(self, o) }
}
