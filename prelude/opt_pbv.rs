// view of an optional PathBuf (the same one-liner lives in several preludes / units: cli_spec.rs, lsp_backend*.rs,
// modres_path.rs, units/classify.rs; include this file only where none of those is included)
pub open spec fn opt_pbv(o: Option<PathBuf>) -> Option<PV> { match o { Some(p) => Some(pbv(&p)), None => None } }
