// ---------------------------------------------------------------------------------------------
// Abstract view of the index (spec library)
pub open spec fn pairs_v(s: Seq<(PathBuf, FixtureUsage)>) -> Seq<(PV, UseV)> {
    s.map_values(|e: (PathBuf, FixtureUsage)| (pbv(&e.0), uv(&e.1)))
}
pub open spec fn defs_view(m: Map<Seq<char>, Vec<FixtureDefinition>>) -> Map<Seq<char>, Seq<DefV>> {
    m.map_values(|v: Vec<FixtureDefinition>| dvs(v@))
}
pub open spec fn fdefs_view(m: Map<PV, HashSet<String>>) -> Map<PV, Set<Seq<char>>> {
    m.map_values(|h: HashSet<String>| h.s())
}
pub open spec fn usages_view(m: Map<PV, Vec<FixtureUsage>>) -> Map<PV, Seq<UseV>> {
    m.map_values(|v: Vec<FixtureUsage>| uvs(v@))
}
pub open spec fn byfix_view(m: Map<Seq<char>, Vec<(PathBuf, FixtureUsage)>>) -> Map<Seq<char>, Seq<(PV, UseV)>> {
    m.map_values(|v: Vec<(PathBuf, FixtureUsage)>| pairs_v(v@))
}
/// bucket of a sequence-valued map, empty when absent
pub open spec fn bucket<K, T>(m: Map<K, Seq<T>>, k: K) -> Seq<T> {
    if m.contains_key(k) { m[k] } else { Seq::<T>::empty() }
}
pub open spec fn sbucket<K, T>(m: Map<K, Set<T>>, k: K) -> Set<T> {
    if m.contains_key(k) { m[k] } else { Set::<T>::empty() }
}
