// ---------------------------------------------------------------------------------------------
// Cycle detection (resolver.rs compute_fixture_cycles): WEAK COMPLETENESS of the explicit-stack DFS.
// Everything here is DEFINED or PROVED (no assumption).  Needs prelude/cycles_spec.rs (edge, is_chain, EntV,
// dfs_inv, cur_path, cur_rec, next_sv, lemma_mid) and prelude/cycles_std.rs (cyv, cyc_key's ingredients).
//
//   statement:   the adjacency table has a closed chain  ==>  at least one cycle is reported
//   proof:       (1) LOCAL: a detection (`rec_stack.contains(dep)`) always leaves `cycles` non-empty: either the key
//                    was not seen (the report is pushed: the table of first definitions has an entry for every node of
//                    the recursion set) or the key was seen — and every seen key is the key of a reported cycle
//                    (keys_conv, the converse of keys_ok);
//                (2) while nothing has been reported, the finishing order `fin` (a ghost counter, one tick per
//                    `visited.insert`) is a reverse topological order of the finished part of the table (topo_inv);
//                    what makes this inductive is the stack discipline (stack_inv): every dependency an entered
//                    stack entry has already looked at is finished or has no adjacency entry, except the last one,
//                    which may be the node of the entry directly above;
//                (3) at exit every key of the table is finished, so `fin` strictly decreases along every table edge:
//                    no closed chain (lemma_no_cycle);
//                (4) the table holds EVERY edge of the first-definition name graph (graph_full, graph_dom_full —
//                    the converse of graph_ok), so a closed chain of the name graph is a closed chain of the table.

// ---- the adjacency table seen as a graph
pub open spec fn g_edge(g: Map<Seq<char>, Seq<Seq<char>>>, a: Seq<char>, b: Seq<char>) -> bool {
    g.contains_key(a) && g[a].contains(b)
}
#[verifier::opaque]
pub open spec fn g_chain(g: Map<Seq<char>, Seq<Seq<char>>>, p: Seq<Seq<char>>) -> bool {
    forall|i: int| 0 <= i && i + 1 < p.len() ==> g_edge(g, #[trigger] p[i], p[i + 1])
}
pub open spec fn g_closed_chain(g: Map<Seq<char>, Seq<Seq<char>>>, p: Seq<Seq<char>>) -> bool {
    p.len() >= 2 && p[0] == p.last() && g_chain(g, p)
}
/// the adjacency table has no closed chain
pub open spec fn g_acyclic(g: Map<Seq<char>, Seq<Seq<char>>>) -> bool {
    forall|p: Seq<Seq<char>>| !#[trigger] g_closed_chain(g, p)
}
/// the first-definition name graph G of the index has no closed chain
pub open spec fn acyclic(defs: Map<Seq<char>, Seq<DefV>>) -> bool {
    forall|p: Seq<Seq<char>>| !#[trigger] is_closed_chain(defs, p)
}

// ---- the converse of graph_ok: the table holds every edge of G
/// every edge of G that leaves a name with an adjacency entry is in that entry
#[verifier::opaque]
pub open spec fn graph_full(g: Map<Seq<char>, Seq<Seq<char>>>, defs: Map<Seq<char>, Seq<DefV>>) -> bool {
    forall|n: Seq<char>, d: Seq<char>| g.contains_key(n) && #[trigger] edge(defs, n, d) ==> g[n].contains(d)
}
/// every name with a non-empty bucket has an adjacency entry
#[verifier::opaque]
pub open spec fn graph_dom_full(g: Map<Seq<char>, Seq<Seq<char>>>, defs: Map<Seq<char>, Seq<DefV>>) -> bool {
    forall|n: Seq<char>| #[trigger] defs.contains_key(n) && defs[n].len() > 0 ==> g.contains_key(n)
}
/// the table of first definitions has an entry wherever the adjacency table has one
#[verifier::opaque]
pub open spec fn tables_dom(dg: Map<Seq<char>, Vec<String>>, fd: Map<Seq<char>, FixtureDefinition>) -> bool {
    forall|x: Seq<char>| #[trigger] dg.contains_key(x) ==> fd.contains_key(x)
}
pub proof fn lemma_full_empty(defs: Map<Seq<char>, Seq<DefV>>)
    ensures graph_full(dg_view(Map::<Seq<char>, Vec<String>>::empty()), defs),
        tables_dom(Map::<Seq<char>, Vec<String>>::empty(), Map::<Seq<char>, FixtureDefinition>::empty()),
        keys_conv(Seq::<FixtureCycle>::empty(), Set::<Seq<char>>::empty()),
{
    reveal(graph_full); reveal(tables_dom); reveal(keys_conv);
}
/// one more adjacency entry for the name n: ds holds every known dependency of n's first definition
pub proof fn lemma_full_insert(defs: Map<Seq<char>, Seq<DefV>>, dg0: Map<Seq<char>, Vec<String>>, dg1: Map<Seq<char>, Vec<String>>,
                               fd0: Map<Seq<char>, FixtureDefinition>, fd1: Map<Seq<char>, FixtureDefinition>, n: Seq<char>, ds: Vec<String>, d: FixtureDefinition)
    requires graph_full(dg_view(dg0), defs), tables_dom(dg0, fd0), dg1 == dg0.insert(n, ds), fd1 == fd0.insert(n, d),
        forall|x: Seq<char>| #[trigger] edge(defs, n, x) ==> strs_v(ds@).contains(x),
    ensures graph_full(dg_view(dg1), defs), tables_dom(dg1, fd1),
{
    reveal(graph_full); reveal(tables_dom);
    let g = dg_view(dg1);
    assert forall|m: Seq<char>, x: Seq<char>| g.contains_key(m) && #[trigger] edge(defs, m, x) implies g[m].contains(x) by {
        if m != n { assert(dg0.contains_key(m) && dg_view(dg0)[m] == g[m]); }
    }
}
/// a closed chain of G is a closed chain of a table that holds every edge of G
pub proof fn lemma_lift_chain(g: Map<Seq<char>, Seq<Seq<char>>>, defs: Map<Seq<char>, Seq<DefV>>, p: Seq<Seq<char>>)
    requires graph_full(g, defs), graph_dom_full(g, defs), is_closed_chain(defs, p),
    ensures g_closed_chain(g, p),
{
    reveal(graph_full); reveal(graph_dom_full); reveal(is_chain); reveal(g_chain);
    assert forall|i: int| 0 <= i && i + 1 < p.len() implies g_edge(g, #[trigger] p[i], p[i + 1]) by {
        assert(edge(defs, p[i], p[i + 1]));
        assert(defs.contains_key(p[i]));
    }
}
pub proof fn lemma_acyclic_lift(g: Map<Seq<char>, Seq<Seq<char>>>, defs: Map<Seq<char>, Seq<DefV>>)
    requires graph_full(g, defs), graph_dom_full(g, defs), g_acyclic(g),
    ensures acyclic(defs),
{
    assert forall|p: Seq<Seq<char>>| !#[trigger] is_closed_chain(defs, p) by {
        if is_closed_chain(defs, p) { lemma_lift_chain(g, defs, p); assert(g_closed_chain(g, p)); }
    }
}

// ---- (1) local completeness: the converse of keys_ok
/// every remembered key is the key of a reported cycle
#[verifier::opaque]
pub open spec fn keys_conv(cs: Seq<FixtureCycle>, seen: Set<Seq<char>>) -> bool {
    forall|key: Seq<char>| #[trigger] seen.contains(key) ==> exists|k: int| 0 <= k < cs.len() && cyc_key(cyv(&#[trigger] cs[k]).path) == key
}
pub proof fn lemma_conv_seen(cs: Seq<FixtureCycle>, seen: Set<Seq<char>>, key: Seq<char>)
    requires keys_conv(cs, seen), seen.contains(key),
    ensures cs.len() > 0,
{
    reveal(keys_conv);
}
pub proof fn lemma_report_conv(cs0: Seq<FixtureCycle>, cs1: Seq<FixtureCycle>, seen0: Set<Seq<char>>, cpv: Seq<Seq<char>>)
    requires keys_conv(cs0, seen0), cs1.len() == cs0.len() + 1, cs1.drop_last() == cs0, cyv(&cs1.last()).path == cpv,
    ensures keys_conv(cs1, seen0.insert(cyc_key(cpv))),
{
    reveal(keys_conv);
    let seen1 = seen0.insert(cyc_key(cpv));
    let n = cs0.len() as int;
    assert(cs1.last() == cs1[n]);
    assert forall|key: Seq<char>| #[trigger] seen1.contains(key) implies exists|k: int| 0 <= k < cs1.len() && cyc_key(cyv(&#[trigger] cs1[k]).path) == key by {
        if key == cyc_key(cpv) {
            assert(cyc_key(cyv(&cs1[n]).path) == key);
        } else {
            assert(seen0.contains(key));
            let k = choose|k: int| 0 <= k < cs0.len() && cyc_key(cyv(&#[trigger] cs0[k]).path) == key;
            assert(cs1[k] == cs0[k]);
        }
    }
}

// ---- (2) structure of the explicit stack (holds always) ...
/// entered stack entries are pairwise different nodes of the recursion set, which is disjoint from `visited` and
/// holds only names that have an adjacency entry
#[verifier::opaque]
pub open spec fn dfs2_inv(g: Map<Seq<char>, Seq<Seq<char>>>, sv: Seq<EntV>, rec: Set<Seq<char>>, vis: Set<Seq<char>>) -> bool {
    &&& forall|k: int| 0 <= k < sv.len() && (#[trigger] sv[k]).idx > 0 ==> rec.contains(sv[k].node) && g.contains_key(sv[k].node)
    &&& forall|k1: int, k2: int| 0 <= k1 < k2 < sv.len() && (#[trigger] sv[k1]).idx > 0 && (#[trigger] sv[k2]).idx > 0 ==> sv[k1].node != sv[k2].node
    &&& forall|x: Seq<char>| #[trigger] rec.contains(x) ==> !vis.contains(x) && g.contains_key(x)
}
// ---- ... and the finishing order (holds while nothing has been reported)
/// nothing more to do for x: finished, or no adjacency entry (entered and left at once, never marked visited)
pub open spec fn handled(g: Map<Seq<char>, Seq<Seq<char>>>, vis: Set<Seq<char>>, x: Seq<char>) -> bool {
    !g.contains_key(x) || vis.contains(x)
}
/// the node of the entry directly above entry k, if any
pub open spec fn above(sv: Seq<EntV>, k: int) -> Option<Seq<char>> {
    if k + 1 < sv.len() { Some(sv[k + 1].node) } else { None }
}
/// the dependencies entry e has already looked at are handled — except the last one, which may be the node `ab`
/// (the entry directly above, still being explored)
pub open spec fn ent_deps_ok(g: Map<Seq<char>, Seq<Seq<char>>>, vis: Set<Seq<char>>, e: EntV, ab: Option<Seq<char>>) -> bool {
    forall|j: int| 0 <= j < e.idx && j < g[e.node].len() ==>
        handled(g, vis, #[trigger] g[e.node][j]) || (j == e.idx - 1 && ab == Some(g[e.node][j]))
}
#[verifier::opaque]
pub open spec fn stack_inv(g: Map<Seq<char>, Seq<Seq<char>>>, sv: Seq<EntV>, vis: Set<Seq<char>>) -> bool {
    forall|k: int| 0 <= k < sv.len() && (#[trigger] sv[k]).idx > 0 && g.contains_key(sv[k].node) ==> ent_deps_ok(g, vis, sv[k], above(sv, k))
}
/// `fin` is a reverse topological order of the finished part of the table: every dependency of a finished node
/// that has an adjacency entry finished strictly earlier
#[verifier::opaque]
pub open spec fn topo_inv(g: Map<Seq<char>, Seq<Seq<char>>>, vis: Set<Seq<char>>, fin: Map<Seq<char>, nat>, cnt: nat) -> bool {
    &&& forall|x: Seq<char>| #[trigger] vis.contains(x) ==> fin.contains_key(x) && fin[x] < cnt
    &&& forall|n: Seq<char>, j: int| vis.contains(n) && g.contains_key(n) && 0 <= j < g[n].len() ==>
            handled(g, vis, #[trigger] g[n][j]) && (g.contains_key(g[n][j]) ==> fin[g[n][j]] < fin[n])
}

pub proof fn lemma_topo_empty(g: Map<Seq<char>, Seq<Seq<char>>>)
    ensures topo_inv(g, Set::<Seq<char>>::empty(), Map::<Seq<char>, nat>::empty(), 0),
{
    reveal(topo_inv);
}
/// the initial stack of one DFS root
pub proof fn lemma2_init(g: Map<Seq<char>, Seq<Seq<char>>>, sv: Seq<EntV>, vis: Set<Seq<char>>)
    requires sv.len() == 1, sv[0].idx == 0,
    ensures dfs2_inv(g, sv, Set::<Seq<char>>::empty(), vis), stack_inv(g, sv, vis),
{
    reveal(dfs2_inv); reveal(stack_inv);
}
/// a dependency found on the recursion set has an adjacency entry (hence a first definition to report the cycle on)
pub proof fn lemma2_detect(g: Map<Seq<char>, Seq<Seq<char>>>, sv: Seq<EntV>, rec: Set<Seq<char>>, vis: Set<Seq<char>>, dep: Seq<char>)
    requires dfs2_inv(g, sv, rec, vis), sv.len() > 0, g.contains_key(sv.last().node), cur_rec(sv.last(), rec).contains(dep),
    ensures g.contains_key(dep),
{
    reveal(dfs2_inv);
}
/// leaving a node that has no adjacency entry: it was entered just now, it is not the root's entry
pub proof fn lemma2_none(defs: Map<Seq<char>, Seq<DefV>>, g: Map<Seq<char>, Seq<Seq<char>>>, sv: Seq<EntV>, rec: Set<Seq<char>>, vis: Set<Seq<char>>)
    requires dfs_inv(defs, sv, rec, vis), dfs2_inv(g, sv, rec, vis), sv.len() > 0, !g.contains_key(sv.last().node),
    ensures
        sv.last().idx == 0,
        dfs2_inv(g, sv.drop_last(), cur_rec(sv.last(), rec).remove(sv.last().node), vis),
        stack_inv(g, sv, vis) ==> stack_inv(g, sv.drop_last(), vis),
{
    reveal(dfs2_inv);
    let e = sv.last();
    let n = sv.len() - 1;
    let s1 = sv.drop_last();
    let rec2 = cur_rec(e, rec).remove(e.node);
    lemma_mid(defs, sv, rec, vis);
    assert(e == sv[n]);
    assert(e.idx == 0);
    assert forall|k: int| 0 <= k < s1.len() && (#[trigger] s1[k]).idx > 0 implies rec2.contains(s1[k].node) && g.contains_key(s1[k].node) by {
        assert(s1[k] == sv[k]);
    }
    assert forall|k1: int, k2: int| 0 <= k1 < k2 < s1.len() && (#[trigger] s1[k1]).idx > 0 && (#[trigger] s1[k2]).idx > 0 implies s1[k1].node != s1[k2].node by {
        assert(s1[k1] == sv[k1] && s1[k2] == sv[k2]);
    }
    if stack_inv(g, sv, vis) {
        reveal(stack_inv);
        assert forall|k: int| 0 <= k < s1.len() && (#[trigger] s1[k]).idx > 0 && g.contains_key(s1[k].node) implies ent_deps_ok(g, vis, s1[k], above(s1, k)) by {
            assert(s1[k] == sv[k]);
            assert(ent_deps_ok(g, vis, sv[k], above(sv, k)));
            if k + 1 < s1.len() { assert(s1[k + 1] == sv[k + 1]); } else { assert(above(sv, k) == Some(e.node)); }
        }
    }
}
/// looking at dependency number idx (structure)
pub proof fn lemma2_dep(defs: Map<Seq<char>, Seq<DefV>>, g: Map<Seq<char>, Seq<Seq<char>>>, sv: Seq<EntV>, rec: Set<Seq<char>>, vis: Set<Seq<char>>, explore: bool)
    requires dfs_inv(defs, sv, rec, vis), dfs2_inv(g, sv, rec, vis), sv.len() > 0,
        g.contains_key(sv.last().node), 0 <= sv.last().idx < g[sv.last().node].len(),
    ensures dfs2_inv(g, next_sv(sv, g[sv.last().node][sv.last().idx], explore), cur_rec(sv.last(), rec), vis),
        next_sv(sv, g[sv.last().node][sv.last().idx], explore)[0].node == sv[0].node,
{
    reveal(dfs2_inv);
    let e = sv.last();
    let n = sv.len() - 1;
    let dep = g[e.node][e.idx];
    let cp = cur_path(e);
    let ea = EntV { node: e.node, idx: e.idx + 1, path: cp };
    let nx = next_sv(sv, dep, explore);
    let rec1 = cur_rec(e, rec);
    lemma_mid(defs, sv, rec, vis);
    assert(e == sv[n]);
    assert forall|k: int| 0 <= k < nx.len() && (#[trigger] nx[k]).idx > 0 implies rec1.contains(nx[k].node) && g.contains_key(nx[k].node) by {
        if k < n { assert(nx[k] == sv[k]); } else if k == n { assert(nx[k] == ea); } else { assert(nx[k].idx == 0); }
    }
    assert forall|k1: int, k2: int| 0 <= k1 < k2 < nx.len() && (#[trigger] nx[k1]).idx > 0 && (#[trigger] nx[k2]).idx > 0 implies nx[k1].node != nx[k2].node by {
        assert(nx[k1] == sv[k1]);
        if k2 < n { assert(nx[k2] == sv[k2]); } else if k2 == n {
            assert(nx[k2] == ea);
            if e.idx > 0 { assert(sv[k1].node != sv[n].node); } else { assert(rec.contains(sv[k1].node)); }
        } else { assert(nx[k2].idx == 0); }
    }
    if n == 0 { assert(nx[0] == ea); } else { assert(nx[0] == sv[0]); }
}
/// looking at dependency number idx which is NOT on the recursion set (no detection): the stack discipline goes on
pub proof fn lemma2_dep_stack(g: Map<Seq<char>, Seq<Seq<char>>>, sv: Seq<EntV>, rec: Set<Seq<char>>, vis: Set<Seq<char>>, explore: bool)
    requires stack_inv(g, sv, vis), sv.len() > 0,
        g.contains_key(sv.last().node), 0 <= sv.last().idx < g[sv.last().node].len(),
        explore || vis.contains(g[sv.last().node][sv.last().idx]),
    ensures stack_inv(g, next_sv(sv, g[sv.last().node][sv.last().idx], explore), vis),
{
    reveal(stack_inv);
    let e = sv.last();
    let n = sv.len() - 1;
    let dep = g[e.node][e.idx];
    let cp = cur_path(e);
    let ea = EntV { node: e.node, idx: e.idx + 1, path: cp };
    let nx = next_sv(sv, dep, explore);
    assert(e == sv[n]);
    assert forall|k: int| 0 <= k < nx.len() && (#[trigger] nx[k]).idx > 0 && g.contains_key(nx[k].node) implies ent_deps_ok(g, vis, nx[k], above(nx, k)) by {
        if k < n {
            assert(nx[k] == sv[k]);
            assert(ent_deps_ok(g, vis, sv[k], above(sv, k)));
            if k + 1 < n { assert(nx[k + 1] == sv[k + 1]); } else { assert(nx[k + 1] == ea); assert(sv[k + 1] == e); }
            assert(above(nx, k) == above(sv, k));
        } else if k == n {
            assert(nx[k] == ea);
            if e.idx > 0 { assert(ent_deps_ok(g, vis, sv[n], above(sv, n))); assert(above(sv, n) == None::<Seq<char>>); }
            if explore { assert(nx[n + 1].node == dep); assert(above(nx, n) == Some(dep)); }
            assert forall|j: int| 0 <= j < ea.idx && j < g[ea.node].len() implies
                handled(g, vis, #[trigger] g[ea.node][j]) || (j == ea.idx - 1 && above(nx, n) == Some(g[ea.node][j])) by {
                if j < e.idx { assert(handled(g, vis, g[e.node][j])); }
            }
        } else {
            assert(nx[k].idx == 0);
        }
    }
}
/// all dependencies done: the node is finished (structure)
pub proof fn lemma2_done(defs: Map<Seq<char>, Seq<DefV>>, g: Map<Seq<char>, Seq<Seq<char>>>, sv: Seq<EntV>, rec: Set<Seq<char>>, vis: Set<Seq<char>>)
    requires dfs_inv(defs, sv, rec, vis), dfs2_inv(g, sv, rec, vis), sv.len() > 0, g.contains_key(sv.last().node),
    ensures dfs2_inv(g, sv.drop_last(), cur_rec(sv.last(), rec).remove(sv.last().node), vis.insert(sv.last().node)),
        !vis.contains(sv.last().node),
{
    reveal(dfs2_inv);
    let e = sv.last();
    let n = sv.len() - 1;
    let s1 = sv.drop_last();
    let rec2 = cur_rec(e, rec).remove(e.node);
    let vis2 = vis.insert(e.node);
    lemma_mid(defs, sv, rec, vis);
    assert(e == sv[n]);
    assert forall|k: int| 0 <= k < s1.len() && (#[trigger] s1[k]).idx > 0 implies rec2.contains(s1[k].node) && g.contains_key(s1[k].node) by {
        assert(s1[k] == sv[k]);
        if e.idx > 0 { assert(sv[k].node != sv[n].node); }
    }
    assert forall|k1: int, k2: int| 0 <= k1 < k2 < s1.len() && (#[trigger] s1[k1]).idx > 0 && (#[trigger] s1[k2]).idx > 0 implies s1[k1].node != s1[k2].node by {
        assert(s1[k1] == sv[k1] && s1[k2] == sv[k2]);
    }
    if e.idx > 0 { assert(rec.contains(e.node)); }
}
/// all dependencies done, nothing reported so far: the node gets the next finishing number
pub proof fn lemma2_done_topo(g: Map<Seq<char>, Seq<Seq<char>>>, sv: Seq<EntV>, vis: Set<Seq<char>>, fin: Map<Seq<char>, nat>, cnt: nat)
    requires stack_inv(g, sv, vis), topo_inv(g, vis, fin, cnt), sv.len() > 0, g.contains_key(sv.last().node),
        sv.last().idx >= g[sv.last().node].len(), sv.last().idx >= 0, !vis.contains(sv.last().node),
    ensures stack_inv(g, sv.drop_last(), vis.insert(sv.last().node)),
        topo_inv(g, vis.insert(sv.last().node), fin.insert(sv.last().node, cnt), cnt + 1),
{
    let e = sv.last();
    let n = sv.len() - 1;
    let s1 = sv.drop_last();
    let vis2 = vis.insert(e.node);
    let fin2 = fin.insert(e.node, cnt);
    assert(e == sv[n]);
    assert(stack_inv(g, s1, vis2)) by {
        reveal(stack_inv);
        assert forall|k: int| 0 <= k < s1.len() && (#[trigger] s1[k]).idx > 0 && g.contains_key(s1[k].node) implies ent_deps_ok(g, vis2, s1[k], above(s1, k)) by {
            assert(s1[k] == sv[k]);
            assert(ent_deps_ok(g, vis, sv[k], above(sv, k)));
            if k + 1 < s1.len() { assert(s1[k + 1] == sv[k + 1]); } else { assert(above(sv, k) == Some(e.node)); }
            assert forall|j: int| 0 <= j < sv[k].idx && j < g[sv[k].node].len() implies
                handled(g, vis2, #[trigger] g[sv[k].node][j]) || (j == sv[k].idx - 1 && above(s1, k) == Some(g[sv[k].node][j])) by {
                if !handled(g, vis, g[sv[k].node][j]) { assert(above(sv, k) == Some(g[sv[k].node][j])); }
            }
        }
    }
    assert(topo_inv(g, vis2, fin2, (cnt + 1) as nat)) by {
        reveal(topo_inv);
        // the finished node's own dependencies: the top entry has nothing above it
        assert(forall|j: int| 0 <= j < g[e.node].len() ==> handled(g, vis, #[trigger] g[e.node][j])) by {
            reveal(stack_inv);
            if e.idx > 0 { assert(ent_deps_ok(g, vis, sv[n], above(sv, n))); assert(above(sv, n) == None::<Seq<char>>); }
        }
        assert forall|m: Seq<char>, j: int| vis2.contains(m) && g.contains_key(m) && 0 <= j < g[m].len() implies
            handled(g, vis2, #[trigger] g[m][j]) && (g.contains_key(g[m][j]) ==> fin2[g[m][j]] < fin2[m]) by {
            let d = g[m][j];
            if m == e.node {
                assert(handled(g, vis, d));
                if g.contains_key(d) { assert(vis.contains(d)); assert(d != e.node); assert(fin[d] < cnt); }
            } else {
                assert(vis.contains(m));
                assert(handled(g, vis, d));
                if g.contains_key(d) { assert(vis.contains(d)); assert(d != e.node); }
            }
        }
    }
}

// ---- (3) a table whose keys are all finished under a reverse topological finishing order has no closed chain
pub proof fn lemma_topo_chain(g: Map<Seq<char>, Seq<Seq<char>>>, vis: Set<Seq<char>>, fin: Map<Seq<char>, nat>, cnt: nat, p: Seq<Seq<char>>, k: int)
    requires topo_inv(g, vis, fin, cnt), forall|x: Seq<char>| #[trigger] g.contains_key(x) ==> vis.contains(x),
        g_chain(g, p), 1 <= k < p.len(), forall|i: int| 0 <= i < p.len() ==> g.contains_key(#[trigger] p[i]),
    ensures fin[p[k]] < fin[p[0]],
    decreases k,
{
    reveal(g_chain);
    assert(g_edge(g, p[k - 1], p[k]));
    let a = p[k - 1];
    let j = choose|j: int| 0 <= j < g[a].len() && g[a][j] == p[k];
    assert(g.contains_key(a) && vis.contains(a));
    assert(g.contains_key(p[k]));
    assert(fin[g[a][j]] < fin[a]) by { reveal(topo_inv); }
    if k > 1 { lemma_topo_chain(g, vis, fin, cnt, p, k - 1); }
}
pub proof fn lemma_no_cycle(g: Map<Seq<char>, Seq<Seq<char>>>, vis: Set<Seq<char>>, fin: Map<Seq<char>, nat>, cnt: nat)
    requires topo_inv(g, vis, fin, cnt), forall|x: Seq<char>| #[trigger] g.contains_key(x) ==> vis.contains(x),
    ensures g_acyclic(g),
{
    assert forall|p: Seq<Seq<char>>| !#[trigger] g_closed_chain(g, p) by {
        if g_closed_chain(g, p) {
            assert forall|i: int| 0 <= i < p.len() implies g.contains_key(#[trigger] p[i]) by {
                reveal(g_chain);
                if i + 1 < p.len() { assert(g_edge(g, p[i], p[i + 1])); } else { assert(p[i] == p[0]); assert(g_edge(g, p[0], p[1])); }
            }
            lemma_topo_chain(g, vis, fin, cnt, p, p.len() - 1);
            assert(p[p.len() - 1] == p[0]);
        }
    }
}

// ---- the DFS roots (sorted enumeration of the key set) still cover the key set
pub proof fn lemma_roots_cover(e: Seq<Seq<char>>, r: Seq<Seq<char>>, dom: Set<Seq<char>>)
    requires enumerates(e, dom), r == roots_of(dom, e),
    ensures forall|x: Seq<char>| dom.contains(x) <==> r.contains(x),
{
    broadcast use vstd::seq_lib::group_to_multiset_ensures;
    axiom_sorted_names_perm(e.to_multiset());
    assert(r.to_multiset() == e.to_multiset());
    assert forall|x: Seq<char>| dom.contains(x) <==> r.contains(x) by {
        assert(e.contains(x) <==> e.to_multiset().count(x) > 0);
        assert(r.contains(x) <==> r.to_multiset().count(x) > 0);
    }
}
