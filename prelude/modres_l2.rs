// ---------------------------------------------------------------------------------------------
// Unit module_resolve, L2: what the operational specification (prelude/modres_spec.rs) means for property C14
// ("... relative or absolute, packages or modules ... are available exactly where the importing file makes them
// available, and from the module that actually defines them").  Pure lemmas; every hypothesis about the world is a
// `requires` (text_pv_laws = MP7 + MP8 of prelude/modres_path.rs; what `split` yields for the text at hand).
// FINDING / FACT lemmas state behaviour that strains the property; each names a concrete layout for replay.
// (F-14f, module file shadowing the package, was a FINDING here until /repo 6de68a0; now lemma_C14_package_wins_over_module_file.)

pub proof fn lemma_dots_end_ge(m: Seq<char>, k: int)
    requires 0 <= k,
    ensures dots_end(m, k) >= k,
    decreases m.len() - k,
{
    if k < m.len() && m[k] == '.' { lemma_dots_end_ge(m, k + 1); }
}

// ---- closed form of find_module_file for ordinary dotted names -------------------------------------------------
pub open spec fn all_simple(parts: Seq<Seq<char>>) -> bool { forall|i: int| 0 <= i < parts.len() ==> simple_name(#[trigger] parts[i]) }
/// `<base>/p0/.../pj`
pub open spec fn dir_at(base: PV, parts: Seq<Seq<char>>, j: int) -> PV { base + parts.take(j + 1) }
/// every component but the last (from index i on) names a directory
pub open spec fn dirs_ok(base: PV, parts: Seq<Seq<char>>, i: int) -> bool {
    forall|j: int| i <= j < parts.len() - 1 ==> fs_is_dir(#[trigger] dir_at(base, parts, j))
}
/// `<base>/p0/.../p(n-2)/p(n-1).py`
pub open spec fn mod_file(base: PV, parts: Seq<Seq<char>>) -> PV { base + parts.drop_last() + seq![parts.last() + py_suffix()] }
/// `<base>/p0/.../p(n-1)/__init__.py`
pub open spec fn pkg_init(base: PV, parts: Seq<Seq<char>>) -> PV { base + parts + seq![init_name()] }
pub open spec fn closed_form_from(base: PV, parts: Seq<Seq<char>>, i: int, dom: Set<PV>) -> Option<PV> {
    if !dirs_ok(base, parts, i) { None }
    else if hit(pkg_init(base, parts), dom) { Some(pkg_init(base, parts)) }
    else if hit(mod_file(base, parts), dom) { Some(mod_file(base, parts)) }
    else { None }
}
pub open spec fn closed_form(base: PV, parts: Seq<Seq<char>>, dom: Set<PV>) -> Option<PV> { closed_form_from(base, parts, 0, dom) }

pub proof fn lemma_find_parts_closed(parts: Seq<Seq<char>>, i: int, base: PV, dom: Set<PV>)
    requires text_pv_laws(), all_simple(parts), 0 <= i < parts.len(),
    ensures op_find_parts(parts, i, base + parts.take(i), dom) == closed_form_from(base, parts, i, dom),
    decreases parts.len() - i,
{
    let cur = base + parts.take(i);
    let n = parts.len() as int;
    let x = parts[i];
    assert(simple_name(x));
    assert(text_pv(x) == seq![x] && !pv_is_abs(seq![x]));
    let nxt = pv_join(cur, text_pv(x));
    assert(nxt =~= dir_at(base, parts, i)) by { assert(parts.take(i + 1) =~= parts.take(i).push(x)); }
    if i == n - 1 {
        lemma_py_name_simple(x);
        lemma_modres_lits();
        let f = x + py_suffix();
        assert(text_pv(f) == seq![f] && !pv_is_abs(seq![f]));
        assert(text_pv(init_name()) == seq![init_name()] && !pv_is_abs(seq![init_name()]));
        assert(parts.take(i) =~= parts.drop_last());
        assert(parts.take(i + 1) =~= parts);
        assert(parts.last() == x);
        assert(cand_py(cur, x) =~= mod_file(base, parts));
        assert(cand_init(cur, x) =~= pkg_init(base, parts));
        assert(dirs_ok(base, parts, i));
    } else {
        lemma_find_parts_closed(parts, i + 1, base, dom);
        assert(nxt == base + parts.take(i + 1));
        if fs_is_dir(nxt) {
            assert(dirs_ok(base, parts, i) == dirs_ok(base, parts, i + 1)) by {
                if dirs_ok(base, parts, i + 1) {
                    assert forall|j: int| i <= j < parts.len() - 1 implies fs_is_dir(#[trigger] dir_at(base, parts, j)) by {
                        if j == i { assert(dir_at(base, parts, i) == nxt); }
                    }
                }
            }
        } else {
            assert(!dirs_ok(base, parts, i)) by { assert(!fs_is_dir(dir_at(base, parts, i))); }
        }
    }
}
//@tags C14
/// CLOSED FORM: for a dotted path whose components are ordinary names, below directory `base`:
/// every component but the last must be a directory (and only that: no `__init__.py` is asked for); then
/// `<base>/a/b/__init__.py` if it is there, else `<base>/a/b.py` if it is there, else nothing
pub proof fn lemma_C14_closed_form(m: Seq<char>, base: PV, dom: Set<PV>)
    requires text_pv_laws(), all_simple(split_v(m, '.')), split_v(m, '.').len() >= 1,
    ensures op_find(m, base, dom) == closed_form(base, split_v(m, '.'), dom),
{
    let parts = split_v(m, '.');
    lemma_find_parts_closed(parts, 0, base, dom);
    assert(base + parts.take(0) =~= base);
}
//@tags C14
/// whatever is found for an ordinary dotted name lies BELOW the directory the search was anchored at
pub proof fn lemma_C14_found_file_is_below_base(m: Seq<char>, base: PV, dom: Set<PV>)
    requires text_pv_laws(), all_simple(split_v(m, '.')), split_v(m, '.').len() >= 1, op_find(m, base, dom) is Some,
    ensures pv_is_prefix(base, op_find(m, base, dom)->0),
        op_find(m, base, dom)->0 == mod_file(base, split_v(m, '.')) || op_find(m, base, dom)->0 == pkg_init(base, split_v(m, '.')),
{
    lemma_C14_closed_form(m, base, dom);
    let parts = split_v(m, '.');
    assert(mod_file(base, parts).subrange(0, base.len() as int) =~= base);
    assert(pkg_init(base, parts).subrange(0, base.len() as int) =~= base);
}
//@tags C14
/// package vs module precedence (F-14f, repaired in /repo 6de68a0): when both `<dir>/x/__init__.py` and `<dir>/x.py`
/// are there, the PACKAGE is returned — the file Python's import system imports (a directory with `__init__.py` is
/// tried before `x.py`), so the fixtures come "from the module that actually defines them".
/// replay (replay/scenarios/F-14f.json): tests/conftest.py `from .helpers import *`; tests/helpers.py defines
/// `from_module`; tests/helpers/__init__.py defines `from_package` -> the closure is ['from_package'].
pub proof fn lemma_C14_package_wins_over_module_file(m: Seq<char>, base: PV, dom: Set<PV>)
    requires text_pv_laws(), all_simple(split_v(m, '.')), split_v(m, '.').len() >= 1,
        dirs_ok(base, split_v(m, '.'), 0),
        hit(mod_file(base, split_v(m, '.')), dom), hit(pkg_init(base, split_v(m, '.')), dom),
    ensures op_find(m, base, dom) == Some(pkg_init(base, split_v(m, '.'))),
{
    lemma_C14_closed_form(m, base, dom);
}
//@tags C14
/// ... and the module file is the result exactly when the package is NOT there
pub proof fn lemma_C14_module_file_only_without_package(m: Seq<char>, base: PV, dom: Set<PV>)
    requires text_pv_laws(), all_simple(split_v(m, '.')), split_v(m, '.').len() >= 1,
        op_find(m, base, dom) == Some(mod_file(base, split_v(m, '.'))), mod_file(base, split_v(m, '.')) != pkg_init(base, split_v(m, '.')),
    ensures !hit(pkg_init(base, split_v(m, '.')), dom), hit(mod_file(base, split_v(m, '.')), dom),
{
    lemma_C14_closed_form(m, base, dom);
}
//@tags C14
/// namespace packages (PEP 420), part 1: the INTERMEDIATE components of `a.b` only have to be directories —
/// `<base>/a/b.py` is found (no package `<base>/a/b/__init__.py` being there) whether or not `<base>/a/__init__.py` exists
pub proof fn lemma_C14_intermediate_directories_need_no_init(m: Seq<char>, base: PV, dom: Set<PV>, a: Seq<char>, b: Seq<char>)
    requires text_pv_laws(), split_v(m, '.') == seq![a, b], simple_name(a), simple_name(b),
        fs_is_dir(base + seq![a]), hit(base + seq![a, b + py_suffix()], dom), !hit(base + seq![a, b, init_name()], dom),
    ensures op_find(m, base, dom) == Some(base + seq![a, b + py_suffix()]),
{
    let parts = seq![a, b];
    lemma_C14_closed_form(m, base, dom);
    assert(mod_file(base, parts) =~= base + seq![a, b + py_suffix()]) by { assert(parts.drop_last() =~= seq![a]); }
    assert(pkg_init(base, parts) =~= base + seq![a, b, init_name()]);
    assert(dirs_ok(base, parts, 0)) by {
        assert forall|j: int| 0 <= j < parts.len() - 1 implies fs_is_dir(#[trigger] dir_at(base, parts, j)) by {
            assert(parts.take(1) =~= seq![a]);
        }
    }
}
//@tags C14
/// namespace packages, part 2 (FACT): a directory WITHOUT `__init__.py` (and without a sibling `x.py`) is never the
/// result, so `pytest_plugins = ["nspkg"]` / `from nspkg import *` finds nothing in that directory — and an
/// absolute import then goes on searching further up / in site-packages for another `nspkg`
pub proof fn lemma_C14_FACT_namespace_package_is_not_a_target(m: Seq<char>, base: PV, dom: Set<PV>, x: Seq<char>)
    requires text_pv_laws(), split_v(m, '.') == seq![x], simple_name(x), fs_is_dir(base + seq![x]),
        !hit(base + seq![x + py_suffix()], dom), !hit(base + seq![x, init_name()], dom),
    ensures op_find(m, base, dom) is None,
{
    let parts = seq![x];
    lemma_C14_closed_form(m, base, dom);
    assert(mod_file(base, parts) =~= base + seq![x + py_suffix()]) by { assert(parts.drop_last() =~= Seq::<Seq<char>>::empty()); }
    assert(pkg_init(base, parts) =~= base + seq![x, init_name()]);
}

// ---- relative imports -----------------------------------------------------------------------------------------
//@tags C14
/// more dots than ancestors: NO result (no clamping at the root, no fallback) — `Path::parent` returned None
pub proof fn lemma_C14_more_dots_than_ancestors_is_none(m: Seq<char>, d: PV, dom: Set<PV>)
    requires ups_of(dots_end(m, 0)) > d.len(),
    ensures op_relative(m, d, dom) is None,
{
    lemma_up_is_take(d, ups_of(dots_end(m, 0)));
}
//@tags C14
/// a relative import never escapes silently: its result (for ordinary names) lies below the ANCHOR = the directory
/// `dots - 1` levels above the importing file's directory, and it is either the package's `__init__.py` (bare dots),
/// the module file or the package init below the anchor
pub proof fn lemma_C14_relative_import_stays_below_anchor(m: Seq<char>, d: PV, dom: Set<PV>)
    requires text_pv_laws(), dots_end(m, 0) >= 1,
        m.skip(dots_end(m, 0)).len() > 0 ==> all_simple(split_v(m.skip(dots_end(m, 0)), '.')) && split_v(m.skip(dots_end(m, 0)), '.').len() >= 1,
        op_relative(m, d, dom) is Some,
    ensures ({
        let n = dots_end(m, 0);
        let anchor = d.take(d.len() - (n - 1));
        &&& n - 1 <= d.len()
        &&& pv_is_prefix(anchor, op_relative(m, d, dom)->0)
        &&& m.skip(n).len() == 0 ==> op_relative(m, d, dom)->0 == anchor + seq![init_name()]
    }),
{
    let n = dots_end(m, 0);
    lemma_up_is_take(d, n - 1);
    let anchor = d.take(d.len() - (n - 1));
    let rem = m.skip(n);
    lemma_modres_lits();
    if rem.len() == 0 {
        assert(text_pv(init_name()) == seq![init_name()] && !pv_is_abs(seq![init_name()]));
        assert((anchor + seq![init_name()]).subrange(0, anchor.len() as int) =~= anchor);
    } else {
        lemma_C14_found_file_is_below_base(rem, anchor, dom);
    }
}
//@tags C14
/// the exact fallback of a relative import: NONE.  Site-packages paths, editable roots and outer directories are
/// never consulted — an unresolvable relative import is simply dropped (compute_imported_fixtures `continue`s)
pub proof fn lemma_C14_relative_import_has_no_fallback(m: Seq<char>, from: PV, dom: Set<PV>, sps1: Seq<PV>, ers1: Seq<PV>, sps2: Seq<PV>, ers2: Seq<PV>)
    requires starts_with_char(m, '.'),
    ensures op_resolve(m, from, dom, sps1, ers1) == op_resolve(m, from, dom, sps2, ers2),
        pv_has_parent(from) && from.len() > 0 ==> op_resolve(m, from, dom, sps1, ers1) == op_relative(m, from.drop_last(), dom),
{}
//@tags C14
/// `from . import x` (module text "."): the `__init__.py` NEXT TO the importing file, if it exists on disk
pub proof fn lemma_C14_from_dot_import_resolves_next_to_importing_file(from: PV, dom: Set<PV>, sps: Seq<PV>, ers: Seq<PV>)
    requires text_pv_laws(), pv_has_parent(from), from.len() > 0,
    ensures op_resolve(seq!['.'], from, dom, sps, ers)
        == (if fs_exists(from.drop_last() + seq![init_name()]) { Some(from.drop_last() + seq![init_name()]) } else { None }),
{
    let m = seq!['.'];
    let d = from.drop_last();
    assert(dots_end(m, 1) == 1);
    assert(dots_end(m, 0) == 1);
    assert(m.skip(1).len() == 0);
    assert(op_up(d, 0) == Some(d));
    lemma_modres_lits();
    assert(text_pv(init_name()) == seq![init_name()] && !pv_is_abs(seq![init_name()]));
}
//@tags C14
/// `from .x import *` (module text ".x", x an ordinary name without dots): `<dir of importing file>/x/__init__.py`, else
/// `<dir of importing file>/x.py`, else nothing
pub proof fn lemma_C14_from_dot_x_resolves_next_to_importing_file(x: Seq<char>, from: PV, dom: Set<PV>, sps: Seq<PV>, ers: Seq<PV>)
    requires text_pv_laws(), pv_has_parent(from), from.len() > 0,
        simple_name(x), x[0] != '.', split_v(x, '.') == seq![x],
    ensures ({
        let d = from.drop_last();
        op_resolve(seq!['.'] + x, from, dom, sps, ers)
            == (if hit(d + seq![x, init_name()], dom) { Some(d + seq![x, init_name()]) }
                else if hit(d + seq![x + py_suffix()], dom) { Some(d + seq![x + py_suffix()]) } else { None })
    }),
{
    let m = seq!['.'] + x;
    let d = from.drop_last();
    assert(m[1] == x[0]);
    assert(dots_end(m, 1) == 1);
    assert(dots_end(m, 0) == 1);
    assert(m.skip(1) =~= x);
    assert(op_up(d, 0) == Some(d));
    let parts = seq![x];
    lemma_C14_closed_form(x, d, dom);
    assert(mod_file(d, parts) =~= d + seq![x + py_suffix()]) by { assert(parts.drop_last() =~= Seq::<Seq<char>>::empty()); }
    assert(pkg_init(d, parts) =~= d + seq![x, init_name()]);
    assert(dirs_ok(d, parts, 0));
}
//@tags C14
/// FACT: the `__init__.py` of a bare-dots import (`from . import x`, `from .. import y`) is looked up ON DISK only;
/// an `__init__.py` that exists only as an open document (file_cache) is not found, whereas `from .pkg import x`
/// does accept a cached `pkg/__init__.py`
pub proof fn lemma_C14_FACT_bare_dots_ask_the_disk_only(m: Seq<char>, d: PV, dom: Set<PV>)
    requires m.skip(dots_end(m, 0)).len() == 0, op_up(d, ups_of(dots_end(m, 0))) is Some,
        !fs_exists(pv_join(op_up(d, ups_of(dots_end(m, 0)))->0, text_pv(init_name()))),
    ensures op_relative(m, d, dom) is None,   // even if dom.contains(canon(<anchor>/__init__.py))
{}

// ---- absolute imports -----------------------------------------------------------------------------------------
pub proof fn lemma_walk_up_nearest(m: Seq<char>, d: PV, t: int, dom: Set<PV>, p: PV)
    requires 0 <= t <= d.len(),
        forall|j: int| t < j <= d.len() ==> pv_has_parent(#[trigger] d.take(j)) && op_find(m, d.take(j), dom) is None,
        op_find(m, d.take(t), dom) == Some(p),
    ensures op_walk_up(m, d, dom) == Some(p),
    decreases d.len() - t,
{
    assert(d.take(d.len() as int) =~= d);
    if t < d.len() {
        let e = d.drop_last();
        assert forall|j: int| t < j <= e.len() implies pv_has_parent(#[trigger] e.take(j)) && op_find(m, e.take(j), dom) is None by {
            assert(e.take(j) =~= d.take(j));
        }
        assert(e.take(t) =~= d.take(t));
        lemma_walk_up_nearest(m, e, t, dom, p);
    }
}
//@tags C14
/// search order of an absolute import, part 1: the NEAREST directory on the way from the importing file's directory
/// up to the file-system root below which the dotted path is found wins
pub proof fn lemma_C14_absolute_import_nearest_ancestor_wins(m: Seq<char>, d: PV, t: int, dom: Set<PV>, sps: Seq<PV>, ers: Seq<PV>, p: PV)
    requires 0 <= t <= d.len(),
        forall|j: int| t < j <= d.len() ==> pv_has_parent(#[trigger] d.take(j)) && op_find(m, d.take(j), dom) is None,
        op_find(m, d.take(t), dom) == Some(p),
    ensures op_absolute(m, d, dom, sps, ers) == Some(p),
{
    lemma_walk_up_nearest(m, d, t, dom, p);
}
//@tags C14
/// FINDING (the upward walk knows neither the workspace root nor sys.path): a module of the same name in ANY outer
/// directory is taken when the nearer directories do not have it — here the parent of the importing file's directory,
/// but equally `/home/u/helpers.py` or `/helpers.py` far outside the workspace.  Python would import `helpers` only
/// from a sys.path entry (rootdir / the first directory without `__init__.py` / site-packages), so the fixtures shown
/// may come from a file Python never imports, or from no importable file at all.
/// replay: /w/proj/tests/unit/conftest.py `from helpers import *`; /w/helpers.py defines fixture `outer`; workspace
/// root /w/proj; no `helpers` below /w/proj  ->  the server offers `outer` in tests/unit, pytest raises ImportError.
pub proof fn lemma_C14_FINDING_absolute_import_found_in_outer_directory(m: Seq<char>, d: PV, dom: Set<PV>, sps: Seq<PV>, ers: Seq<PV>, p: PV)
    requires op_find(m, d, dom) is None, pv_has_parent(d), d.len() > 0, op_find(m, d.drop_last(), dom) == Some(p),
    ensures op_absolute(m, d, dom, sps, ers) == Some(p),
{
    assert(op_walk_up(m, d.drop_last(), dom) == Some(p));
    assert(op_walk_up(m, d, dom) == op_walk_up(m, d.drop_last(), dom));
}
pub proof fn lemma_first_lowest(m: Seq<char>, roots: Seq<PV>, i: int, k: int, dom: Set<PV>, p: PV)
    requires 0 <= i <= k < roots.len(),
        forall|j: int| i <= j < k ==> op_find(m, #[trigger] roots[j], dom) is None,
        op_find(m, roots[k], dom) == Some(p),
    ensures op_first(m, roots, i, dom) == Some(p),
    decreases k - i,
{
    if i < k { lemma_first_lowest(m, roots, i + 1, k, dom, p); }
}
pub proof fn lemma_first_none(m: Seq<char>, roots: Seq<PV>, i: int, dom: Set<PV>)
    requires 0 <= i <= roots.len(), forall|j: int| i <= j < roots.len() ==> op_find(m, #[trigger] roots[j], dom) is None,
    ensures op_first(m, roots, i, dom) is None,
    decreases roots.len() - i,
{
    if i < roots.len() { lemma_first_none(m, roots, i + 1, dom); }
}
//@tags C14
/// search order, part 2: only when the whole upward walk found nothing, the site-packages paths are tried in LIST
/// order (first hit wins), and only when they have nothing, the editable source roots in LIST order
pub proof fn lemma_C14_search_order_walk_then_site_packages_then_editable(m: Seq<char>, d: PV, dom: Set<PV>, sps: Seq<PV>, ers: Seq<PV>, k: int, p: PV)
    requires op_walk_up(m, d, dom) is None,
    ensures
        (0 <= k < sps.len() && (forall|j: int| 0 <= j < k ==> op_find(m, #[trigger] sps[j], dom) is None) && op_find(m, sps[k], dom) == Some(p))
            ==> op_absolute(m, d, dom, sps, ers) == Some(p),
        ((forall|j: int| 0 <= j < sps.len() ==> op_find(m, #[trigger] sps[j], dom) is None)
            && 0 <= k < ers.len() && (forall|j: int| 0 <= j < k ==> op_find(m, #[trigger] ers[j], dom) is None) && op_find(m, ers[k], dom) == Some(p))
            ==> op_absolute(m, d, dom, sps, ers) == Some(p),
        ((forall|j: int| 0 <= j < sps.len() ==> op_find(m, #[trigger] sps[j], dom) is None)
            && (forall|j: int| 0 <= j < ers.len() ==> op_find(m, #[trigger] ers[j], dom) is None))
            ==> op_absolute(m, d, dom, sps, ers) is None,
{
    if 0 <= k < sps.len() && (forall|j: int| 0 <= j < k ==> op_find(m, #[trigger] sps[j], dom) is None) && op_find(m, sps[k], dom) == Some(p) {
        lemma_first_lowest(m, sps, 0, k, dom, p);
    }
    if forall|j: int| 0 <= j < sps.len() ==> op_find(m, #[trigger] sps[j], dom) is None {
        lemma_first_none(m, sps, 0, dom);
        if 0 <= k < ers.len() && (forall|j: int| 0 <= j < k ==> op_find(m, #[trigger] ers[j], dom) is None) && op_find(m, ers[k], dom) == Some(p) {
            lemma_first_lowest(m, ers, 0, k, dom, p);
        }
        if forall|j: int| 0 <= j < ers.len() ==> op_find(m, #[trigger] ers[j], dom) is None {
            lemma_first_none(m, ers, 0, dom);
        }
    }
}
//@tags C14
/// a hit of the upward walk shadows site-packages and editable installs (a local `pytest_foo.py` next to or above
/// the conftest wins over the installed plugin of that name)
pub proof fn lemma_C14_local_module_shadows_installed_one(m: Seq<char>, d: PV, dom: Set<PV>, sps: Seq<PV>, ers: Seq<PV>, p: PV)
    requires op_find(m, d, dom) == Some(p),
    ensures op_absolute(m, d, dom, sps, ers) == Some(p),
{}

// ---- odd dotted strings (C11: none of them panics — that is part of L1; here: what they resolve to) --------------
//@tags C14 C11
/// FACT (empty LAST segment: module text "" — e.g. `pytest_plugins = ""` — or a trailing dot "pkg."): the candidates
/// are `<cur>/__init__.py` and then `<cur>/.py`: an EMPTY plugin string resolves to the `__init__.py` of the importing
/// file's own directory or of the nearest ancestor that has one
pub proof fn lemma_C14_FACT_empty_last_segment_resolves_to_init(parts: Seq<Seq<char>>, cur: PV, dom: Set<PV>)
    requires text_pv_laws(), parts.len() == 1, parts[0].len() == 0,
    ensures op_find_parts(parts, 0, cur, dom)
        == (if hit(cur + seq![init_name()], dom) { Some(cur + seq![init_name()]) }
            else if hit(cur + seq![py_suffix()], dom) { Some(cur + seq![py_suffix()]) } else { None }),
{
    let e = parts[0];
    assert(e =~= Seq::<char>::empty());
    lemma_py_name_simple(e);
    lemma_modres_lits();
    assert(e + py_suffix() =~= py_suffix());
    assert(text_pv(py_suffix()) == seq![py_suffix()] && !pv_is_abs(seq![py_suffix()]));
    assert(text_pv(init_name()) == seq![init_name()] && !pv_is_abs(seq![init_name()]));
    assert(pv_join(cur, text_pv(e)) =~= cur);
}
//@tags C14 C11
/// FACT (empty INNER segment, "a..b" written inside a `pytest_plugins` string): the empty component changes nothing
/// but a second `is_dir` test of the same directory — "a..b" resolves exactly like "a.b"
pub proof fn lemma_C14_FACT_empty_inner_segment_is_skipped(a: Seq<char>, b: Seq<char>, base: PV, dom: Set<PV>)
    requires text_pv_laws(), simple_name(a), simple_name(b),
    ensures op_find_parts(seq![a, Seq::<char>::empty(), b], 0, base, dom) == op_find_parts(seq![a, b], 0, base, dom),
{
    let e = Seq::<char>::empty();
    let p3 = seq![a, e, b];
    let p2 = seq![a, b];
    assert(text_pv(a) == seq![a] && !pv_is_abs(seq![a]));
    let da = pv_join(base, text_pv(a));
    assert(pv_join(da, text_pv(e)) =~= da);
    assert(op_find_parts(p3, 2, da, dom) == op_find_parts(p2, 1, da, dom));
    assert(op_find_parts(p3, 1, da, dom) == (if !fs_is_dir(da) { None } else { op_find_parts(p3, 2, da, dom) }));
    assert(op_find_parts(p3, 0, base, dom) == (if !fs_is_dir(da) { None } else { op_find_parts(p3, 1, da, dom) }));
    assert(op_find_parts(p2, 0, base, dom) == (if !fs_is_dir(da) { None } else { op_find_parts(p2, 1, da, dom) }));
}
//@tags C14
/// FACT (a `pytest_plugins` string is arbitrary text): when `<text>.py` denotes an ABSOLUTE path — "/opt/shared/plug" —
/// `Path::join` drops the directory it is joined to: the string resolves to `/opt/shared/plug.py` from EVERY importing
/// file, relative or not to anything in the workspace.  (pytest itself fails to import such a name.)
pub proof fn lemma_C14_FACT_absolute_text_escapes_every_base(parts: Seq<Seq<char>>, base1: PV, base2: PV, dom: Set<PV>)
    requires parts.len() == 1, pv_is_abs(text_pv(parts[0] + py_suffix())), fs_exists(text_pv(parts[0] + py_suffix())),
        !hit(cand_init(base1, parts[0]), dom), !hit(cand_init(base2, parts[0]), dom),   // no package of that name
    ensures op_find_parts(parts, 0, base1, dom) == Some(text_pv(parts[0] + py_suffix())),
        op_find_parts(parts, 0, base1, dom) == op_find_parts(parts, 0, base2, dom),
{}

// ---- vacuity guards: each of these must FAIL --------------------------------------------------------------------
/// "the module file wins over the package" (the behaviour before /repo 6de68a0, F-14f)
proof fn canary_module_file_preferred_to_package(m: Seq<char>, base: PV, dom: Set<PV>)
    requires text_pv_laws(), all_simple(split_v(m, '.')), split_v(m, '.').len() >= 1, dirs_ok(base, split_v(m, '.'), 0),
        hit(mod_file(base, split_v(m, '.')), dom), hit(pkg_init(base, split_v(m, '.')), dom),
    ensures op_find(m, base, dom) == Some(mod_file(base, split_v(m, '.'))),
{
    lemma_C14_closed_form(m, base, dom);
}
/// "an unresolvable relative import falls back to the absolute search"
proof fn canary_relative_falls_back_to_absolute(m: Seq<char>, from: PV, dom: Set<PV>, sps: Seq<PV>, ers: Seq<PV>)
    requires starts_with_char(m, '.'), pv_has_parent(from), from.len() > 0, op_relative(m, from.drop_last(), dom) is None,
    ensures op_resolve(m, from, dom, sps, ers) == op_absolute(m, from.drop_last(), dom, sps, ers),
{}
/// "too many dots are clamped at the root"
proof fn canary_too_many_dots_clamp_at_root(m: Seq<char>, d: PV, dom: Set<PV>)
    requires ups_of(dots_end(m, 0)) > d.len(), m.skip(dots_end(m, 0)).len() > 0,
    ensures op_relative(m, d, dom) == op_find(m.skip(dots_end(m, 0)), Seq::<Seq<char>>::empty(), dom),
{
    lemma_up_is_take(d, ups_of(dots_end(m, 0)));
}
/// "the upward walk stops where the first directory has nothing" (i.e. only the importing file's directory is searched)
proof fn canary_walk_stops_at_first_miss(m: Seq<char>, d: PV, dom: Set<PV>)
    requires op_find(m, d, dom) is None,
    ensures op_walk_up(m, d, dom) is None,
{}
/// "site-packages are searched before the upward walk"
proof fn canary_site_packages_before_walk(m: Seq<char>, d: PV, dom: Set<PV>, sps: Seq<PV>, ers: Seq<PV>, p: PV)
    requires op_first(m, sps, 0, dom) == Some(p),
    ensures op_absolute(m, d, dom, sps, ers) == Some(p),
{}
/// the hypothesis bundle MP7 + MP8 is not contradictory
proof fn canary_text_pv_laws_contradictory()
    requires text_pv_laws(),
    ensures false,
{
    lemma_modres_lits();
    assert(text_pv(init_name()) == seq![init_name()]);
}
