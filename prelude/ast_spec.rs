// ---------------------------------------------------------------------------------------------
// MECHANICAL COPY of the specification part of units/ast_helpers.rs (lines 29-324 and 438-583: the documented
// decorator forms, the *_post relations of the helper contracts and their PROVED lifting lemmas, yield search,
// docstring / return type) so that the contracts imported by `//@stub ast_helpers <fn>` can be read in another unit.
// Only change: pairs_v -> lpairs_v (prelude/dbview.rs has another pairs_v).  Regenerate, do not edit:
//   sed -n '29,324p;438,583p' units/ast_helpers.rs | sed 's/\bpairs_v\b/lpairs_v/g'
// ---- the documented decorator forms (README "Supported Fixture Patterns"), as functions of the AST ----
/// `fixture` | `pytest.fixture` | `pytest_asyncio.fixture` | any of these CALLED (any number of times)
pub open spec fn spec_is_fixture_decorator(e: &Expr) -> bool
    decreases e
{
    match e {
        Expr::Name(n) => idv(&n.id) == "fixture"@,
        Expr::Attribute(a) => match &*a.value {
            Expr::Name(v) => (idv(&v.id) == "pytest"@ || idv(&v.id) == "pytest_asyncio"@) && idv(&a.attr) == "fixture"@,
            _ => false,
        },
        Expr::Call(c) => spec_is_fixture_decorator(&*c.func),
        _ => false,
    }
}
/// `pytest.mark.<marker>` | `mark.<marker>` | any of these CALLED (any number of times)
pub open spec fn spec_is_mark(e: &Expr, marker: Seq<char>) -> bool
    decreases e
{
    match e {
        Expr::Call(c) => spec_is_mark(&*c.func, marker),
        Expr::Attribute(a) => idv(&a.attr) == marker && match &*a.value {
            Expr::Attribute(inner) => idv(&inner.attr) == "mark"@ && match &*inner.value {
                Expr::Name(n) => idv(&n.id) == "pytest"@,
                _ => false,
            },
            Expr::Name(n) => idv(&n.id) == "mark"@,
            _ => false,
        },
        _ => false,
    }
}

pub open spec fn kw_is(kw: Keyword, name: Seq<char>) -> bool {
    match kw.arg { Some(a) => idv(&a) == name, None => false }
}
pub open spec fn is_true_const(e: Expr) -> bool {
    match e { Expr::Constant(c) => (match c.value { Constant::Bool(b) => b, _ => false }), _ => false }
}
/// autouse: the decorator is a CALL of a fixture decorator with some keyword `autouse=True` (literal True)
pub open spec fn spec_autouse(e: &Expr) -> bool {
    match e {
        Expr::Call(c) => spec_is_fixture_decorator(&*c.func)
            && exists|i: int| 0 <= i < c.keywords@.len() && kw_is(#[trigger] c.keywords@[i], "autouse"@) && is_true_const(c.keywords@[i].value),
        _ => false,
    }
}

/// the text of a string literal, None for anything else (non-constant values are ignored)
pub open spec fn str_const(e: Expr) -> Option<Seq<char>> {
    match e { Expr::Constant(c) => (match c.value { Constant::Str(s) => Some(s@), _ => None }), _ => None }
}
pub open spec fn kw_str_fn(name: Seq<char>) -> spec_fn(Keyword) -> Option<Seq<char>> {
    |kw: Keyword| if kw_is(kw, name) { str_const(kw.value) } else { None }
}
/// `FixtureScope::parse` (src/fixtures/types.rs: `to_lowercase()` + literal match) as a function of the text
pub uninterp spec fn scope_parse(s: Seq<char>) -> Option<FixtureScope>;
pub assume_specification[ FixtureScope::parse ](s: &str) -> (r: Option<FixtureScope>)
    ensures r == scope_parse(s@);
pub open spec fn scope_of_value(e: Expr) -> Option<FixtureScope> {
    match str_const(e) { Some(s) => scope_parse(s), None => None }
}
pub open spec fn kw_scope_fn() -> spec_fn(Keyword) -> Option<FixtureScope> {
    |kw: Keyword| if kw_is(kw, "scope"@) { scope_of_value(kw.value) } else { None }
}
/// what the keyword extractors establish about their result (object level; lifted by lemma_kw_post)
pub open spec fn kw_post<V>(e: &Expr, g: spec_fn(Keyword) -> Option<V>, r: Option<V>) -> bool {
    match e {
        Expr::Call(c) => if spec_is_fixture_decorator(&*c.func) { find_map_post(c.keywords@.as_ref(), g, r) } else { r is None },
        _ => r is None,
    }
}
/// keyword extraction (g = kw_str_fn("name") / kw_scope_fn()): the decorator must be a CALL of a fixture decorator;
/// the result is g's value on the FIRST keyword on which g is defined -- `name=`: the first keyword called `name`
/// whose value is a string literal; `scope=`: the first keyword called `scope` whose value is a string literal
/// that FixtureScope::parse accepts
pub open spec fn spec_kw<V>(e: &Expr, g: spec_fn(Keyword) -> Option<V>) -> Option<V> {
    match e {
        Expr::Call(c) => if spec_is_fixture_decorator(&*c.func) { first_some(c.keywords@, g, 0) } else { None },
        _ => None,
    }
}
//@tags C03
pub proof fn lemma_kw_post<V>(e: &Expr, g: spec_fn(Keyword) -> Option<V>, r: Option<V>)
    requires kw_post(e, g, r),
    ensures r == spec_kw(e, g),
{
    match e {
        Expr::Call(c) => { if spec_is_fixture_decorator(&*c.func) { lemma_find_map_post(c.keywords@, g, r); } }
        _ => {}
    }
}

pub open spec fn autouse_kw_fn() -> spec_fn(Keyword) -> bool { |kw: Keyword| kw_is(kw, "autouse"@) && is_true_const(kw.value) }
pub open spec fn autouse_post(e: &Expr, r: bool) -> bool {
    match e {
        Expr::Call(c) => if spec_is_fixture_decorator(&*c.func) { any_post(c.keywords@.as_ref(), autouse_kw_fn(), r) } else { !r },
        _ => !r,
    }
}
//@tags C03
pub proof fn lemma_autouse_post(e: &Expr, r: bool)
    requires autouse_post(e, r),
    ensures r == spec_autouse(e),
{
    match e {
        Expr::Call(c) => { if spec_is_fixture_decorator(&*c.func) { lemma_any_post(c.keywords@, autouse_kw_fn(), r); } }
        _ => {}
    }
}

/// a string literal with its source range, None for anything else
pub open spec fn str_const_r(e: Expr) -> Option<(Seq<char>, TextRange)> {
    match e { Expr::Constant(c) => (match c.value { Constant::Str(s) => Some((s@, c.range)), _ => None }), _ => None }
}
pub open spec fn str_const_r_fn() -> spec_fn(Expr) -> Option<(Seq<char>, TextRange)> { |e: Expr| str_const_r(e) }
pub open spec fn pair_view_fn() -> spec_fn((String, TextRange)) -> (Seq<char>, TextRange) { |p: (String, TextRange)| (p.0@, p.1) }
pub open spec fn lpairs_v(r: Seq<(String, TextRange)>) -> Seq<(Seq<char>, TextRange)> { r.map_values(pair_view_fn()) }
/// usefixtures: the decorator is a CALL of `pytest.mark.usefixtures` / `mark.usefixtures` (possibly itself called);
/// the names are its positional arguments that are string literals, in order, each with the literal's range
pub open spec fn spec_usefixtures(e: &Expr) -> Seq<(Seq<char>, TextRange)> {
    match e {
        Expr::Call(c) => if spec_is_mark(&*c.func, "usefixtures"@) { filter_map_spec(c.args@, str_const_r_fn()) } else { Seq::empty() },
        _ => Seq::empty(),
    }
}
pub open spec fn usefix_post(e: &Expr, r: Seq<(String, TextRange)>) -> bool {
    match e {
        Expr::Call(c) => if spec_is_mark(&*c.func, "usefixtures"@) { filter_map_post(c.args@.as_ref(), str_const_r_fn(), pair_view_fn(), r) } else { r.len() == 0 },
        _ => r.len() == 0,
    }
}
//@tags C03
pub proof fn lemma_usefix_post(e: &Expr, r: Seq<(String, TextRange)>)
    requires usefix_post(e, r),
    ensures lpairs_v(r) =~= spec_usefixtures(e),
{
    match e {
        Expr::Call(c) => { if spec_is_mark(&*c.func, "usefixtures"@) { lemma_filter_map_post(c.args@, str_const_r_fn(), pair_view_fn(), r); } }
        _ => {}
    }
}

/// pytestmark values: a usefixtures call, or a list / tuple whose elements are such values (any nesting)
pub open spec fn spec_usefixtures_from_expr(e: &Expr) -> Seq<(Seq<char>, TextRange)>
    decreases e, 0int
{
    match e {
        Expr::Call(_) => spec_usefixtures(e),
        Expr::List(l) => ufe_from(l.elts@, 0),
        Expr::Tuple(t) => ufe_from(t.elts@, 0),
        _ => Seq::empty(),
    }
}
pub open spec fn ufe_from(es: Seq<Expr>, k: int) -> Seq<(Seq<char>, TextRange)>
    decreases es, es.len() - k
{
    if k < 0 || k >= es.len() { Seq::empty() } else { spec_usefixtures_from_expr(&es[k]) + ufe_from(es, k + 1) }
}
pub open spec fn ufe_post(e: &Expr, r: Seq<(String, TextRange)>) -> bool
    decreases e, 0int
{
    match e {
        Expr::Call(_) => usefix_post(e, r),
        Expr::List(l) => ufe_list_post(l.elts@, r),
        Expr::Tuple(t) => ufe_list_post(t.elts@, r),
        _ => r.len() == 0,
    }
}
pub open spec fn ufe_list_post(es: Seq<Expr>, r: Seq<(String, TextRange)>) -> bool
    decreases es, 1int
{
    exists|o: Seq<Vec<(String, TextRange)>>| #![trigger flat(o)] o.len() == es.len()
        && (forall|j: int| 0 <= j < o.len() ==> ufe_post(&es[j], (#[trigger] o[j])@)) && r == flat(o)
}

/// L1 -> view level for extract_usefixtures_from_expr
//@tags C03
pub proof fn lemma_ufe_post(e: &Expr, r: Seq<(String, TextRange)>)
    requires ufe_post(e, r),
    ensures lpairs_v(r) =~= spec_usefixtures_from_expr(e),
    decreases e, 0int
{
    match e {
        Expr::Call(_) => { lemma_usefix_post(e, r); }
        Expr::List(l) => { lemma_ufe_list_post(l.elts@, r); }
        Expr::Tuple(t) => { lemma_ufe_list_post(t.elts@, r); }
        _ => {}
    }
}
//@tags C03
pub proof fn lemma_ufe_list_post(es: Seq<Expr>, r: Seq<(String, TextRange)>)
    requires ufe_list_post(es, r),
    ensures lpairs_v(r) =~= ufe_from(es, 0),
    decreases es, 1int
{
    let o = choose|o: Seq<Vec<(String, TextRange)>>| #![trigger flat(o)] o.len() == es.len()
        && (forall|j: int| 0 <= j < o.len() ==> ufe_post(&es[j], (#[trigger] o[j])@)) && r == flat(o);
    assert forall|j: int| 0 <= j < o.len() implies lpairs_v((#[trigger] o[j])@) == spec_usefixtures_from_expr(&es[j]) by {
        lemma_ufe_post(&es[j], o[j]@);
    }
    lemma_ufe_flat(es, o, 0);
}
//@tags C03
pub proof fn lemma_ufe_flat(es: Seq<Expr>, o: Seq<Vec<(String, TextRange)>>, k: int)
    requires o.len() == es.len(), 0 <= k <= es.len(),
        forall|j: int| 0 <= j < o.len() ==> lpairs_v((#[trigger] o[j])@) == spec_usefixtures_from_expr(&es[j]),
    ensures lpairs_v(flat_from(o, k)) =~= ufe_from(es, k),
    decreases es.len() - k
{
    if k < es.len() {
        lemma_ufe_flat(es, o, k + 1);
        assert(lpairs_v(o[k]@ + flat_from(o, k + 1)) =~= lpairs_v(o[k]@) + lpairs_v(flat_from(o, k + 1)));
    }
}

// ---- parametrize(..., indirect=...) ---------------------------------------------------------------------------
pub open spec fn opt_deref<T>(o: Option<&T>) -> Option<T> { match o { Some(x) => Some(*x), None => None } }
/// the value of a keyword called `indirect`
pub open spec fn indirect_kw_fn() -> spec_fn(Keyword) -> Option<Expr> {
    |kw: Keyword| if kw_is(kw, "indirect"@) { Some(kw.value) } else { None }
}
/// "a, b" -> ["a", "b"]: split at ',' and trim (string functions left abstract)
pub open spec fn param_names_of(s: Seq<char>) -> Seq<Seq<char>> { split_v(s, ',').map_values(|p: Seq<char>| trim_v(p)) }
/// an element of `indirect=[...]`: a string literal that is one of the parameter names
pub open spec fn indirect_elt_fn(names: Seq<Seq<char>>) -> spec_fn(Expr) -> Option<(Seq<char>, TextRange)> {
    |e: Expr| match str_const_r(e) { Some(p) => if names.contains(p.0) { Some(p) } else { None }, None => None }
}
pub open spec fn with_range_fn(rg: TextRange) -> spec_fn(Seq<char>) -> (Seq<char>, TextRange) { |n: Seq<char>| (n, rg) }
/// indirect parametrize: a CALL of `pytest.mark.parametrize` / `mark.parametrize`; the FIRST keyword `indirect`;
/// the first positional argument must be a string literal "a, b": with `indirect=True` (literal) every name in it
/// (range: that of the literal), with `indirect=[...]` the listed string literals that are among the names (each
/// with its own range); anything else: nothing
pub open spec fn spec_parametrize_indirect(e: &Expr) -> Seq<(Seq<char>, TextRange)> {
    match e {
        Expr::Call(c) => if !spec_is_mark(&*c.func, "parametrize"@) { Seq::empty() } else {
            match first_some(c.keywords@, indirect_kw_fn(), 0) {
                None => Seq::empty(),
                Some(ind) => if c.args@.len() == 0 { Seq::empty() } else {
                    match str_const_r(c.args@[0]) {
                        None => Seq::empty(),
                        Some(p) => match ind {
                            Expr::Constant(k) => if is_true_const(ind) { param_names_of(p.0).map_values(with_range_fn(p.1)) } else { Seq::empty() },
                            Expr::List(l) => filter_map_spec(l.elts@, indirect_elt_fn(param_names_of(p.0))),
                            _ => Seq::empty(),
                        },
                    }
                },
            }
        },
        _ => Seq::empty(),
    }
}
pub open spec fn param_post(e: &Expr, r: Seq<(String, TextRange)>) -> bool {
    match e {
        Expr::Call(c) => if !spec_is_mark(&*c.func, "parametrize"@) { r.len() == 0 } else {
            match first_some(c.keywords@, indirect_kw_fn(), 0) {
                None => r.len() == 0,
                Some(ind) => if c.args@.len() == 0 { r.len() == 0 } else {
                    match str_const_r(c.args@[0]) {
                        None => r.len() == 0,
                        Some(p) => match ind {
                            Expr::Constant(k) => if is_true_const(ind) { lpairs_v(r) =~= param_names_of(p.0).map_values(with_range_fn(p.1)) } else { r.len() == 0 },
                            Expr::List(l) => filter_map_post(l.elts@.as_ref(), indirect_elt_fn(param_names_of(p.0)), pair_view_fn(), r),
                            _ => r.len() == 0,
                        },
                    }
                },
            }
        },
        _ => r.len() == 0,
    }
}
//@tags C03
pub proof fn lemma_param_post(e: &Expr, r: Seq<(String, TextRange)>)
    requires param_post(e, r),
    ensures lpairs_v(r) =~= spec_parametrize_indirect(e),
{
    match e {
        Expr::Call(c) => if spec_is_mark(&*c.func, "parametrize"@) {
            match first_some(c.keywords@, indirect_kw_fn(), 0) {
                Some(ind) => if c.args@.len() > 0 {
                    match str_const_r(c.args@[0]) {
                        Some(p) => match ind {
                            Expr::List(l) => { lemma_filter_map_post(l.elts@, indirect_elt_fn(param_names_of(p.0)), pair_view_fn(), r); }
                            _ => {}
                        },
                        None => {}
                    }
                },
                None => {}
            }
        },
        _ => {}
    }
}
// ---- yield search: the two hand-written searches as functions of the AST -----------------------------------
/// 1-based line of a byte offset (src/fixtures/analyzer.rs get_line_from_offset: binary search in the line index)
pub uninterp spec fn line_of_offset(offset: usize, line_index: Seq<usize>) -> usize;
pub open spec fn opt_or<T>(a: Option<T>, b: Option<T>) -> Option<T> { if a is Some { a } else { b } }

/// find_yield_line: the line of the FIRST `yield` / `yield from` expression STATEMENT met when the blocks of
/// if / for / while / with / try (body, handlers, else, finally) and their async forms are searched in source order
pub open spec fn fy_expr(e: Expr, li: Seq<usize>) -> Option<usize> {
    match e {
        Expr::Yield(y) => Some(line_of_offset(tsv(tr_start(y.range)), li)),
        Expr::YieldFrom(y) => Some(line_of_offset(tsv(tr_start(y.range)), li)),
        _ => None,
    }
}
pub open spec fn fy_from(b: Seq<Stmt>, k: int, li: Seq<usize>) -> Option<usize>
    decreases b, b.len() - k
{
    if k < 0 || k >= b.len() { None } else { opt_or(fy_stmt(b[k], li), fy_from(b, k + 1, li)) }
}
pub open spec fn fy_stmt(s: Stmt, li: Seq<usize>) -> Option<usize>
    decreases s, 0int
{
    match s {
        Stmt::Expr(x) => fy_expr(*x.value, li),
        Stmt::If(x) => opt_or(fy_from(x.body@, 0, li), fy_from(x.orelse@, 0, li)),
        Stmt::With(x) => fy_from(x.body@, 0, li),
        Stmt::AsyncWith(x) => fy_from(x.body@, 0, li),
        Stmt::Try(x) => opt_or(fy_from(x.body@, 0, li), opt_or(fy_handlers(x.handlers@, 0, li),
                        opt_or(fy_from(x.orelse@, 0, li), fy_from(x.finalbody@, 0, li)))),
        Stmt::For(x) => opt_or(fy_from(x.body@, 0, li), fy_from(x.orelse@, 0, li)),
        Stmt::AsyncFor(x) => opt_or(fy_from(x.body@, 0, li), fy_from(x.orelse@, 0, li)),
        Stmt::While(x) => opt_or(fy_from(x.body@, 0, li), fy_from(x.orelse@, 0, li)),
        _ => None,
    }
}
pub open spec fn fy_handlers(hs: Seq<ExceptHandler>, k: int, li: Seq<usize>) -> Option<usize>
    decreases hs, hs.len() - k
{
    if k < 0 || k >= hs.len() { None } else {
        match hs[k] { ExceptHandler::ExceptHandler(h) => opt_or(fy_from(h.body@, 0, li), fy_handlers(hs, k + 1, li)) }
    }
}

/// contains_yield ("is this fixture a generator": decides whether the return annotation is unwrapped)
pub open spec fn cy_from(b: Seq<Stmt>, k: int) -> bool
    decreases b, b.len() - k
{
    if k < 0 || k >= b.len() { false } else { cy_stmt(b[k]) || cy_from(b, k + 1) }
}
pub open spec fn cy_stmt(s: Stmt) -> bool
    decreases s, 0int
{
    match s {
        Stmt::Expr(x) => (*x.value) is Yield || (*x.value) is YieldFrom,
        Stmt::If(x) => cy_from(x.body@, 0) || cy_from(x.orelse@, 0),
        Stmt::For(x) => cy_from(x.body@, 0) || cy_from(x.orelse@, 0),
        Stmt::While(x) => cy_from(x.body@, 0) || cy_from(x.orelse@, 0),
        Stmt::AsyncFor(x) => cy_from(x.body@, 0) || cy_from(x.orelse@, 0),
        Stmt::With(x) => cy_from(x.body@, 0),
        Stmt::AsyncWith(x) => cy_from(x.body@, 0),
        Stmt::Try(x) => cy_from(x.body@, 0) || cy_from(x.orelse@, 0) || cy_from(x.finalbody@, 0) || cy_handlers(x.handlers@, 0),
        _ => false,
    }
}
pub open spec fn cy_handlers(hs: Seq<ExceptHandler>, k: int) -> bool
    decreases hs, hs.len() - k
{
    if k < 0 || k >= hs.len() { false } else {
        match hs[k] { ExceptHandler::ExceptHandler(h) => cy_from(h.body@, 0) || cy_handlers(hs, k + 1) }
    }
}

/// string_utils::format_docstring as a function of the text
pub uninterp spec fn format_docstring_v(s: Seq<char>) -> Seq<char>;
/// docstring.rs expr_to_string as a function of the annotation (and the source text it is handed)
pub uninterp spec fn expr_str(e: Expr, content: Seq<char>) -> Seq<char>;

/// docstring: the body's first statement, if it is an expression statement holding a string literal
pub open spec fn spec_docstring(body: Seq<Stmt>) -> Option<Seq<char>> {
    if body.len() == 0 { None } else {
        match body[0] {
            Stmt::Expr(x) => (match str_const(*x.value) { Some(s) => Some(format_docstring_v(s)), None => None }),
            _ => None,
        }
    }
}
/// the yielded type of a generator annotation: `X[T, ...]` -> T, `X[T]` -> T, anything else -> the annotation
pub open spec fn spec_yielded_type(e: Expr, content: Seq<char>) -> Seq<char> {
    match e {
        Expr::Subscript(sub) => match *sub.slice {
            Expr::Tuple(t) => if t.elts@.len() > 0 { expr_str(t.elts@[0], content) } else { expr_str(e, content) },
            _ => expr_str(*sub.slice, content),
        },
        _ => expr_str(e, content),
    }
}
/// return type: none without annotation; the yielded type iff the body is a generator body (contains_yield)
pub open spec fn spec_return_type(returns: Option<Box<Expr>>, body: Seq<Stmt>, content: Seq<char>) -> Option<Seq<char>> {
    match returns {
        None => None,
        Some(a) => if cy_from(body, 0) { Some(spec_yielded_type(*a, content)) } else { Some(expr_str(*a, content)) },
    }
}


// ---- module-level names (what an import / def / class / assignment binds) -------------------------------------
pub open spec fn alias_bound(a: Alias) -> Seq<char> { match a.asname { Some(n) => idv(&n), None => idv(&a.name) } }
pub open spec fn aliases_from(s: Seq<Alias>, k: int) -> Set<Seq<char>>
    decreases s.len() - k
{
    if k < 0 || k >= s.len() { Set::empty() } else { aliases_from(s, k + 1).insert(alias_bound(s[k])) }
}
/// assignment targets: a Name, or (recursively) the elements of a tuple / list target; nothing else
/// (attributes `a.b = ..`, subscripts `a[0] = ..`, starred `*rest` bind no module-level name here)
pub open spec fn target_names(e: Expr) -> Set<Seq<char>>
    decreases e, 0int
{
    match e {
        Expr::Name(n) => Set::empty().insert(idv(&n.id)),
        Expr::Tuple(t) => targets_from(t.elts@, 0),
        Expr::List(l) => targets_from(l.elts@, 0),
        _ => Set::empty(),
    }
}
pub open spec fn targets_from(es: Seq<Expr>, k: int) -> Set<Seq<char>>
    decreases es, es.len() - k
{
    if k < 0 || k >= es.len() { Set::empty() } else { target_names(es[k]).union(targets_from(es, k + 1)) }
}
pub open spec fn has_fixture_decorator(ds: Seq<Expr>) -> bool {
    exists|i: int| 0 <= i < ds.len() && spec_is_fixture_decorator(&#[trigger] ds[i])
}
/// the names a module-level statement binds: imports (asname, else name), functions that are NOT fixtures,
/// classes, assignment / annotated-assignment targets
pub open spec fn module_level_names(s: Stmt) -> Set<Seq<char>> {
    match s {
        Stmt::Import(x) => aliases_from(x.names@, 0),
        Stmt::ImportFrom(x) => aliases_from(x.names@, 0),
        Stmt::FunctionDef(f) => if has_fixture_decorator(f.decorator_list@) { Set::empty() } else { Set::empty().insert(idv(&f.name)) },
        Stmt::AsyncFunctionDef(f) => if has_fixture_decorator(f.decorator_list@) { Set::empty() } else { Set::empty().insert(idv(&f.name)) },
        Stmt::ClassDef(c) => Set::empty().insert(idv(&c.name)),
        Stmt::Assign(a) => targets_from(a.targets@, 0),
        Stmt::AnnAssign(a) => target_names(*a.target),
        _ => Set::empty(),
    }
}
