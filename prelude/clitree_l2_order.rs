// ---------------------------------------------------------------------------------------------
// Unit cli_tree: L2 — the re-keying of the usage counts / autouse keys (cli.rs 159-186) does not depend on the order in
// which the two hash tables are enumerated: "repeated runs print identical output" also when files are re-labelled.
// PROVED (no assumption in this file).  Needs clitree_list_spec.rs, clitree_list_l1.rs, clitree_l2.rs.

pub open spec fn apply_all(cm: Map<CKey, usize>, m: Seq<(CKey, CKey)>) -> Map<CKey, usize> { apply_moves(cm, m, m.len() as int) }
pub open spec fn apply_au_all(au: Set<CKey>, m: Seq<(CKey, CKey)>) -> Set<CKey> { apply_au(au, m, m.len() as int) }
/// the names of file o's keys, in the order ks enumerates them
pub open spec fn names_seq(ks: Seq<CKey>, o: PV) -> Seq<Seq<char>> { ks.filter(of_file(o)).map_values(|k: CKey| k.1) }
pub open spec fn nmove_fn(o: PV, v: PV) -> spec_fn(Seq<char>) -> (CKey, CKey) { |n: Seq<char>| ((o, n), (v, n)) }
pub open spec fn nmoves(ns: Seq<Seq<char>>, o: PV, v: PV) -> Seq<(CKey, CKey)> { ns.map_values(nmove_fn(o, v)) }

pub proof fn lemma_block_moves_as_names(ks: Seq<CKey>, e: (PV, PV))
    ensures block_moves(ks, e) =~= nmoves(names_seq(ks, e.0), e.0, e.1)
{
    let f = ks.filter(of_file(e.0));
    assert forall|i: int| 0 <= i < f.len() implies block_moves(ks, e)[i] == nmoves(names_seq(ks, e.0), e.0, e.1)[i] by {
        lemma_filter_sat(ks, of_file(e.0), i);
    }
}
pub proof fn lemma_filter_no_dup<A>(s: Seq<A>, p: spec_fn(A) -> bool)
    requires s.no_duplicates()
    ensures s.filter(p).no_duplicates()
    decreases s.len()
{
    reveal(Seq::filter);
    if s.len() > 0 {
        let t = s.drop_last();
        assert forall|i: int, j: int| 0 <= i < t.len() && 0 <= j < t.len() && i != j implies t[i] != t[j] by { assert(t[i] == s[i] && t[j] == s[j]); }
        lemma_filter_no_dup(t, p);
        if p(s.last()) {
            let f = t.filter(p);
            assert forall|i: int, j: int| 0 <= i < f.push(s.last()).len() && 0 <= j < f.push(s.last()).len() && i != j implies f.push(s.last())[i] != f.push(s.last())[j] by {
                if i < f.len() && j == f.len() { lemma_filter_sat(t, p, i); let k = choose|k: int| 0 <= k < t.len() && t[k] == f[i]; assert(s[k] != s[s.len() - 1]); }
                if j < f.len() && i == f.len() { lemma_filter_sat(t, p, j); let k = choose|k: int| 0 <= k < t.len() && t[k] == f[j]; assert(s[k] != s[s.len() - 1]); }
            }
        }
    }
}
/// whatever the enumeration order: the names of file o's keys are enumerated once each, and they are the names n with (o, n) in d
pub proof fn lemma_names_seq(ks: Seq<CKey>, d: Set<CKey>, o: PV)
    requires is_enum_of(ks, d)
    ensures names_seq(ks, o).no_duplicates(), forall|n: Seq<char>| #[trigger] names_seq(ks, o).contains(n) <==> d.contains((o, n))
{
    let f = ks.filter(of_file(o));
    let ns = names_seq(ks, o);
    lemma_filter_no_dup(ks, of_file(o));
    assert forall|i: int, j: int| 0 <= i < ns.len() && 0 <= j < ns.len() && i != j implies ns[i] != ns[j] by {
        lemma_filter_sat(ks, of_file(o), i); lemma_filter_sat(ks, of_file(o), j);
        assert(f[i] != f[j]);
        assert(f[i].0 == o && f[j].0 == o);
    }
    assert forall|n: Seq<char>| #[trigger] ns.contains(n) <==> d.contains((o, n)) by {
        lemma_filter_contains(ks, of_file(o), (o, n));
        if ns.contains(n) {
            let i = choose|i: int| 0 <= i < ns.len() && ns[i] == n;
            lemma_filter_sat(ks, of_file(o), i);
            assert(f[i] == (o, n));
            assert(f.contains((o, n)));
            let k = choose|k: int| 0 <= k < ks.len() && ks[k] == (o, n);
            assert(d.contains(ks[k]));
        }
        if d.contains((o, n)) {
            let k = choose|k: int| 0 <= k < ks.len() && #[trigger] ks[k] == (o, n);
            assert(ks.contains((o, n)));
            let i = choose|i: int| 0 <= i < f.len() && f[i] == (o, n);
            assert(ns[i] == n);
        }
    }
}

// ---- counts ------------------------------------------------------------------------------------------------------------
pub open spec fn blk_has(cm: Map<CKey, usize>, ns: Seq<Seq<char>>, o: PV, v: PV, k: CKey) -> bool {
    (k.0 == v && ns.contains(k.1) && cm.contains_key((o, k.1))) || (cm.contains_key(k) && !(k.0 == o && ns.contains(k.1)))
}
pub open spec fn blk_val(cm: Map<CKey, usize>, ns: Seq<Seq<char>>, o: PV, v: PV, k: CKey) -> usize {
    if k.0 == v && ns.contains(k.1) && cm.contains_key((o, k.1)) { cm[(o, k.1)] } else { cm[k] }
}
/// cm2 = cm after the keys (o, n), n in ns, have been moved to (v, n): closed form, independent of the order of ns
pub open spec fn is_block(cm2: Map<CKey, usize>, cm: Map<CKey, usize>, ns: Seq<Seq<char>>, o: PV, v: PV) -> bool {
    forall|k: CKey| #![trigger cm2.contains_key(k)] (cm2.contains_key(k) <==> blk_has(cm, ns, o, v, k)) && (cm2.contains_key(k) ==> cm2[k] == blk_val(cm, ns, o, v, k))
}
pub proof fn lemma_block_prefix(cm: Map<CKey, usize>, ns: Seq<Seq<char>>, o: PV, v: PV, j: int)
    requires ns.no_duplicates(), 0 <= j <= ns.len()
    ensures is_block(apply_moves(cm, nmoves(ns, o, v), j), cm, ns.take(j), o, v)
    decreases j
{
    if j == 0 {
        assert(ns.take(0) =~= Seq::<Seq<char>>::empty());
        assert forall|k: CKey| !ns.take(0).contains(k.1) by { }
    } else {
        lemma_block_prefix(cm, ns, o, v, j - 1);
        let c0 = apply_moves(cm, nmoves(ns, o, v), j - 1);
        let c1 = apply_moves(cm, nmoves(ns, o, v), j);
        let n = ns[j - 1];
        let a = ns.take(j - 1); let b = ns.take(j);
        assert(nmoves(ns, o, v)[j - 1] == ((o, n), (v, n)));
        assert(c1 == cm_step(c0, ((o, n), (v, n))));
        assert(!a.contains(n)) by { if a.contains(n) { let i = choose|i: int| 0 <= i < a.len() && a[i] == n; assert(ns[i] == ns[j - 1]); } }
        assert forall|x: Seq<char>| b.contains(x) <==> (a.contains(x) || x == n) by {
            if b.contains(x) { let i = choose|i: int| 0 <= i < b.len() && b[i] == x; if i < j - 1 { assert(a[i] == x); } }
            if a.contains(x) { let i = choose|i: int| 0 <= i < a.len() && a[i] == x; assert(b[i] == x); }
            assert(b[j - 1] == n);
        }
        assert forall|k: CKey| #![trigger c1.contains_key(k)] (c1.contains_key(k) <==> blk_has(cm, b, o, v, k)) && (c1.contains_key(k) ==> c1[k] == blk_val(cm, b, o, v, k)) by {
            assert((c0.contains_key(k) <==> blk_has(cm, a, o, v, k)) && (c0.contains_key(k) ==> c0[k] == blk_val(cm, a, o, v, k)));
            let ko: CKey = (o, n); let kv: CKey = (v, n);
            assert((c0.contains_key(ko) <==> blk_has(cm, a, o, v, ko)) && (c0.contains_key(ko) ==> c0[ko] == blk_val(cm, a, o, v, ko)));
            assert((c0.contains_key(kv) <==> blk_has(cm, a, o, v, kv)) && (c0.contains_key(kv) ==> c0[kv] == blk_val(cm, a, o, v, kv)));
            assert(b.contains(k.1) <==> (a.contains(k.1) || k.1 == n));
        }
    }
}
pub proof fn lemma_block_unique(x: Map<CKey, usize>, y: Map<CKey, usize>, cm: Map<CKey, usize>, ns1: Seq<Seq<char>>, ns2: Seq<Seq<char>>, o: PV, v: PV)
    requires is_block(x, cm, ns1, o, v), is_block(y, cm, ns2, o, v), forall|n: Seq<char>| ns1.contains(n) <==> ns2.contains(n),
    ensures x =~= y
{
    assert forall|k: CKey| x.contains_key(k) <==> y.contains_key(k) by {
        assert(x.contains_key(k) <==> blk_has(cm, ns1, o, v, k)); assert(y.contains_key(k) <==> blk_has(cm, ns2, o, v, k));
        assert(ns1.contains(k.1) <==> ns2.contains(k.1));
    }
    assert forall|k: CKey| x.contains_key(k) implies x[k] == y[k] by {
        assert(x.contains_key(k) ==> x[k] == blk_val(cm, ns1, o, v, k)); assert(y.contains_key(k) ==> y[k] == blk_val(cm, ns2, o, v, k));
        assert(ns1.contains(k.1) <==> ns2.contains(k.1));
    }
}
pub proof fn lemma_apply_prefix(cm: Map<CKey, usize>, a: Seq<(CKey, CKey)>, b: Seq<(CKey, CKey)>, j: int)
    requires 0 <= j <= a.len()
    ensures apply_moves(cm, a + b, j) == apply_moves(cm, a, j)
    decreases j
{
    if j > 0 { lemma_apply_prefix(cm, a, b, j - 1); assert((a + b)[j - 1] == a[j - 1]); }
}
pub proof fn lemma_apply_concat(cm: Map<CKey, usize>, a: Seq<(CKey, CKey)>, b: Seq<(CKey, CKey)>, j: int)
    requires 0 <= j <= b.len()
    ensures apply_moves(cm, a + b, a.len() + j) == apply_moves(apply_all(cm, a), b, j)
    decreases j
{
    if j == 0 { lemma_apply_prefix(cm, a, b, a.len() as int); }
    else { lemma_apply_concat(cm, a, b, j - 1); assert((a + b)[a.len() + j - 1] == b[j - 1]); }
}
/// one block: the result is the same for any two enumerations of the key set d
pub proof fn lemma_block_order_irrelevant(c: Map<CKey, usize>, ks1: Seq<CKey>, ks2: Seq<CKey>, d: Set<CKey>, e: (PV, PV))
    requires is_enum_of(ks1, d), is_enum_of(ks2, d)
    ensures apply_all(c, block_moves(ks1, e)) == apply_all(c, block_moves(ks2, e))
{
    let n1 = names_seq(ks1, e.0); let n2 = names_seq(ks2, e.0);
    lemma_block_moves_as_names(ks1, e); lemma_block_moves_as_names(ks2, e);
    lemma_names_seq(ks1, d, e.0); lemma_names_seq(ks2, d, e.0);
    lemma_block_prefix(c, n1, e.0, e.1, n1.len() as int);
    lemma_block_prefix(c, n2, e.0, e.1, n2.len() as int);
    assert(n1.take(n1.len() as int) =~= n1); assert(n2.take(n2.len() as int) =~= n2);
    assert forall|n: Seq<char>| n1.contains(n) <==> n2.contains(n) by { assert(n1.contains(n) <==> d.contains((e.0, n))); assert(n2.contains(n) <==> d.contains((e.0, n))); }
    lemma_block_unique(apply_all(c, block_moves(ks1, e)), apply_all(c, block_moves(ks2, e)), c, n1, n2, e.0, e.1);
}
pub proof fn lemma_counts_order_irrelevant(cm0: Map<CKey, usize>, rv: Seq<(PV, PV)>, k1: Seq<Seq<CKey>>, k2: Seq<Seq<CKey>>, n: int)
    requires valid_orders(k1, cm0.dom(), rv.len() as int), valid_orders(k2, cm0.dom(), rv.len() as int), 0 <= n <= rv.len()
    ensures apply_all(cm0, moves_of(rv, k1, n)) == apply_all(cm0, moves_of(rv, k2, n))
    decreases n
{
    if n > 0 {
        lemma_counts_order_irrelevant(cm0, rv, k1, k2, n - 1);
        let a1 = moves_of(rv, k1, n - 1); let a2 = moves_of(rv, k2, n - 1);
        let b1 = block_moves(k1[n - 1], rv[n - 1]); let b2 = block_moves(k2[n - 1], rv[n - 1]);
        lemma_apply_concat(cm0, a1, b1, b1.len() as int);
        lemma_apply_concat(cm0, a2, b2, b2.len() as int);
        lemma_block_order_irrelevant(apply_all(cm0, a1), k1[n - 1], k2[n - 1], cm0.dom(), rv[n - 1]);
    }
}

// ---- autouse keys --------------------------------------------------------------------------------------------------------
pub open spec fn au_has(au: Set<CKey>, ns: Seq<Seq<char>>, o: PV, v: PV, k: CKey) -> bool {
    (k.0 == v && ns.contains(k.1)) || (au.contains(k) && !(k.0 == o && ns.contains(k.1)))
}
pub open spec fn is_au_block(au2: Set<CKey>, au: Set<CKey>, ns: Seq<Seq<char>>, o: PV, v: PV) -> bool {
    forall|k: CKey| #[trigger] au2.contains(k) <==> au_has(au, ns, o, v, k)
}
pub proof fn lemma_au_block_prefix(au: Set<CKey>, ns: Seq<Seq<char>>, o: PV, v: PV, j: int)
    requires ns.no_duplicates(), 0 <= j <= ns.len()
    ensures is_au_block(apply_au(au, nmoves(ns, o, v), j), au, ns.take(j), o, v)
    decreases j
{
    if j == 0 {
        assert(ns.take(0) =~= Seq::<Seq<char>>::empty());
        assert forall|k: CKey| !ns.take(0).contains(k.1) by { }
    } else {
        lemma_au_block_prefix(au, ns, o, v, j - 1);
        let c0 = apply_au(au, nmoves(ns, o, v), j - 1);
        let c1 = apply_au(au, nmoves(ns, o, v), j);
        let n = ns[j - 1];
        let a = ns.take(j - 1); let b = ns.take(j);
        assert(nmoves(ns, o, v)[j - 1] == ((o, n), (v, n)));
        assert(c1 == au_step(c0, ((o, n), (v, n))));
        assert(!a.contains(n)) by { if a.contains(n) { let i = choose|i: int| 0 <= i < a.len() && a[i] == n; assert(ns[i] == ns[j - 1]); } }
        assert forall|x: Seq<char>| b.contains(x) <==> (a.contains(x) || x == n) by {
            if b.contains(x) { let i = choose|i: int| 0 <= i < b.len() && b[i] == x; if i < j - 1 { assert(a[i] == x); } }
            if a.contains(x) { let i = choose|i: int| 0 <= i < a.len() && a[i] == x; assert(b[i] == x); }
            assert(b[j - 1] == n);
        }
        assert forall|k: CKey| #[trigger] c1.contains(k) <==> au_has(au, b, o, v, k) by {
            assert(c0.contains(k) <==> au_has(au, a, o, v, k));
            assert(b.contains(k.1) <==> (a.contains(k.1) || k.1 == n));
        }
    }
}
pub proof fn lemma_au_prefix(au: Set<CKey>, a: Seq<(CKey, CKey)>, b: Seq<(CKey, CKey)>, j: int)
    requires 0 <= j <= a.len()
    ensures apply_au(au, a + b, j) == apply_au(au, a, j)
    decreases j
{
    if j > 0 { lemma_au_prefix(au, a, b, j - 1); assert((a + b)[j - 1] == a[j - 1]); }
}
pub proof fn lemma_au_concat(au: Set<CKey>, a: Seq<(CKey, CKey)>, b: Seq<(CKey, CKey)>, j: int)
    requires 0 <= j <= b.len()
    ensures apply_au(au, a + b, a.len() + j) == apply_au(apply_au_all(au, a), b, j)
    decreases j
{
    if j == 0 { lemma_au_prefix(au, a, b, a.len() as int); }
    else { lemma_au_concat(au, a, b, j - 1); assert((a + b)[a.len() + j - 1] == b[j - 1]); }
}
pub proof fn lemma_au_block_order_irrelevant(c: Set<CKey>, ks1: Seq<CKey>, ks2: Seq<CKey>, d: Set<CKey>, e: (PV, PV))
    requires is_enum_of(ks1, d), is_enum_of(ks2, d)
    ensures apply_au_all(c, block_moves(ks1, e)) == apply_au_all(c, block_moves(ks2, e))
{
    let n1 = names_seq(ks1, e.0); let n2 = names_seq(ks2, e.0);
    lemma_block_moves_as_names(ks1, e); lemma_block_moves_as_names(ks2, e);
    lemma_names_seq(ks1, d, e.0); lemma_names_seq(ks2, d, e.0);
    lemma_au_block_prefix(c, n1, e.0, e.1, n1.len() as int);
    lemma_au_block_prefix(c, n2, e.0, e.1, n2.len() as int);
    assert(n1.take(n1.len() as int) =~= n1); assert(n2.take(n2.len() as int) =~= n2);
    let x = apply_au_all(c, block_moves(ks1, e)); let y = apply_au_all(c, block_moves(ks2, e));
    assert forall|k: CKey| x.contains(k) <==> y.contains(k) by {
        assert(x.contains(k) <==> au_has(c, n1, e.0, e.1, k)); assert(y.contains(k) <==> au_has(c, n2, e.0, e.1, k));
        assert(n1.contains(k.1) <==> d.contains((e.0, k.1))); assert(n2.contains(k.1) <==> d.contains((e.0, k.1)));
    }
    assert(x =~= y);
}
pub proof fn lemma_au_order_irrelevant(au0: Set<CKey>, rv: Seq<(PV, PV)>, k1: Seq<Seq<CKey>>, k2: Seq<Seq<CKey>>, n: int)
    requires valid_orders(k1, au0, rv.len() as int), valid_orders(k2, au0, rv.len() as int), 0 <= n <= rv.len()
    ensures apply_au_all(au0, moves_of(rv, k1, n)) == apply_au_all(au0, moves_of(rv, k2, n))
    decreases n
{
    if n > 0 {
        lemma_au_order_irrelevant(au0, rv, k1, k2, n - 1);
        let a1 = moves_of(rv, k1, n - 1); let a2 = moves_of(rv, k2, n - 1);
        let b1 = block_moves(k1[n - 1], rv[n - 1]); let b2 = block_moves(k2[n - 1], rv[n - 1]);
        lemma_au_concat(au0, a1, b1, b1.len() as int);
        lemma_au_concat(au0, a2, b2, b2.len() as int);
        lemma_au_block_order_irrelevant(apply_au_all(au0, a1), k1[n - 1], k2[n - 1], au0, rv[n - 1]);
    }
}

//@tags C20
/// C20 "repeated runs on the same tree print identical output" (hash order), in general: two runs of print_fixtures_tree
/// on the same index append the SAME event sequence, whatever orders the usage-count table and the autouse set were
/// enumerated in, with or without re-labelled files.  (Not covered: what `colored` emits for a style - tty / NO_COLOR.)
pub proof fn lemma_C20_list_output_is_a_function_of_the_index(o: Seq<Ev>, o1: Seq<Ev>, o2: Seq<Ev>, li: ListIn)
    requires list_post(o, o1, li), list_post(o, o2, li)
    ensures o1 == o2
{
    let (k1, a1) = choose|kss: Seq<Seq<CKey>>, akss: Seq<Seq<CKey>>|
        valid_orders(kss, li.cm0.dom(), op_rv(li).len() as int) && valid_orders(akss, li.au0, op_rv(li).len() as int)
        && o1 == o + #[trigger] op_list_out(li, op_cm(li, kss), op_au(li, akss));
    let (k2, a2) = choose|kss: Seq<Seq<CKey>>, akss: Seq<Seq<CKey>>|
        valid_orders(kss, li.cm0.dom(), op_rv(li).len() as int) && valid_orders(akss, li.au0, op_rv(li).len() as int)
        && o2 == o + #[trigger] op_list_out(li, op_cm(li, kss), op_au(li, akss));
    lemma_counts_order_irrelevant(li.cm0, op_rv(li), k1, k2, op_rv(li).len() as int);
    lemma_au_order_irrelevant(li.au0, op_rv(li), a1, a2, op_rv(li).len() as int);
}
/// order DOES matter for an arbitrary list of moves (the lemma above is not a triviality): must FAIL
proof fn canary_any_move_order(cm: Map<CKey, usize>, a: (CKey, CKey), b: (CKey, CKey))
    ensures apply_all(cm, seq![a, b]) == apply_all(cm, seq![b, a])
{}
