// ---------------------------------------------------------------------------------------------
// Unit cli_tree: operational specification of `fixtures list` (src/fixtures/cli.rs print_fixtures_tree and helpers)
// over abstract views.  Needs path.rs, types.rs, dashmap.rs, hashmap.rs, hashset.rs, option_ext.rs, dbview.rs,
// cli_spec.rs (CKey, cval, has_def_in, ...), clitree_btree.rs, clitree_shims.rs.

// ---- the modelled standard output --------------------------------------------------------------------------------------
/// one `println!` of the three functions, with the views of the values handed to it
pub enum Ev {
    /// `println!("Fixtures tree for: {}", root_path.display())`
    Header { root: PV },
    /// `println!()`
    Blank,
    /// `println!("No fixtures found in this directory.")`
    NoFixtures,
    /// `println!("{}{}{} ({} fixtures)", prefix, connector, file_display, fixture_vec.len())`
    File { prefix: Seq<char>, connector: Seq<char>, display: CStr, n: usize },
    /// `println!("{}{}{} ({})", new_prefix, fixture_connector, fixture_display, usage_info)`
    Fixture { prefix: Seq<char>, connector: Seq<char>, display: CStr, info: Seq<char> },
    /// `println!("{}{}{}", prefix, connector, dir_display)`
    Dir { prefix: Seq<char>, connector: Seq<char>, display: CStr },
    /// `println!("{}{}{}", prefix, connector, name)` (the `else` of `if let Some(..) = file_fixtures.get(path)`)
    Bare { prefix: Seq<char>, connector: Seq<char>, name: Seq<char> },
}

// ---- views of the local tables -----------------------------------------------------------------------------------------
/// file -> names of the fixtures listed for it
pub type FFV = Map<PV, Set<Seq<char>>>;
/// directory -> its children (files and directories), in print order
pub type TreeV = Map<PV, Seq<PV>>;
pub open spec fn ffv(m: Map<PV, BTreeSet<String>>) -> FFV { m.map_values(|b: BTreeSet<String>| b.s()) }
pub open spec fn treev(m: Map<PV, Vec<PathBuf>>) -> TreeV { m.map_values(|v: Vec<PathBuf>| pbvs(v@)) }
/// everything print_tree_node / has_visible_fixtures are handed besides the node (and `editable_dirs`)
pub struct Ctx {
    pub ff: FFV, pub tree: TreeV, pub cm: Map<CKey, usize>, pub au: Set<CKey>,
    pub skip: bool, pub only: bool,
}
/// the count looked up for (file, name): `counts.get(&key).copied().unwrap_or(0)`
pub open spec fn cnt_of(cm: Map<CKey, usize>, f: PV, n: Seq<char>) -> usize { if cm.contains_key((f, n)) { cm[(f, n)] } else { 0usize } }
/// the filter of `--only-unused` / `--skip-unused` (only_unused wins when both are given)
pub open spec fn keep(ctx: Ctx, f: PV, n: Seq<char>) -> bool {
    let c = cnt_of(ctx.cm, f, n);
    let a = ctx.au.contains((f, n));
    if ctx.only { c == 0 && !a } else if ctx.skip { c > 0 || a } else { true }
}
pub open spec fn keep_fn(ctx: Ctx, f: PV) -> spec_fn(Seq<char>) -> bool { |n: Seq<char>| keep(ctx, f, n) }

// ---- the directory tree is well-founded: a child has one component more than its parent -------------------------------
pub open spec fn tree_wf(t: TreeV) -> bool {
    forall|p: PV, j: int| t.contains_key(p) && 0 <= j < t[p].len() ==> (#[trigger] t[p][j]).len() == p.len() + 1
}
pub open spec fn maxlen(s: Set<PV>) -> nat
    decreases s.len()
{
    if s.len() == 0 { 0 } else { let x = s.choose(); let r = maxlen(s.remove(x)); if x.len() > r { x.len() } else { r } }
}
pub proof fn lemma_maxlen(s: Set<PV>, x: PV)
    requires s.contains(x)
    ensures x.len() <= maxlen(s)
    decreases s.len()
{
    vstd::set::lemma_set_choose_len(s);
    let y = s.choose();
    if x != y { lemma_maxlen(s.remove(y), x); }
}
/// termination measure of the recursion over the tree: levels left below p
pub open spec fn tmeasure(t: TreeV, p: PV) -> nat {
    if p.len() <= maxlen(t.dom()) { (maxlen(t.dom()) + 1 - p.len()) as nat } else { 0 }
}
pub proof fn lemma_tmeasure_child(t: TreeV, p: PV, j: int)
    requires tree_wf(t), t.contains_key(p), 0 <= j < t[p].len()
    ensures tmeasure(t, t[p][j]) < tmeasure(t, p)
{
    lemma_maxlen(t.dom(), p);
}

// ---- has_visible_fixtures ----------------------------------------------------------------------------------------------
pub open spec fn file_visible(ctx: Ctx, p: PV) -> bool { exists|n: Seq<char>| ctx.ff[p].contains(n) && #[trigger] keep(ctx, p, n) }
pub open spec fn op_visible(ctx: Ctx, p: PV) -> bool
    decreases tmeasure(ctx.tree, p)
    when tree_wf(ctx.tree)
    via op_visible_decreases
{
    if ctx.ff.contains_key(p) { file_visible(ctx, p) }
    else if ctx.tree.contains_key(p) { exists|j: int| 0 <= j < ctx.tree[p].len() && op_visible(ctx, #[trigger] ctx.tree[p][j]) }
    else { false }
}
#[via_fn]
proof fn op_visible_decreases(ctx: Ctx, p: PV) {
    if !ctx.ff.contains_key(p) && ctx.tree.contains_key(p) {
        assert forall|j: int| 0 <= j < ctx.tree[p].len() implies tmeasure(ctx.tree, #[trigger] ctx.tree[p][j]) < tmeasure(ctx.tree, p) by {
            lemma_tmeasure_child(ctx.tree, p, j);
        }
    }
}
pub open spec fn kids_visible(ctx: Ctx, p: PV) -> bool {
    exists|j: int| 0 <= j < ctx.tree[p].len() && op_visible(ctx, #[trigger] ctx.tree[p][j])
}

// ---- print_tree_node ---------------------------------------------------------------------------------------------------
pub open spec fn connector_of(is_last: bool, is_root: bool) -> Seq<char> {
    if is_root { ""@ } else if is_last { "└── "@ } else { "├── "@ }
}
pub open spec fn item_connector(is_last: bool) -> Seq<char> { if is_last { "└── "@ } else { "├── "@ } }
pub open spec fn child_prefix(prefix: Seq<char>, is_last: bool, is_root: bool) -> Seq<char> {
    if is_root { ""@ } else { prefix + (if is_last { "    "@ } else { "│   "@ }) }
}
pub open spec fn fix_display(n: Seq<char>, count: usize, au: bool) -> CStr {
    if au && count == 0 { with_style(plain(n), Style::Cyan) } else if count == 0 { with_style(plain(n), Style::Dimmed) } else { with_style(plain(n), Style::Green) }
}
pub open spec fn autouse_text() -> Seq<char> { styled(with_style(plain("autouse=True"@), Style::Cyan)) }
pub open spec fn used_text(count: usize) -> Seq<char> {
    if count == 1 { styled(with_style(plain("used 1 time"@), Style::Yellow)) }
    else { styled(with_style(plain("used "@ + dec_v(count) + " times"@), Style::Yellow)) }
}
pub open spec fn unused_text() -> Seq<char> { styled(with_style(plain("unused"@), Style::Dimmed)) }
/// the text in parentheses behind a fixture
pub open spec fn fix_info(count: usize, au: bool) -> Seq<char> {
    if au && count == 0 { autouse_text() }
    else if au { used_text(count) + ", "@ + autouse_text() }
    else if count == 0 { unused_text() }
    else { used_text(count) }
}
/// the names listed under file f, in print order: the ascending enumeration of the file's names, filtered
pub open spec fn kept(ctx: Ctx, f: PV) -> Seq<Seq<char>> { sorted_strs(ctx.ff[f]).filter(keep_fn(ctx, f)) }
pub open spec fn fixture_ev(ctx: Ctx, f: PV, prefix: Seq<char>, names: Seq<Seq<char>>, j: int) -> Ev {
    let c = cnt_of(ctx.cm, f, names[j]);
    let a = ctx.au.contains((f, names[j]));
    Ev::Fixture { prefix: prefix, connector: item_connector(j == names.len() - 1), display: fix_display(names[j], c, a), info: fix_info(c, a) }
}
pub open spec fn fixture_evs(ctx: Ctx, f: PV, prefix: Seq<char>, names: Seq<Seq<char>>, upto: int) -> Seq<Ev> {
    Seq::new(upto as nat, |j: int| fixture_ev(ctx, f, prefix, names, j))
}
pub open spec fn file_disp_v(name: Seq<char>) -> CStr { with_style(with_style(plain(name), Style::Cyan), Style::Bold) }
pub open spec fn dir_disp_v(name: Seq<char>, editable: bool) -> CStr {
    let label = if editable { name + "/ (editable install)"@ } else { name + "/"@ };
    with_style(with_style(plain(label), Style::Blue), Style::Bold)
}
/// what print_tree_node(path, .., prefix, is_last, is_root_level, ..) prints
pub open spec fn op_node(ctx: Ctx, dirs: Set<PV>, p: PV, prefix: Seq<char>, is_last: bool, is_root: bool) -> Seq<Ev>
    decreases tmeasure(ctx.tree, p), 1nat, 0nat
    when tree_wf(ctx.tree)
    via op_node_decreases
{
    let name = name_or_q(p);
    let connector = connector_of(is_last, is_root);
    let np = child_prefix(prefix, is_last, is_root);
    if ctx.ff.contains_key(p) {
        let names = kept(ctx, p);
        if names.len() == 0 { Seq::empty() }
        else { seq![Ev::File { prefix: prefix, connector: connector, display: file_disp_v(name), n: names.len() as usize }] + fixture_evs(ctx, p, np, names, names.len() as int) }
    } else if ctx.tree.contains_key(p) {
        if !kids_visible(ctx, p) { Seq::empty() }
        else { seq![Ev::Dir { prefix: prefix, connector: connector, display: dir_disp_v(name, dirs.contains(p)) }] + op_kids(ctx, dirs, p, np, ctx.tree[p].len()) }
    } else { Seq::empty() }
}
/// the output for the first n children of directory p
pub open spec fn op_kids(ctx: Ctx, dirs: Set<PV>, p: PV, prefix: Seq<char>, n: nat) -> Seq<Ev>
    decreases tmeasure(ctx.tree, p), 0nat, n
    when tree_wf(ctx.tree) && ctx.tree.contains_key(p) && n <= ctx.tree[p].len()
    via op_kids_decreases
{
    if n == 0 { Seq::empty() }
    else { op_kids(ctx, dirs, p, prefix, (n - 1) as nat) + op_node(ctx, dirs, ctx.tree[p][n - 1], prefix, n - 1 == ctx.tree[p].len() - 1, false) }
}
#[via_fn]
proof fn op_node_decreases(ctx: Ctx, dirs: Set<PV>, p: PV, prefix: Seq<char>, is_last: bool, is_root: bool) { }
#[via_fn]
proof fn op_kids_decreases(ctx: Ctx, dirs: Set<PV>, p: PV, prefix: Seq<char>, n: nat) {
    if n > 0 { lemma_tmeasure_child(ctx.tree, p, n - 1); }
}
