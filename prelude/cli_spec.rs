// ---------------------------------------------------------------------------------------------
// Operational specification of the CLI usage counts (`fixtures list` / `fixtures unused`), C20 + CLI clause of C04
// Needs: path.rs types.rs dashmap.rs hashmap.rs dbview.rs resolve_spec.rs refs_spec.rs resolve_l2.rs

/// a count is kept per (file of the definition, name under which the definition is registered)
pub type CKey = (PV, Seq<char>);
pub open spec fn cval(m: Map<CKey, usize>, k: CKey) -> nat { if m.contains_key(k) { m[k] as nat } else { 0 } }

/// number of elements of s that satisfy p
pub open spec fn cnt<A>(s: Seq<A>, p: spec_fn(A) -> bool) -> nat
    decreases s.len()
{
    if s.len() == 0 { 0 } else { cnt(s.drop_last(), p) + (if p(s.last()) { 1nat } else { 0nat }) }
}
/// sum of w over an enumeration
pub open spec fn sum_seq<A>(ks: Seq<A>, w: spec_fn(A) -> nat) -> nat
    decreases ks.len()
{
    if ks.len() == 0 { 0 } else { sum_seq(ks.drop_last(), w) + w(ks.last()) }
}
/// sum of w over a finite set (canonical: independent of any enumeration order, see lemma_sum_seq_set)
pub open spec fn sum_set<A>(s: Set<A>, w: spec_fn(A) -> nat) -> nat
    decreases s.len()
{
    if s.len() == 0 { 0 } else { let x = s.choose(); w(x) + sum_set(s.remove(x), w) }
}

pub open spec fn opt_file(o: Option<DefV>) -> Option<PV> { match o { Some(d) => Some(d.file), None => None } }
pub open spec fn opt_pbv(o: Option<PathBuf>) -> Option<PV> { match o { Some(p) => Some(pbv(&p)), None => None } }

/// usage u recorded for file g is counted under key = (f, n): it is named n and resolves to a definition in f
pub open spec fn hit_in(defs: Map<Seq<char>, Seq<DefV>>, provf: spec_fn(Seq<char>) -> spec_fn(PV) -> bool, key: CKey, g: PV) -> spec_fn(UseV) -> bool {
    |u: UseV| u.name == key.1 && opt_file(resolve_usage(defs, provf, g, u)) == Some(key.0)
}
pub open spec fn file_hits(defs: Map<Seq<char>, Seq<DefV>>, uses: Map<PV, Seq<UseV>>, provf: spec_fn(Seq<char>) -> spec_fn(PV) -> bool, key: CKey) -> spec_fn(PV) -> nat {
    |g: PV| cnt(bucket(uses, g), hit_in(defs, provf, key, g))
}
pub open spec fn file_len(uses: Map<PV, Seq<UseV>>) -> spec_fn(PV) -> nat { |g: PV| bucket(uses, g).len() }
/// what the CLI prints as the usage count of the definitions of `key.1` in file `key.0`
pub open spec fn total_hits(defs: Map<Seq<char>, Seq<DefV>>, uses: Map<PV, Seq<UseV>>, provf: spec_fn(Seq<char>) -> spec_fn(PV) -> bool, key: CKey) -> nat {
    sum_set(uses.dom(), file_hits(defs, uses, provf, key))
}
/// number of recorded usages in the workspace
pub open spec fn total_usages(uses: Map<PV, Seq<UseV>>) -> nat { sum_set(uses.dom(), file_len(uses)) }
/// some definition registered under name key.1 lives in file key.0
pub open spec fn has_def_in(defs: Map<Seq<char>, Seq<DefV>>, key: CKey) -> bool {
    exists|i: int| 0 <= i < bucket(defs, key.1).len() && (#[trigger] bucket(defs, key.1)[i]).file == key.0
}
/// postcondition of compute_definition_usage_counts
pub open spec fn counts_post(cm: Map<CKey, usize>, defs: Map<Seq<char>, Seq<DefV>>, uses: Map<PV, Seq<UseV>>, provf: spec_fn(Seq<char>) -> spec_fn(PV) -> bool) -> bool {
    &&& forall|key: CKey| #![trigger cm.contains_key(key)] #![trigger has_def_in(defs, key)] cm.contains_key(key) <==> has_def_in(defs, key)
    &&& forall|key: CKey| #![trigger cval(cm, key)] #![trigger total_hits(defs, uses, provf, key)] cval(cm, key) == total_hits(defs, uses, provf, key)
}

// ---- generic facts about cnt / sum_seq / sum_set ----------------------------------------------
pub proof fn lemma_cnt_push<A>(s: Seq<A>, x: A, p: spec_fn(A) -> bool)
    ensures cnt(s.push(x), p) == cnt(s, p) + (if p(x) { 1nat } else { 0nat })
{
    assert(s.push(x).drop_last() =~= s);
}
pub proof fn lemma_cnt_le<A>(s: Seq<A>, p: spec_fn(A) -> bool)
    ensures cnt(s, p) <= s.len()
    decreases s.len()
{
    if s.len() > 0 { lemma_cnt_le(s.drop_last(), p); }
}
pub proof fn lemma_sum_seq_push<A>(ks: Seq<A>, x: A, w: spec_fn(A) -> nat)
    ensures sum_seq(ks.push(x), w) == sum_seq(ks, w) + w(x)
{
    assert(ks.push(x).drop_last() =~= ks);
}
pub proof fn lemma_sum_seq_take_le<A>(ks: Seq<A>, n: int, w: spec_fn(A) -> nat)
    requires 0 <= n <= ks.len()
    ensures sum_seq(ks.take(n), w) <= sum_seq(ks, w)
    decreases ks.len()
{
    if n == ks.len() { assert(ks.take(n) =~= ks); }
    else {
        lemma_sum_seq_take_le(ks.drop_last(), n, w);
        assert(ks.drop_last().take(n) =~= ks.take(n));
    }
}
pub proof fn lemma_sum_seq_remove<A>(ks: Seq<A>, i: int, w: spec_fn(A) -> nat)
    requires 0 <= i < ks.len()
    ensures sum_seq(ks, w) == sum_seq(ks.remove(i), w) + w(ks[i])
    decreases ks.len()
{
    if i == ks.len() - 1 { assert(ks.remove(i) =~= ks.drop_last()); }
    else {
        lemma_sum_seq_remove(ks.drop_last(), i, w);
        assert(ks.remove(i).drop_last() =~= ks.drop_last().remove(i));
        assert(ks.remove(i).last() == ks.last());
    }
}
/// the sum over a duplicate-free enumeration of a finite set does not depend on the enumeration
pub proof fn lemma_sum_seq_set<A>(ks: Seq<A>, s: Set<A>, w: spec_fn(A) -> nat)
    requires ks.no_duplicates(),
        forall|i: int| 0 <= i < ks.len() ==> s.contains(#[trigger] ks[i]),
        forall|x: A| s.contains(x) ==> exists|i: int| 0 <= i < ks.len() && #[trigger] ks[i] == x,
    ensures sum_seq(ks, w) == sum_set(s, w)
    decreases s.len()
{
    if s.len() == 0 {
        if ks.len() > 0 { assert(s.contains(ks[0])); }
    } else {
        let x = s.choose();
        vstd::set::lemma_set_choose_len(s);
        let i = choose|i: int| 0 <= i < ks.len() && #[trigger] ks[i] == x;
        let k2 = ks.remove(i);
        lemma_sum_seq_remove(ks, i, w);
        assert forall|j: int| 0 <= j < k2.len() implies s.remove(x).contains(#[trigger] k2[j]) by {
            if j < i { assert(k2[j] == ks[j]); } else { assert(k2[j] == ks[j + 1]); }
        }
        assert forall|y: A| s.remove(x).contains(y) implies exists|j: int| 0 <= j < k2.len() && #[trigger] k2[j] == y by {
            let j0 = choose|j: int| 0 <= j < ks.len() && #[trigger] ks[j] == y;
            if j0 < i { assert(k2[j0] == y); } else { assert(k2[j0 - 1] == y); }
        }
        assert(k2.no_duplicates()) by {
            assert forall|a: int, b: int| 0 <= a < k2.len() && 0 <= b < k2.len() && a != b implies k2[a] != k2[b] by {
                let a1 = if a < i { a } else { a + 1 };
                let b1 = if b < i { b } else { b + 1 };
                assert(k2[a] == ks[a1] && k2[b] == ks[b1]);
            }
        }
        lemma_sum_seq_set(k2, s.remove(x), w);
    }
}

// ---- loop invariant of the counting loop, and its steps ---------------------------------------
/// cm = the counts after all usages of the files `done` and the usages `us` (a prefix of file g's bucket)
#[verifier::opaque]
pub open spec fn cnt_inv(cm: Map<CKey, usize>, defs: Map<Seq<char>, Seq<DefV>>, uses: Map<PV, Seq<UseV>>, provf: spec_fn(Seq<char>) -> spec_fn(PV) -> bool,
                         done: Seq<PV>, g: PV, us: Seq<UseV>) -> bool {
    &&& forall|key: CKey| #![trigger cm.contains_key(key)] #![trigger has_def_in(defs, key)] cm.contains_key(key) <==> has_def_in(defs, key)
    &&& forall|key: CKey| #[trigger] cval(cm, key) == sum_seq(done, file_hits(defs, uses, provf, key)) + cnt(us, hit_in(defs, provf, key, g))
    &&& forall|key: CKey| #[trigger] cval(cm, key) <= sum_seq(done, file_len(uses)) + us.len()
}
pub proof fn lemma_cnt_init(cm: Map<CKey, usize>, defs: Map<Seq<char>, Seq<DefV>>, uses: Map<PV, Seq<UseV>>, provf: spec_fn(Seq<char>) -> spec_fn(PV) -> bool, g: PV)
    requires
        forall|key: CKey| #![trigger cm.contains_key(key)] #![trigger has_def_in(defs, key)] cm.contains_key(key) <==> has_def_in(defs, key),
        forall|key: CKey| #[trigger] cm.contains_key(key) ==> cm[key] == 0,
    ensures cnt_inv(cm, defs, uses, provf, Seq::empty(), g, Seq::empty())
{
    reveal(cnt_inv);
    assert forall|key: CKey| #[trigger] cval(cm, key) == 0 by { if cm.contains_key(key) {} }
}
/// the usage resolves to a definition in file f: exactly the count of (f, u.name) goes up by one
pub proof fn lemma_cnt_step_some(cm: Map<CKey, usize>, cm2: Map<CKey, usize>, defs: Map<Seq<char>, Seq<DefV>>, uses: Map<PV, Seq<UseV>>,
        provf: spec_fn(Seq<char>) -> spec_fn(PV) -> bool, done: Seq<PV>, g: PV, us: Seq<UseV>, u: UseV, f: PV)
    requires cnt_inv(cm, defs, uses, provf, done, g, us),
        opt_file(resolve_usage(defs, provf, g, u)) == Some(f),
        cval(cm, (f, u.name)) + 1 <= usize::MAX,
        cm2 == cm.insert((f, u.name), (cval(cm, (f, u.name)) + 1) as usize),
    ensures cnt_inv(cm2, defs, uses, provf, done, g, us.push(u))
{
    reveal(cnt_inv);
    let k0: CKey = (f, u.name);
    lemma_resolve_usage_in(defs, provf, g, u);
    assert(has_def_in(defs, k0));
    assert forall|key: CKey| #[trigger] cval(cm2, key) == sum_seq(done, file_hits(defs, uses, provf, key)) + cnt(us.push(u), hit_in(defs, provf, key, g)) by {
        lemma_cnt_push(us, u, hit_in(defs, provf, key, g));
        assert(cval(cm, key) == sum_seq(done, file_hits(defs, uses, provf, key)) + cnt(us, hit_in(defs, provf, key, g)));
        if key == k0 {} else { assert(!hit_in(defs, provf, key, g)(u)); assert(cval(cm2, key) == cval(cm, key)); }
    }
    assert forall|key: CKey| #[trigger] cval(cm2, key) <= sum_seq(done, file_len(uses)) + us.push(u).len() by {
        assert(cval(cm, key) <= sum_seq(done, file_len(uses)) + us.len());
        if key == k0 {} else { assert(cval(cm2, key) == cval(cm, key)); }
    }
}
/// the usage resolves to nothing: no count changes
pub proof fn lemma_cnt_step_none(cm: Map<CKey, usize>, defs: Map<Seq<char>, Seq<DefV>>, uses: Map<PV, Seq<UseV>>,
        provf: spec_fn(Seq<char>) -> spec_fn(PV) -> bool, done: Seq<PV>, g: PV, us: Seq<UseV>, u: UseV)
    requires cnt_inv(cm, defs, uses, provf, done, g, us), resolve_usage(defs, provf, g, u) is None,
    ensures cnt_inv(cm, defs, uses, provf, done, g, us.push(u))
{
    reveal(cnt_inv);
    assert forall|key: CKey| #[trigger] cval(cm, key) == sum_seq(done, file_hits(defs, uses, provf, key)) + cnt(us.push(u), hit_in(defs, provf, key, g)) by {
        lemma_cnt_push(us, u, hit_in(defs, provf, key, g));
        assert(cval(cm, key) == sum_seq(done, file_hits(defs, uses, provf, key)) + cnt(us, hit_in(defs, provf, key, g)));
    }
    assert forall|key: CKey| #[trigger] cval(cm, key) <= sum_seq(done, file_len(uses)) + us.push(u).len() by {
        assert(cval(cm, key) <= sum_seq(done, file_len(uses)) + us.len());
    }
}
/// all usages of file g processed: g joins the finished files
pub proof fn lemma_cnt_file_done(cm: Map<CKey, usize>, defs: Map<Seq<char>, Seq<DefV>>, uses: Map<PV, Seq<UseV>>,
        provf: spec_fn(Seq<char>) -> spec_fn(PV) -> bool, done: Seq<PV>, g: PV, g2: PV)
    requires cnt_inv(cm, defs, uses, provf, done, g, bucket(uses, g)),
    ensures cnt_inv(cm, defs, uses, provf, done.push(g), g2, Seq::empty())
{
    reveal(cnt_inv);
    assert forall|key: CKey| #[trigger] cval(cm, key) == sum_seq(done.push(g), file_hits(defs, uses, provf, key)) + cnt(Seq::<UseV>::empty(), hit_in(defs, provf, key, g2)) by {
        lemma_sum_seq_push(done, g, file_hits(defs, uses, provf, key));
        assert(cval(cm, key) == sum_seq(done, file_hits(defs, uses, provf, key)) + cnt(bucket(uses, g), hit_in(defs, provf, key, g)));
    }
    assert forall|key: CKey| #[trigger] cval(cm, key) <= sum_seq(done.push(g), file_len(uses)) + Seq::<UseV>::empty().len() by {
        lemma_sum_seq_push(done, g, file_len(uses));
        assert(cval(cm, key) <= sum_seq(done, file_len(uses)) + bucket(uses, g).len());
    }
}
pub proof fn lemma_cnt_change_file(cm: Map<CKey, usize>, defs: Map<Seq<char>, Seq<DefV>>, uses: Map<PV, Seq<UseV>>,
        provf: spec_fn(Seq<char>) -> spec_fn(PV) -> bool, done: Seq<PV>, g: PV, g2: PV)
    requires cnt_inv(cm, defs, uses, provf, done, g, Seq::empty()),
    ensures cnt_inv(cm, defs, uses, provf, done, g2, Seq::empty())
{
    reveal(cnt_inv);
    assert forall|key: CKey| #[trigger] cval(cm, key) == sum_seq(done, file_hits(defs, uses, provf, key)) + cnt(Seq::<UseV>::empty(), hit_in(defs, provf, key, g2)) by {
        assert(cval(cm, key) == sum_seq(done, file_hits(defs, uses, provf, key)) + cnt(Seq::<UseV>::empty(), hit_in(defs, provf, key, g)));
    }
}
/// no overflow of `+= 1`: a count never exceeds the number of usages processed so far
pub proof fn lemma_cnt_bound(cm: Map<CKey, usize>, defs: Map<Seq<char>, Seq<DefV>>, uses: Map<PV, Seq<UseV>>,
        provf: spec_fn(Seq<char>) -> spec_fn(PV) -> bool, ks: Seq<PV>, i: int, j: int, key: CKey)
    requires 0 <= i < ks.len(), 0 <= j < bucket(uses, ks[i]).len(),
        cnt_inv(cm, defs, uses, provf, ks.take(i), ks[i], bucket(uses, ks[i]).take(j)),
        sum_seq(ks, file_len(uses)) <= usize::MAX,
    ensures cval(cm, key) + 1 <= usize::MAX
{
    reveal(cnt_inv);
    lemma_sum_seq_take_le(ks, i + 1, file_len(uses));
    assert(ks.take(i + 1) =~= ks.take(i).push(ks[i]));
    lemma_sum_seq_push(ks.take(i), ks[i], file_len(uses));
    assert(cval(cm, key) <= sum_seq(ks.take(i), file_len(uses)) + bucket(uses, ks[i]).take(j).len());
}
pub proof fn lemma_cnt_final(cm: Map<CKey, usize>, defs: Map<Seq<char>, Seq<DefV>>, uses: Map<PV, Seq<UseV>>,
        provf: spec_fn(Seq<char>) -> spec_fn(PV) -> bool, ks: Seq<PV>, g: PV)
    requires cnt_inv(cm, defs, uses, provf, ks, g, Seq::empty()),
        ks.no_duplicates(),
        forall|i: int| 0 <= i < ks.len() ==> uses.dom().contains(#[trigger] ks[i]),
        forall|x: PV| uses.dom().contains(x) ==> exists|i: int| 0 <= i < ks.len() && #[trigger] ks[i] == x,
    ensures counts_post(cm, defs, uses, provf)
{
    reveal(cnt_inv);
    assert forall|key: CKey| #![trigger cval(cm, key)] #![trigger total_hits(defs, uses, provf, key)] cval(cm, key) == total_hits(defs, uses, provf, key) by {
        lemma_sum_seq_set(ks, uses.dom(), file_hits(defs, uses, provf, key));
        assert(cval(cm, key) == sum_seq(ks, file_hits(defs, uses, provf, key)) + cnt(Seq::<UseV>::empty(), hit_in(defs, provf, key, g)));
    }
}

/// whatever a usage resolves to is a definition registered under the usage's name
pub proof fn lemma_resolve_usage_in(defs: Map<Seq<char>, Seq<DefV>>, provf: spec_fn(Seq<char>) -> spec_fn(PV) -> bool, g: PV, u: UseV)
    ensures match resolve_usage(defs, provf, g, u) { Some(d) => in_seq(bucket(defs, u.name), d) && has_def_in(defs, (d.file, u.name)), None => true }
{
    let ds = bucket(defs, u.name);
    lemma_C01_e_visible_weak(ds, g, provf(u.name), fs_true());
    match pick_at_line(defs, g, u.line) {
        Some(c) => { lemma_C01_e_visible_weak(ds, g, provf(u.name), fs_excl(Some(c))); }
        None => {}
    }
    match resolve_usage(defs, provf, g, u) {
        Some(d) => { let i = choose|i: int| 0 <= i < ds.len() && ds[i] == d; assert(bucket(defs, u.name)[i].file == d.file); }
        None => {}
    }
}

// ---- the per-file line table and the resolution cache -----------------------------------------
pub open spec fn fdl_lookup(fm: Map<PV, HashMap<usize, FixtureDefinition>>, f: PV, l: usize) -> Option<DefV> {
    if fm.contains_key(f) && fm[f].m().contains_key(l) { Some(dv(&fm[f].m()[l])) } else { None }
}
/// every entry of the table is a registered definition at that (file, line)
pub open spec fn fdl_sound(fm: Map<PV, HashMap<usize, FixtureDefinition>>, defs: Map<Seq<char>, Seq<DefV>>) -> bool {
    forall|f: PV, l: usize| #![trigger fm[f].m().contains_key(l)] fm.contains_key(f) && fm[f].m().contains_key(l) ==> at_line(defs, f, l, dv(&fm[f].m()[l]))
}
/// the first `upto` definitions registered under n have an entry at their (file, line)
pub open spec fn fdl_cover(fm: Map<PV, HashMap<usize, FixtureDefinition>>, defs: Map<Seq<char>, Seq<DefV>>, n: Seq<char>, upto: int) -> bool {
    forall|i: int| 0 <= i < upto && i < bucket(defs, n).len() ==>
        fm.contains_key((#[trigger] bucket(defs, n)[i]).file) && fm[bucket(defs, n)[i].file].m().contains_key(bucket(defs, n)[i].line)
}
pub proof fn lemma_fdl_pick(fm: Map<PV, HashMap<usize, FixtureDefinition>>, defs: Map<Seq<char>, Seq<DefV>>, f: PV, l: usize)
    requires unique_at_line(defs), fdl_sound(fm, defs),
        forall|n: Seq<char>| defs.contains_key(n) ==> #[trigger] fdl_cover(fm, defs, n, defs[n].len() as int),
    ensures fdl_lookup(fm, f, l) == pick_at_line(defs, f, l)
{
    if fm.contains_key(f) && fm[f].m().contains_key(l) {
        lemma_pick(defs, f, l, dv(&fm[f].m()[l]));
    } else {
        assert(none_at_line(defs, f, l)) by {
            assert forall|n: Seq<char>, i: int| defs.contains_key(n) && 0 <= i < defs[n].len() implies
                !((#[trigger] defs[n][i]).file == f && defs[n][i].line == l) by {
                assert(fdl_cover(fm, defs, n, defs[n].len() as int));
                assert(bucket(defs, n)[i] == defs[n][i]);
            }
        }
        lemma_pick_none(defs, f, l);
    }
}
/// the cache maps (file, name) to the file of the definition plain resolution selects
pub open spec fn cache_ok(cache: Map<CKey, Option<PathBuf>>, defs: Map<Seq<char>, Seq<DefV>>, provf: spec_fn(Seq<char>) -> spec_fn(PV) -> bool) -> bool {
    forall|k: CKey| #[trigger] cache.contains_key(k) ==> opt_pbv(cache[k]) == opt_file(op_resolve(bucket(defs, k.1), k.0, provf(k.1), fs_true()))
}
/// `defs.iter().find(|d| d.file_path == p).cloned()`
pub open spec fn find_post(v: Seq<&FixtureDefinition>, p: PV, o: Option<FixtureDefinition>) -> bool {
    match o {
        Some(d) => pbv(&d.file_path) == p && exists|i: int| 0 <= i < v.len() && pbv(&(#[trigger] v[i]).file_path) == p,
        None => forall|i: int| 0 <= i < v.len() ==> pbv(&(#[trigger] v[i]).file_path) != p,
    }
}
pub open spec fn find_post_m(m: Map<Seq<char>, Vec<FixtureDefinition>>, n: Seq<char>, p: PV, o: Option<FixtureDefinition>) -> bool {
    if m.contains_key(n) { find_post(m[n]@.as_ref(), p, o) } else { o is None }
}
/// cache hit: re-finding the first definition of the name in the cached file yields a definition of the same
/// file as the one resolution selects (not necessarily the same definition)
pub proof fn lemma_cache_hit(m: Map<Seq<char>, Vec<FixtureDefinition>>, provf: spec_fn(Seq<char>) -> spec_fn(PV) -> bool, g: PV, n: Seq<char>,
        cached: Option<PathBuf>, o: Option<FixtureDefinition>)
    requires opt_pbv(cached) == opt_file(op_resolve(bucket(defs_view(m), n), g, provf(n), fs_true())),
        match cached { Some(p) => find_post_m(m, n, pbv(&p), o), None => o is None },
    ensures opt_file(opt_dv(o)) == opt_file(op_resolve(bucket(defs_view(m), n), g, provf(n), fs_true()))
{
    let ds = bucket(defs_view(m), n);
    lemma_C01_e_visible_weak(ds, g, provf(n), fs_true());
    match cached {
        Some(p) => {
            let d = op_resolve(ds, g, provf(n), fs_true())->0;
            let i = choose|i: int| 0 <= i < ds.len() && ds[i] == d;
            assert(m.contains_key(n));
            assert(ds[i] == dv(&m[n]@[i]));
            assert(pbv(&m[n]@.as_ref()[i].file_path) == pbv(&p));
        }
        None => {}
    }
}

// ---- `fixtures unused` -------------------------------------------------------------------------
pub open spec fn kv_fn() -> spec_fn((PathBuf, String)) -> CKey { |e: (PathBuf, String)| (pbv(&e.0), e.1@) }
pub open spec fn keys_of(s: Seq<(PathBuf, String)>) -> Seq<CKey> { s.map_values(kv_fn()) }
/// the comparison the sort closure computes: by path, then by name
pub open spec fn key_cmp(a: CKey, b: CKey) -> core::cmp::Ordering {
    if path_ord(a.0, b.0) is Equal { str_ord(a.1, b.1) } else { path_ord(a.0, b.0) }
}
pub open spec fn key_cmp_fn() -> spec_fn(CKey, CKey) -> core::cmp::Ordering { |a: CKey, b: CKey| key_cmp(a, b) }
pub open spec fn pair_cmp_fn() -> spec_fn((PathBuf, String), (PathBuf, String)) -> core::cmp::Ordering {
    |a: (PathBuf, String), b: (PathBuf, String)| key_cmp(kv_fn()(a), kv_fn()(b))
}
/// how often key occurs in a listing
pub open spec fn occ(s: Seq<CKey>, k: CKey) -> nat { s.to_multiset().count(k) }
/// definition d (registered under n) is listed for file f: project fixture, not autouse, count of (f, n) is 0
pub open spec fn unused_at(defs: Map<Seq<char>, Seq<DefV>>, uses: Map<PV, Seq<UseV>>, provf: spec_fn(Seq<char>) -> spec_fn(PV) -> bool, f: PV, n: Seq<char>) -> spec_fn(DefV) -> bool {
    |d: DefV| d.file == f && !d.is_third_party && !d.autouse && total_hits(defs, uses, provf, (f, n)) == 0
}
/// how often (f, n) must be listed: once per listed definition of n in f
pub open spec fn unused_target(defs: Map<Seq<char>, Seq<DefV>>, uses: Map<PV, Seq<UseV>>, provf: spec_fn(Seq<char>) -> spec_fn(PV) -> bool, key: CKey) -> nat {
    cnt(bucket(defs, key.1), unused_at(defs, uses, provf, key.0, key.1))
}
/// postcondition of get_unused_fixtures
pub open spec fn unused_post(r: Seq<(PathBuf, String)>, defs: Map<Seq<char>, Seq<DefV>>, uses: Map<PV, Seq<UseV>>, provf: spec_fn(Seq<char>) -> spec_fn(PV) -> bool) -> bool {
    &&& sorted_by_cmp(keys_of(r), key_cmp_fn())
    &&& forall|key: CKey| #[trigger] occ(keys_of(r), key) == unused_target(defs, uses, provf, key)
}

pub proof fn lemma_occ_push(s: Seq<CKey>, a: CKey, k: CKey)
    ensures occ(s.push(a), k) == occ(s, k) + (if a == k { 1nat } else { 0nat })
{
    s.to_multiset_ensures();
}
pub proof fn lemma_occ_empty(k: CKey)
    ensures occ(Seq::<CKey>::empty(), k) == 0
{
    let e = Seq::<CKey>::empty();
    e.to_multiset_ensures();
    assert(!e.contains(k));
}
/// a permutation stays a permutation under an element-wise view
pub proof fn lemma_perm_map<A, B>(a: Seq<A>, b: Seq<A>, g: spec_fn(A) -> B)
    requires a.to_multiset() == b.to_multiset()
    ensures a.map_values(g).to_multiset() =~= b.map_values(g).to_multiset()
    decreases a.len()
{
    a.to_multiset_ensures(); b.to_multiset_ensures();
    if a.len() == 0 {
        assert(b.len() == 0);
        assert(a.map_values(g) =~= b.map_values(g));
    } else {
        let x = a.last(); let a1 = a.drop_last();
        a1.to_multiset_ensures();
        assert(a1.push(x) =~= a);
        assert(a[a.len() - 1] == x);
        assert(a.contains(x));
        assert(a.to_multiset().count(x) > 0);
        assert(b.to_multiset().count(x) > 0);
        assert(b.contains(x));
        let i = choose|i: int| 0 <= i < b.len() && b[i] == x;
        let b1 = b.remove(i);
        assert(a1.to_multiset() =~= b1.to_multiset());
        lemma_perm_map(a1, b1, g);
        let am = a.map_values(g); let bm = b.map_values(g);
        let a1m = a1.map_values(g); let b1m = b1.map_values(g);
        a1m.to_multiset_ensures(); bm.to_multiset_ensures();
        assert(a1m.push(g(x)) =~= am);
        assert(bm.remove(i) =~= b1m);
        assert(bm[i] == g(x));
        assert(bm.contains(g(x)));
        assert(bm.to_multiset() =~= b1m.to_multiset().insert(g(x)));
    }
}
pub proof fn lemma_pair_cmp_total()
    ensures cmp_total_preorder(pair_cmp_fn())
{
    axiom_path_ord_total(); axiom_str_ord_total();
    let c = pair_cmp_fn(); let po = path_ord_fn(); let so = str_ord_fn();
    assert forall|a: (PathBuf, String)| #[trigger] c(a, a) is Equal by {
        let k = kv_fn()(a); assert(po(k.0, k.0) is Equal); assert(so(k.1, k.1) is Equal);
    }
    assert forall|a: (PathBuf, String), b: (PathBuf, String)| (#[trigger] c(a, b) is Less) <==> (c(b, a) is Greater) by {
        let k = kv_fn()(a); let l = kv_fn()(b);
        assert((po(k.0, l.0) is Less) <==> (po(l.0, k.0) is Greater));
        assert((po(l.0, k.0) is Less) <==> (po(k.0, l.0) is Greater));
        assert((po(k.0, l.0) is Equal) <==> k.0 == l.0);
        assert((po(l.0, k.0) is Equal) <==> k.0 == l.0);
        assert((so(k.1, l.1) is Less) <==> (so(l.1, k.1) is Greater));
    }
    assert forall|a: (PathBuf, String), b: (PathBuf, String), d: (PathBuf, String)|
        !(#[trigger] c(a, b) is Greater) && !(#[trigger] c(b, d) is Greater) implies !(c(a, d) is Greater) by {
        let k = kv_fn()(a); let l = kv_fn()(b); let m = kv_fn()(d);
        assert(!(po(k.0, l.0) is Greater) && !(po(l.0, m.0) is Greater));
        assert(!(po(k.0, m.0) is Greater));
        if po(k.0, m.0) is Equal {
            assert(k.0 == m.0);
            assert((po(k.0, l.0) is Less) <==> (po(l.0, k.0) is Greater));
            assert((po(k.0, l.0) is Equal) <==> k.0 == l.0);
            assert(k.0 == l.0);
            assert(po(l.0, m.0) is Equal);
            assert(!(so(k.1, l.1) is Greater) && !(so(l.1, m.1) is Greater));
            assert(!(so(k.1, m.1) is Greater));
        }
    }
}
pub proof fn lemma_sorted_keys(r: Seq<(PathBuf, String)>)
    requires sorted_by_cmp(r, pair_cmp_fn())
    ensures sorted_by_cmp(keys_of(r), key_cmp_fn())
{
    assert forall|i: int, j: int| 0 <= i < j < keys_of(r).len() implies !(key_cmp_fn()(keys_of(r)[i], keys_of(r)[j]) is Greater) by {
        assert(!(pair_cmp_fn()(r[i], r[j]) is Greater));
    }
}

/// loop invariants of get_unused_fixtures: names in `done` are finished, name nm is finished up to its j-th definition
#[verifier::opaque]
pub open spec fn un_outer(ks: Seq<CKey>, defs: Map<Seq<char>, Seq<DefV>>, uses: Map<PV, Seq<UseV>>, provf: spec_fn(Seq<char>) -> spec_fn(PV) -> bool, done: Set<Seq<char>>) -> bool {
    forall|key: CKey| #[trigger] occ(ks, key) == (if done.contains(key.1) { unused_target(defs, uses, provf, key) } else { 0 })
}
#[verifier::opaque]
pub open spec fn un_inner(ks: Seq<CKey>, defs: Map<Seq<char>, Seq<DefV>>, uses: Map<PV, Seq<UseV>>, provf: spec_fn(Seq<char>) -> spec_fn(PV) -> bool, done: Set<Seq<char>>, nm: Seq<char>, j: int) -> bool {
    forall|key: CKey| #[trigger] occ(ks, key) == (
        if key.1 == nm { cnt(bucket(defs, nm).take(j), unused_at(defs, uses, provf, key.0, nm)) }
        else if done.contains(key.1) { unused_target(defs, uses, provf, key) } else { 0 })
}
pub proof fn lemma_un_start(ks: Seq<CKey>, defs: Map<Seq<char>, Seq<DefV>>, uses: Map<PV, Seq<UseV>>, provf: spec_fn(Seq<char>) -> spec_fn(PV) -> bool, done: Set<Seq<char>>, nm: Seq<char>)
    requires un_outer(ks, defs, uses, provf, done), !done.contains(nm)
    ensures un_inner(ks, defs, uses, provf, done, nm, 0)
{
    reveal(un_outer); reveal(un_inner);
    assert forall|key: CKey| #[trigger] occ(ks, key) == (
        if key.1 == nm { cnt(bucket(defs, nm).take(0), unused_at(defs, uses, provf, key.0, nm)) }
        else if done.contains(key.1) { unused_target(defs, uses, provf, key) } else { 0 }) by {
        assert(occ(ks, key) == (if done.contains(key.1) { unused_target(defs, uses, provf, key) } else { 0 }));
        assert(bucket(defs, nm).take(0) =~= Seq::<DefV>::empty());
    }
}
pub proof fn lemma_un_skip(ks: Seq<CKey>, defs: Map<Seq<char>, Seq<DefV>>, uses: Map<PV, Seq<UseV>>, provf: spec_fn(Seq<char>) -> spec_fn(PV) -> bool, done: Set<Seq<char>>, nm: Seq<char>, j: int)
    requires un_inner(ks, defs, uses, provf, done, nm, j), 0 <= j < bucket(defs, nm).len(),
        !unused_at(defs, uses, provf, bucket(defs, nm)[j].file, nm)(bucket(defs, nm)[j]),
    ensures un_inner(ks, defs, uses, provf, done, nm, j + 1)
{
    reveal(un_inner);
    let ds = bucket(defs, nm);
    assert(ds.take(j + 1) =~= ds.take(j).push(ds[j]));
    assert forall|key: CKey| #[trigger] occ(ks, key) == (
        if key.1 == nm { cnt(ds.take(j + 1), unused_at(defs, uses, provf, key.0, nm)) }
        else if done.contains(key.1) { unused_target(defs, uses, provf, key) } else { 0 }) by {
        assert(occ(ks, key) == (
            if key.1 == nm { cnt(ds.take(j), unused_at(defs, uses, provf, key.0, nm)) }
            else if done.contains(key.1) { unused_target(defs, uses, provf, key) } else { 0 }));
        lemma_cnt_push(ds.take(j), ds[j], unused_at(defs, uses, provf, key.0, nm));
    }
}
pub proof fn lemma_un_push(ks: Seq<CKey>, defs: Map<Seq<char>, Seq<DefV>>, uses: Map<PV, Seq<UseV>>, provf: spec_fn(Seq<char>) -> spec_fn(PV) -> bool, done: Set<Seq<char>>, nm: Seq<char>, j: int)
    requires un_inner(ks, defs, uses, provf, done, nm, j), 0 <= j < bucket(defs, nm).len(),
        unused_at(defs, uses, provf, bucket(defs, nm)[j].file, nm)(bucket(defs, nm)[j]),
    ensures un_inner(ks.push((bucket(defs, nm)[j].file, nm)), defs, uses, provf, done, nm, j + 1)
{
    reveal(un_inner);
    let ds = bucket(defs, nm);
    let k0: CKey = (ds[j].file, nm);
    assert(ds.take(j + 1) =~= ds.take(j).push(ds[j]));
    assert forall|key: CKey| #[trigger] occ(ks.push(k0), key) == (
        if key.1 == nm { cnt(ds.take(j + 1), unused_at(defs, uses, provf, key.0, nm)) }
        else if done.contains(key.1) { unused_target(defs, uses, provf, key) } else { 0 }) by {
        assert(occ(ks, key) == (
            if key.1 == nm { cnt(ds.take(j), unused_at(defs, uses, provf, key.0, nm)) }
            else if done.contains(key.1) { unused_target(defs, uses, provf, key) } else { 0 }));
        lemma_cnt_push(ds.take(j), ds[j], unused_at(defs, uses, provf, key.0, nm));
        lemma_occ_push(ks, k0, key);
    }
}
pub proof fn lemma_un_end(ks: Seq<CKey>, defs: Map<Seq<char>, Seq<DefV>>, uses: Map<PV, Seq<UseV>>, provf: spec_fn(Seq<char>) -> spec_fn(PV) -> bool, done: Set<Seq<char>>, nm: Seq<char>)
    requires un_inner(ks, defs, uses, provf, done, nm, bucket(defs, nm).len() as int)
    ensures un_outer(ks, defs, uses, provf, done.insert(nm))
{
    reveal(un_outer); reveal(un_inner);
    let ds = bucket(defs, nm);
    assert(ds.take(ds.len() as int) =~= ds);
    assert forall|key: CKey| #[trigger] occ(ks, key) == (if done.insert(nm).contains(key.1) { unused_target(defs, uses, provf, key) } else { 0 }) by {
        assert(occ(ks, key) == (
            if key.1 == nm { cnt(ds.take(ds.len() as int), unused_at(defs, uses, provf, key.0, nm)) }
            else if done.contains(key.1) { unused_target(defs, uses, provf, key) } else { 0 }));
    }
}
pub proof fn lemma_un_final(ks: Seq<CKey>, defs: Map<Seq<char>, Seq<DefV>>, uses: Map<PV, Seq<UseV>>, provf: spec_fn(Seq<char>) -> spec_fn(PV) -> bool, done: Set<Seq<char>>)
    requires un_outer(ks, defs, uses, provf, done), forall|n: Seq<char>| defs.contains_key(n) ==> done.contains(n),
    ensures forall|key: CKey| #[trigger] occ(ks, key) == unused_target(defs, uses, provf, key)
{
    reveal(un_outer);
    assert forall|key: CKey| #[trigger] occ(ks, key) == unused_target(defs, uses, provf, key) by {
        assert(occ(ks, key) == (if done.contains(key.1) { unused_target(defs, uses, provf, key) } else { 0 }));
    }
}
