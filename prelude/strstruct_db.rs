// ---------------------------------------------------------------------------------------------
// Unit strings_struct: the two database-side shims get_function_param_insertion_info needs (same text as
// prelude/text.rs; that file also defines line/word abstractions this unit replaces by contracts).
pub struct Arc<T> { pub v: T }
impl<T> core::ops::Deref for Arc<T> {
    type Target = T;
    fn deref(&self) -> (o: &T) ensures *o == self.v { &self.v }
}
/// content of a file as FixtureDatabase::get_file_content returns it (file_cache entry, else the file system)
pub uninterp spec fn file_content(cache: Map<PV, String>, file: PV) -> Option<Seq<char>>;
