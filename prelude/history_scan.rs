// ---- the repaired workspace scan (fix F-10b) as an event of the history model ------------------------------------------------
// Phase 2 of scan_workspace_with_excludes analyses a collected file that is not open with analyze_file (cleaning) when the
// index already has entries of it — file_definitions or usages — and with analyze_file_fresh otherwise (unit scan_select:
// op_step / eff_analyse, has_entries).  On the index view this choice is ALWAYS the cleaning step: where it runs the fresh
// analysis the file has no reverse-index entry, and there the two coincide (lemma_fresh_is_step_when_unindexed).  So a
// scan is a sequence of ordinary history events, whatever was opened, changed or closed before it.
pub open spec fn idx_has_entries(s: IdxV, f: PV) -> bool { s.fdefs.contains_key(f) || s.uses.contains_key(f) }
/// what the repaired scan does to the index view for one file that is not open
pub open spec fn scan_step(s: IdxV, f: PV, t: Seq<char>) -> IdxV {
    if idx_has_entries(s, f) { step(s, f, t) } else { step_fresh(s, f, t) }
}
//@tags C10 C06
pub proof fn lemma_C10_repaired_scan_step_is_a_history_step(s: IdxV, f: PV, t: Seq<char>)
    ensures scan_step(s, f, t) == step(s, f, t)
{
    if !idx_has_entries(s, f) { lemma_fresh_is_step_when_unindexed(s, f, t); }
}
/// the pre-repair scan step (always fresh) is NOT a history step: with leftover entries of f the old definitions stay
pub proof fn canary_C10_unrepaired_scan_step_is_a_history_step(s: IdxV, f: PV, t: Seq<char>)
    ensures step_fresh(s, f, t) == step(s, f, t)
{
}
