// ---------------------------------------------------------------------------------------------
// Unit memo_keys: ASSUMED specifications (trusted base A3 / A4) of what hash_content / get_canonical_path /
// get_parsed_ast touch outside the repo.  Every `assume_specification` / `axiom` below is an ASSUMPTION and is listed
// with its statement in the unit's report (H1..H4, P6, R2, A-parse).  The REAL std types are used
// (std::collections::hash_map::DefaultHasher, std::hash::{Hash, Hasher}); vstd itself specifies
// `DefaultHasher::new` (view == empty) and `DefaultHasher::finish` (== spec_finish(view)), view: Seq<Seq<u8>>.
// Needs prelude/path.rs (PV, pv, pbv) and prelude/memokeys_spec.rs (str_feed).
pub use std::collections::hash_map::DefaultHasher;
pub use std::hash::{Hash, Hasher};

/// everything written into a hasher (of any type) since it was created
pub uninterp spec fn hasher_fed<H>(h: H) -> Seq<Seq<u8>>;
/// the chunks `<usize as Hash>::hash` / `<[T] as Hash>::hash` write: functions of the value, left uninterpreted
pub uninterp spec fn usize_feed(n: usize) -> Seq<Seq<u8>>;
pub uninterp spec fn slice_feed<T>(b: Seq<T>) -> Seq<Seq<u8>>;
pub mod memokeys_ax {
    use super::*;
    /// H1 (naming only): for the std DefaultHasher, `hasher_fed` IS vstd's view of the hasher
    pub broadcast axiom fn axiom_default_hasher_fed(h: DefaultHasher)
        ensures #[trigger] hasher_fed::<DefaultHasher>(h) == h@;
}
pub use memokeys_ax::*;
pub mod memokeys_lemmas {
    use super::*;
    /// PROVED (no assumption): feeding a fresh hasher -- `empty + chunks` is `chunks`
    pub broadcast proof fn lemma_feed_fresh_hasher(s: Seq<Seq<u8>>)
        ensures #[trigger] (Seq::<Seq<u8>>::empty() + s) == s
    { assert(Seq::<Seq<u8>>::empty() + s =~= s); }
}
pub use memokeys_lemmas::*;
/// H2 `<str as Hash>::hash(s, state)`: appends the chunks of the text -- a function of the text alone -- to what the
/// hasher has seen, and does nothing else to it
pub assume_specification<H: Hasher>[ <str as Hash>::hash::<H> ](s: &str, st: &mut H)
    ensures hasher_fed(*final(st)) == hasher_fed(*old(st)) + str_feed(s@);
/// H3, H4: NOT used by /repo (only by regressions of hash_content that hash the length or byte slices; with these
/// two specifications Verus decides such variants instead of rejecting them as unsupported)
pub assume_specification<H: Hasher>[ <usize as Hash>::hash::<H> ](n: &usize, st: &mut H)
    ensures hasher_fed(*final(st)) == hasher_fed(*old(st)) + usize_feed(*n);
pub assume_specification<T: Hash, H: Hasher>[ <[T] as Hash>::hash::<H> ](b: &[T], st: &mut H)
    ensures hasher_fed(*final(st)) == hasher_fed(*old(st)) + slice_feed(b@);

// ---- std::path / core::result: MECHANICAL COPY of P6 and R2 of prelude/scansel_shims.rs --------------------------
/// P6 `Path::canonicalize` (A4: ONE file-system state): the canonical form when the path resolves, else an error
pub uninterp spec fn fs_canonical(p: PV) -> Option<PV>;
#[verifier::external_type_specification] #[verifier::external_body] pub struct ExIoError(std::io::Error);
pub assume_specification[ Path::canonicalize ](p: &Path) -> (r: Result<PathBuf, std::io::Error>)
    ensures match r { Ok(c) => fs_canonical(pv(p)) == Some(pbv(&c)), Err(_) => fs_canonical(pv(p)) is None };
/// R2 `r.unwrap_or_else(f)`: f is called (once) only on an error
pub assume_specification<T, E, F>[ Result::<T, E>::unwrap_or_else ](r: Result<T, E>, f: F) -> (o: T)
    where F: FnOnce(E) -> T + core::marker::Destruct
    requires r is Err ==> call_requires(f, (r->Err_0,)),
    ensures match r { Ok(t) => o == t, Err(e) => call_ensures(f, (e,), o) };

// ---- the parser (A-parse): MECHANICAL COPY of the specification in units/analyze.rs minus the A8 position clause ----
#[verifier::external_type_specification] pub struct ExMode(rustpython_parser::Mode);
#[verifier::external_type_specification] #[verifier::external_body] #[verifier::reject_recursive_types(T)] pub struct ExBaseError<T>(rustpython_parser_core::BaseError<T>);
#[verifier::external_type_specification] #[verifier::external_body] pub struct ExParseErrorType(rustpython_parser::ParseErrorType);
/// the parser IN MODE `Module` is a FUNCTION of the text (deterministic, no hidden state; the `source_path` argument
/// only labels error messages): Ok(ast_of(text)) iff parse_ok(text).  Nothing is said about the other modes.
pub uninterp spec fn parse_ok(src: Seq<char>) -> bool;
pub uninterp spec fn ast_of(src: Seq<char>) -> rustpython_parser::ast::Mod;
pub assume_specification[ rustpython_parser::parse ](source: &str, mode: rustpython_parser::Mode, source_path: &str) -> (r: Result<rustpython_parser::ast::Mod, rustpython_parser::ParseError>)
    ensures mode is Module ==> (match r { Ok(m) => parse_ok(source@) && m == ast_of(source@), Err(_) => !parse_ok(source@) });
