// ---------------------------------------------------------------------------------------------
// Unit uri_glue: vocabulary of the URI <-> path glue of src/providers/mod.rs (Backend::uri_to_path / path_to_uri) and
// the ASSUMED facts (U1..U3) about the pieces outside the repo it is built from.  Pure specification.
// Needs: PV / pv / pbv (prelude/path.rs), `fs_canonical` (prelude/fs_canonical_decl.rs or a P6 prelude), `canon_now`
// (prelude/memokeys_canon_spec.rs), `pv_is_abs` (prelude/uri_abs_decl.rs / modres_path.rs / scanvenv_fs.rs), the type
// ls_types::Uri with a type specification (prelude/uri_shims.rs or a build/lspspec*.rs).
//
// The two external conversions are UNINTERPRETED functions (URI syntax, percent-encoding are outside the model):
//   file_path_of(u)   what `Uri::to_file_path` answers for u      (ls-types 0.0.2 src/uri.rs:174; ignores the scheme)
//   uri_of_path(p)    what `Uri::from_file_path` answers for p    (ls-types 0.0.2 src/uri.rs:212)
// uri_of_path takes the COMPONENT view of the path (as every path in /verif does: it is the view PathBuf's Eq / Hash --
// hence the uri_cache key -- are defined on).  The real function reads the SPELLING (`to_string_lossy`): see U0 in
// prelude/uri_shims.rs for what that identification assumes.
pub uninterp spec fn file_path_of(u: Uri) -> Option<PV>;
pub uninterp spec fn uri_of_path(p: PV) -> Option<Uri>;

/// sequential view of Backend::uri_cache (Arc<DashMap<PathBuf, Uri>>): path components -> the URI remembered for them
pub type UriMap = Map<PV, Uri>;

/// OPERATIONAL specification of Backend::uri_to_path: the path the URI spells, resolved by the file system when it
/// resolves (`path.canonicalize().unwrap_or(path)` == canon_now, the reading of units memo_keys / cli_main), else as
/// spelled; None exactly when the URI has no path
pub open spec fn op_uri_to_path(u: Uri) -> Option<PV> {
    match file_path_of(u) { Some(p) => Some(canon_now(p)), None => None }
}
/// OPERATIONAL specification of Backend::path_to_uri on a target that is neither macOS nor Windows: the remembered URI
/// when the path (AS GIVEN: the lookup does not canonicalise) is a key of the cache -- the conversion is not even
/// attempted then --, else the URI built from the path as given
pub open spec fn op_path_to_uri(m: UriMap, p: PV) -> Option<Uri> {
    if m.contains_key(p) { Some(m[p]) } else { uri_of_path(p) }
}

/// "p is canonical": absolute, and the file system resolves it to itself -- or does not resolve it at all (a path that
/// does not exist stays as it is in uri_to_path)
pub open spec fn is_canon(p: PV) -> bool { pv_is_abs(p) && canon_now(p) == p }

/// INVARIANT of the cache (established by didOpen, kept by didClose; lemma_did_open_keeps_cache_invariant): every
/// remembered URI is one that uri_to_path maps to its key
pub open spec fn cache_inv(m: UriMap) -> bool {
    forall|p: PV| m.contains_key(p) ==> op_uri_to_path(#[trigger] m[p]) == Some(p)
}

// ---- ASSUMED (trusted base A3/A4): each axiom is a `proof fn` that has to be CALLED; no broadcast ---------------------
pub mod uri_ax {
    use super::*;
    /// U1 (round trip of the URL conversion, ls-types): for an ABSOLUTE path, reading back the URI that was built from it
    /// gives the path.  Why it is true of the crate: for an absolute path from_file_path is
    /// `"file://" + percent_encode(to_string_lossy(p))` (every byte outside [A-Za-z0-9-._~/] is encoded), to_file_path is
    /// `Path::new(percent_decode(uri.path()))`; decode . encode == id on UTF-8 text, and the PV model has only UTF-8
    /// paths (a non-UTF-8 path loses bytes in to_string_lossy: outside the model).  The crate's own test
    /// test_path_roundtrip_conversion states it.  NOT true for relative paths (from_file_path canonicalises those first).
    pub axiom fn axiom_U1_uri_round_trip(p: PV, u: Uri)
        requires pv_is_abs(p), uri_of_path(p) == Some(u),
        ensures file_path_of(u) == Some(p);
    /// U2 (std::fs::canonicalize / realpath(3), ONE file-system state A4): a canonical path resolves to itself
    pub axiom fn axiom_U2_canonical_is_fixpoint(p: PV, c: PV)
        requires fs_canonical(p) == Some(c),
        ensures fs_canonical(c) == Some(c);
    /// U3 (std::fs::canonicalize: "Returns the canonical, absolute form of a path")
    pub axiom fn axiom_U3_canonical_is_absolute(p: PV, c: PV)
        requires fs_canonical(p) == Some(c),
        ensures pv_is_abs(c);
}
pub use uri_ax::*;
