// ---------------------------------------------------------------------------------------------
// Unit server_init: inside the unit, `format!` IS this table (a `macro_rules! format` in textual scope shadows the std
// macro; the extracted code is not touched).  Only the three log messages of the spawned scan task use format!; their
// text is not part of any property: the helpers return an unconstrained String.  A format string that is not in the
// table does not compile (UNDECIDED, never green).  Must stand OUTSIDE `verus!` and before it.
#[allow(unused_macros)]
macro_rules! format {
    ("Scanning workspace: {:?}", $a:expr $(,)?) => { vp_fmt_msg(&$a) };
    ("Workspace scan failed: {:?}", $a:expr $(,)?) => { vp_fmt_msg(&$a) };
}
