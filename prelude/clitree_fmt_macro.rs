// ---------------------------------------------------------------------------------------------
// Unit cli_tree (CT2): inside the unit, `format!` IS this table (a `macro_rules! format` in textual scope shadows the
// std macro; the extracted code is not touched).  The table maps each format string of src/fixtures/cli.rs
// print_tree_node to the external_body helper of prelude/clitree_shims.rs whose body is that very `std::format!` call
// and whose contract states the result as a concatenation of what Display writes for the arguments.  A format string
// that is not in the table does not compile (UNDECIDED, never green).  Must stand OUTSIDE `verus!` and before it.
// (`println!` is not in a table: every println! of the three functions is replaced, token for token, by a stand-in
// that appends to the modelled standard output; a println! that is left over is rejected by Verus = UNDECIDED.)
#[allow(unused_macros)]
macro_rules! format {
    ("{}{}", $a:expr, $b:expr $(,)?) => { vp_fmt_cat(&$a, &$b) };
    ("{}, {}", $a:expr, $b:expr $(,)?) => { vp_fmt_comma(&$a, &$b) };
    ("{}", $a:expr $(,)?) => { vp_fmt_one(&$a) };
    ("used {} times", $a:expr $(,)?) => { vp_fmt_used(&$a) };
    ("{}/", $a:expr $(,)?) => { vp_fmt_dir(&$a) };
    ("{}/ (editable install)", $a:expr $(,)?) => { vp_fmt_dir_editable(&$a) };
}
