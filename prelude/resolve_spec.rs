// ---------------------------------------------------------------------------------------------
// Operational specification of fixture resolution (spec library, shared by the resolver units)

/// abstract: "file c (transitively) imports a fixture called `name`" — owned by the imports unit
pub uninterp spec fn imported_in(texts: Map<PV, String>, defs: Map<Seq<char>, Seq<DefV>>, name: Seq<char>, c: PV) -> bool;

pub open spec fn opt_dv(o: Option<FixtureDefinition>) -> Option<DefV> {
    match o { Some(d) => Some(dv(&d)), None => None }
}

/// a spec predicate describes what the exec filter closure computes
pub open spec fn consistent<F: Fn(&FixtureDefinition) -> bool>(f: F, fs: spec_fn(DefV) -> bool) -> bool {
    forall|d: &FixtureDefinition, b: bool| #[trigger] call_ensures(f, (d,), b) ==> b == fs(dv(d))
}

pub open spec fn fs_true() -> spec_fn(DefV) -> bool { |d: DefV| true }
pub open spec fn fs_excl(e: Option<DefV>) -> spec_fn(DefV) -> bool { |d: DefV| match e { Some(x) => d != x, None => true } }

pub open spec fn first_match(ds: Seq<DefV>, p: spec_fn(DefV) -> bool) -> Option<DefV>
    decreases ds.len()
{
    if ds.len() == 0 { None } else if p(ds[0]) { Some(ds[0]) } else { first_match(ds.drop_first(), p) }
}

/// the element `max_by_key(line)` picks among those satisfying p: the last one of maximal line
pub open spec fn best_same(ds: Seq<DefV>, p: spec_fn(DefV) -> bool) -> Option<DefV>
    decreases ds.len()
{
    if ds.len() == 0 { None } else {
        let rest = best_same(ds.drop_last(), p);
        let x = ds.last();
        if !p(x) { rest } else {
            match rest { None => Some(x), Some(y) => if x.line >= y.line { Some(x) } else { Some(y) } }
        }
    }
}

pub open spec fn p_same(file: PV, fs: spec_fn(DefV) -> bool) -> spec_fn(DefV) -> bool { |d: DefV| d.file == file && fs(d) }
pub open spec fn p_plugin(fs: spec_fn(DefV) -> bool) -> spec_fn(DefV) -> bool { |d: DefV| d.is_plugin && !d.is_third_party && fs(d) }
pub open spec fn p_third(fs: spec_fn(DefV) -> bool) -> spec_fn(DefV) -> bool { |d: DefV| d.is_third_party && fs(d) }
pub open spec fn conftest_of(dir: PV) -> PV { dir + seq![conftest_name()] }

/// the conftest walk from `dir` upwards
pub open spec fn walk(ds: Seq<DefV>, dir: PV, prov: spec_fn(PV) -> bool, fs: spec_fn(DefV) -> bool) -> Option<DefV>
    decreases dir.len()
{
    let c = conftest_of(dir);
    match first_match(ds, p_same(c, fs)) {
        Some(d) => Some(d),
        None => if prov(c) && first_match(ds, fs) is Some { first_match(ds, fs) }
                else if pv_has_parent(dir) && dir.len() > 0 { walk(ds, dir.drop_last(), prov, fs) }
                else { None },
    }
}

/// what find_closest_definition_with_filter computes (ds = definitions[name] in registration order)
pub open spec fn op_resolve(ds: Seq<DefV>, file: PV, prov: spec_fn(PV) -> bool, fs: spec_fn(DefV) -> bool) -> Option<DefV> {
    match best_same(ds, p_same(file, fs)) {
        Some(d) => Some(d),
        None => if !pv_has_parent(file) || file.len() == 0 { None } else {
            match walk(ds, file.drop_last(), prov, fs) {
                Some(d) => Some(d),
                None => match first_match(ds, p_plugin(fs)) {
                    Some(d) => Some(d),
                    None => first_match(ds, p_third(fs)),
                },
            }
        },
    }
}

// index characterisations used by the loop proofs
pub open spec fn none_match(ds: Seq<DefV>, p: spec_fn(DefV) -> bool) -> bool { forall|j: int| 0 <= j < ds.len() ==> !p(#[trigger] ds[j]) }
pub open spec fn is_first(ds: Seq<DefV>, p: spec_fn(DefV) -> bool, i: int) -> bool {
    0 <= i < ds.len() && p(ds[i]) && forall|j: int| 0 <= j < i ==> !p(#[trigger] ds[j])
}
pub open spec fn is_best(ds: Seq<DefV>, p: spec_fn(DefV) -> bool, i: int) -> bool {
    0 <= i < ds.len() && p(ds[i])
    && (forall|j: int| 0 <= j < ds.len() && p(#[trigger] ds[j]) ==> ds[j].line <= ds[i].line)
    && (forall|j: int| i < j < ds.len() && p(#[trigger] ds[j]) ==> ds[j].line < ds[i].line)
}

pub proof fn lemma_first_none(ds: Seq<DefV>, p: spec_fn(DefV) -> bool)
    requires none_match(ds, p) ensures first_match(ds, p) is None
    decreases ds.len()
{
    if ds.len() > 0 {
        assert(!p(ds[0]));
        assert forall|j: int| 0 <= j < ds.drop_first().len() implies !p(#[trigger] ds.drop_first()[j]) by { assert(ds.drop_first()[j] == ds[j + 1]); }
        lemma_first_none(ds.drop_first(), p);
    }
}
pub proof fn lemma_first_idx(ds: Seq<DefV>, p: spec_fn(DefV) -> bool, i: int)
    requires is_first(ds, p, i) ensures first_match(ds, p) == Some(ds[i])
    decreases ds.len()
{
    if i > 0 {
        assert(!p(ds[0]));
        assert forall|j: int| 0 <= j < i - 1 implies !p(#[trigger] ds.drop_first()[j]) by { assert(ds.drop_first()[j] == ds[j + 1]); }
        assert(ds.drop_first()[i - 1] == ds[i]);
        lemma_first_idx(ds.drop_first(), p, i - 1);
    }
}
pub proof fn lemma_best_none(ds: Seq<DefV>, p: spec_fn(DefV) -> bool)
    requires none_match(ds, p) ensures best_same(ds, p) is None
    decreases ds.len()
{
    if ds.len() > 0 {
        assert(!p(ds[ds.len() - 1]));
        assert forall|j: int| 0 <= j < ds.drop_last().len() implies !p(#[trigger] ds.drop_last()[j]) by { assert(ds.drop_last()[j] == ds[j]); }
        lemma_best_none(ds.drop_last(), p);
    }
}
/// best_same returns an element satisfying p of maximal line, and every later p-element is strictly smaller
pub proof fn lemma_best_props(ds: Seq<DefV>, p: spec_fn(DefV) -> bool)
    ensures match best_same(ds, p) {
        None => none_match(ds, p),
        Some(b) => exists|i: int| is_best(ds, p, i) && ds[i] == b,
    }
    decreases ds.len()
{
    if ds.len() > 0 {
        let t = ds.drop_last();
        lemma_best_props(t, p);
        let x = ds.last();
        assert forall|j: int| 0 <= j < t.len() implies t[j] == ds[j] by {}
        match best_same(t, p) {
            None => {
                if p(x) { assert(is_best(ds, p, ds.len() - 1)); }
                else { assert forall|j: int| 0 <= j < ds.len() implies !p(#[trigger] ds[j]) by { if j < t.len() { assert(t[j] == ds[j]); } } }
            }
            Some(y) => {
                let i = choose|i: int| is_best(t, p, i) && t[i] == y;
                if p(x) && x.line >= y.line {
                    assert forall|j: int| 0 <= j < ds.len() && p(#[trigger] ds[j]) implies ds[j].line <= x.line by { if j < t.len() { assert(t[j] == ds[j]); } }
                    assert(is_best(ds, p, ds.len() - 1));
                } else {
                    assert forall|j: int| 0 <= j < ds.len() && p(#[trigger] ds[j]) implies ds[j].line <= ds[i].line by { if j < t.len() { assert(t[j] == ds[j]); } }
                    assert forall|j: int| i < j < ds.len() && p(#[trigger] ds[j]) implies ds[j].line < ds[i].line by { if j < t.len() { assert(t[j] == ds[j]); } }
                    assert(is_best(ds, p, i));
                }
            }
        }
    }
}
pub proof fn lemma_best_idx(ds: Seq<DefV>, p: spec_fn(DefV) -> bool, i: int)
    requires is_best(ds, p, i) ensures best_same(ds, p) == Some(ds[i])
{
    lemma_best_props(ds, p);
    match best_same(ds, p) {
        None => { assert(!p(ds[i])); }
        Some(b) => {
            let k = choose|k: int| is_best(ds, p, k) && ds[k] == b;
            if k < i { assert(ds[i].line < ds[k].line); assert(ds[k].line <= ds[i].line); }
            if i < k { assert(ds[k].line < ds[i].line); assert(ds[i].line <= ds[k].line); }
        }
    }
}

pub proof fn lemma_walk_empty(dir: PV, prov: spec_fn(PV) -> bool, fs: spec_fn(DefV) -> bool)
    ensures walk(Seq::<DefV>::empty(), dir, prov, fs) is None
    decreases dir.len()
{
    if pv_has_parent(dir) && dir.len() > 0 { lemma_walk_empty(dir.drop_last(), prov, fs); }
}
pub proof fn lemma_resolve_empty()
    ensures forall|file: PV, prov: spec_fn(PV) -> bool, fs: spec_fn(DefV) -> bool|
        #[trigger] op_resolve(Seq::<DefV>::empty(), file, prov, fs) is None
{
    assert forall|file: PV, prov: spec_fn(PV) -> bool, fs: spec_fn(DefV) -> bool|
        #[trigger] op_resolve(Seq::<DefV>::empty(), file, prov, fs) is None by {
        lemma_walk_empty(file.drop_last(), prov, fs);
    }
}

/// postcondition of the resolver for one spec predicate fs describing the filter
pub open spec fn resolve_post(r: Option<FixtureDefinition>, ds: Seq<DefV>, file: PV, prov: spec_fn(PV) -> bool, fs: spec_fn(DefV) -> bool) -> bool {
    opt_dv(r) == op_resolve(ds, file, prov, fs)
}

pub open spec fn opt_ref_dv(o: Option<&FixtureDefinition>) -> Option<DefV> { match o { Some(d) => Some(dv(d)), None => None } }
