// ---------------------------------------------------------------------------------------------
// Operational specification of analyze_file_internal.  The AST visitors are abstract (assumption A7): the
// effect of visit_stmt on the index is a sequence of record_fixture_definition / record_fixture_usage
// calls for the analysed file, determined by (statement, file, text) — vdefs / vuses below.
pub type Stmt0 = rustpython_parser::ast::Stmt;
pub type Mod0 = rustpython_parser::ast::Mod;

pub uninterp spec fn parse_ok(src: Seq<char>) -> bool;
pub uninterp spec fn ast_of(src: Seq<char>) -> Mod0;
/// definitions / usages the visitors record for one top-level statement of `file` with text `src`: the operational
/// specification of visit_stmt (prelude/visit_spec.rs, PROVED for the real visitors in unit visit) at the line index
/// of the text
pub open spec fn vdefs(stmt: Stmt0, file: PV, src: Seq<char>) -> Seq<DefV> { visit_defs(stmt, file, src, src_line_index(src)) }
pub open spec fn vuses(stmt: Stmt0, file: PV, src: Seq<char>) -> Seq<UseV> { visit_uses(stmt, file, src, src_line_index(src)) }
/// precondition of visit_stmt for every top-level statement (A8: the string literals of decorator marks end at a
/// column >= 1 of the line index of the text they were parsed from -- a fact about the parser's ranges)
pub open spec fn module_pre(body: Seq<Stmt0>, li: Seq<usize>) -> bool {
    forall|i: int| 0 <= i < body.len() ==> visit_pre(#[trigger] body[i], li)
}
pub proof fn lemma_stmts_vdefs_len_mono(body: Seq<Stmt0>, i: int, file: PV, src: Seq<char>)
    requires 0 <= i <= body.len(),
    ensures stmts_vdefs(body.take(i), file, src).len() <= stmts_vdefs(body, file, src).len(),
    decreases body.len() - i
{
    if i < body.len() {
        lemma_stmts_vdefs_len_mono(body, i + 1, file, src);
        let t1 = body.take(i + 1);
        assert(t1.drop_last() =~= body.take(i));
    } else {
        assert(body.take(i) =~= body);
    }
}

pub open spec fn body_of(m: Mod0) -> Seq<Stmt0> {
    match m { rustpython_parser::ast::Mod::Module(mm) => mm.body@, _ => Seq::<Stmt0>::empty() }
}
pub open spec fn stmts_vdefs(body: Seq<Stmt0>, file: PV, src: Seq<char>) -> Seq<DefV>
    decreases body.len()
{
    if body.len() == 0 { Seq::<DefV>::empty() } else { stmts_vdefs(body.drop_last(), file, src) + vdefs(body.last(), file, src) }
}
pub open spec fn stmts_vuses(body: Seq<Stmt0>, file: PV, src: Seq<char>) -> Seq<UseV>
    decreases body.len()
{
    if body.len() == 0 { Seq::<UseV>::empty() } else { stmts_vuses(body.drop_last(), file, src) + vuses(body.last(), file, src) }
}

/// effect of a sequence of record_fixture_definition calls
pub open spec fn push_defs(defs: Map<Seq<char>, Seq<DefV>>, ds: Seq<DefV>) -> Map<Seq<char>, Seq<DefV>>
    decreases ds.len()
{
    if ds.len() == 0 { defs } else {
        let m = push_defs(defs, ds.drop_last());
        m.insert(ds.last().name, bucket(m, ds.last().name).push(ds.last()))
    }
}
pub open spec fn add_fdefs(fdefs: Map<PV, Set<Seq<char>>>, ds: Seq<DefV>) -> Map<PV, Set<Seq<char>>>
    decreases ds.len()
{
    if ds.len() == 0 { fdefs } else {
        let m = add_fdefs(fdefs, ds.drop_last());
        m.insert(ds.last().file, sbucket(m, ds.last().file).insert(ds.last().name))
    }
}
/// effect of a sequence of record_fixture_usage calls
pub open spec fn push_uses(uses: Map<PV, Seq<UseV>>, us: Seq<UseV>) -> Map<PV, Seq<UseV>>
    decreases us.len()
{
    if us.len() == 0 { uses } else {
        let m = push_uses(uses, us.drop_last());
        m.insert(us.last().file, bucket(m, us.last().file).push(us.last()))
    }
}
pub open spec fn push_byfix(byfix: Map<Seq<char>, Seq<(PV, UseV)>>, us: Seq<UseV>) -> Map<Seq<char>, Seq<(PV, UseV)>>
    decreases us.len()
{
    if us.len() == 0 { byfix } else {
        let m = push_byfix(byfix, us.drop_last());
        m.insert(us.last().name, bucket(m, us.last().name).push((us.last().file, us.last())))
    }
}

pub proof fn lemma_push_defs_concat(m: Map<Seq<char>, Seq<DefV>>, a: Seq<DefV>, b: Seq<DefV>)
    ensures push_defs(push_defs(m, a), b) == push_defs(m, a + b)
    decreases b.len()
{
    if b.len() == 0 { assert(a + b =~= a); }
    else { lemma_push_defs_concat(m, a, b.drop_last()); assert((a + b).drop_last() =~= a + b.drop_last()); assert((a + b).last() == b.last()); }
}
pub proof fn lemma_add_fdefs_concat(m: Map<PV, Set<Seq<char>>>, a: Seq<DefV>, b: Seq<DefV>)
    ensures add_fdefs(add_fdefs(m, a), b) == add_fdefs(m, a + b)
    decreases b.len()
{
    if b.len() == 0 { assert(a + b =~= a); }
    else { lemma_add_fdefs_concat(m, a, b.drop_last()); assert((a + b).drop_last() =~= a + b.drop_last()); assert((a + b).last() == b.last()); }
}
pub proof fn lemma_push_uses_concat(m: Map<PV, Seq<UseV>>, a: Seq<UseV>, b: Seq<UseV>)
    ensures push_uses(push_uses(m, a), b) == push_uses(m, a + b)
    decreases b.len()
{
    if b.len() == 0 { assert(a + b =~= a); }
    else { lemma_push_uses_concat(m, a, b.drop_last()); assert((a + b).drop_last() =~= a + b.drop_last()); assert((a + b).last() == b.last()); }
}
pub proof fn lemma_push_byfix_concat(m: Map<Seq<char>, Seq<(PV, UseV)>>, a: Seq<UseV>, b: Seq<UseV>)
    ensures push_byfix(push_byfix(m, a), b) == push_byfix(m, a + b)
    decreases b.len()
{
    if b.len() == 0 { assert(a + b =~= a); }
    else { lemma_push_byfix_concat(m, a, b.drop_last()); assert((a + b).drop_last() =~= a + b.drop_last()); assert((a + b).last() == b.last()); }
}
