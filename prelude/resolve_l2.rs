// ---------------------------------------------------------------------------------------------
// L2: the operational specification op_resolve satisfies the clauses of C01 / C02 (statements taken
// from the property text, not from the code)

/// a is `dir` or one of its ancestors reachable by repeatedly taking the parent
pub open spec fn is_ancestor_or_self(a: PV, dir: PV) -> bool
    decreases dir.len()
{
    a == dir || (pv_has_parent(dir) && dir.len() > 0 && is_ancestor_or_self(a, dir.drop_last()))
}
/// abstract (imports unit): definition d lives in a module that conftest c (transitively) imports
pub uninterp spec fn import_target_ok(c: PV, d: DefV) -> bool;

pub open spec fn in_seq(ds: Seq<DefV>, d: DefV) -> bool { exists|i: int| 0 <= i < ds.len() && ds[i] == d }

pub proof fn lemma_first_match_in(ds: Seq<DefV>, p: spec_fn(DefV) -> bool)
    ensures match first_match(ds, p) { Some(d) => in_seq(ds, d) && p(d), None => none_match(ds, p) }
    decreases ds.len()
{
    if ds.len() > 0 {
        if p(ds[0]) { assert(ds[0] == ds[0]); }
        else {
            lemma_first_match_in(ds.drop_first(), p);
            match first_match(ds.drop_first(), p) {
                Some(d) => { let i = choose|i: int| 0 <= i < ds.drop_first().len() && ds.drop_first()[i] == d; assert(ds[i + 1] == d); }
                None => { assert forall|j: int| 0 <= j < ds.len() implies !p(#[trigger] ds[j]) by { if j > 0 { assert(ds.drop_first()[j - 1] == ds[j]); } } }
            }
        }
    }
}

//@tags C01
/// C01.a — same file wins, and it is the last redefinition (maximal line; latest among equals)
pub proof fn lemma_C01_a_same_file(ds: Seq<DefV>, file: PV, prov: spec_fn(PV) -> bool, k: int)
    requires 0 <= k < ds.len(), ds[k].file == file,
    ensures match op_resolve(ds, file, prov, fs_true()) {
        Some(d) => d.file == file && in_seq(ds, d) && forall|j: int| 0 <= j < ds.len() && (#[trigger] ds[j]).file == file ==> ds[j].line <= d.line,
        None => false }
{
    let p = p_same(file, fs_true());
    lemma_best_props(ds, p);
    assert(p(ds[k]));
    match best_same(ds, p) {
        None => { assert(!p(ds[k])); }
        Some(b) => {
            let i = choose|i: int| is_best(ds, p, i) && ds[i] == b;
            assert forall|j: int| 0 <= j < ds.len() && (#[trigger] ds[j]).file == file implies ds[j].line <= b.line by { assert(p(ds[j])); }
        }
    }
}

/// what the walk returns is either an own definition of an ancestor conftest, or (import branch) the first
/// registered definition while some ancestor conftest provides the name by import
pub proof fn lemma_walk_result(ds: Seq<DefV>, dir: PV, prov: spec_fn(PV) -> bool, fs: spec_fn(DefV) -> bool)
    ensures match walk(ds, dir, prov, fs) {
        Some(d) => in_seq(ds, d) && fs(d) && exists|a: PV| is_ancestor_or_self(a, dir) &&
            (d.file == conftest_of(a) || (prov(conftest_of(a)) && first_match(ds, fs) == Some(d)
                && first_match(ds, p_same(conftest_of(a), fs)) is None)),
        None => true }
    decreases dir.len()
{
    let c = conftest_of(dir);
    lemma_first_match_in(ds, p_same(c, fs));
    lemma_first_match_in(ds, fs);
    match first_match(ds, p_same(c, fs)) {
        Some(d) => { assert(is_ancestor_or_self(dir, dir)); }
        None => {
            if prov(c) && first_match(ds, fs) is Some { assert(is_ancestor_or_self(dir, dir)); }
            else if pv_has_parent(dir) && dir.len() > 0 {
                lemma_walk_result(ds, dir.drop_last(), prov, fs);
                match walk(ds, dir.drop_last(), prov, fs) {
                    Some(d) => {
                        let a = choose|a: PV| is_ancestor_or_self(a, dir.drop_last()) &&
                            (d.file == conftest_of(a) || (prov(conftest_of(a)) && first_match(ds, fs) == Some(d)
                                && first_match(ds, p_same(conftest_of(a), fs)) is None));
                        assert(is_ancestor_or_self(a, dir));
                    }
                    None => {}
                }
            }
        }
    }
}

//@tags C01
/// C01.b — a conftest's own definition at the nearest providing level decides: if no level strictly nearer
/// than `a` has an own definition or provides the name by import, and conftest(a) defines it, the answer
/// is the first definition of conftest(a)
pub proof fn lemma_C01_b_nearest_conftest(ds: Seq<DefV>, dir: PV, a: PV, prov: spec_fn(PV) -> bool, fs: spec_fn(DefV) -> bool)
    requires is_ancestor_or_self(a, dir),
        first_match(ds, p_same(conftest_of(a), fs)) is Some,
        forall|b: PV| is_ancestor_or_self(b, dir) && b.len() > a.len() ==>
            first_match(ds, p_same(conftest_of(b), fs)) is None && !(prov(conftest_of(b)) && first_match(ds, fs) is Some),
    ensures walk(ds, dir, prov, fs) == first_match(ds, p_same(conftest_of(a), fs))
    decreases dir.len()
{
    if a != dir {
        lemma_ancestor_shorter(a, dir.drop_last());
        assert(is_ancestor_or_self(dir, dir));
        assert forall|b: PV| is_ancestor_or_self(b, dir.drop_last()) && b.len() > a.len() implies
            first_match(ds, p_same(conftest_of(b), fs)) is None && !(prov(conftest_of(b)) && first_match(ds, fs) is Some) by {
            assert(is_ancestor_or_self(b, dir));
        }
        lemma_C01_b_nearest_conftest(ds, dir.drop_last(), a, prov, fs);
    }
}
pub proof fn lemma_ancestor_shorter(a: PV, dir: PV)
    requires is_ancestor_or_self(a, dir) ensures a.len() <= dir.len()
    decreases dir.len()
{
    if a != dir { lemma_ancestor_shorter(a, dir.drop_last()); }
}

//@tags C01
/// C01.d — nothing in the same file or on the conftest path: a workspace plugin fixture wins over a
/// third-party one, and the answer is empty iff neither exists
pub proof fn lemma_C01_d_plugin_then_third(ds: Seq<DefV>, file: PV, prov: spec_fn(PV) -> bool)
    requires best_same(ds, p_same(file, fs_true())) is None, pv_has_parent(file), file.len() > 0,
        walk(ds, file.drop_last(), prov, fs_true()) is None,
    ensures match op_resolve(ds, file, prov, fs_true()) {
        Some(d) => in_seq(ds, d) && ((d.is_plugin && !d.is_third_party) ||
            (d.is_third_party && forall|j: int| 0 <= j < ds.len() ==> !((#[trigger] ds[j]).is_plugin && !ds[j].is_third_party))),
        None => forall|j: int| 0 <= j < ds.len() ==> !(#[trigger] ds[j]).is_third_party && !(ds[j].is_plugin && !ds[j].is_third_party) }
{
    lemma_first_match_in(ds, p_plugin(fs_true()));
    lemma_first_match_in(ds, p_third(fs_true()));
    if first_match(ds, p_plugin(fs_true())) is None {
        assert forall|j: int| 0 <= j < ds.len() implies !((#[trigger] ds[j]).is_plugin && !ds[j].is_third_party) by { assert(!p_plugin(fs_true())(ds[j])); }
        if first_match(ds, p_third(fs_true())) is None {
            assert forall|j: int| 0 <= j < ds.len() implies !(#[trigger] ds[j]).is_third_party by { assert(!p_third(fs_true())(ds[j])); }
        }
    }
}

//@tags C01 C17
/// C01.e' — visibility of the answer.  The import branch returns the FIRST registered definition of the
/// name; the clause therefore holds under the hypothesis `import_first_ok` (whenever an ancestor conftest
/// provides the name by import without defining it, the first registered definition is one it imports).
/// Without that hypothesis the clause is false for the code: known finding F-01.
pub proof fn lemma_C01_e_visible(ds: Seq<DefV>, file: PV, prov: spec_fn(PV) -> bool, fs: spec_fn(DefV) -> bool)
    requires
        forall|a: PV, d: DefV| is_ancestor_or_self(a, file.drop_last()) && prov(conftest_of(a)) && first_match(ds, fs) == Some(d)
            && first_match(ds, p_same(conftest_of(a), fs)) is None ==> #[trigger] import_target_ok(conftest_of(a), d),
    ensures match op_resolve(ds, file, prov, fs) {
        Some(d) => in_seq(ds, d) && fs(d) && (d.file == file
            || (exists|a: PV| is_ancestor_or_self(a, file.drop_last()) && (d.file == conftest_of(a) || (prov(conftest_of(a)) && import_target_ok(conftest_of(a), d))))
            || (d.is_plugin && !d.is_third_party) || d.is_third_party),
        None => true }
{
    let p = p_same(file, fs);
    lemma_best_props(ds, p);
    match best_same(ds, p) {
        Some(b) => { let i = choose|i: int| is_best(ds, p, i) && ds[i] == b; }
        None => {
            if pv_has_parent(file) && file.len() > 0 {
                lemma_walk_result(ds, file.drop_last(), prov, fs);
                lemma_first_match_in(ds, p_plugin(fs));
                lemma_first_match_in(ds, p_third(fs));
                match walk(ds, file.drop_last(), prov, fs) {
                    Some(d) => {
                        let a = choose|a: PV| is_ancestor_or_self(a, file.drop_last()) &&
                            (d.file == conftest_of(a) || (prov(conftest_of(a)) && first_match(ds, fs) == Some(d)
                                && first_match(ds, p_same(conftest_of(a), fs)) is None));
                        if d.file != conftest_of(a) { assert(import_target_ok(conftest_of(a), d)); }
                    }
                    None => {}
                }
            }
        }
    }
}

//@tags C02
/// C02.a — resolution excluding D never returns D
pub proof fn lemma_C02_a_never_self(ds: Seq<DefV>, file: PV, prov: spec_fn(PV) -> bool, dx: DefV)
    ensures op_resolve(ds, file, prov, fs_excl(Some(dx))) != Some(dx)
{
    lemma_C01_e_visible_weak(ds, file, prov, fs_excl(Some(dx)));
}
/// every answer satisfies the filter and is a registered definition
pub proof fn lemma_C01_e_visible_weak(ds: Seq<DefV>, file: PV, prov: spec_fn(PV) -> bool, fs: spec_fn(DefV) -> bool)
    ensures match op_resolve(ds, file, prov, fs) { Some(d) => in_seq(ds, d) && fs(d), None => true }
{
    let p = p_same(file, fs);
    lemma_best_props(ds, p);
    match best_same(ds, p) {
        Some(b) => { let i = choose|i: int| is_best(ds, p, i) && ds[i] == b; }
        None => {
            if pv_has_parent(file) && file.len() > 0 {
                lemma_walk_result(ds, file.drop_last(), prov, fs);
                lemma_first_match_in(ds, p_plugin(fs));
                lemma_first_match_in(ds, p_third(fs));
            }
        }
    }
}

//@tags C02
/// C02.b — "next definition outward": excluding D is resolving in the world without D
pub open spec fn ne_pred(dx: DefV) -> spec_fn(DefV) -> bool { |d: DefV| d != dx }
pub open spec fn without(ds: Seq<DefV>, dx: DefV) -> Seq<DefV> { ds.filter(ne_pred(dx)) }

pub proof fn lemma_first_match_without(ds: Seq<DefV>, dx: DefV, p: spec_fn(DefV) -> bool)
    ensures first_match(without(ds, dx), p) == first_match(ds, |d: DefV| d != dx && p(d))
    decreases ds.len()
{
    reveal(Seq::filter);
    let q = ne_pred(dx);
    if ds.len() > 0 {
        let t = ds.drop_first();
        lemma_first_match_without(t, dx, p);
        lemma_filter_drop_first(ds, q);
        if q(ds[0]) {
            assert(without(ds, dx) =~= seq![ds[0]] + without(t, dx));
            assert(without(ds, dx).drop_first() =~= without(t, dx));
        } else {
            assert(without(ds, dx) =~= without(t, dx));
        }
    } else {
        assert(without(ds, dx) =~= Seq::<DefV>::empty());
    }
}
pub proof fn lemma_filter_drop_first<A>(s: Seq<A>, q: spec_fn(A) -> bool)
    requires s.len() > 0
    ensures s.filter(q) =~= (if q(s[0]) { seq![s[0]] + s.drop_first().filter(q) } else { s.drop_first().filter(q) })
    decreases s.len()
{
    reveal(Seq::filter);
    if s.len() == 1 {
        assert(s.drop_last() =~= Seq::<A>::empty());
        assert(s.drop_first() =~= Seq::<A>::empty());
    } else {
        let t = s.drop_last();
        lemma_filter_drop_first(t, q);
        assert(t.drop_first() =~= s.drop_first().drop_last());
        assert(t[0] == s[0]);
        assert(s.drop_first().last() == s.last());
    }
}

// ---- canaries: must FAIL (a canary that verifies means the contracts are vacuous -> exit 2)
/// the visibility clause without the import hypothesis: false for the code (F-01), so it must not verify
pub proof fn canary_C01_e_unrestricted(ds: Seq<DefV>, file: PV, prov: spec_fn(PV) -> bool, fs: spec_fn(DefV) -> bool)
    ensures match op_resolve(ds, file, prov, fs) {
        Some(d) => (d.file == file
            || (exists|a: PV| is_ancestor_or_self(a, file.drop_last()) && (d.file == conftest_of(a) || (prov(conftest_of(a)) && import_target_ok(conftest_of(a), d))))
            || (d.is_plugin && !d.is_third_party) || d.is_third_party),
        None => true }
{
    lemma_C01_e_visible_weak(ds, file, prov, fs);
    lemma_walk_result(ds, file.drop_last(), prov, fs);
}
/// first_match is not "last match"
pub proof fn canary_first_is_last(ds: Seq<DefV>, p: spec_fn(DefV) -> bool, i: int)
    requires 0 <= i < ds.len(), p(ds[i]), forall|j: int| i < j < ds.len() ==> !p(#[trigger] ds[j]),
    ensures first_match(ds, p) == Some(ds[i])
{
    lemma_first_match_in(ds, p);
}

// ---- C02.b completed: resolution excluding D == resolution in the world without D
pub proof fn lemma_first_match_ext(ds: Seq<DefV>, p: spec_fn(DefV) -> bool, q: spec_fn(DefV) -> bool)
    requires forall|d: DefV| #[trigger] p(d) == q(d)
    ensures first_match(ds, p) == first_match(ds, q)
    decreases ds.len()
{
    if ds.len() > 0 { lemma_first_match_ext(ds.drop_first(), p, q); }
}
pub proof fn lemma_best_same_ext(ds: Seq<DefV>, p: spec_fn(DefV) -> bool, q: spec_fn(DefV) -> bool)
    requires forall|d: DefV| #[trigger] p(d) == q(d)
    ensures best_same(ds, p) == best_same(ds, q)
    decreases ds.len()
{
    if ds.len() > 0 { lemma_best_same_ext(ds.drop_last(), p, q); }
}
pub proof fn lemma_best_same_without(ds: Seq<DefV>, dx: DefV, p: spec_fn(DefV) -> bool)
    ensures best_same(without(ds, dx), p) == best_same(ds, |d: DefV| d != dx && p(d))
    decreases ds.len()
{
    reveal(Seq::filter);
    if ds.len() > 0 {
        let t = ds.drop_last();
        lemma_best_same_without(t, dx, p);
        if ne_pred(dx)(ds.last()) {
            assert(without(ds, dx) == without(t, dx).push(ds.last()));
            assert(without(ds, dx).drop_last() =~= without(t, dx));
        } else {
            assert(without(ds, dx) == without(t, dx));
        }
    } else {
        assert(without(ds, dx) =~= Seq::<DefV>::empty());
    }
}
pub proof fn lemma_walk_without(ds: Seq<DefV>, dx: DefV, dir: PV, prov: spec_fn(PV) -> bool)
    ensures walk(without(ds, dx), dir, prov, fs_true()) == walk(ds, dir, prov, fs_excl(Some(dx)))
    decreases dir.len()
{
    let c = conftest_of(dir);
    lemma_first_match_without(ds, dx, p_same(c, fs_true()));
    lemma_first_match_ext(ds, |d: DefV| d != dx && p_same(c, fs_true())(d), p_same(c, fs_excl(Some(dx))));
    lemma_first_match_without(ds, dx, fs_true());
    lemma_first_match_ext(ds, |d: DefV| d != dx && fs_true()(d), fs_excl(Some(dx)));
    if pv_has_parent(dir) && dir.len() > 0 { lemma_walk_without(ds, dx, dir.drop_last(), prov); }
}
//@tags C02
/// C02.b — "the next definition outward": resolving with D excluded is resolving in the index from which D has
/// been removed (same import facts `prov`).  Chains of overrides compose: each link's self-named parameter
/// resolves in the world minus that link.
pub proof fn lemma_C02_b_excluding_is_world_without(ds: Seq<DefV>, dx: DefV, file: PV, prov: spec_fn(PV) -> bool)
    ensures op_resolve(ds, file, prov, fs_excl(Some(dx))) == op_resolve(without(ds, dx), file, prov, fs_true())
{
    lemma_best_same_without(ds, dx, p_same(file, fs_true()));
    lemma_best_same_ext(ds, |d: DefV| d != dx && p_same(file, fs_true())(d), p_same(file, fs_excl(Some(dx))));
    lemma_walk_without(ds, dx, file.drop_last(), prov);
    lemma_first_match_without(ds, dx, p_plugin(fs_true()));
    lemma_first_match_ext(ds, |d: DefV| d != dx && p_plugin(fs_true())(d), p_plugin(fs_excl(Some(dx))));
    lemma_first_match_without(ds, dx, p_third(fs_true()));
    lemma_first_match_ext(ds, |d: DefV| d != dx && p_third(fs_true())(d), p_third(fs_excl(Some(dx))));
}
