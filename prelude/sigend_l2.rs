// ---------------------------------------------------------------------------------------------
// Unit sig_end, L2: what op_sig_end (prelude/sigend_spec.rs, PROVED equal to the real find_signature_end_line) gives the
// properties that speak about "signature" and "body":
//   C18  "completion returns fixture names when, and only when, the cursor is inside the signature or body of a test or
//        fixture function ..."  -- get_func_context answers FunctionSignature iff target_line <= sig end, else FunctionBody
//   C17  "the code action / completion edit that inserts a parameter must land inside the function's own parentheses"
//        -- FunctionBody items carry the auto-add edit (create_fixture_completions_with_auto_add), FunctionSignature items do not
// All lemmas are over sig_end_of(fsl, lsl, fbl, ls): fsl = line of the `def`, lsl = line of the last signature element's end,
// fbl = line of the first body statement, ls = the text's lines; lines are 1-based, ls is 0-based.  What a real AST guarantees
// about these numbers (fsl <= lsl <= fbl, ...) is NOT modelled: it appears as explicit hypotheses.
// Where the code departs from what the properties need the lemma is called lemma_C18_FINDING_* / lemma_C17_FINDING_* and
// states the ACTUAL behaviour (replay scenarios: replay/proposed/sigend_*.json).

/// get_func_context: `in_signature = target_line <= sig_end_line`
pub open spec fn in_signature_v(tl: int, r: int) -> bool { tl <= r }
/// the scanned window, in 1-based lines: lsl ..= min(max(fbl - 1, lsl), lsl + 10, number of lines)  (at most 11 lines; the
/// first body line is inside it only when it is the last signature line itself)
pub open spec fn in_window(lsl: int, fbl: Option<int>, n: int, l: int) -> bool {
    lsl <= l && l <= lsl + 10 && l <= n && (fbl is Some ==> l <= imax(fbl->0 - 1, lsl))
}
pub proof fn lemma_window(lsl: int, fbl: Option<int>, n: int, l: int)
    requires 1 <= lsl,
    ensures in_window(lsl, fbl, n, l) == (scan_lo(lsl) <= l - 1 < scan_hi(lsl, fbl, n)),
{ }

/// the result, case by case (everything below follows from this)
pub proof fn lemma_sig_end_cases(fsl: int, lsl: int, fbl: Option<int>, ls: Seq<Seq<char>>)
    requires 1 <= lsl,
    ensures ({
        let r = sig_end_of(fsl, lsl, fbl, ls);
        let n = ls.len() as int;
        ||| (in_window(lsl, fbl, n, r) && ends_colon(ls[r - 1])
             && forall|l: int| lsl <= l < r ==> !ends_colon(#[trigger] ls[l - 1]))
        ||| ((forall|l: int| in_window(lsl, fbl, n, l) ==> !ends_colon(#[trigger] ls[l - 1]))
             && r == (match fbl { Some(b) => imax(sat_sub1(b), fsl), None => fsl }))
    }),
{
    let n = ls.len() as int;
    let lo = scan_lo(lsl);
    let hi = scan_hi(lsl, fbl, n);
    lemma_first_colon(ls, lo, hi);
    match first_colon(ls, lo, hi) {
        Some(i) => {
            assert forall|l: int| lsl <= l < i + 1 implies !ends_colon(#[trigger] ls[l - 1]) by { let j = l - 1; assert(!ends_colon(ls[j])); }
        }
        None => {
            assert forall|l: int| in_window(lsl, fbl, n, l) implies !ends_colon(#[trigger] ls[l - 1]) by { let j = l - 1; assert(!ends_colon(ls[j])); }
        }
    }
}

// ---- C18: where the boundary lies ------------------------------------------------------------------------------------------
/// C18: the `def` line itself is always "signature" (the boundary is never above the def line), given that the last
/// signature element does not end above the def line; and never above the last signature element when a ':' line is found
//@tags C18
pub proof fn lemma_C18_sig_end_not_before_def_line(fsl: int, lsl: int, fbl: Option<int>, ls: Seq<Seq<char>>)
    requires 1 <= fsl <= lsl,
    ensures sig_end_of(fsl, lsl, fbl, ls) >= fsl,
        first_colon(ls, scan_lo(lsl), scan_hi(lsl, fbl, ls.len() as int)) is Some ==> sig_end_of(fsl, lsl, fbl, ls) >= lsl,
{
    lemma_sig_end_cases(fsl, lsl, fbl, ls);
    lemma_first_colon(ls, scan_lo(lsl), scan_hi(lsl, fbl, ls.len() as int));
}
/// C18: the boundary is never BELOW the line on which the first body statement starts (lines after it are never
/// "signature"), given that neither the def line nor the last signature element lies below it
//@tags C18
pub proof fn lemma_C18_sig_end_not_after_first_body_line(fsl: int, lsl: int, b: int, ls: Seq<Seq<char>>)
    requires 1 <= lsl <= b, 1 <= fsl <= b,
    ensures sig_end_of(fsl, lsl, Some(b), ls) <= b,
{
    lemma_sig_end_cases(fsl, lsl, Some(b), ls);
}
/// C18 (after the repair d88f322; was lemma_C18_FINDING_first_body_line_is_scanned): when the body starts on a LATER line
/// than the last signature element, the first body line is outside the window and the boundary lies strictly above it,
/// whatever that line looks like (`with a:`, `"""Usage:` ...): the cursor on the first body line is NOT "signature"
//@tags C18 C17
pub proof fn lemma_C18_first_body_line_is_body(fsl: int, lsl: int, b: int, ls: Seq<Seq<char>>)
    requires 1 <= fsl <= lsl < b,
    ensures !in_window(lsl, Some(b), ls.len() as int, b),
        sig_end_of(fsl, lsl, Some(b), ls) < b,
        !in_signature_v(b, sig_end_of(fsl, lsl, Some(b), ls)),
{
    lemma_sig_end_cases(fsl, lsl, Some(b), ls);
}
/// C18 / C17 (the same through get_func_context, once completion_ctx's `sig_end_line` IS op_sig_end): for a test / fixture
/// whose last signature element ends on or below the def line and above the first body statement, the cursor on the first
/// body line gets FunctionBody (the item carries the auto-add edit)
//@tags C18 C17
pub proof fn lemma_C18_cursor_on_first_body_line_gets_body_context(name: Identifier, decos: Seq<Expr>, args: CArguments, returns: Option<Box<Expr>>,
        body: Seq<Stmt>, range: TextRange, content: Seq<char>, tl: usize, li: Seq<usize>)
    requires ({ let s = lno(li, tsv(tr_start(range))) as usize;
                &&& sig_end_line(s, args, returns, body, content, li) == op_sig_end(s, args, returns, body, content, li)
                &&& 1 <= s <= last_sig_ln(s, args, returns, li) < tl
                &&& first_body_ln(body, li) == Some(tl as int) }),
        spec_func_ctx(name, decos, args, returns, body, range, content, tl, li) is Some,
    ensures match spec_func_ctx(name, decos, args, returns, body, range, content, tl, li) {
        Some(CtxV::Func(f)) => !f.in_signature,
        _ => false,
    },
{
    reveal(op_sig_end);
    let s = lno(li, tsv(tr_start(range))) as usize;
    lemma_C18_first_body_line_is_body(s as int, last_sig_ln(s, args, returns, li), tl as int, lines_v(content));
}
/// C18 (after the repair; scenarios replay/proposed/sigend_C_*, sigend_D_*): `def test_x(a):  # noqa` -- the def line does not
/// END in ':' -- followed directly by a body line that does (`with a:`): the boundary is the def line (the fallback
/// "line before the body"), the body line's ':' is never looked at
//@tags C18
pub proof fn lemma_C18_comment_on_def_line_then_colon_body_line(fsl: int, ls: Seq<Seq<char>>)
    requires 1 <= fsl, fsl + 1 <= ls.len(), !ends_colon(ls[fsl - 1]), ends_colon(ls[fsl + 1 - 1]),
    ensures sig_end_of(fsl, fsl, Some(fsl + 1), ls) == fsl,
{
    lemma_sig_end_cases(fsl, fsl, Some(fsl + 1), ls);
    let r = sig_end_of(fsl, fsl, Some(fsl + 1), ls);
    if in_window(fsl, Some(fsl + 1), ls.len() as int, r) { assert(r == fsl); }
}
/// C18: without a body statement to bound it, the boundary is the def line or lies in the 11-line window
//@tags C18
pub proof fn lemma_C18_sig_end_within_eleven_lines(fsl: int, lsl: int, fbl: Option<int>, ls: Seq<Seq<char>>)
    requires 1 <= lsl, fbl is Some ==> 1 <= fbl->0,
    ensures ({
        let r = sig_end_of(fsl, lsl, fbl, ls);
        r == fsl || (fbl is Some && r == fbl->0 - 1) || (lsl <= r <= lsl + 10 && r <= ls.len())
    }),
{
    lemma_sig_end_cases(fsl, lsl, fbl, ls);
}
/// C18: the ordinary one-line signature `def test_f(a, b):` -- all parameters on the def line, the line ends in ':' --
/// ends on the def line, whatever follows
//@tags C18
pub proof fn lemma_C18_one_line_def_ends_on_def_line(fsl: int, fbl: Option<int>, ls: Seq<Seq<char>>)
    requires 1 <= fsl <= ls.len(), ends_colon(ls[fsl - 1]), fbl is Some ==> fsl <= fbl->0,
    ensures sig_end_of(fsl, fsl, fbl, ls) == fsl,
{
    lemma_sig_end_cases(fsl, fsl, fbl, ls);
    assert(in_window(fsl, fbl, ls.len() as int, fsl));
}
/// C18: a signature spread over several lines ends on the FIRST line at or after its last element's line that ends in
/// ':' -- the `):` / `) -> T:` line -- when that line comes within 10 lines and not after the first body line
//@tags C18
pub proof fn lemma_C18_multi_line_signature_ends_on_first_colon_line(fsl: int, lsl: int, fbl: Option<int>, ls: Seq<Seq<char>>, e: int)
    requires 1 <= lsl <= e, in_window(lsl, fbl, ls.len() as int, e), ends_colon(ls[e - 1]),
        forall|l: int| lsl <= l < e ==> !ends_colon(#[trigger] ls[l - 1]),
    ensures sig_end_of(fsl, lsl, fbl, ls) == e,
{
    lemma_sig_end_cases(fsl, lsl, fbl, ls);
    let r = sig_end_of(fsl, lsl, fbl, ls);
    if r < e { assert(!ends_colon(ls[r - 1])); }
}
/// C18 (frame): the boundary depends on the text only through the lines of the window: editing any other line (the body,
/// other functions) without changing the number of lines does not move it
//@tags C18
pub proof fn lemma_C18_sig_end_depends_on_window_lines_only(fsl: int, lsl: int, fbl: Option<int>, a: Seq<Seq<char>>, b: Seq<Seq<char>>)
    requires 1 <= lsl, a.len() == b.len(),
        forall|l: int| in_window(lsl, fbl, a.len() as int, l) ==> #[trigger] a[l - 1] == b[l - 1],
    ensures sig_end_of(fsl, lsl, fbl, a) == sig_end_of(fsl, lsl, fbl, b),
{
    lemma_first_colon_ext(a, b, scan_lo(lsl), scan_hi(lsl, fbl, a.len() as int), lsl, fbl);
}
pub proof fn lemma_first_colon_ext(a: Seq<Seq<char>>, b: Seq<Seq<char>>, i: int, hi: int, lsl: int, fbl: Option<int>)
    requires 1 <= lsl, a.len() == b.len(), scan_lo(lsl) <= i, hi == scan_hi(lsl, fbl, a.len() as int),
        forall|l: int| in_window(lsl, fbl, a.len() as int, l) ==> #[trigger] a[l - 1] == b[l - 1],
    ensures first_colon(a, i, hi) == first_colon(b, i, hi),
    decreases hi - i,
{
    if i < hi && i < a.len() {
        assert(in_window(lsl, fbl, a.len() as int, i + 1));
        assert(a[i + 1 - 1] == b[i + 1 - 1]);
        lemma_first_colon_ext(a, b, i + 1, hi, lsl, fbl);
    }
}
/// C18 (what the caller relies on): "signature" lines are a PREFIX of the function's lines: a line above a signature line
/// is a signature line, a line below a body line is a body line
//@tags C18
pub proof fn lemma_C18_signature_lines_form_a_prefix(r: int, tl1: int, tl2: int)
    requires tl1 <= tl2,
    ensures in_signature_v(tl2, r) ==> in_signature_v(tl1, r), !in_signature_v(tl1, r) ==> !in_signature_v(tl2, r),
{ }
/// C18 (composition with unit completion_ctx): once completion_ctx's uninterpreted `sig_end_line` IS op_sig_end (what
/// `//@stub sig_end find_signature_end_line` gives), the kind of context get_func_context answers is decided by it
//@tags C18
pub proof fn lemma_C18_context_kind_is_decided_by_sig_end(name: Identifier, decos: Seq<Expr>, args: CArguments, returns: Option<Box<Expr>>,
        body: Seq<Stmt>, range: TextRange, content: Seq<char>, tl: usize, li: Seq<usize>)
    requires ({ let s = lno(li, tsv(tr_start(range))) as usize;
                sig_end_line(s, args, returns, body, content, li) == op_sig_end(s, args, returns, body, content, li) }),
        spec_func_ctx(name, decos, args, returns, body, range, content, tl, li) is Some,
    ensures ({ let s = lno(li, tsv(tr_start(range))) as usize;
               match spec_func_ctx(name, decos, args, returns, body, range, content, tl, li) {
                   Some(CtxV::Func(f)) => f.in_signature == in_signature_v(tl as int, op_sig_end(s, args, returns, body, content, li)),
                   _ => false,
               } }),
{ }
/// C18: which AST elements count as "the last signature element": the return annotation and every parameter category
/// (regular, positional-only, keyword-only, `*args`, `**kwargs`) -- the latest end wins; nothing else (NOT the default values)
//@tags C18
pub proof fn lemma_C18_last_signature_element_is_latest_end(args: CArguments, returns: Option<Box<Expr>>)
    ensures ({
        let ends = arg_ends(args);
        match last_sig_off(args, returns) {
            None => ends.len() == 0 && returns is None,
            Some(o) => (ends.contains(o) || ret_end(returns) == Some(o))
                && (forall|k: int| 0 <= k < ends.len() ==> #[trigger] ends[k] <= o)
                && (returns is Some ==> ret_end(returns)->0 <= o),
        }
    }),
{
    let ends = arg_ends(args);
    if ends.len() > 0 { lemma_smax(ends); }
}
/// every parameter of every category is among those ends
//@tags C18
pub proof fn lemma_C18_every_parameter_counts(args: CArguments, k: int)
    requires 0 <= k < all_params(args).len(),
    ensures arg_ends(args).contains(awd_end(all_params(args)[k])),
{
    let cat = args.args@ + args.posonlyargs@ + args.kwonlyargs@;
    let ends = arg_ends(args);
    let p = args.posonlyargs@.len() as int;
    let a = args.args@.len() as int;
    // all_params = posonly ++ regular ++ kwonly; the code chains regular ++ posonly ++ kwonly
    let j = if k < p { a + k } else if k < p + a { k - p } else { k };
    assert(cat[j] == all_params(args)[k]);
    assert(ends[j] == awd_end(cat[j]));
}

// ---- departures ------------------------------------------------------------------------------------------------------------
/// C18 FINDING (replay/proposed/sigend_A_lambda_default_colon.json): the scan starts on the line of the last parameter's
/// NAME and stops at the FIRST line whose trimmed text ends in ':' -- any such line, not only the one that closes the
/// signature.  A default value that breaks the line after a ':' (`b=lambda:` / `b={1:` / a slice `x[1:`), k < e = the real
/// `):` line, makes k the boundary: the signature lines k+1 ..= e -- still inside the parentheses -- are "body"
//@tags C18
pub proof fn lemma_C18_FINDING_colon_line_inside_parameter_list_ends_signature(fsl: int, lsl: int, fbl: Option<int>, ls: Seq<Seq<char>>, k: int, e: int)
    requires 1 <= lsl <= k < e, in_window(lsl, fbl, ls.len() as int, k), ends_colon(ls[k - 1]),
        forall|l: int| lsl <= l < k ==> !ends_colon(#[trigger] ls[l - 1]),
    ensures sig_end_of(fsl, lsl, fbl, ls) == k,
        forall|tl: int| k < tl <= e ==> !#[trigger] in_signature_v(tl, sig_end_of(fsl, lsl, fbl, ls)),
{
    lemma_C18_multi_line_signature_ends_on_first_colon_line(fsl, lsl, fbl, ls, k);
}
/// C17 FINDING (same scenario): for a cursor on such a line -- inside the function's own parentheses -- the answer is
/// FunctionBody, so every completion item carries the auto-add edit on top of the name inserted at the cursor: the
/// parameter is written twice (at the cursor AND in front of the first `):`)
//@tags C17
pub proof fn lemma_C17_FINDING_cursor_inside_parentheses_gets_body_context(fsl: int, lsl: int, fbl: Option<int>, ls: Seq<Seq<char>>, k: int, e: int, tl: int)
    requires 1 <= lsl <= k < tl <= e, in_window(lsl, fbl, ls.len() as int, k), ends_colon(ls[k - 1]),
        forall|l: int| lsl <= l < k ==> !ends_colon(#[trigger] ls[l - 1]),
    ensures !in_signature_v(tl, sig_end_of(fsl, lsl, fbl, ls)),
{
    lemma_C18_FINDING_colon_line_inside_parameter_list_ends_signature(fsl, lsl, fbl, ls, k, e);
}
/// C18 FINDING (replay/proposed/sigend_G_comment_fallback_line_before_body.json): when NO line of the window ends in ':' the
/// boundary is the line before the first body statement: every comment / blank line between the `def` line and the first
/// statement is "signature"
//@tags C18
pub proof fn lemma_C18_FINDING_no_colon_line_falls_back_to_line_before_body(fsl: int, lsl: int, b: int, ls: Seq<Seq<char>>)
    requires 1 <= lsl, 1 <= fsl < b,
        forall|l: int| in_window(lsl, Some(b), ls.len() as int, l) ==> !ends_colon(#[trigger] ls[l - 1]),
    ensures sig_end_of(fsl, lsl, Some(b), ls) == b - 1,
        forall|tl: int| fsl <= tl < b ==> #[trigger] in_signature_v(tl, sig_end_of(fsl, lsl, Some(b), ls)),
{
    lemma_sig_end_cases(fsl, lsl, Some(b), ls);
    let r = sig_end_of(fsl, lsl, Some(b), ls);
    if in_window(lsl, Some(b), ls.len() as int, r) && ends_colon(ls[r - 1]) { assert(!ends_colon(ls[r - 1])); }
}
/// C18 / C17 FINDING (replay/proposed/sigend_E_body_on_def_line.json): the answer is LINE-granular.  With the body on the def
/// line (`def test_x(a): a`) the boundary is the def line whatever the text: the cursor in the body part of that line gets
/// FunctionSignature (no auto-add edit)
//@tags C18 C17
pub proof fn lemma_C18_FINDING_body_on_def_line_is_signature(fsl: int, ls: Seq<Seq<char>>)
    requires 1 <= fsl,
    ensures sig_end_of(fsl, fsl, Some(fsl), ls) == fsl,
{
    lemma_sig_end_cases(fsl, fsl, Some(fsl), ls);
}
