// ---------------------------------------------------------------------------------------------
// Unit ann_text (C03 "return type text"): the OPERATIONAL specification of src/fixtures/docstring.rs expr_to_string
// on the real rustpython AST.  Unit ast_helpers treats the printer as an abstract function `expr_str(expr, content)`;
// `op_ann_text` is its definition.  Needs build/astspec.rs (idv, tsv, tr_start, tr_end) and prelude/anntext_prims.rs.
pub type AExpr = rustpython_parser::ast::Expr;
pub type AConstant = rustpython_parser::ast::Constant;
pub type AOperator = rustpython_parser::ast::Operator;
pub open spec fn any_text() -> Seq<char> { "Any"@ }
pub open spec fn comma_sep() -> Seq<char> { ", "@ }
pub open spec fn is_bitor(op: AOperator) -> bool { match op { rustpython_parser::ast::Operator::BitOr => true, _ => false } }
/// a constant is printed as it is WRITTEN: the characters of `content` between the byte offsets of its range, when
/// that range is a valid slice of `content` (start <= end, both on char boundaries, inside the text); otherwise the
/// parser's debug representation of the value (abstract)
pub open spec fn const_text(value: AConstant, range: rustpython_parser::text_size::TextRange, content: Seq<char>) -> Seq<char> {
    match get_range_v(content, tsv(tr_start(range)) as int, tsv(tr_end(range)) as int) {
        Some(t) => t,
        None => debug_v(&value),
    }
}
/// an expression the printer does not take apart is printed as it is WRITTEN (the characters of `content` between the
/// byte offsets of the node's own range) when that range is a valid slice of `content`, else as `Any`
pub open spec fn other_text(e: AExpr, content: Seq<char>) -> Seq<char> {
    match get_range_v(content, tsv(tr_start(ann_expr_range(e))) as int, tsv(tr_end(ann_expr_range(e))) as int) {
        Some(t) => t,
        None => any_text(),
    }
}
///   Name            id
///   Attribute       <value>.attr
///   Subscript       <value>[<slice>]
///   Tuple           elements joined by ", " (no parentheses; the empty tuple prints as the empty text)
///   Constant        const_text
///   BinOp `|`       <left> | <right>
///   anything else   other_text: the expression AS WRITTEN — the slice of `content` its own range denotes — when that is
///                   a valid slice, else `Any`   (Call, List, Starred, UnaryOp, every other BinOp, Dict, Set, Lambda,
///                   IfExp, BoolOp, Compare, JoinedStr, Slice, Await, comprehensions, NamedExpr, Yield, ...;
///                   /repo cf97e77 — before that always `Any`, F-03d)
pub open spec fn op_ann_text(e: AExpr, c: Seq<char>) -> Seq<char>
    decreases e, 0int
{
    match e {
        rustpython_parser::ast::Expr::Name(n) => idv(&n.id),
        rustpython_parser::ast::Expr::Attribute(a) => op_ann_text(*a.value, c) + "."@ + idv(&a.attr),
        rustpython_parser::ast::Expr::Subscript(s) => op_ann_text(*s.value, c) + "["@ + op_ann_text(*s.slice, c) + "]"@,
        rustpython_parser::ast::Expr::Tuple(t) => join_v(ann_texts(t.elts@, t.elts@.len() as int, c), comma_sep()),
        rustpython_parser::ast::Expr::Constant(k) => const_text(k.value, k.range, c),
        rustpython_parser::ast::Expr::BinOp(b) => if is_bitor(b.op) { op_ann_text(*b.left, c) + " | "@ + op_ann_text(*b.right, c) } else { other_text(e, c) },
        _ => other_text(e, c),
    }
}
/// the printed texts of the first n elements, in order
pub open spec fn ann_texts(es: Seq<AExpr>, n: int, c: Seq<char>) -> Seq<Seq<char>>
    decreases es, n
{
    if n <= 0 || n > es.len() { Seq::empty() } else { ann_texts(es, n - 1, c).push(op_ann_text(es[n - 1], c)) }
}
pub proof fn lemma_ann_texts(es: Seq<AExpr>, n: int, c: Seq<char>)
    requires 0 <= n <= es.len(),
    ensures ann_texts(es, n, c).len() == n, forall|j: int| 0 <= j < n ==> #[trigger] ann_texts(es, n, c)[j] == op_ann_text(es[j], c),
    decreases n,
{
    if n > 0 { lemma_ann_texts(es, n - 1, c); }
}
