// ---------------------------------------------------------------------------------------------
// Unit handlers_completion: the vocabulary of unit completion_filter, COPIED from units/completion_filter.rs (the
// text between "abstract views and the operational specification" and the end of its L2 section), so that
// `//@stub completion_filter filter_and_enrich_fixtures` -- whose contract is, textually,
//     ensures offer_post(r@, available@, pv(file_path), decl_view(declared_params), opts_view(opts))
// -- means here what was PROVED there.  Spliced at the crate root AFTER the two `//@item` structs (CompletionOpts,
// EnrichedFixture: private fields, readable from the root and its child modules; the `closed` spec fns likewise).
// Every definition below is token-for-token the one of units/completion_filter.rs (checked by
// tools/check_hcomp_copies.py); the ONLY differences:
//   * `sort_text_of` is not declared here: unit handlers_completion DEFINES it (prelude/hcomp_spec.rs) and proves the
//     real make_sort_text against that definition (unit completion_filter leaves it uninterpreted and make_sort_text
//     assumed: every statement proved there holds for any interpretation);
//   * lemma_filter_names_nodup is `pub`; lemma_C18_excluded_never_offered, lemma_C18_test_function_sees_all_scopes,
//     lemma_C18_priority_order, the canaries and the exec functions are not repeated.
// To remove the copy: let units/completion_filter.rs `//@include` a shared file instead of its inline text.

pub struct OptsV { pub scope: Option<FixtureScope>, pub current: Option<Seq<char>>, pub prefix: Seq<char> }
pub closed spec fn opts_view(o: &CompletionOpts<'_>) -> OptsV {
    OptsV { scope: o.fixture_scope,
            current: match o.current_fixture_name { Some(n) => Some(n@), None => None },
            prefix: o.insert_prefix@ }
}
pub open spec fn decl_view(o: Option<&[String]>) -> Option<Seq<Seq<char>>> {
    match o { Some(s) => Some(str_views(s@)), None => None }
}
pub struct EnrV { pub fixture: DefV, pub detail: Seq<char>, pub sort_text: Seq<char> }
pub closed spec fn ev(e: EnrichedFixture) -> EnrV { EnrV { fixture: dv(&e.fixture), detail: e.detail@, sort_text: e.sort_text@ } }
pub closed spec fn evs(s: Seq<EnrichedFixture>) -> Seq<EnrV> { s.map_values(|e: EnrichedFixture| ev(e)) }
pub closed spec fn fixtures_of(s: Seq<EnrichedFixture>) -> Seq<FixtureDefinition> { s.map_values(|e: EnrichedFixture| e.fixture) }

/// parameter names that are never offered (property text: handled by another language server)
pub open spec fn excluded_names() -> Seq<Seq<char>> { seq!["self"@, "cls"@] }
/// inside a fixture of scope `cur`, fixtures of narrower scope cannot be requested
pub open spec fn scope_excluded(d: DefV, cur: Option<FixtureScope>) -> bool {
    match cur { Some(s) => rank(d.scope) < rank(s), None => false }
}
pub open spec fn op_excluded(d: DefV, declared: Option<Seq<Seq<char>>>, o: OptsV) -> bool {
    excluded_names().contains(d.name)
    || o.current == Some(d.name)
    || (match declared { Some(ps) => ps.contains(d.name), None => false })
    || scope_excluded(d, o.scope)
}
/// 0 same file, 1 conftest / other project file, 2 plugin, 3 third-party (third-party wins over plugin)
pub open spec fn op_priority(d: DefV, file: PV) -> u8 {
    if d.file == file { 0u8 } else if d.is_third_party { 3u8 } else if d.is_plugin { 2u8 } else { 1u8 }
}
pub uninterp spec fn detail_of(d: DefV) -> Seq<char>;
pub open spec fn op_enrich(d: DefV, file: PV) -> EnrV {
    EnrV { fixture: d, detail: detail_of(d), sort_text: sort_text_of(op_priority(d, file), d.name) }
}
pub open spec fn keep_v(declared: Option<Seq<Seq<char>>>, o: OptsV) -> spec_fn(DefV) -> bool {
    |d: DefV| !op_excluded(d, declared, o)
}
pub open spec fn keep_obj(declared: Option<Seq<Seq<char>>>, o: OptsV) -> spec_fn(FixtureDefinition) -> bool {
    |d: FixtureDefinition| !op_excluded(dv(&d), declared, o)
}
pub open spec fn enrich_fn(file: PV) -> spec_fn(DefV) -> EnrV { |d: DefV| op_enrich(d, file) }
pub open spec fn dv_fn() -> spec_fn(FixtureDefinition) -> DefV { |d: FixtureDefinition| dv(&d) }
/// the offered list: the available fixtures that are not excluded, in their order, each enriched
pub open spec fn op_offer(avail: Seq<DefV>, file: PV, declared: Option<Seq<Seq<char>>>, o: OptsV) -> Seq<EnrV> {
    avail.filter(keep_v(declared, o)).map_values(enrich_fn(file))
}

/// the postcondition of filter_and_enrich_fixtures on the real values
pub closed spec fn offer_post(r: Seq<EnrichedFixture>, avail: Seq<FixtureDefinition>, file: PV, declared: Option<Seq<Seq<char>>>, o: OptsV) -> bool {
    &&& fixtures_of(r) =~= avail.filter(keep_obj(declared, o))
    &&& forall|k: int| 0 <= k < r.len() ==> (#[trigger] r[k]).sort_text@ == sort_text_of(op_priority(dv(&r[k].fixture), file), r[k].fixture.name@)
    &&& forall|k: int| 0 <= k < r.len() ==> (#[trigger] r[k]).detail@ == detail_of(dv(&r[k].fixture))
}

// ---- L1 -> view level: the contract of filter_and_enrich_fixtures IS the operational specification (PROVED, as in
// unit completion_filter)
//@tags C18
pub proof fn lemma_offer_view(r: Seq<EnrichedFixture>, avail: Seq<FixtureDefinition>, file: PV, declared: Option<Seq<Seq<char>>>, o: OptsV)
    requires offer_post(r, avail, file, declared, o),
    ensures evs(r) == op_offer(dvs(avail), file, declared, o),
{
    let kept = avail.filter(keep_obj(declared, o));
    assert(fixtures_of(r) == kept);
    assert(dvs(avail) =~= avail.map_values(dv_fn()));
    lemma_filter_map_commute(avail, dv_fn(), keep_obj(declared, o), keep_v(declared, o));
    let keptv = dvs(avail).filter(keep_v(declared, o));
    assert(kept.map_values(dv_fn()) == keptv);
    assert(r.len() == kept.len());
    assert forall|k: int| 0 <= k < r.len() implies evs(r)[k] == #[trigger] op_offer(dvs(avail), file, declared, o)[k] by {
        assert(fixtures_of(r)[k] == r[k].fixture);
        assert(keptv[k] == dv(&kept[k]));
    }
    assert(evs(r) =~= op_offer(dvs(avail), file, declared, o));
}

// ---- L2 of unit completion_filter (PROVED again here: they are composed by the lemmas of prelude/hcomp_l2.rs) ----
pub open spec fn names(s: Seq<DefV>) -> Seq<Seq<char>> { s.map_values(|d: DefV| d.name) }
pub open spec fn offered(e: Seq<EnrV>) -> Seq<DefV> { e.map_values(|x: EnrV| x.fixture) }

/// the offered fixtures are exactly the available ones that are not excluded, in the same order
//@tags C18
pub proof fn lemma_C18_offered_exactly(avail: Seq<DefV>, file: PV, declared: Option<Seq<Seq<char>>>, o: OptsV)
    ensures
        offered(op_offer(avail, file, declared, o)) =~= avail.filter(keep_v(declared, o)),
        forall|d: DefV| offered(op_offer(avail, file, declared, o)).contains(d) <==> avail.contains(d) && !op_excluded(d, declared, o),
{
    let f = avail.filter(keep_v(declared, o));
    assert(offered(op_offer(avail, file, declared, o)) =~= f);
    assert forall|d: DefV| f.contains(d) <==> avail.contains(d) && !op_excluded(d, declared, o) by {
        if f.contains(d) { avail.lemma_filter_contains_rev(keep_v(declared, o), d); }
        if avail.contains(d) && !op_excluded(d, declared, o) {
            let i = choose|i: int| 0 <= i < avail.len() && avail[i] == d;
            avail.lemma_filter_contains(keep_v(declared, o), i);
        }
    }
}

pub proof fn lemma_filter_names_nodup(s: Seq<DefV>, p: spec_fn(DefV) -> bool)
    requires names(s).no_duplicates(),
    ensures names(s.filter(p)).no_duplicates(),
    decreases s.len(),
{
    reveal(Seq::filter);
    if s.len() > 0 {
        let t = s.drop_last();
        assert(names(t) =~= names(s).drop_last());
        assert(names(t).no_duplicates()) by {
            assert forall|i: int, j: int| 0 <= i < names(t).len() && 0 <= j < names(t).len() && i != j implies names(t)[i] != names(t)[j] by {
                assert(names(s)[i] != names(s)[j]);
            }
        }
        lemma_filter_names_nodup(t, p);
        let ft = t.filter(p);
        if p(s.last()) {
            let fs = ft.push(s.last());
            assert(s.filter(p) == fs);
            assert forall|i: int, j: int| 0 <= i < fs.len() && 0 <= j < fs.len() && i != j implies names(fs)[i] != names(fs)[j] by {
                if i < ft.len() && j < ft.len() {
                    assert(names(ft)[i] != names(ft)[j]);
                } else {
                    let a = if i < ft.len() { i } else { j };
                    assert(ft.contains(ft[a]));
                    t.lemma_filter_contains_rev(p, ft[a]);
                    let b = choose|b: int| 0 <= b < t.len() && t[b] == ft[a];
                    assert(names(s)[b] != names(s)[s.len() - 1]);
                }
            }
        }
    }
}

/// every name appears once: if the visible fixtures carry distinct names, so does the offered list
//@tags C18
pub proof fn lemma_C18_every_name_once(avail: Seq<DefV>, file: PV, declared: Option<Seq<Seq<char>>>, o: OptsV)
    requires names(avail).no_duplicates(),
    ensures names(offered(op_offer(avail, file, declared, o))).no_duplicates(),
{
    lemma_C18_offered_exactly(avail, file, declared, o);
    lemma_filter_names_nodup(avail, keep_v(declared, o));
}
