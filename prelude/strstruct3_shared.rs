// ---------------------------------------------------------------------------------------------
// Unit strings_struct3: vocabulary SHARED with unit strings_struct2 (units/strings_struct2.rs defines the same items with the
// same text: result views CtxV / ccv / opt_ccv, is_blank, starts, sat_sub, chars_upto and its two lemmas).  Kept in a file
// of its own so that strings_struct2 can include prelude/strstruct3_spec.rs WITHOUT this one (see the composition recipe in
// units/strings_struct3.rs).
pub struct FnCtxV {
    pub in_signature: bool,
    pub name: Seq<char>, pub line: int, pub is_fixture: bool,
    pub declared: Seq<Seq<char>>, pub scope: Option<FixtureScope>,
}
pub enum CtxV { Func(FnCtxV), Usefixtures, Parametrize }
pub open spec fn ccv(c: CompletionContext) -> CtxV {
    match c {
        CompletionContext::FunctionSignature { function_name, function_line, is_fixture, declared_params, fixture_scope } =>
            CtxV::Func(FnCtxV { in_signature: true, name: function_name@, line: function_line as int, is_fixture,
                                declared: ssv(declared_params@), scope: fixture_scope }),
        CompletionContext::FunctionBody { function_name, function_line, is_fixture, declared_params, fixture_scope } =>
            CtxV::Func(FnCtxV { in_signature: false, name: function_name@, line: function_line as int, is_fixture,
                                declared: ssv(declared_params@), scope: fixture_scope }),
        CompletionContext::UsefixturesDecorator => CtxV::Usefixtures,
        CompletionContext::ParametrizeIndirect => CtxV::Parametrize,
    }
}
pub open spec fn opt_ccv(o: Option<CompletionContext>) -> Option<CtxV> {
    match o { Some(c) => Some(ccv(c)), None => None }
}
pub open spec fn is_blank(l: Seq<char>) -> bool { trim_v(l).len() == 0 }
pub open spec fn starts(s: Seq<char>, t: Seq<char>) -> bool { occurs_at(s, PatV::Str(t), 0) }
pub open spec fn sat_sub(a: int, b: int) -> int { if a >= b { a - b } else { 0 } }
/// total number of characters of the first n lines
pub open spec fn chars_upto(ls: Seq<Seq<char>>, n: int) -> int
    decreases n
{
    if n <= 0 { 0 } else { chars_upto(ls, n - 1) + ls[n - 1].len() }
}
pub proof fn lemma_chars_upto_mono(ls: Seq<Seq<char>>, a: int, b: int)
    requires 0 <= a <= b <= ls.len(),
    ensures 0 <= chars_upto(ls, a) <= chars_upto(ls, b),
    decreases b,
{
    if a < b { lemma_chars_upto_mono(ls, a, b - 1); } else if a > 0 { lemma_chars_upto_mono(ls, a - 1, a - 1); }
}
