// ---------------------------------------------------------------------------------------------
// T5 wrappers / assumed std specifications needed by the visitors (trusted base A3)
/// `a.chain(b)` for slice iterators (`Iterator::chain` is a provided method and `Chain` has no Verus model): renamed
/// to `.vp_chain(`; the external body IS the call to the real method, driven to the end.  ASSUMED: a's remaining
/// elements, then b's.
pub trait VpChain<'a, T: 'a>: Sized {
    #[verifier::prophetic]
    spec fn vp_rem(self) -> Seq<&'a T>;
    fn vp_chain(self, o: core::slice::Iter<'a, T>) -> (r: std::vec::IntoIter<&'a T>)
        ensures r.obeys_prophetic_iter_laws(), r.decrease() is Some, r.remaining() == self.vp_rem() + o.remaining();
}
impl<'a, T: 'a> VpChain<'a, T> for core::slice::Iter<'a, T> {
    #[verifier::prophetic]
    open spec fn vp_rem(self) -> Seq<&'a T> { self.remaining() }
    #[verifier::external_body]
    fn vp_chain(self, o: core::slice::Iter<'a, T>) -> (r: std::vec::IntoIter<&'a T>)
    { self.chain(o).collect::<Vec<_>>().into_iter() }
}
impl<'a, T: 'a> VpChain<'a, T> for std::vec::IntoIter<&'a T> {
    #[verifier::prophetic]
    open spec fn vp_rem(self) -> Seq<&'a T> { self.remaining() }
    #[verifier::external_body]
    fn vp_chain(self, o: core::slice::Iter<'a, T>) -> (r: std::vec::IntoIter<&'a T>)
    { self.chain(o).collect::<Vec<_>>().into_iter() }
}
/// `Box::as_ref` (AsRef<T> for Box<T>): the boxed value
pub assume_specification<T: ?Sized, A: std::alloc::Allocator>[ <Box<T, A> as AsRef<T>>::as_ref ](b: &Box<T, A>) -> (r: &T)
    ensures r == &**b;
