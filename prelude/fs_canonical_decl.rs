// DECLARATION ONLY of the resolution function of the file system (P6 of prelude/memokeys_shims.rs / scansel_shims.rs,
// where `Path::canonicalize` is specified against it): for units that need the vocabulary of
// prelude/memokeys_canon_spec.rs (canon_now, canon_cache_wf, canon_post) but never call canonicalize themselves.
// No assumption in this file.
pub uninterp spec fn fs_canonical(p: PV) -> Option<PV>;
