// ---------------------------------------------------------------------------------------------
// Unit handlers_completion: assumed specifications of derived / std items the completion builders use (trusted base A3/A5).

/// `#[derive(Default)]` on ls_types::CompletionItem (`..Default::default()` in the three builders): the empty label,
/// every optional field None
pub assume_specification[ <CompletionItem as Default>::default ]() -> (r: CompletionItem)
    ensures r.label@ == Seq::<char>::empty(), r.label_details is None, r.kind is None, r.detail is None,
        r.documentation is None, r.deprecated is None, r.preselect is None, r.sort_text is None, r.filter_text is None,
        r.insert_text is None, r.insert_text_format is None, r.insert_text_mode is None, r.text_edit is None,
        r.additional_text_edits is None, r.command is None, r.commit_characters is None, r.data is None, r.tags is None;

/// `Option<T>::as_deref` (`ctx.trigger_character.as_deref()`: Option<String> -> Option<&str>): Some stays Some, of the
/// dereferenced value; for String the dereferenced value is the same text
pub uninterp spec fn vp_deref_of<T: core::ops::Deref>(t: &T) -> &T::Target;
pub assume_specification<T: core::ops::Deref>[ Option::<T>::as_deref ](o: &Option<T>) -> (r: Option<&T::Target>)
    ensures match *o { Some(t) => r == Some(vp_deref_of(&t)), None => r is None };
pub mod hcomp_ax {
    use super::*;
    pub broadcast axiom fn axiom_string_deref(s: &String)
        ensures #[trigger] vp_deref_of::<String>(s)@ == s@;
}
pub use hcomp_ax::*;
