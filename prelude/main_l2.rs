// ---------------------------------------------------------------------------------------------
// L2 for the notification handlers of src/main.rs (C06 / C10 / C19), over prelude/main_spec.rs, composed with
// prelude/analyze_l2.rs (lemma_C06_a_defs_current_only, lemma_C06_a_uses_current_only).

//@tags C06 C10
/// C06 / C10 — after didChange (or didOpen) with a text that PARSES, the index holds for the document's (canonical)
/// file exactly what the visitors record for THAT text: under every name the definitions of the file are those of
/// the text (nothing of the superseded content survives, nothing twice), the usages of the file are those of the
/// text, and every other file's definitions and usages are untouched, in order — whatever was indexed before.
/// Hypotheses, explicit: W1 of the state before (file_definitions covers every definition: unit index_maint), and
/// the visitors record entries under the file they are given (unit visit: lemma_C06_visit_*).
pub proof fn lemma_C06_after_change_index_is_latest_text(o: FixtureDatabase, s: FixtureDatabase, p: PV, text: Seq<char>, n: Seq<char>, g: PV)
    requires analyze_file_post(o, s, p, text), parse_ok(text), w1(o.defs(), o.fdefs()),
        all_in_file(stmts_vdefs(body_of(ast_of(text)), canon(p), text), canon(p)),
        uses_in_file(stmts_vuses(body_of(ast_of(text)), canon(p), text), canon(p)),
    ensures ({
        let f = canon(p);
        let ds = stmts_vdefs(body_of(ast_of(text)), f, text);
        let us = stmts_vuses(body_of(ast_of(text)), f, text);
        &&& bucket(s.defs(), n).filter(in_file(f)) =~= ds.filter(named(n))
        &&& bucket(s.defs(), n).filter(not_in_file(f)) == bucket(o.defs(), n).filter(not_in_file(f))
        &&& bucket(s.uses(), f) =~= us
        &&& g != f ==> bucket(s.uses(), g) == bucket(o.uses(), g)
    })
{
    let f = canon(p);
    lemma_C06_a_defs_current_only(o.defs(), o.fdefs(), f, stmts_vdefs(body_of(ast_of(text)), f, text), n);
    lemma_C06_a_uses_current_only(o.uses(), stmts_vuses(body_of(ast_of(text)), f, text), f, g);
}
//@tags C06
/// C06 — a text that does NOT parse leaves the index as it was (the answers stay those of the latest valid content);
/// only the version counter moves
pub proof fn lemma_C06_unparsable_change_keeps_index(o: FixtureDatabase, s: FixtureDatabase, p: PV, text: Seq<char>)
    requires analyze_file_post(o, s, p, text), !parse_ok(text)
    ensures s.defs() == o.defs() && s.fdefs() == o.fdefs() && s.uses() == o.uses() && s.byfix() == o.byfix()
        && s.undeclared_fixtures == o.undeclared_fixtures && s.imports == o.imports
{}
//@tags C06 C19
/// every didChange that carries a change RE-ANALYSES, also one whose text is byte-identical to the cached text: the
/// database afterwards is an analyze_file post state (the version counter has moved, so every version-stamped memo
/// entry — available fixtures, cycles — is stale and recomputed; the file's undeclared findings are recomputed
/// against the CURRENT definitions of the other files).  There is no "unchanged text" shortcut in the contract.
pub proof fn lemma_C06_identical_text_still_reanalyses(o: Backend, s: Backend, uri: Uri, changes: Seq<TextDocumentContentChangeEvent>)
    requires did_change_post(o, s, uri, changes), uri_path(uri) is Some, changes.len() > 0
    ensures s.fixture_db.version() != o.fixture_db.version(),
        analyze_file_post(o.fixture_db, s.fixture_db, uri_path(uri)->0, changes.last().text@),
{}
//@tags C10
/// full-document sync: the LAST content change of a notification is the one analysed: two notifications whose last changes
/// carry the same text are indistinguishable, whatever follows; an empty change list changes nothing
pub proof fn lemma_C10_last_change_is_used(o: Backend, s: Backend, uri: Uri, c1: Seq<TextDocumentContentChangeEvent>, c2: Seq<TextDocumentContentChangeEvent>)
    requires did_change_post(o, s, uri, c1), c1.len() > 0, c2.len() > 0, c1.last().text@ == c2.last().text@
    ensures did_change_post(o, s, uri, c2),
        did_change_post(o, o, uri, Seq::<TextDocumentContentChangeEvent>::empty()),
{}
//@tags C06 C19
/// didClose touches no index map: every answer computed from the index (definitions, references, diagnostics) is the
/// same before and after; only the cached text / per-file memo entry of the path and its URI-cache entry are dropped
pub proof fn lemma_C06_close_keeps_index(o: Backend, s: Backend, uri: Uri)
    requires did_close_post(o, s, uri)
    ensures s.fixture_db.defs() == o.fixture_db.defs(), s.fixture_db.fdefs() == o.fixture_db.fdefs(),
        s.fixture_db.uses() == o.fixture_db.uses(), s.fixture_db.byfix() == o.fixture_db.byfix(),
        s.fixture_db.undeclared_fixtures == o.fixture_db.undeclared_fixtures, s.fixture_db.version() == o.fixture_db.version(),
{}
//@tags C19 C05 C04
/// didOpen remembers the client's URI for the path BEFORE diagnostics are published (so the publication and later
/// answers use the URI the client sent); didChange does not touch the URI cache.
/// v3: this IS lemma_opened_document_gets_its_own_uri of unit uri_glue (prelude/uri_l2.rs), instantiated with the cache
/// transition the real did_open body is proved to make (did_open_post: cache' == cache.insert(uri_to_path(uri), uri)):
/// path_to_uri answers the document's path with the client's OWN URI; and under the cache invariant the invariant holds
/// again and the server reads that answer back as the same path.
pub proof fn lemma_C19_open_remembers_uri(o: Backend, s: Backend, uri: Uri, text: Seq<char>)
    requires did_open_post(o, s, uri, text), uri_path(uri) is Some
    ensures s.uri_cache.m().contains_key(uri_path(uri)->0) && s.uri_cache.m()[uri_path(uri)->0] == uri,
        path_uri(s.uri_cache, uri_path(uri)->0) == Some(uri),
        cache_inv(o.uri_cache.m()) ==> cache_inv(s.uri_cache.m())
            && uri_path(path_uri(s.uri_cache, uri_path(uri)->0)->0) == uri_path(uri),
{
    if cache_inv(o.uri_cache.m()) { lemma_opened_document_gets_its_own_uri(o.uri_cache.m(), uri, uri_path(uri)->0); }
}
//@tags C04 C05 C15 C19
/// v3: cache_inv is an INVARIANT of the notification handlers (L2 reading, from the *_post relations proved on the real
/// bodies): didOpen stores the URI under exactly uri_to_path(uri) (lemma_did_open_keeps_cache_invariant), didChange does
/// not touch the cache, didClose removes one key (lemma_did_close_keeps_cache_invariant)
pub proof fn lemma_cache_inv_is_invariant(o: Backend, s: Backend, uri: Uri, text: Seq<char>, changes: Seq<TextDocumentContentChangeEvent>)
    requires cache_inv(o.uri_cache.m()),
        did_open_post(o, s, uri, text) || did_change_post(o, s, uri, changes) || did_close_post(o, s, uri),
    ensures cache_inv(s.uri_cache.m()),
{
    if uri_path(uri) is Some {
        lemma_did_open_keeps_cache_invariant(o.uri_cache.m(), uri, uri_path(uri)->0);
        lemma_did_close_keeps_cache_invariant(o.uri_cache.m(), uri_path(uri)->0);
    }
}
//@tags C05 C04 C19
/// v3: ... and an opened document KEEPS its own URI while OTHER documents (other paths) are opened, changed or closed
/// (lemma_opened_document_keeps_its_uri of unit uri_glue on the transitions proved for the real bodies)
pub proof fn lemma_C19_open_document_keeps_its_uri(o: Backend, s: Backend, p: PV, uri2: Uri, text: Seq<char>, changes: Seq<TextDocumentContentChangeEvent>)
    requires o.uri_cache.m().contains_key(p), uri_path(uri2) != Some(p),
        did_open_post(o, s, uri2, text) || did_change_post(o, s, uri2, changes) || did_close_post(o, s, uri2),
    ensures path_uri(s.uri_cache, p) == Some(o.uri_cache.m()[p]), path_uri(s.uri_cache, p) == path_uri(o.uri_cache, p)
{
    if uri_path(uri2) is Some { lemma_opened_document_keeps_its_uri(o.uri_cache.m(), p, uri2, uri_path(uri2)->0); }
}
//@tags C05 C19
/// v3, FINDING carried over from unit uri_glue to the handler level: a second didOpen of the SAME file under another URI
/// (both read as one path) replaces the first document's URI -- later answers about the first document carry the second URI
pub proof fn lemma_C05_FINDING_second_open_of_same_file_replaces_uri(o: Backend, s1: Backend, s2: Backend, u1: Uri, u2: Uri, t1: Seq<char>, t2: Seq<char>)
    requires did_open_post(o, s1, u1, t1), did_open_post(s1, s2, u2, t2), uri_path(u1) is Some, uri_path(u1) == uri_path(u2), u1 != u2
    ensures path_uri(s1.uri_cache, uri_path(u1)->0) == Some(u1), path_uri(s2.uri_cache, uri_path(u1)->0) == Some(u2),
        path_uri(s2.uri_cache, uri_path(u1)->0) != Some(u1)
{}

// ---- vacuity guards: each of these must FAIL -------------------------------------------------------------------
/// a didChange with unchanged text is a no-op (the reviewers' regression as a statement)
proof fn canary_change_with_same_text_is_noop(o: Backend, s: Backend, uri: Uri, changes: Seq<TextDocumentContentChangeEvent>)
    requires did_change_post(o, s, uri, changes), uri_path(uri) is Some, changes.len() > 0
    ensures s.fixture_db.version() == o.fixture_db.version()
{}
/// the FIRST content change is the one analysed (FALSE since fix faeeb2a: the last one is)
proof fn canary_first_change_is_used(o: Backend, s: Backend, uri: Uri, changes: Seq<TextDocumentContentChangeEvent>)
    requires did_change_post(o, s, uri, changes), uri_path(uri) is Some, changes.len() > 1
    ensures analyze_file_post(o.fixture_db, s.fixture_db, uri_path(uri)->0, changes[0].text@)
{}
/// an unparsable text wipes the file's entries
proof fn canary_unparsable_change_clears_file(o: FixtureDatabase, s: FixtureDatabase, p: PV, text: Seq<char>, n: Seq<char>)
    requires analyze_file_post(o, s, p, text), !parse_ok(text)
    ensures bucket(s.defs(), n).filter(in_file(canon(p))) =~= Seq::<DefV>::empty()
{}
/// after a change the index holds the text's entries without W1
proof fn canary_after_change_without_w1(o: FixtureDatabase, s: FixtureDatabase, p: PV, text: Seq<char>, n: Seq<char>)
    requires analyze_file_post(o, s, p, text), parse_ok(text),
        all_in_file(stmts_vdefs(body_of(ast_of(text)), canon(p), text), canon(p)),
    ensures bucket(s.defs(), n).filter(in_file(canon(p))) =~= stmts_vdefs(body_of(ast_of(text)), canon(p), text).filter(named(n))
{
    lemma_push_defs_bucket(clean_defs_names(o.defs(), canon(p), sbucket(o.fdefs(), canon(p))), stmts_vdefs(body_of(ast_of(text)), canon(p), text), canon(p), n);
}
/// didClose drops the file's definitions
proof fn canary_close_drops_definitions(o: Backend, s: Backend, uri: Uri, n: Seq<char>)
    requires did_close_post(o, s, uri), uri_path(uri) is Some
    ensures bucket(s.fixture_db.defs(), n).filter(in_file(canon(uri_path(uri)->0))) =~= Seq::<DefV>::empty()
{}
/// didOpen of a URI without a path still analyses something
proof fn canary_open_without_path_changes_state(o: Backend, s: Backend, uri: Uri, text: Seq<char>)
    requires did_open_post(o, s, uri, text), uri_path(uri) is None
    ensures s.fixture_db.version() != o.fixture_db.version()
{}
/// (v3) didOpen ESTABLISHES the cache invariant from nothing (it keeps it; an entry of another path may be foreign)
proof fn canary_open_establishes_cache_inv(o: Backend, s: Backend, uri: Uri, text: Seq<char>)
    requires did_open_post(o, s, uri, text), uri_path(uri) is Some
    ensures cache_inv(s.uri_cache.m())
{
    if cache_inv(o.uri_cache.m()) { lemma_did_open_keeps_cache_invariant(o.uri_cache.m(), uri, uri_path(uri)->0); }
}
/// (v3) didClose of ANOTHER URI of the same file leaves the first document its URI (FALSE: one slot per path)
proof fn canary_close_of_alias_keeps_own_uri(o: Backend, s: Backend, u1: Uri, u2: Uri)
    requires did_close_post(o, s, u2), uri_path(u1) is Some, uri_path(u1) == uri_path(u2), u1 != u2,
        path_uri(o.uri_cache, uri_path(u1)->0) == Some(u1)
    ensures path_uri(s.uri_cache, uri_path(u1)->0) == Some(u1)
{}
/// (v3) after didOpen the answer for the path is the BUILT URI of the path (it is the client's own)
proof fn canary_open_answers_with_built_uri(o: Backend, s: Backend, uri: Uri, text: Seq<char>)
    requires did_open_post(o, s, uri, text), uri_path(uri) is Some, cache_inv(o.uri_cache.m())
    ensures path_uri(s.uri_cache, uri_path(uri)->0) == uri_of_path(uri_path(uri)->0)
{
    lemma_opened_document_gets_its_own_uri(o.uri_cache.m(), uri, uri_path(uri)->0);
}
/// (v3) the hypotheses of lemma_C05_FINDING_second_open_of_same_file_replaces_uri are satisfiable (must FAIL)
proof fn canary_hyp_second_open(o: Backend, s1: Backend, s2: Backend, u1: Uri, u2: Uri, t1: Seq<char>, t2: Seq<char>)
    requires did_open_post(o, s1, u1, t1), did_open_post(s1, s2, u2, t2), uri_path(u1) is Some, uri_path(u1) == uri_path(u2), u1 != u2,
        cache_inv(o.uri_cache.m())
    ensures false
{
    lemma_did_open_keeps_cache_invariant(o.uri_cache.m(), u1, uri_path(u1)->0);
    lemma_did_open_keeps_cache_invariant(s1.uri_cache.m(), u2, uri_path(u2)->0);
}
