// ---------------------------------------------------------------------------------------------
// std::path — assumed specifications (trusted base A3).  PV = the component sequence of a path.
#[verifier::external_type_specification] #[verifier::external_body] pub struct ExPath(Path);
#[verifier::external_type_specification] #[verifier::external_body] pub struct ExPathBuf(PathBuf);
pub type PV = Seq<Seq<char>>;
pub uninterp spec fn pv(p: &Path) -> PV;
pub uninterp spec fn pbv(p: &PathBuf) -> PV;
/// abstract: does this path have a parent (false for the empty path, a root, a prefix)
pub uninterp spec fn pv_has_parent(v: PV) -> bool;
pub mod path_ax {
    use super::*;
    pub broadcast axiom fn axiom_has_parent_nonempty(v: PV)
        requires #[trigger] pv_has_parent(v) ensures v.len() > 0;
    pub broadcast axiom fn axiom_str_as_path(s: &str)
        requires s@ == conftest_name()
        ensures #[trigger] as_path_view::<&str>(s) == seq![s@];
}
pub use path_ax::*;

pub assume_specification<'a>[ Path::parent ](p: &'a Path) -> (r: Option<&'a Path>)
    ensures match r { Some(q) => pv_has_parent(pv(p)) && pv(p).len() > 0 && pv(q) == pv(p).drop_last(),
                      None => !pv_has_parent(pv(p)) };

pub uninterp spec fn as_path_view<P>(s: P) -> PV;
pub open spec fn conftest_name() -> Seq<char> { "conftest.py"@ }
#[verifier::allow(undeclared_external_trait)]
pub assume_specification<P: AsRef<Path>>[ Path::join::<P> ](p: &Path, s: P) -> (r: PathBuf)
    ensures pbv(&r) == pv(p) + as_path_view(s);

pub assume_specification[ <PathBuf as PartialEq<PathBuf>>::eq ](a: &PathBuf, b: &PathBuf) -> (r: bool)
    ensures r == (pbv(a) == pbv(b));
pub assume_specification<'a>[ <PathBuf as PartialEq<&'a Path>>::eq ](a: &PathBuf, b: &&Path) -> (r: bool)
    ensures r == (pbv(a) == pv(*b));
pub assume_specification<'a>[ <PathBuf as core::ops::Deref>::deref ](p: &'a PathBuf) -> (r: &'a Path)
    ensures pv(r) == pbv(p);
pub assume_specification[ Path::to_path_buf ](p: &Path) -> (r: PathBuf)
    ensures pbv(&r) == pv(p);
pub assume_specification[ <PathBuf as Clone>::clone ](a: &PathBuf) -> (r: PathBuf)
    ensures pbv(&r) == pbv(a);
pub assume_specification[ PathBuf::as_path ](p: &PathBuf) -> (r: &Path)
    ensures pv(r) == pbv(p);

/// abstract file system (trusted base A4)
pub uninterp spec fn fs_exists(p: PV) -> bool;
pub assume_specification[ Path::exists ](p: &Path) -> (r: bool)
    ensures r == fs_exists(pv(p));
