// ---------------------------------------------------------------------------------------------
// C14 / C01 (extraction part): what src/fixtures/imports.rs reads off a module's TOP-LEVEL statements, as
// functions of the real rustpython AST.  Needs build/astspec.rs (idv, tsv, tr_start), prelude/path.rs (PV) and
// prelude/str_dotted.rs (dotted, first_component, int_v).
//
// Shape compatible with prelude/imports_spec.rs (the closure unit): `ImpV` has the same fields as the struct of
// that name there, `imports_core(body)` has the type of `imports_of(body, file)` and `spec_pytest_plugins(body)`
// the type of `plugins_of(body)`; lemma_imports_core shows that the (module, star, names) part of the records
// depends neither on the importing file nor on the line index.

/// `STDLIB_MODULES.contains(name)`: membership in the static list of standard-library module names.  The list
/// itself (a `Lazy<HashSet<&'static str>>`) is not modelled; membership is a function of the text.
pub uninterp spec fn is_stdlib_name(name: Seq<char>) -> bool;
/// 1-based line of a byte offset (src/fixtures/analyzer.rs get_line_from_offset: binary search in the line index)
pub uninterp spec fn line_of_offset(offset: usize, line_index: Seq<usize>) -> usize;

/// what the resolver uses of a FixtureImport
pub struct ImpV { pub module: Seq<char>, pub star: bool, pub names: Seq<Seq<char>> }
/// a FixtureImport, all five fields
pub struct ImpRecV { pub imp: ImpV, pub file: PV, pub line: usize }

/// the name an alias binds: `asname` if there is one, else `name`
pub open spec fn imported_as(a: rustpython_parser::ast::Alias) -> Seq<char> {
    match a.asname { Some(n) => idv(&n), None => idv(&a.name) }
}
pub open spec fn imported_as_fn() -> spec_fn(rustpython_parser::ast::Alias) -> Seq<char> {
    |a: rustpython_parser::ast::Alias| imported_as(a)
}
/// some alias is `*`  (the NAME is looked at, never the asname)
pub open spec fn has_star(names: Seq<rustpython_parser::ast::Alias>) -> bool {
    exists|i: int| 0 <= i < names.len() && idv(&(#[trigger] names[i]).name) == "*"@
}
/// the module path of `from <dots><module> import ...`: the module text (empty if absent: `from . import x`),
/// THEN, if the statement has a level, that many dots in front
pub open spec fn import_module_path(x: rustpython_parser::ast::StmtImportFrom) -> Seq<char> {
    let base = match x.module { Some(m) => idv(&m), None => Seq::<char>::empty() };
    match x.level { Some(l) => dotted(int_v(l) as nat, base), None => base }
}
/// one statement: only `from M import ...` contributes; it is dropped iff the first component of the path
/// WITH its leading dots is a stdlib name; a star import records no names; an explicit import records the bound
/// names (asname, else name) in order and is dropped if it has no names at all
pub open spec fn import_core_of(s: rustpython_parser::ast::Stmt) -> Option<ImpV> {
    match s {
        rustpython_parser::ast::Stmt::ImportFrom(x) => {
            let module = import_module_path(x);
            if is_stdlib_name(first_component(module)) { None }
            else if has_star(x.names@) { Some(ImpV { module, star: true, names: Seq::empty() }) }
            else if x.names@.len() == 0 { None }
            else { Some(ImpV { module, star: false, names: x.names@.map_values(imported_as_fn()) }) }
        },
        _ => None,
    }
}
/// the recorded line: that of the statement's start offset
pub open spec fn import_line_of(s: rustpython_parser::ast::Stmt, li: Seq<usize>) -> usize {
    match s {
        rustpython_parser::ast::Stmt::ImportFrom(x) => line_of_offset(tsv(tr_start(x.range)), li),
        _ => 0,
    }
}
pub open spec fn import_rec_of(s: rustpython_parser::ast::Stmt, file: PV, li: Seq<usize>) -> Option<ImpRecV> {
    match import_core_of(s) { Some(c) => Some(ImpRecV { imp: c, file, line: import_line_of(s, li) }), None => None }
}
/// extract_fixture_imports: the records of the top-level statements, in statement order
pub open spec fn spec_fixture_imports(stmts: Seq<rustpython_parser::ast::Stmt>, file: PV, li: Seq<usize>) -> Seq<ImpRecV>
    decreases stmts.len()
{
    if stmts.len() == 0 { Seq::empty() } else {
        let r = spec_fixture_imports(stmts.drop_last(), file, li);
        match import_rec_of(stmts.last(), file, li) { Some(v) => r.push(v), None => r }
    }
}
/// ... and their (module, star, names) parts alone  [candidate definition of imports_spec.rs `imports_of`]
pub open spec fn imports_core(stmts: Seq<rustpython_parser::ast::Stmt>) -> Seq<ImpV>
    decreases stmts.len()
{
    if stmts.len() == 0 { Seq::empty() } else {
        let r = imports_core(stmts.drop_last());
        match import_core_of(stmts.last()) { Some(v) => r.push(v), None => r }
    }
}
pub open spec fn rec_core_fn() -> spec_fn(ImpRecV) -> ImpV { |r: ImpRecV| r.imp }

// ---- pytest_plugins -------------------------------------------------------------------------------------------
pub open spec fn is_plugins_name(e: rustpython_parser::ast::Expr) -> bool {
    match e { rustpython_parser::ast::Expr::Name(n) => idv(&n.id) == "pytest_plugins"@, _ => false }
}
pub open spec fn has_plugins_target(ts: Seq<rustpython_parser::ast::Expr>) -> bool {
    exists|i: int| 0 <= i < ts.len() && is_plugins_name(#[trigger] ts[i])
}
/// the value a statement assigns to `pytest_plugins`: `a = pytest_plugins = V` (any target is the plain name),
/// `pytest_plugins: T = V`; a bare annotation `pytest_plugins: T` assigns nothing
pub open spec fn plugins_value(s: rustpython_parser::ast::Stmt) -> Option<rustpython_parser::ast::Expr> {
    match s {
        rustpython_parser::ast::Stmt::Assign(a) => if has_plugins_target(a.targets@) { Some(*a.value) } else { None },
        rustpython_parser::ast::Stmt::AnnAssign(a) => if is_plugins_name(*a.target) {
            match a.value { Some(v) => Some(*v), None => None }
        } else { None },
        _ => None,
    }
}
pub open spec fn str_lit(e: rustpython_parser::ast::Expr) -> Option<Seq<char>> {
    match e {
        rustpython_parser::ast::Expr::Constant(c) => (match c.value { rustpython_parser::ast::Constant::Str(s) => Some(s@), _ => None }),
        _ => None,
    }
}
/// the string literals among the elements, in order (anything else is skipped)
pub open spec fn str_lits(es: Seq<rustpython_parser::ast::Expr>) -> Seq<Seq<char>>
    decreases es.len()
{
    if es.len() == 0 { Seq::empty() } else {
        match str_lit(es.last()) { Some(t) => str_lits(es.drop_last()).push(t), None => str_lits(es.drop_last()) }
    }
}
/// "m" | ["a", "b"] | ("a", "b"); any other value (a call, a name, a concatenation ...) yields nothing
pub open spec fn plugins_of_value(e: rustpython_parser::ast::Expr) -> Seq<Seq<char>> {
    match e {
        rustpython_parser::ast::Expr::Constant(_) => (match str_lit(e) { Some(t) => seq![t], None => Seq::empty() }),
        rustpython_parser::ast::Expr::List(l) => str_lits(l.elts@),
        rustpython_parser::ast::Expr::Tuple(t) => str_lits(t.elts@),
        _ => Seq::empty(),
    }
}
/// extract_pytest_plugins: the value of the LAST top-level statement that assigns `pytest_plugins`
/// [candidate definition of imports_spec.rs `plugins_of`]
pub open spec fn spec_pytest_plugins(stmts: Seq<rustpython_parser::ast::Stmt>) -> Seq<Seq<char>>
    decreases stmts.len()
{
    if stmts.len() == 0 { Seq::empty() } else {
        match plugins_value(stmts.last()) { Some(v) => plugins_of_value(v), None => spec_pytest_plugins(stmts.drop_last()) }
    }
}
