// ---------------------------------------------------------------------------------------------
// std adapters the handler code uses that vstd gives no specification: T5 wrappers (the external body IS the
// call to the real method), assumed contracts (trusted base A3).
pub trait VpEnumerate<'a, T: 'a>: Sized + Iterator<Item = &'a T> {
    fn vp_enumerate(self) -> (r: std::vec::IntoIter<(usize, &'a T)>);
}
impl<'a, T: 'a> VpEnumerate<'a, T> for core::slice::Iter<'a, T> {
    /// `slice.iter().enumerate()` driven by a `for` loop: the pairs (k, &s[k]) in order; finite
    #[verifier::external_body]
    fn vp_enumerate(self) -> (r: std::vec::IntoIter<(usize, &'a T)>)
        ensures r.obeys_prophetic_iter_laws(), r.decrease() is Some,
            r.remaining().len() == self.remaining().len(),
            forall|k: int| 0 <= k < r.remaining().len() ==> (#[trigger] r.remaining()[k]).0 == k && r.remaining()[k].1 == self.remaining()[k],
    { self.enumerate().collect::<Vec<(usize, &'a T)>>().into_iter() }
}

// ---- serde_json::to_value (crate serde_json is not visible to the unit; LSPAny = serde_json::Value is, through
// ls_types): T6 stand-in module with the one function the handlers call.  ASSUMED: the result is a function of
// the serialised value (its view); whether it is Ok is NOT assumed.
pub trait JsonArg { spec fn jv(&self) -> Option<LSPAny>; }
pub uninterp spec fn json_str(s: Seq<char>) -> Option<LSPAny>;
pub uninterp spec fn json_u32(n: u32) -> Option<LSPAny>;
pub uninterp spec fn json_usize(n: usize) -> Option<LSPAny>;
impl JsonArg for String { open spec fn jv(&self) -> Option<LSPAny> { json_str(self@) } }
impl JsonArg for u32 { open spec fn jv(&self) -> Option<LSPAny> { json_u32(*self) } }
impl JsonArg for usize { open spec fn jv(&self) -> Option<LSPAny> { json_usize(*self) } }
pub mod serde_json {
    use super::*;
    #[verifier::external_body]
    pub struct Error { _p: () }
    #[verifier::external_body]
    pub fn to_value<T: JsonArg>(value: T) -> (r: core::result::Result<LSPAny, Error>)
        ensures (match r { Ok(v) => Some(v), Err(_) => None::<LSPAny> }) == value.jv()
    { unimplemented!() }
}

// ---- `Vec::sort_by_key` (slice method through DerefMut): `.sort_by_key(` is renamed to `.vp_sort_by_key(`, whose
// external body IS the call to the real method.  ASSUMED (A3): the result is a rearrangement of the old contents
// (`sort_key_perm` = a bijection of the index range, new[i] == old[perm[i]]) ordered by every key function the key
// closure is shown to compute.  Stability is true of sort_by_key but not assumed.
pub uninterp spec fn sort_key_perm<T>(old: Seq<T>, new: Seq<T>) -> Seq<int>;
pub open spec fn key_models<T, F: FnMut(&T) -> u32>(f: F, k: spec_fn(T) -> u32) -> bool {
    forall|a: &T, o: u32| #[trigger] call_ensures(f, (a,), o) ==> o == k(*a)
}
pub open spec fn sorted_by_key<T>(s: Seq<T>, k: spec_fn(T) -> u32) -> bool {
    forall|i: int, j: int| 0 <= i < j < s.len() ==> k(#[trigger] s[i]) <= k(#[trigger] s[j])
}
pub open spec fn is_perm_idx(p: Seq<int>, n: int) -> bool {
    p.len() == n && p.no_duplicates() && forall|i: int| 0 <= i < n ==> 0 <= #[trigger] p[i] < n
}
pub trait VpSortByKey<T> {
    fn vp_sort_by_key<F: FnMut(&T) -> u32>(&mut self, f: F)
        requires forall|a: &T| #[trigger] call_requires(f, (a,));
}
impl<T> VpSortByKey<T> for Vec<T> {
    #[verifier::external_body]
    fn vp_sort_by_key<F: FnMut(&T) -> u32>(&mut self, f: F)
        ensures
            final(self)@.len() == old(self)@.len(),
            is_perm_idx(sort_key_perm(old(self)@, final(self)@), old(self)@.len() as int),
            forall|i: int| 0 <= i < final(self)@.len() ==> #[trigger] final(self)@[i] == old(self)@[sort_key_perm(old(self)@, final(self)@)[i]],
            forall|k: spec_fn(T) -> u32| key_models(f, k) ==> #[trigger] sorted_by_key(final(self)@, k),
    { self.sort_by_key(f) }
}
